(* Tier 2: the life-cycle invariant Inv2 is preserved by every step; no assertion of
   threadpool.c can fail (T13_no_abort). *)
From Coq Require Import NArith List Lia ZifyBool ZifyN ZifyNat Bool Arith.
From Mtbl Require Import model.Bytes model.Pool proofs.PoolBase proofs.PoolSched proofs.PoolInv proofs.PoolLife proofs.PoolStep2.
Import ListNotations.

Definition after (s : pstate) (t : nat) (l : label) : pstate :=
  set_thread (fst (continue s t l)) t (snd (continue s t l)).

(* a thread that is neither a worker thread nor exited is no worker's thread *)
Lemma not_wthread s t l : Inv2 s -> lab_worker (t_lab (gett s t)) = None -> t_lab (gett s t) <> LDone ->
  forall i, (i < length (ps_workers s))%nat -> wk_tid (getw s i) = t -> wphase_ok i (getw s i) l = true.
Proof.
  intros I H1 H2 i Hi E. exfalso. destruct (i2_wthread _ I i Hi) as [_ H]. rewrite E in H.
  apply wphase_lab in H. destruct H as [H|H]; congruence.
Qed.

(* worker thread: the worker it serves *)
Lemma wthread_self s t i : Inv2 s -> lab_worker (t_lab (gett s t)) = Some i ->
  (i < length (ps_workers s))%nat /\ wk_tid (getw s i) = t /\ wphase_ok i (getw s i) (t_lab (gett s t)) = true /\
  forall i', (i' < length (ps_workers s))%nat -> wk_tid (getw s i') = t -> i' = i.
Proof.
  intros I H. destruct (tk_worker _ _ _ (i2_threads _ I t) i H) as [H1 H2].
  destruct (i2_wthread _ I i H1) as [_ H3]. rewrite H2 in H3. repeat split; try assumption.
  intros i' Hi' E. destruct (i2_wthread _ I i' Hi') as [_ H4]. rewrite E in H4. apply wphase_lab in H4.
  destruct H4 as [H4|H4]; [congruence|rewrite H4 in H; discriminate].
Qed.

Ltac tok_old Tt Hlab :=
  first [ eapply (tk_free _ _ _ Tt) | eapply (tk_flight _ _ _ Tt) | eapply (tk_worker _ _ _ Tt)
        | eapply (tk_caller _ _ _ Tt) | eapply (tk_w4u _ _ _ Tt) | eapply (tk_queued _ _ _ Tt)
        | eapply (tk_h3none _ _ _ Tt) | eapply (tk_fresh _ _ _ Tt) | eapply (tk_dispatch _ _ _ Tt)
        | eapply (tk_fin _ _ _ Tt) ];
  unfold lab_queued; rewrite ?Hlab; cbn [lab_free lab_flight lab_worker caller_lab lab_dispatch];
  repeat match goal with H : ord_of _ _ = _ |- _ => rewrite H end; try reflexivity; eauto.

(* thread_ok for the new record from thread_ok of the old one *)
Ltac inj_subst H :=
  injection H; clear H;
  repeat (let E := fresh "E" in intro E; match type of E with _ = ?b => is_var b; subst b end).
Ltac tok_new Tt Hlab :=
  constructor; unfold lab_queued; cbn [t_lab t_obj pend lab_free lab_flight lab_worker caller_lab lab_dispatch];
  try (intros; discriminate);
  intros;
  repeat match goal with
         | H : Some _ = Some _ |- _ => inj_subst H
         | H : (if ?c then _ else _) = Some _ |- _ => destruct c eqn:?; [|discriminate]
         | H : H3 _ _ = H3 _ _ |- _ => inj_subst H
         | H : W4u _ _ = W4u _ _ |- _ => inj_subst H
         | H : D3 _ _ _ = D3 _ _ _ |- _ => inj_subst H
         | H : F1 _ = F1 _ |- _ => inj_subst H
         end;
  try reflexivity; try assumption; try (tok_old Tt Hlab; fail).

(* pure facts on wphase_ok: the worker thread moves on, the fields stay *)
Ltac wphase_pure :=
  unfold wphase_ok, wloop;
  match goal with |- context [wk_running ?w] => destruct (wk_running w), (wk_hasjob w), (wk_res w), (wk_rq w) end;
  cbn; rewrite ?Nat.eqb_refl; cbn; intros; try discriminate; try reflexivity; auto.
Lemma wphase_W0_W1 i w : wphase_ok i w (W0 i) = true -> wphase_ok i w (W1 i) = true.
Proof. wphase_pure. Qed.
Lemma wphase_W1_W3 i w : wphase_ok i w (W1 i) = true -> wk_running w = true -> wphase_ok i w (W3 i) = true.
Proof. wphase_pure. Qed.
Lemma wphase_W4us_W5u i q w : wphase_ok i w (W4us i q) = true -> wphase_ok i w (W5u i) = true.
Proof. wphase_pure. Qed.
Lemma wphase_W4u_W4us i q w : wphase_ok i w (W4u i q) = true -> wphase_ok i w (W4us i q) = true.
Proof. wphase_pure. Qed.
Lemma wphase_W5u_W1 i w : wphase_ok i w (W5u i) = true -> wphase_ok i w (W1 i) = true.
Proof. wphase_pure. Qed.
Lemma wphase_W4os_W5o i w : wphase_ok i w (W4os i) = true -> wphase_ok i w (W5o i) = true.
Proof. wphase_pure. Qed.
Lemma wphase_W5o_W1 i w : wphase_ok i w (W5o i) = true -> wphase_ok i w (W1 i) = true.
Proof. wphase_pure. Qed.

Lemma free_fields w : free_w w = true ->
  wk_running w = false /\ wk_hasjob w = false /\ wk_res w = None /\ wk_rq w = None.
Proof.
  unfold free_w. destruct (wk_running w), (wk_hasjob w), (wk_res w), (wk_rq w); cbn; intros; try discriminate; auto.
Qed.

Lemma count_cons (i k : nat) l : count_occ Nat.eq_dec (i :: l) k = (b2n (Nat.eqb k i) + count_occ Nat.eq_dec l k)%nat.
Proof.
  cbn [count_occ]. destruct (Nat.eq_dec i k) as [->|Hne].
  - rewrite Nat.eqb_refl. reflexivity.
  - destruct (Nat.eqb_spec k i); [congruence|reflexivity].
Qed.

(* exclusivity of tokens *)
Lemma lab_free_ttok ord l i : lab_free l = Some i -> ttok ord l i = 1%nat.
Proof.
  destruct l; cbn [lab_free ttok]; try discriminate; try (destruct fresh; try discriminate);
    intros H; inversion H; subst; rewrite Nat.eqb_refl; reflexivity.
Qed.
Lemma lab_flight_ttok ord l i : lab_flight ord l = Some i -> ttok ord l i = 1%nat.
Proof.
  destruct l; cbn [lab_flight ttok]; try discriminate; try (destruct (ord q) eqn:Eo; try discriminate);
    try (destruct w; try discriminate);
    intros H; inversion H; subst; rewrite Nat.eqb_refl; reflexivity.
Qed.
Lemma ttok_le1 ord l i : (ttok ord l i <= 1)%nat.
Proof. destruct l; cbn [ttok]; try lia; try (destruct fresh); try (destruct w); try lia; destruct (_ : bool); cbn; lia. Qed.

Lemma tok_lt s i : Inv2 s -> (1 <= tokens s i)%nat -> (i < length (ps_workers s))%nat.
Proof. intros I H. rewrite (i2_tokens _ I) in H. destruct (Nat.ltb_spec i (length (ps_workers s))); [assumption|lia]. Qed.

Lemma sole_thread s t i0 : Inv2 s -> ttok (ord_of s) (t_lab (gett s t)) i0 = 1%nat ->
  (i0 < length (ps_workers s))%nat /\ ~ In i0 (ps_idle s) /\
  (forall x, x <> t -> ttok (ord_of s) (t_lab (gett s x)) i0 = 0%nat) /\
  (forall q, ~ In i0 (q_list (getq s q))) /\ ftok (getw s i0) = 0%nat.
Proof.
  intros I H. pose proof (tokens_le1 s i0 I) as L. unfold tokens in L.
  pose proof (tok_t_ge s t i0) as G.
  split; [apply (tok_lt s i0 I); unfold tokens; lia|].
  split; [intros Hin; pose proof (tok_idle_ge s i0 Hin); lia|].
  split; [intros x Hne; pose proof (tok_t_ge2 s x t i0 Hne); lia|].
  split; [intros q Hin; pose proof (tok_q_ge s q i0); pose proof (count_occ_in1 _ _ Hin); lia|lia].
Qed.

Lemma sole_ftok s i0 : Inv2 s -> (1 <= ftok (getw s i0))%nat ->
  (i0 < length (ps_workers s))%nat /\ ~ In i0 (ps_idle s) /\
  (forall x, ttok (ord_of s) (t_lab (gett s x)) i0 = 0%nat) /\
  (forall q, ~ In i0 (q_list (getq s q))).
Proof.
  intros I H. pose proof (tokens_le1 s i0 I) as L. unfold tokens in L.
  split; [apply (tok_lt s i0 I); unfold tokens; lia|].
  split; [intros Hin; pose proof (tok_idle_ge s i0 Hin); lia|].
  split; [intros x; pose proof (tok_t_ge s x i0); lia|].
  intros q Hin; pose proof (tok_q_ge s q i0); pose proof (count_occ_in1 _ _ Hin); lia.
Qed.

Lemma count_snoc (i k : nat) l : count_occ Nat.eq_dec (l ++ [i]) k = (count_occ Nat.eq_dec l k + b2n (Nat.eqb k i))%nat.
Proof. rewrite count_occ_app, count_cons. cbn. lia. Qed.

(* no other thread sits inside the critical section of queue q *)
Definition qexcl (s : pstate) (t q : nat) : Prop :=
  forall x, x <> t -> (forall o, t_lab (gett s x) <> H3 q o) /\ (forall i, lab_queued (gett s x) <> Some (i, q)).

Section Steps.
Variable s : pstate.
Variable t : nat.
Hypothesis I : Inv2 s.
Hypothesis Ht : (t < length (ps_threads s))%nat.
Let Tt := i2_threads s I t.

Ltac caller_relabel Hlab :=
  unfold after; cbn [continue fst snd];
  apply (inv2_relabel s t _ I Ht);
  [ intros ?; rewrite Hlab; reflexivity
  | tok_new Tt Hlab
  | apply (not_wthread s t _ I); rewrite Hlab; [reflexivity|discriminate] ].

Lemma step_D3f q i : t_lab (gett s t) = D3 q i false -> Inv2 (after s t (D3 q i false)).
Proof. intros Hlab. caller_relabel Hlab. Qed.
Lemma step_D4 q i : t_lab (gett s t) = D4 q i -> Inv2 (after s t (D4 q i)).
Proof. intros Hlab. caller_relabel Hlab. Qed.
Lemma step_D5s q i : t_lab (gett s t) = D5s q i -> Inv2 (after s t (D5s q i)).
Proof. intros Hlab. caller_relabel Hlab. Qed.
Lemma step_D6 q i : t_lab (gett s t) = D6 q i -> Inv2 (after s t (D6 q i)).
Proof. intros Hlab. caller_relabel Hlab. Qed.
Lemma step_D7s q : t_lab (gett s t) = D7s q -> Inv2 (after s t (D7s q)).
Proof. intros Hlab. caller_relabel Hlab. Qed.
Lemma step_F1s q : t_lab (gett s t) = F1s q -> Inv2 (after s t (F1s q)).
Proof. intros Hlab. caller_relabel Hlab. Qed.
Lemma step_F2 q : t_lab (gett s t) = F2 q -> Inv2 (after s t (F2 q)).
Proof. intros Hlab. caller_relabel Hlab. Qed.
Lemma step_P3s i : t_lab (gett s t) = P3s i -> Inv2 (after s t (P3s i)).
Proof. intros Hlab. caller_relabel Hlab. Qed.
Lemma step_P4 i : t_lab (gett s t) = P4 i -> Inv2 (after s t (P4 i)).
Proof. intros Hlab. caller_relabel Hlab. Qed.

(* handler threads *)
Lemma step_H0 j : t_lab (gett s t) = H0 j -> Inv2 (after s t (H0 j)).
Proof. intros Hlab. caller_relabel Hlab. Qed.
Lemma step_H3s j i : t_lab (gett s t) = H3 j (Some i) -> Inv2 (after s t (H3 j (Some i))).
Proof. intros Hlab. caller_relabel Hlab. Qed.
Lemma step_H6 j i : t_lab (gett s t) = H6 j i -> Inv2 (after s t (H6 j i)).
Proof. intros Hlab. caller_relabel Hlab. Qed.
Lemma step_H7s j i : t_lab (gett s t) = H7s j i -> Inv2 (after s t (H7s j i)).
Proof. intros Hlab. caller_relabel Hlab. Qed.
Lemma step_H8 j r : t_lab (gett s t) = H8 j r -> Inv2 (after s t (H8 j r)).
Proof. intros Hlab. caller_relabel Hlab. Qed.

Lemma step_H3n j : t_lab (gett s t) = H3 j None -> Inv2 (after s t (H3 j None)).
Proof.
  intros Hlab. destruct (tk_h3none _ _ _ Tt j Hlab) as (E1 & E2 & E3).
  unfold after. cbn [continue]. rewrite E1, E2, E3. cbn [negb orb N.eqb fst snd].
  apply (inv2_relabel s t _ I Ht);
  [ intros ?; rewrite Hlab; reflexivity
  | tok_new Tt Hlab
  | apply (not_wthread s t _ I); rewrite Hlab; [reflexivity|discriminate] ].
Qed.

Lemma step_H1_empty j : t_lab (gett s t) = H1 j -> q_list (getq s j) = [] -> Inv2 (after s t (H1 j)).
Proof.
  intros Hlab El. unfold after. cbn [continue]. rewrite El.
  destruct (q_finished (getq s j) && (q_nthreads (getq s j) =? 0)%N) eqn:Ec; cbn [fst snd];
  (apply (inv2_relabel s t _ I Ht);
  [ intros ?; rewrite Hlab; reflexivity
  | tok_new Tt Hlab
  | apply (not_wthread s t _ I); rewrite Hlab; [reflexivity|discriminate] ]).
  apply andb_prop in Ec. destruct Ec as [Ec1 Ec2]. apply N.eqb_eq in Ec2. auto.
Qed.

Lemma step_H4_running j i : t_lab (gett s t) = H4 j i -> wk_running (getw s i) = true -> Inv2 (after s t (H4 j i)).
Proof.
  intros Hlab Er. unfold after. cbn [continue]. rewrite Er. cbn [fst snd].
  apply (inv2_relabel s t _ I Ht);
  [ intros ?; rewrite Hlab; reflexivity
  | tok_new Tt Hlab
  | apply (not_wthread s t _ I); rewrite Hlab; [reflexivity|discriminate] ].
Qed.

(* worker threads: pure moves *)
Ltac worker_relabel Hlab i lem :=
  let W := fresh "W" in
  destruct (wthread_self s t i I) as (W1 & W2 & W3 & W4); [rewrite Hlab; reflexivity|];
  unfold after; cbn [continue fst snd];
  apply (inv2_relabel s t _ I Ht);
  [ intros ?; rewrite Hlab; reflexivity
  | tok_new Tt Hlab
  | let i' := fresh "i" in let Hi := fresh "Hi" in let E := fresh "E" in
    intros i' Hi E; rewrite (W4 i' Hi E); rewrite Hlab in W3; cbn [t_lab pend]; first [exact W3 | apply lem; assumption | eapply lem; eassumption] ].

Lemma step_W0 i : t_lab (gett s t) = W0 i -> Inv2 (after s t (W0 i)).
Proof. intros Hlab. worker_relabel Hlab i wphase_W0_W1. Qed.
Lemma step_W4us i q : t_lab (gett s t) = W4us i q -> Inv2 (after s t (W4us i q)).
Proof. intros Hlab. worker_relabel Hlab i wphase_W4us_W5u. Qed.
Lemma step_W5u i : t_lab (gett s t) = W5u i -> Inv2 (after s t (W5u i)).
Proof. intros Hlab. worker_relabel Hlab i wphase_W5u_W1. Qed.
Lemma step_W4os i : t_lab (gett s t) = W4os i -> Inv2 (after s t (W4os i)).
Proof. intros Hlab. worker_relabel Hlab i wphase_W4os_W5o. Qed.
Lemma step_W5o i : t_lab (gett s t) = W5o i -> Inv2 (after s t (W5o i)).
Proof. intros Hlab. worker_relabel Hlab i wphase_W5o_W1. Qed.
Lemma step_W1 i : t_lab (gett s t) = W1 i -> Inv2 (after s t (W1 i)).
Proof.
  intros Hlab. destruct (wthread_self s t i I) as (W1 & W2 & W3 & W4); [rewrite Hlab; reflexivity|].
  rewrite Hlab in W3. unfold after. cbn [continue].
  destruct (wk_running (getw s i)) eqn:Er; cbn [fst snd];
  (apply (inv2_relabel s t _ I Ht);
  [ intros ?; rewrite Hlab; reflexivity
  | tok_new Tt Hlab
  | intros i' Hi E; rewrite (W4 i' Hi E); cbn [t_lab pend]; first [exact W3 | apply wphase_W1_W3; assumption] ]).
Qed.

(* idle list: take a worker (D1, P1, P5), give it back (H7) *)
Lemma step_D1 q : t_lab (gett s t) = D1 q -> Inv2 (after s t (D1 q)).
Proof.
  intros Hlab. unfold after. cbn [continue].
  destruct (ps_idle s) as [|i rest] eqn:Eidle.
  - destruct (ps_count s =? ps_max s)%N; cbn [fst snd].
    + apply (inv2_relabel s t _ I Ht);
      [ intros ?; rewrite Hlab; reflexivity | tok_new Tt Hlab
      | apply (not_wthread s t _ I); rewrite Hlab; [reflexivity|discriminate] ].
    + apply (inv2_idle s _ t (pend KUnlock OPoolM (D3 q (length (ps_workers s)) true)) I Ht); try reflexivity.
      * intros k. cbn [ps_idle set_thread set_pool t_lab pend]. rewrite Hlab, Eidle. reflexivity.
      * cbn [ps_idle set_thread set_pool]. intros k [].
      * tok_new Tt Hlab.
      * apply (not_wthread s t _ I); rewrite Hlab; [reflexivity|discriminate].
  - assert (Hf : free_w (getw s i) = true) by (apply (i2_idle _ I); rewrite Eidle; left; reflexivity).
    destruct (free_fields _ Hf) as (F1 & F2 & F3 & F4). rewrite F1, F2, F3. cbn [orb fst snd].
    apply (inv2_idle s _ t (pend KUnlock OPoolM (D3 q i false)) I Ht); try reflexivity.
    + intros k. cbn [ps_idle set_thread set_pool t_lab pend]. rewrite Hlab, Eidle, count_cons. cbn [ttok]. lia.
    + cbn [ps_idle set_thread set_pool]. intros k Hk. apply (i2_idle _ I). rewrite Eidle. right. exact Hk.
    + tok_new Tt Hlab.
    + apply (not_wthread s t _ I); rewrite Hlab; [reflexivity|discriminate].
Qed.

Lemma step_H7 j i : t_lab (gett s t) = H7 j i -> Inv2 (after s t (H7 j i)).
Proof.
  intros Hlab. unfold after. cbn [continue fst snd].
  apply (inv2_idle s _ t (pend KSignal OPoolC (H7s j i)) I Ht); try reflexivity.
  - intros k. cbn [ps_idle set_thread set_pool t_lab pend]. rewrite Hlab, count_cons. cbn [ttok]. lia.
  - cbn [ps_idle set_thread set_pool]. intros k [<-|Hk]; [|apply (i2_idle _ I); exact Hk].
    apply (tk_free _ _ _ Tt). rewrite Hlab. reflexivity.
  - tok_new Tt Hlab.
  - apply (not_wthread s t _ I); rewrite Hlab; [reflexivity|discriminate].
Qed.

Lemma step_P1 : t_lab (gett s t) = P1 -> Inv2 (after s t P1).
Proof.
  intros Hlab. unfold after. cbn [continue].
  destruct (0 <? ps_count s)%N; [|cbn [fst snd];
    apply (inv2_relabel s t _ I Ht);
      [ intros ?; rewrite Hlab; reflexivity | tok_new Tt Hlab
      | apply (not_wthread s t _ I); rewrite Hlab; [reflexivity|discriminate] ]].
  destruct (ps_idle s) as [|i rest] eqn:Eidle; cbn [fst snd].
  - apply (inv2_relabel s t _ I Ht);
      [ intros ?; rewrite Hlab; reflexivity | tok_new Tt Hlab
      | apply (not_wthread s t _ I); rewrite Hlab; [reflexivity|discriminate] ].
  - assert (Hf : free_w (getw s i) = true) by (apply (i2_idle _ I); rewrite Eidle; left; reflexivity).
    destruct (free_fields _ Hf) as (F1 & F2 & F3 & F4). rewrite F2. cbn [fst snd].
    apply (inv2_idle s _ t (pend KLock (OWm i) (P3 i)) I Ht); try reflexivity.
    + intros k. cbn [ps_idle set_thread set_pool t_lab pend]. rewrite Hlab, Eidle, count_cons. cbn [ttok]. lia.
    + cbn [ps_idle set_thread set_pool]. intros k Hk. apply (i2_idle _ I). rewrite Eidle. right. exact Hk.
    + tok_new Tt Hlab.
    + apply (not_wthread s t _ I); rewrite Hlab; [reflexivity|discriminate].
Qed.

Lemma step_P5 : t_lab (gett s t) = P5 -> Inv2 (after s t P5).
Proof.
  intros Hlab. unfold after. cbn [continue].
  cbn [ps_count ps_idle set_pool].
  destruct (0 <? ps_count s - 1)%N.
  2:{ cbn [fst snd]. apply (inv2_idle s _ t (pend KUnlock OPoolM P6) I Ht); try reflexivity.
      - intros k. cbn [t_lab pend]. rewrite Hlab. reflexivity.
      - apply (i2_idle _ I).
      - tok_new Tt Hlab.
      - apply (not_wthread s t _ I); rewrite Hlab; [reflexivity|discriminate]. }
  destruct (ps_idle s) as [|i rest] eqn:Eidle; cbn [fst snd].
  - apply (inv2_idle s _ t (pend KWait OPoolC P1) I Ht); try reflexivity.
    + intros k. cbn [ps_idle set_thread set_pool t_lab pend]. rewrite Hlab, Eidle. reflexivity.
    + cbn [ps_idle set_thread set_pool]. intros k [].
    + tok_new Tt Hlab.
    + apply (not_wthread s t _ I); rewrite Hlab; [reflexivity|discriminate].
  - assert (Hf : free_w (getw s i) = true) by (apply (i2_idle _ I); rewrite Eidle; left; reflexivity).
    destruct (free_fields _ Hf) as (F1 & F2 & F3 & F4).
    change (getw (set_pool s (i :: rest) (ps_count s - 1)) i) with (getw s i). rewrite F2. cbn [fst snd].
    apply (inv2_idle s _ t (pend KLock (OWm i) (P3 i)) I Ht); try reflexivity.
    + intros k. cbn [ps_idle set_thread set_pool t_lab pend]. rewrite Hlab, Eidle, count_cons. cbn [ttok]. lia.
    + cbn [ps_idle set_thread set_pool]. intros k Hk. apply (i2_idle _ I). rewrite Eidle. right. exact Hk.
    + tok_new Tt Hlab.
    + apply (not_wthread s t _ I); rewrite Hlab; [reflexivity|discriminate].
Qed.

(* the caller fetches its next command *)
Lemma step_next : caller_lab (t_lab (gett s t)) = true -> (forall i, ttok (ord_of s) (t_lab (gett s t)) i = 0%nat) ->
  lab_worker (t_lab (gett s t)) = None -> t_lab (gett s t) <> LDone ->
  Inv2 (set_thread (fst (caller_next s)) t (snd (caller_next s))).
Proof.
  intros Hcl Htok Hlw Hld.
  assert (Ht0 : t = 0%nat) by (apply (tk_caller _ _ _ Tt); exact Hcl).
  pose proof (i2_prog _ I) as Hp.
  unfold caller_next. destruct (ps_prog s) as [|c r] eqn:Ep; cbn [fst snd].
  - apply (inv2_relabel s t _ I Ht).
    + intros i. rewrite Htok. reflexivity.
    + constructor; unfold lab_queued; cbn [t_lab t_obj lab_free lab_flight lab_worker caller_lab lab_dispatch]; intros; discriminate.
    + apply (not_wthread s t _ I); assumption.
  - destruct c as [ord|q|q|]; cbn [fst snd].
    + apply (inv2_newhandler s _ t (pend KCreate (OThread (length (ps_threads s))) CNext) (pend KStart ONone (H0 (length (ps_queues s)))) ord r I Ht Hcl Htok); try reflexivity. exact Ep.
    + cbn [pwf] in Hp. apply andb_prop in Hp. destruct Hp as [Hp1 Hp2]. apply Nat.ltb_lt in Hp1.
      apply (inv2_prog s _ t (pend KLock OPoolM (D1 q)) (Dispatch q) I Ht); try reflexivity; try assumption.
      * intros i. rewrite Htok. reflexivity.
      * constructor; unfold lab_queued; cbn [t_lab t_obj pend lab_free lab_flight lab_worker caller_lab lab_dispatch]; try (intros; discriminate).
        -- intros _. exact Ht0.
        -- intros q' H. inversion H; subst q'. split; [exact Hp1|].
           destruct (q_finished (getq s q)) eqn:Ef; [|exact Ef].
           pose proof (i2_finq _ I q Ef) as Hn. rewrite Ep in Hn. cbn in Hn. rewrite Nat.eqb_refl in Hn. discriminate.
      * apply (not_wthread s t _ I); assumption.
    + cbn [pwf] in Hp. apply andb_prop in Hp. destruct Hp as [Hp1 Hp2].
      apply (inv2_prog s _ t (pend KLock (OQm q) (F1 q)) (Finish q) I Ht); try reflexivity; try assumption.
      * intros i. rewrite Htok. reflexivity.
      * constructor; unfold lab_queued; cbn [t_lab t_obj pend lab_free lab_flight lab_worker caller_lab lab_dispatch]; try (intros; discriminate).
        -- intros _. exact Ht0.
        -- intros q' H. inversion H; subst q'. exact Hp1.
      * apply (not_wthread s t _ I); assumption.
    + cbn [pwf] in Hp.
      apply (inv2_prog s _ t (pend KLock OPoolM P1) DestroyPool I Ht); try reflexivity; try assumption.
      * intros i. rewrite Htok. reflexivity.
      * constructor; unfold lab_queued; cbn [t_lab t_obj pend lab_free lab_flight lab_worker caller_lab lab_dispatch]; try (intros; discriminate).
        intros _. exact Ht0.
      * apply (not_wthread s t _ I); assumption.
Qed.

Lemma step_D3t q i : t_lab (gett s t) = D3 q i true -> Inv2 (after s t (D3 q i true)).
Proof.
  intros Hlab. pose proof (tk_fresh _ _ _ Tt q i Hlab) as Ei. subst i.
  unfold after. cbn [continue fst snd].
  apply (inv2_newworker s _ t q (pend KCreate (OThread (length (ps_threads s))) (D4 q (length (ps_workers s))))
           (pend KStart ONone (W0 (length (ps_workers s)))) I Ht Hlab); reflexivity.
Qed.

(* thread t (not a worker thread) holds worker i0's token and updates its fields *)
Lemma inv2_worker_sole st' th' i0 w' :
  ttok (ord_of s) (t_lab (gett s t)) i0 = 1%nat ->
  lab_worker (t_lab (gett s t)) = None -> t_lab (gett s t) <> LDone ->
  ps_threads st' = upd_nth (ps_threads s) t th' -> ps_idle st' = ps_idle s ->
  ps_workers st' = upd_nth (ps_workers s) i0 w' -> ps_queues st' = ps_queues s ->
  ps_prog st' = ps_prog s -> ps_abort st' = ps_abort s ->
  wk_tid w' = wk_tid (getw s i0) ->
  (ttok (ord_of s) (t_lab th') i0 + ftok w' = 1)%nat ->
  (forall i, i <> i0 -> ttok (ord_of s) (t_lab th') i = ttok (ord_of s) (t_lab (gett s t)) i) ->
  thread_ok st' t th' ->
  wphase_ok i0 w' (t_lab (gett s (wk_tid w'))) = true ->
  (forall q, wk_rq w' = Some q -> (q < length (ps_queues s))%nat) ->
  Inv2 st'.
Proof.
  intros Hone Hlw Hld Eth Eid Ew Eq Ep Ea Htid Hbal Hoth Hok Hwp Hrq.
  destruct (sole_thread s t i0 I Hone) as (Hi0 & S1 & S2 & S3 & S4).
  apply (inv2_worker s st' t th' i0 w' I Ht Hi0 Eth Eid Ew Eq Ep Ea Htid); try assumption.
  - lia.
  - intros H. contradiction.
  - intros x Hne H. pose proof (lab_free_ttok (ord_of s) _ _ H). rewrite (S2 x Hne) in H0. discriminate.
  - intros x Hne H. pose proof (lab_flight_ttok (ord_of s) _ _ H). rewrite (S2 x Hne) in H0. discriminate.
  - intros q H. exfalso. exact (S3 q H).
  - destruct (Nat.eqb_spec (wk_tid w') t) as [E|E]; [|exact Hwp].
    exfalso. destruct (i2_wthread _ I i0 Hi0) as [_ H]. rewrite <- Htid, E in H. apply wphase_lab in H. destruct H; congruence.
  - intros i Hi _. apply (not_wthread s t _ I); assumption.
Qed.

Lemma getw_same (st' : pstate) i w' : ps_workers st' = upd_nth (ps_workers s) i w' -> (i < length (ps_workers s))%nat -> getw st' i = w'.
Proof. intros E H. unfold getw. rewrite E. apply nth_upd_nth_same. exact H. Qed.

Lemma step_D5 q i : t_lab (gett s t) = D5 q i -> Inv2 (after s t (D5 q i)).
Proof.
  intros Hlab.
  assert (Hf : free_w (getw s i) = true) by (apply (tk_free _ _ _ Tt); rewrite Hlab; reflexivity).
  destruct (free_fields _ Hf) as (F1 & F2 & F3 & F4).
  destruct (tk_dispatch _ _ _ Tt q) as [Dq Df]; [rewrite Hlab; reflexivity|].
  assert (Hone : ttok (ord_of s) (t_lab (gett s t)) i = 1%nat) by (rewrite Hlab; cbn; rewrite Nat.eqb_refl; reflexivity).
  destruct (sole_thread s t i I Hone) as (Hi & _).
  unfold after. cbn [continue fst snd].
  set (w' := mkw (wk_tid (getw s i)) true true (ps_njobs s) (wk_res (getw s i)) (if q_ordered (getq s q) then None else Some q)).
  apply (inv2_worker_sole _ (pend KSignal (OWc i) (D5s q i)) i w' Hone); try reflexivity.
  - rewrite Hlab; reflexivity.
  - rewrite Hlab; discriminate.
  - cbn [t_lab pend ttok]. rewrite Nat.eqb_refl. unfold ftok, dying, w'. cbn. unfold ord_of.
    destruct (q_ordered (getq s q)); reflexivity.
  - intros k Hk. rewrite Hlab. cbn [t_lab pend ttok]. destruct (Nat.eqb_spec k i); [contradiction|]. reflexivity.
  - tok_new Tt Hlab.
    erewrite getw_same; [|reflexivity|exact Hi]. unfold flight_w, w'. cbn. rewrite F3.
    match goal with H : ord_of _ q = true |- _ => change (q_ordered (getq s q) = true) in H; rewrite H end. reflexivity.
  - cbn [wk_tid w']. destruct (i2_wthread _ I i Hi) as [_ H]. revert H. unfold wphase_ok, w'. cbn. rewrite F1, F2, F3, F4. cbn.
    intros ->. reflexivity.
  - unfold w'. cbn. destruct (q_ordered (getq s q)); [discriminate|]. intros q' H. inversion H; subst. exact Dq.
Qed.

Lemma step_P3 i : t_lab (gett s t) = P3 i -> Inv2 (after s t (P3 i)).
Proof.
  intros Hlab.
  assert (Hf : free_w (getw s i) = true) by (apply (tk_free _ _ _ Tt); rewrite Hlab; reflexivity).
  destruct (free_fields _ Hf) as (F1 & F2 & F3 & F4).
  assert (Hone : ttok (ord_of s) (t_lab (gett s t)) i = 1%nat) by (rewrite Hlab; cbn; rewrite Nat.eqb_refl; reflexivity).
  destruct (sole_thread s t i I Hone) as (Hi & _).
  unfold after. cbn [continue fst snd]. rewrite F2, F3, F4.
  set (w' := mkw (wk_tid (getw s i)) true false (wk_job (getw s i)) None None).
  apply (inv2_worker_sole _ (pend KSignal (OWc i) (P3s i)) i w' Hone); try reflexivity.
  - rewrite Hlab; reflexivity.
  - rewrite Hlab; discriminate.
  - intros k Hk. rewrite Hlab. cbn [t_lab pend ttok]. destruct (Nat.eqb_spec k i); [contradiction|]. reflexivity.
  - tok_new Tt Hlab.
  - cbn [wk_tid w']. destruct (i2_wthread _ I i Hi) as [_ H]. revert H. unfold wphase_ok, w'. cbn. rewrite F1, F2, F3, F4. cbn.
    intros ->. reflexivity.
  - unfold w'. cbn. discriminate.
Qed.

Lemma flight_notrunning w : flight_w w = true -> wk_running w = false ->
  wk_hasjob w = false /\ (exists r, wk_res w = Some r) /\ wk_rq w = None.
Proof.
  unfold flight_w. intros H R. rewrite R in H. destruct (wk_hasjob w), (wk_res w) as [r|], (wk_rq w); cbn in H; try discriminate.
  repeat split. exists r. reflexivity.
Qed.

Lemma step_H4_done j i : t_lab (gett s t) = H4 j i -> wk_running (getw s i) = false ->
  (forall x, x <> t -> t_lab (gett s x) <> W4os i /\ t_lab (gett s x) <> W5o i) ->
  (forall x i', t_lab (gett s x) = W5u i' -> exists q', t_obj (gett s x) = OQm q') ->
  Inv2 (after s t (H4 j i)).
Proof.
  intros Hlab Er Hex Hsh.
  assert (Hf : flight_w (getw s i) = true) by (apply (tk_flight _ _ _ Tt); rewrite Hlab; reflexivity).
  destruct (flight_notrunning _ Hf Er) as (F2 & (r & F3) & F4).
  assert (Hone : ttok (ord_of s) (t_lab (gett s t)) i = 1%nat) by (rewrite Hlab; cbn; rewrite Nat.eqb_refl; reflexivity).
  destruct (sole_thread s t i I Hone) as (Hi & S1 & S2 & S3 & S4).
  unfold after. cbn [continue]. rewrite Er, F2, F4. cbn [fst snd].
  set (w' := mkw (wk_tid (getw s i)) false false (wk_job (getw s i)) None None).
  apply (inv2_worker_sole _ (pend KUnlock (OWm i) (H6 j i)) i w' Hone); try reflexivity.
  - rewrite Hlab; reflexivity.
  - rewrite Hlab; discriminate.
  - cbn [t_lab pend ttok]. rewrite Nat.eqb_refl. reflexivity.
  - intros k Hk. rewrite Hlab. reflexivity.
  - tok_new Tt Hlab. erewrite getw_same; [|reflexivity|exact Hi]. reflexivity.
  - cbn [wk_tid w']. destruct (i2_wthread _ I i Hi) as [_ H].
    set (x := wk_tid (getw s i)) in *.
    assert (Hxt : x <> t).
    { intros E. rewrite E, Hlab in H. apply wphase_lab in H. destruct H; discriminate. }
    destruct (Hex x Hxt) as [X1 X2].
    pose proof (S2 x Hxt) as X3.
    pose proof (tk_queued _ _ _ (i2_threads _ I x)) as X4.
    pose proof (Hsh x) as X5.
    revert H. unfold wphase_ok, w'. cbn. rewrite Er, F2, F3, F4. cbn.
    unfold lab_queued in X4.
    destruct (t_lab (gett s x)) eqn:El; cbn; try (intros; discriminate);
      intros H; rewrite ?orb_false_r in H; cbn [orb] in H; try exact H; apply Nat.eqb_eq in H; subst; exfalso.
    + cbn [ttok] in X3. rewrite Nat.eqb_refl in X3. discriminate.
    + eapply S3, X4. reflexivity.
    + destruct (X5 _ eq_refl) as [q' Eo]. rewrite Eo in X4. eapply S3, X4. reflexivity.
    + apply X1. reflexivity.
    + apply X2. reflexivity.
  - unfold w'. cbn. discriminate.
Qed.

(* worker thread t updates the fields of its own worker i0, which stays in flight *)
Lemma inv2_worker_self st' th' i0 w' :
  lab_worker (t_lab (gett s t)) = Some i0 ->
  free_w (getw s i0) = false -> flight_w w' = true -> ftok w' = ftok (getw s i0) ->
  (forall k, ttok (ord_of s) (t_lab th') k = ttok (ord_of s) (t_lab (gett s t)) k) ->
  ps_threads st' = upd_nth (ps_threads s) t th' -> ps_idle st' = ps_idle s ->
  ps_workers st' = upd_nth (ps_workers s) i0 w' -> ps_queues st' = ps_queues s ->
  ps_prog st' = ps_prog s -> ps_abort st' = ps_abort s ->
  wk_tid w' = wk_tid (getw s i0) ->
  thread_ok st' t th' ->
  wphase_ok i0 w' (t_lab th') = true ->
  (forall q, wk_rq w' = Some q -> (q < length (ps_queues s))%nat) ->
  Inv2 st'.
Proof.
  intros Hlw Hnf Hfl Hft Htok Eth Eid Ew Eq Ep Ea Htid Hok Hwp Hrq.
  destruct (wthread_self s t i0 I Hlw) as (W1 & W2 & W3 & W4).
  apply (inv2_worker s st' t th' i0 w' I Ht W1 Eth Eid Ew Eq Ep Ea Htid); try assumption.
  - rewrite Htok, Hft. reflexivity.
  - intros k _. apply Htok.
  - intros H. rewrite (i2_idle _ I i0 H) in Hnf. discriminate.
  - intros x _ H. rewrite (tk_free _ _ _ (i2_threads _ I x) i0 H) in Hnf. discriminate.
  - intros; assumption.
  - intros; assumption.
  - rewrite Htid, W2, Nat.eqb_refl. exact Hwp.
  - intros i Hi Hne E. exfalso. apply Hne. apply W4; assumption.
Qed.

Lemma step_W4o i : t_lab (gett s t) = W4o i -> Inv2 (after s t (W4o i)).
Proof.
  intros Hlab.
  destruct (wthread_self s t i I) as (W1 & W2 & W3 & W4); [rewrite Hlab; reflexivity|].
  rewrite Hlab in W3. unfold after. cbn [continue fst snd].
  revert W3. unfold wphase_ok. cbn [wloop].
  destruct (wk_running (getw s i)) eqn:F1, (wk_hasjob (getw s i)) eqn:F2, (wk_res (getw s i)) as [r|] eqn:F3;
    rewrite ?andb_false_r; cbn [orb]; try discriminate.
  destruct (wk_rq (getw s i)) eqn:F4; [discriminate|]. intros _.
  apply (inv2_worker_self _ (pend KSignal (OWc i) (W4os i)) i (mkw (wk_tid (getw s i)) false false (wk_job (getw s i)) (Some r) None));
    try reflexivity.
  - rewrite Hlab; reflexivity.
  - unfold free_w. rewrite F1. reflexivity.
  - unfold ftok, dying. rewrite F1, F2, F3, F4. reflexivity.
  - intros k. rewrite Hlab. reflexivity.
  - tok_new Tt Hlab. split.
    + cbn [ps_workers set_thread set_workers]. rewrite upd_nth_length. exact W1.
    + unfold getw at 1. cbn [ps_workers set_thread set_workers]. rewrite nth_upd_nth_same by exact W1. exact W2.
  - cbn. rewrite Nat.eqb_refl. reflexivity.
  - cbn. discriminate.
Qed.

Lemma step_W3 i : t_lab (gett s t) = W3 i -> Inv2 (after s t (W3 i)).
Proof.
  intros Hlab.
  destruct (wthread_self s t i I) as (W1 & W2 & W3 & W4); [rewrite Hlab; reflexivity|].
  rewrite Hlab in W3. unfold after. cbn [continue].
  revert W3. unfold wphase_ok. cbn [wloop].
  destruct (wk_running (getw s i)) eqn:F1, (wk_hasjob (getw s i)) eqn:F2, (wk_res (getw s i)) as [r|] eqn:F3;
    rewrite ?andb_false_r; cbn [orb negb]; try discriminate.
  - (* a job to run *)
    intros _. destruct (wk_rq (getw s i)) as [q|] eqn:F4; cbn [fst snd].
    + (* unordered: the worker will queue itself *)
      assert (Hft : (1 <= ftok (getw s i))%nat) by (unfold ftok; rewrite F4; cbn; lia).
      destruct (sole_ftok s i I Hft) as (_ & S1 & S2 & S3).
      set (w' := mkw (wk_tid (getw s i)) false false 0 (Some (wk_job (getw s i))) None).
      apply (inv2_worker s _ t (pend KLock (OQm q) (W4u i q)) i w' I Ht W1); try reflexivity.
      * rewrite Hlab. cbn [t_lab pend ttok]. rewrite Nat.eqb_refl. unfold ftok, dying. rewrite F1, F2, F3, F4. reflexivity.
      * intros k Hk. rewrite Hlab. cbn [t_lab pend ttok]. destruct (Nat.eqb_spec k i); [contradiction|reflexivity].
      * intros H. contradiction.
      * intros x _ H. pose proof (lab_free_ttok (ord_of s) _ _ H) as E. rewrite S2 in E. discriminate.
      * tok_new Tt Hlab.
        -- split.
           ++ cbn [ps_workers set_thread set_workers]. rewrite upd_nth_length. exact W1.
           ++ unfold getw at 1. cbn [ps_workers set_thread set_workers]. rewrite nth_upd_nth_same by exact W1. exact W2.
        -- apply (i2_rq _ I i). exact F4.
      * cbn [wk_tid w']. rewrite W2, Nat.eqb_refl. cbn. rewrite Nat.eqb_refl. reflexivity.
      * intros i' Hi Hne E. exfalso. apply Hne. apply W4; assumption.
      * cbn. discriminate.
    + (* ordered: the result is published under the worker's mutex *)
      apply (inv2_worker_self _ (pend KLock (OWm i) (W4o i)) i (mkw (wk_tid (getw s i)) true false 0 (Some (wk_job (getw s i))) None));
        try reflexivity.
      * rewrite Hlab; reflexivity.
      * unfold free_w. rewrite F1. reflexivity.
      * unfold ftok, dying. rewrite F1, F2, F3, F4. reflexivity.
      * intros k. rewrite Hlab. reflexivity.
      * tok_new Tt Hlab. split.
        -- cbn [ps_workers set_thread set_workers]. rewrite upd_nth_length. exact W1.
        -- unfold getw at 1. cbn [ps_workers set_thread set_workers]. rewrite nth_upd_nth_same by exact W1. exact W2.
      * cbn. rewrite Nat.eqb_refl. reflexivity.
      * cbn. discriminate.
  - (* no job: told to exit *)
    intros W3. cbn [fst snd].
    apply (inv2_relabel s t _ I Ht).
    + intros k. rewrite Hlab. reflexivity.
    + constructor; unfold lab_queued; cbn [t_lab t_obj pend lab_free lab_flight lab_worker caller_lab lab_dispatch]; intros; discriminate.
    + intros i' Hi E. rewrite (W4 i' Hi E). unfold wphase_ok. rewrite F1, F2, F3. cbn [t_lab pend].
      apply andb_prop in W3. destruct W3 as [-> _]. reflexivity.
Qed.

Lemma getq_same (st' : pstate) q qq' : ps_queues st' = upd_nth (ps_queues s) q qq' -> (q < length (ps_queues s))%nat -> getq st' q = qq'.
Proof. intros E H. unfold getq. rewrite E. apply nth_upd_nth_same. exact H. Qed.

Lemma step_D7 q i : t_lab (gett s t) = D7 q i -> qexcl s t q -> Inv2 (after s t (D7 q i)).
Proof.
  intros Hlab Hx.
  destruct (tk_dispatch _ _ _ Tt q) as [Dq Df]; [rewrite Hlab; reflexivity|].
  unfold after. cbn [continue]. rewrite Df.
  destruct (q_ordered (getq s q)) eqn:Eo; cbn [fst snd].
  - match goal with |- Inv2 (set_thread (set_queues s (upd_nth _ q ?Q)) t ?T) =>
      apply (inv2_queue s _ t T q Q I Ht Dq); try reflexivity end.
    + cbn [q_ordered]. symmetry. exact Eo.
    + intros k. rewrite Hlab. cbn [t_lab pend ttok q_list]. unfold ord_of. rewrite Eo, count_snoc, andb_true_r. lia.
    + cbn [q_list]. intros k Hk. apply in_app_or in Hk. destruct Hk as [Hk|[<-|[]]]; [apply (i2_listed _ I q); exact Hk|].
      apply (tk_flight _ _ _ Tt). rewrite Hlab. cbn [lab_flight]. unfold ord_of. rewrite Eo. reflexivity.
    + cbn [q_list]. intros x k Hne H. apply in_or_app. left. apply (tk_queued _ _ _ (i2_threads _ I x)). exact H.
    + intros x Hne H. exfalso. destruct (Hx x Hne) as [H1 _]. exact (H1 _ H).
    + cbn [q_finished]. discriminate.
    + tok_new Tt Hlab.
    + apply (not_wthread s t _ I); rewrite Hlab; [reflexivity|discriminate].
  - match goal with |- Inv2 (set_thread (set_queues s (upd_nth _ q ?Q)) t ?T) =>
      apply (inv2_queue s _ t T q Q I Ht Dq); try reflexivity end.
    + cbn [q_ordered]. symmetry. exact Eo.
    + intros k. rewrite Hlab. cbn [t_lab pend ttok q_list]. unfold ord_of. rewrite Eo, andb_false_r. reflexivity.
    + cbn [q_list]. apply (i2_listed _ I q).
    + cbn [q_list]. intros x k Hne H. apply (tk_queued _ _ _ (i2_threads _ I x)). exact H.
    + intros x Hne H. exfalso. destruct (Hx x Hne) as [H1 _]. exact (H1 _ H).
    + cbn [q_finished]. discriminate.
    + tok_new Tt Hlab.
    + apply (not_wthread s t _ I); rewrite Hlab; [reflexivity|discriminate].
Qed.

Lemma step_F1 q : t_lab (gett s t) = F1 q -> Inv2 (after s t (F1 q)).
Proof.
  intros Hlab. unfold after. cbn [continue fst snd].
  assert (Ht0 : t = 0%nat) by (apply (tk_caller _ _ _ Tt); rewrite Hlab; reflexivity).
  destruct (Nat.lt_ge_cases q (length (ps_queues s))) as [Dq|Dq].
  - match goal with |- Inv2 (set_thread (set_queues s (upd_nth _ q ?Q)) t ?T) =>
      apply (inv2_queue s _ t T q Q I Ht Dq); try reflexivity end.
    + intros k. rewrite Hlab. reflexivity.
    + cbn [q_list]. apply (i2_listed _ I q).
    + cbn [q_list]. intros x k Hne H. apply (tk_queued _ _ _ (i2_threads _ I x)). exact H.
    + cbn [q_list q_finished q_nthreads]. intros x Hne H. destruct (tk_h3none _ _ _ (i2_threads _ I x) q H) as (H1 & H2 & H3). auto.
    + intros x Hne H. exfalso. apply Hne. rewrite Ht0. apply (tk_caller _ _ _ (i2_threads _ I x)).
      destruct (t_lab (gett s x)); try discriminate; reflexivity.
    + intros _. apply (tk_fin _ _ _ Tt). exact Hlab.
    + tok_new Tt Hlab.
    + apply (not_wthread s t _ I); rewrite Hlab; [reflexivity|discriminate].
  - rewrite upd_nth_oob by exact Dq.
    apply (inv2_idle s _ t (pend KSignal (OQc q) (F1s q)) I Ht); try reflexivity.
    + intros k. rewrite Hlab. reflexivity.
    + apply (i2_idle _ I).
    + tok_new Tt Hlab.
    + apply (not_wthread s t _ I); rewrite Hlab; [reflexivity|discriminate].
Qed.

Lemma step_W4u i q : t_lab (gett s t) = W4u i q -> qexcl s t q -> Inv2 (after s t (W4u i q)).
Proof.
  intros Hlab Hx.
  destruct (wthread_self s t i I) as (W1 & W2 & W3 & W4); [rewrite Hlab; reflexivity|].
  rewrite Hlab in W3.
  pose proof (tk_w4u _ _ _ Tt i q Hlab) as Dq.
  unfold after. cbn [continue fst snd].
  match goal with |- Inv2 (set_thread (set_queues s (upd_nth _ q ?Q)) t ?T) =>
    apply (inv2_queue s _ t T q Q I Ht Dq); try reflexivity end.
  - intros k. rewrite Hlab. cbn [t_lab pend ttok q_list]. rewrite count_snoc. lia.
  - cbn [q_list]. intros k Hk. apply in_app_or in Hk. destruct Hk as [Hk|[<-|[]]]; [apply (i2_listed _ I q); exact Hk|].
    revert W3. unfold wphase_ok, flight_w. cbn [wloop].
    destruct (wk_running (getw s i)), (wk_hasjob (getw s i)), (wk_res (getw s i)), (wk_rq (getw s i)); cbn; intros; try discriminate; reflexivity.
  - cbn [q_list]. intros x k Hne H. apply in_or_app. left. apply (tk_queued _ _ _ (i2_threads _ I x)). exact H.
  - intros x Hne H. exfalso. destruct (Hx x Hne) as [H1 _]. exact (H1 _ H).
  - cbn [q_finished]. intros x Hne H. apply (tk_dispatch _ _ _ (i2_threads _ I x) q H).
  - cbn [q_finished]. apply (i2_finq _ I).
  - tok_new Tt Hlab.
    erewrite getq_same; [|reflexivity|exact Dq]. cbn [q_list]. apply in_or_app. right. left. reflexivity.
  - intros i' Hi E. rewrite (W4 i' Hi E). cbn [t_lab pend]. eapply wphase_W4u_W4us. exact W3.
Qed.

Lemma step_H1_pop j i rest : t_lab (gett s t) = H1 j -> q_list (getq s j) = i :: rest -> qexcl s t j -> Inv2 (after s t (H1 j)).
Proof.
  intros Hlab El Hx.
  assert (Dq : (j < length (ps_queues s))%nat) by (apply (listed_lt s j i); rewrite El; left; reflexivity).
  unfold after. cbn [continue]. rewrite El. cbn [fst snd].
  match goal with |- Inv2 (set_thread (set_queues s (upd_nth _ j ?Q)) t ?T) =>
    apply (inv2_queue s _ t T j Q I Ht Dq); try reflexivity end.
  - intros k. rewrite Hlab, El. cbn [t_lab pend ttok q_list]. rewrite count_cons. lia.
  - cbn [q_list]. intros k Hk. apply (i2_listed _ I j). rewrite El. right. exact Hk.
  - intros x k Hne H. exfalso. destruct (Hx x Hne) as [_ H2]. exact (H2 _ H).
  - intros x Hne H. exfalso. destruct (Hx x Hne) as [H1 _]. exact (H1 _ H).
  - cbn [q_finished]. intros x Hne H. apply (tk_dispatch _ _ _ (i2_threads _ I x) j H).
  - cbn [q_finished]. apply (i2_finq _ I).
  - tok_new Tt Hlab. apply (i2_listed _ I j). rewrite El. left. reflexivity.
  - apply (not_wthread s t _ I); rewrite Hlab; [reflexivity|discriminate].
Qed.

End Steps.

(* ---------- all labels together ---------- *)
(* the mutex acquired by the operation after which the code of a label runs *)
Definition lab_acq (l : label) : option obj :=
  match l with
  | D7 q _ | W4u _ q | H1 q => Some (OQm q)
  | H4 _ i => Some (OWm i)
  | _ => None
  end.

Definition wexcl (s : pstate) (t i : nat) : Prop :=
  forall x, x <> t -> t_lab (gett s x) <> W4os i /\ t_lab (gett s x) <> W5o i.
Definition w5u_obj (s : pstate) : Prop :=
  forall x i', t_lab (gett s x) = W5u i' -> exists q', t_obj (gett s x) = OQm q'.

Lemma cont_inv2 s t :
  Inv2 s -> (t < length (ps_threads s))%nat ->
  let l := t_lab (gett s t) in
  l <> LDone ->
  (forall q, lab_acq l = Some (OQm q) -> qexcl s t q) ->
  (forall i, lab_acq l = Some (OWm i) -> wexcl s t i) ->
  w5u_obj s ->
  Inv2 (after s t l).
Proof.
  intros I Ht l Hld Hq Hw Hsh.
  assert (Hnext : forall l', l = l' -> caller_lab l' = true -> (forall i, ttok (ord_of s) l' i = 0%nat) ->
                  lab_worker l' = None -> continue s t l' = caller_next s -> Inv2 (after s t l')).
  { intros l' E H1 H2 H3 H4. unfold after. rewrite H4. apply (step_next s t I Ht); unfold l in E; rewrite E; try assumption.
    rewrite <- E. exact Hld. }
  destruct l eqn:El; subst l.
  - apply Hnext; try reflexivity. 
  - apply step_D1; assumption.
  - destruct fresh; [apply step_D3t|apply step_D3f]; assumption.
  - apply step_D4; assumption.
  - apply step_D5; assumption.
  - apply step_D5s; assumption.
  - apply step_D6; assumption.
  - apply step_D7; try assumption. apply Hq. reflexivity.
  - apply step_D7s; assumption.
  - apply Hnext; try reflexivity.
  - apply step_F1; assumption.
  - apply step_F1s; assumption.
  - apply step_F2; assumption.
  - apply Hnext; try reflexivity.
  - apply step_P1; assumption.
  - apply step_P3; assumption.
  - apply step_P3s; assumption.
  - apply step_P4; assumption.
  - apply step_P5; assumption.
  - apply Hnext; try reflexivity.
  - apply step_W0; assumption.
  - apply step_W1; assumption.
  - apply step_W3; assumption.
  - apply step_W4u; try assumption. apply Hq. reflexivity.
  - apply step_W4us; assumption.
  - apply step_W5u; assumption.
  - apply step_W4o; assumption.
  - apply step_W4os; assumption.
  - apply step_W5o; assumption.
  - apply step_H0; assumption.
  - destruct (q_list (getq s j)) as [|i rest] eqn:Elist.
    + apply step_H1_empty; assumption.
    + apply (step_H1_pop s t I Ht j i rest); try assumption. apply Hq. reflexivity.
  - destruct w; [apply step_H3s|apply step_H3n]; assumption.
  - destruct (wk_running (getw s w)) eqn:Er.
    + apply step_H4_running; assumption.
    + apply step_H4_done; try assumption. apply Hw. reflexivity.
  - apply step_H6; assumption.
  - apply step_H7; assumption.
  - apply step_H7s; assumption.
  - apply step_H8; assumption.
  - congruence.
Qed.

(* ---------- mutual exclusion facts from Inv1 ---------- *)
Lemma shape_allowed th : shape th = true -> allowed (t_lab th) (t_op th) (t_obj th) = true.
Proof. unfold shape. intros H. apply andb_prop in H. destruct H as [H _]. apply andb_prop in H. tauto. Qed.

Lemma acq_obj l op o m : allowed l op o = true -> lab_acq l = Some m -> op <> KWait -> (op = KLock \/ op = KReacq) /\ o = m.
Proof.
  destruct l; cbn [lab_acq allowed]; try discriminate; intros H E Hw; inversion E; subst; clear E;
    unfold lwr, is_op in H; destruct op; cbn [opk_eqb andb orb] in H; try discriminate; try congruence;
    rewrite ?orb_false_r in H;
    match type of H with obj_eqb ?a ?b = true => destruct (obj_eqb_spec a b); [subst|discriminate] end; auto.
Qed.

Lemma holds_H3 th q o : shape th = true -> t_lab th = H3 q o -> In (OQm q) (holds th).
Proof.
  intros Hs El. apply shape_allowed in Hs. rewrite El in Hs. cbn [allowed] in Hs. unfold is_op in Hs.
  apply andb_prop in Hs. destruct Hs as [H1 H2]. unfold holds.
  destruct (t_op th); try discriminate. destruct (obj_eqb_spec (t_obj th) (OQm q)); [|discriminate]. left. assumption.
Qed.
Lemma holds_queued th i q : shape th = true -> lab_queued th = Some (i, q) -> In (OQm q) (holds th).
Proof.
  intros Hs El. apply shape_allowed in Hs. unfold lab_queued in El. unfold holds.
  destruct (t_lab th) eqn:E; try discriminate; cbn [allowed] in Hs; unfold is_op in Hs.
  - inversion El; subst. apply andb_prop in Hs. destruct Hs as [H1 H2]. destruct (t_op th); try discriminate. left. reflexivity.
  - apply andb_prop in Hs. destruct Hs as [H1 H2]. destruct (t_op th); try discriminate.
    destruct (t_obj th); try discriminate. inversion El; subst. left. reflexivity.
Qed.
Lemma holds_W4os th i : shape th = true -> t_lab th = W4os i \/ t_lab th = W5o i -> In (OWm i) (holds th).
Proof.
  intros Hs [El|El]; apply shape_allowed in Hs; rewrite El in Hs; cbn [allowed] in Hs; unfold is_op in Hs;
    apply andb_prop in Hs; destruct Hs as [H1 H2]; unfold holds; destruct (t_op th); try discriminate; rewrite El.
  - left. reflexivity.
  - destruct (obj_eqb_spec (t_obj th) (OWm i)); [|discriminate]. left. assumption.
Qed.
Lemma shape_W5u th i : shape th = true -> t_lab th = W5u i -> exists q, t_obj th = OQm q.
Proof.
  intros Hs El. apply shape_allowed in Hs. rewrite El in Hs. cbn [allowed] in Hs.
  apply andb_prop in Hs. destruct Hs as [_ H]. destruct (t_obj th); try discriminate. eexists. reflexivity.
Qed.

Lemma acq_excl st t : Inv1 st -> enabled st t = true -> t_op (gett st t) <> KWait ->
  (forall q, lab_acq (t_lab (gett st t)) = Some (OQm q) -> qexcl st t q) /\
  (forall i, lab_acq (t_lab (gett st t)) = Some (OWm i) -> wexcl st t i) /\
  w5u_obj st.
Proof.
  intros I En Hw.
  assert (Free : forall m, lab_acq (t_lab (gett st t)) = Some m -> forall x, ~ In m (holds (gett st x))).
  { intros m E x Hin. destruct (acq_obj _ _ _ m (shape_allowed _ (i1_shape _ I t)) E Hw) as [Hop Ho].
    apply (i1_own _ I) in Hin. unfold enabled in En.
    destruct (t_done (gett st t)); [discriminate|]. destruct (t_blocked (gett st t)); [discriminate|].
    rewrite Ho in En. destruct Hop as [Hop|Hop]; rewrite Hop, Hin in En; discriminate. }
  split; [|split].
  - intros q E x _. split.
    + intros o El. apply (Free _ E x). apply (holds_H3 _ q o); [apply I|exact El].
    + intros i El. apply (Free _ E x). apply (holds_queued _ i q); [apply I|exact El].
  - intros i E x _. split; intros El; apply (Free _ E x); apply holds_W4os; try apply I; auto.
  - intros x i El. apply (shape_W5u _ i); [apply I|exact El].
Qed.

(* ---------- one step of the LTS ---------- *)
Lemma thread_ok_lab st x th th' : t_lab th' = t_lab th -> lab_queued th' = lab_queued th ->
  thread_ok st x th -> thread_ok st x th'.
Proof. intros E1 E2 [A1 A2 A3 A4 A5 A6 A7 A8 A9 A10]. constructor; rewrite ?E1, ?E2; assumption. Qed.

Lemma wait_lab_queued l o : allowed l KWait o = true -> forall th, t_lab th = l -> lab_queued th = None.
Proof.
  intros H th E. unfold lab_queued. rewrite E.
  destruct l; cbn [allowed] in H; unfold lwr, is_op in H; cbn [opk_eqb andb orb] in H; try discriminate; reflexivity.
Qed.

Lemma exit_lab l o : allowed l KExit o = true -> l = LDone /\ o = ONone.
Proof.
  destruct l; cbn [allowed]; unfold lwr, is_op; cbn [opk_eqb andb orb]; try discriminate.
  destruct (obj_eqb_spec o ONone); [auto|discriminate].
Qed.

Lemma pstep_inv2 st t wake stash st' op o stash' :
  Inv1 st -> Inv2 st -> wake_ok st t wake -> pstep st t wake stash = Some (st', op, o, stash') -> Inv2 st'.
Proof.
  intros I1 I2 W E.
  destruct (enabled st t) eqn:En; [|unfold pstep in E; rewrite En in E; discriminate].
  destruct (enabled_live _ _ En) as (Hlt & Hd & Hb).
  pose proof (shape_allowed _ (i1_shape _ I1 t)) as Hal.
  destruct (opk_eqb (t_op (gett st t)) KWait) eqn:Ew.
  { unfold pstep in E. rewrite En in E. cbn [negb] in E.
    destruct (t_op (gett st t)) eqn:Eop; try discriminate. inversion E; subst; clear E.
    set (m := wait_mutex (t_lab (gett st t))).
    assert (I3 : Inv2 (set_owner st m None)) by (apply (inv2_view st); [apply set_owner_view|exact I2]).
    apply (inv2_relabel _ t _ I3 Hlt).
    - intros i. reflexivity.
    - apply (thread_ok_lab _ t (gett st t)); [reflexivity| |apply (i2_threads _ I3 t)].
      rewrite (wait_lab_queued _ _ Hal (gett st t) eq_refl). apply (wait_lab_queued _ _ Hal). reflexivity.
    - intros i Hi Et. destruct (i2_wthread _ I3 i Hi) as [_ H]. rewrite Et in H. exact H. }
  destruct (opk_eqb (t_op (gett st t)) KExit) eqn:Ee.
  { unfold pstep in E. rewrite En in E. cbn [negb] in E.
    destruct (t_op (gett st t)) eqn:Eop; try discriminate. inversion E; subst; clear E.
    destruct (exit_lab _ _ Hal) as [El Eo].
    apply (inv2_view st); [|exact I2]. apply set_thread_same_view. unfold tview. rewrite El, Eo. reflexivity. }
  assert (Hw : t_op (gett st t) <> KWait) by (intros H; rewrite H in Ew; discriminate).
  assert (He : t_op (gett st t) <> KExit) by (intros H; rewrite H in Ee; discriminate).
  rewrite (pstep_general _ _ wake stash En Hw He) in E. inversion E; subst; clear E.
  unfold step_tail.
  set (st1 := st1_of st t).
  set (st2 := wake_step st1 (t_op (gett st t)) wake).
  set (st3 := snd (stash_deliver st2 t (t_lab (gett st t)) stash)).
  assert (V1 : same_view st st1).
  { unfold st1, st1_of. destruct (t_op (gett st t)); try apply same_view_refl; apply set_owner_view. }
  assert (V2 : same_view st1 st2).
  { apply wake_step_view. intros u -> Hop Hu. unfold st1, st1_of in *. rewrite Hop in *.
    apply (blocked_obj st u I1). unfold wake_ok in W. apply W; assumption. }
  assert (V3 : same_view st st3).
  { eapply same_view_trans; [exact V1|]. eapply same_view_trans; [exact V2|]. apply stash_deliver_view. }
  assert (I3 : Inv2 st3) by (apply (inv2_view st); assumption).
  assert (El : t_lab (gett st3 t) = t_lab (gett st t)) by (apply sv_lab; exact V3).
  fold (after st3 t (t_lab (gett st t))). rewrite <- El.
  destruct (acq_excl st t I1 En Hw) as (X1 & X2 & X3).
  apply (cont_inv2 st3 t I3).
  - rewrite (sv_len _ _ V3). exact Hlt.
  - rewrite El. intros H. rewrite H in Hal. destruct (t_op (gett st t)); cbn in Hal; try discriminate; try congruence.
  - rewrite El. intros q Hq x Hne. destruct (X1 q Hq x Hne) as [A B]. split.
    + intros o'. rewrite (sv_lab _ _ x V3). apply A.
    + intros i. unfold lab_queued. rewrite (sv_lab _ _ x V3), (sv_obj _ _ x V3). apply B.
  - rewrite El. intros i Hi x Hne. rewrite (sv_lab _ _ x V3). apply (X2 i Hi x Hne).
  - intros x i. rewrite (sv_lab _ _ x V3), (sv_obj _ _ x V3). apply X3.
Qed.

(* ---------- initial state ---------- *)
Definition pre_init (maxt : N) (prog : list cmd) : pstate :=
  mkp [mkt KCreate ONone CNext None ONone false] [] [] 0 maxt [] [] prog 0 [] false.

Lemma nth_nil {A} i (d : A) : nth i [] d = d.
Proof. destruct i; reflexivity. Qed.

Lemma pre_init_inv2 maxt prog : prog_wf_weak prog = true -> Inv2 (pre_init maxt prog).
Proof.
  intros Hp.
  assert (Gw : forall i, getw (pre_init maxt prog) i = dummy_w) by (intros i; unfold getw; cbn; apply nth_nil).
  assert (Gq : forall q, getq (pre_init maxt prog) q = dummy_q) by (intros q; unfold getq; cbn; apply nth_nil).
  constructor.
  - intros i. unfold tokens, tok_idle, tok_q, tok_t. rewrite Gw. cbn. reflexivity.
  - intros i [].
  - intros q i. rewrite Gq. intros [].
  - intros i Hi. cbn in Hi. lia.
  - intros i q. rewrite Gw. discriminate.
  - exact Hp.
  - intros q. rewrite Gq. discriminate.
  - reflexivity.
  - intros x. destruct x as [|x].
    + constructor; unfold lab_queued; cbn; intros; try discriminate. reflexivity.
    + replace (gett (pre_init maxt prog) (S x)) with dummy_t; [apply dummy_thread_ok|].
      unfold gett. cbn [ps_threads pre_init nth]. symmetry. apply nth_nil.
Qed.

Lemma pool_init_eq maxt prog :
  pool_init maxt prog = set_thread (fst (caller_next (pre_init maxt prog))) 0 (snd (caller_next (pre_init maxt prog))).
Proof.
  unfold pool_init, pre_init, caller_next. cbn [ps_prog]. destruct prog as [|c r]; [reflexivity|]. destruct c; reflexivity.
Qed.

Lemma pool_init_inv2 maxt prog : prog_wf_weak prog = true -> Inv2 (pool_init maxt prog).
Proof.
  intros Hp. rewrite pool_init_eq. apply (step_next _ 0 (pre_init_inv2 maxt prog Hp)).
  - cbn. lia.
  - reflexivity.
  - intros i. reflexivity.
  - reflexivity.
  - discriminate.
Qed.

Lemma pspurious_inv2 st t st' : Inv1 st -> Inv2 st -> pspurious st t = Some st' -> Inv2 st'.
Proof. intros I1 I2 E. apply (inv2_view st); [eapply pspurious_view; eassumption|exact I2]. Qed.

Lemma prun_inv12 s : forall st0 stash0 st stash,
  Inv1 st0 -> Inv2 st0 -> sched_wf st0 stash0 s -> prun st0 stash0 s = Some (st, stash) -> Inv1 st /\ Inv2 st.
Proof.
  induction s as [|[t w|t] s IH]; intros st0 stash0 st stash I1 I2 W E; cbn [prun sched_wf] in *.
  - inversion E; subst. split; assumption.
  - destruct W as [W1 W2]. destruct (pstep st0 t w stash0) as [[[[st1 op] o] stash1]|] eqn:Es; [|discriminate].
    eapply IH; [| |exact W2|exact E].
    + eapply pstep_inv1; eassumption.
    + eapply pstep_inv2; eassumption.
  - destruct (pspurious st0 t) as [st1|] eqn:Es; [|discriminate].
    eapply IH; [| |exact W|exact E].
    + eapply pspurious_inv1; eassumption.
    + eapply pspurious_inv2; eassumption.
Qed.

(* the full API contract implies the weak condition the proofs use *)
Lemma no_dispatch_of_full q : forall p nq fin, pwf_full nq fin p = true -> existsb (Nat.eqb q) fin = true -> no_dispatch q p = true.
Proof.
  induction p as [|c r IH]; intros nq fin H Hin; [reflexivity|].
  destruct c as [o|q'|q'|]; cbn [pwf_full] in H; cbn [no_dispatch forallb].
  - apply (IH _ _ H Hin).
  - apply andb_prop in H. destruct H as [H H3]. apply andb_prop in H. destruct H as [H1 H2].
    fold (no_dispatch q r). rewrite (IH _ _ H3 Hin), andb_true_r.
    destruct (Nat.eqb_spec q q') as [->|]; [|reflexivity]. rewrite Hin in H2. discriminate.
  - apply andb_prop in H. destruct H as [H H3]. fold (no_dispatch q r).
    apply (IH _ _ H3). cbn [existsb]. rewrite Hin. apply orb_true_r.
  - apply andb_prop in H. destruct H as [_ H]. destruct r; [reflexivity|discriminate].
Qed.

Lemma pwf_of_full : forall p nq fin, pwf_full nq fin p = true -> pwf nq p = true.
Proof.
  induction p as [|c r IH]; intros nq fin H; [reflexivity|].
  destruct c as [o|q|q|]; cbn [pwf_full] in H; cbn [pwf].
  - apply (IH _ _ H).
  - apply andb_prop in H. destruct H as [H H3]. apply andb_prop in H. destruct H as [H1 H2].
    rewrite H1, (IH _ _ H3). reflexivity.
  - apply andb_prop in H. destruct H as [H H3]. rewrite (IH _ _ H3), andb_true_r.
    apply (no_dispatch_of_full q r nq (q :: fin) H3). cbn [existsb]. rewrite Nat.eqb_refl. reflexivity.
  - apply andb_prop in H. destruct H as [_ H]. destruct r; [reflexivity|discriminate].
Qed.

Lemma prog_wf_weaken p : prog_wf p = true -> prog_wf_weak p = true.
Proof. apply pwf_of_full. Qed.

(* Tier 2 *)
Theorem T13_lifecycle : forall maxt prog st stash, prog_wf_weak prog = true ->
  reachable maxt prog st stash -> Inv1 st /\ Inv2 st.
Proof.
  intros maxt prog st stash Hp (s & W & E).
  eapply prun_inv12; [apply pool_init_inv1|apply pool_init_inv2; exact Hp|exact W|exact E].
Qed.

Theorem T13_no_abort : forall maxt prog s st stash, prog_wf prog = true ->
  sched_wf (pool_init maxt prog) [] s ->
  prun (pool_init maxt prog) [] s = Some (st, stash) -> ps_abort st = false.
Proof.
  intros maxt prog s st stash Hp W E.
  apply i2_noabort. apply (T13_lifecycle maxt prog st stash (prog_wf_weaken _ Hp)). exists s. split; assumption.
Qed.

Theorem T13_no_abort_weak : forall maxt prog s st stash, prog_wf_weak prog = true ->
  sched_wf (pool_init maxt prog) [] s ->
  prun (pool_init maxt prog) [] s = Some (st, stash) -> ps_abort st = false.
Proof.
  intros maxt prog s st stash Hp W E.
  apply i2_noabort. apply (T13_lifecycle maxt prog st stash Hp). exists s. split; assumption.
Qed.

Print Assumptions T13_lifecycle.
Print Assumptions T13_no_abort.
Print Assumptions T13_no_abort_weak.
