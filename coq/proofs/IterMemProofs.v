(* C03, memory level: "whatever is done to other iterators of the same reader in between;
   the key/value buffers handed out stay intact until the next call on that iterator".

   model/IterMem.v follows reader.c / block.c / ubuf.h at the level of buffers: which are
   allocated, rewritten (in place or moved by realloc - any policy [pol]) and freed by
   reader_iter / reader_get* / reader_iter_next / reader_iter_seek / reader_iter_free, and
   which addresses mtbl_iter_next hands out.  Over every table_ok table (the hypothesis of
   T03c) and every interleaved history of operations on any number of iterators:
     M1  no memory fault, the functional components are exactly the iterators of
         model/Reader.v after the same history, and the addresses handed out by a
         successful next dereference to the entry the functional model returns;
     M2  an operation on one iterator changes no buffer of another, never the file, frees
         only what the iterator owns; ownership sets of live iterators are disjoint, live;
     M3  the bytes handed out by next on iterator i stay readable and unchanged through any
         sequence of operations on other iterators (creation, next, seek, destruction).
   The model is not permissive: a further next on iterator i that leaves a compressed block
   makes the old value address unreadable (Example M3_negative_compressed). *)
From Coq Require Import NArith ZArith List Lia.
From Mtbl Require Import gen.Consts model.Bytes model.Codec model.Order model.Writer spec.Parse model.Reader model.IterMem
  proofs.BytesLemmas proofs.BlockProofs proofs.ReaderProofs
  proofs.IterMemBase proofs.IterMemStep proofs.IterMemNext proofs.IterMemSeek proofs.IterMemMake
  proofs.IterMemMulti.
Local Open Scope N_scope.

Lemma rev_case' {A} (l : list A) : l = [] \/ exists l0 a, l = l0 ++ [a].
Proof. induction l using rev_ind; [left; reflexivity|right; eauto]. Qed.

Section C03Mem.
Variable decompress : N -> bytes -> res bytes.
Variable pol : mem -> nat -> bytes -> bool.
Variable r : reader.
Variable ib : ablock.
Variable iridx : list nat.
Variable nb : nat.
Variable B : nat -> ablock.
Variable Rr : nat -> list nat.
Hypothesis T : table_ok decompress r ib iridx nb B Rr.

Notation inv := (ms_inv r ib iridx nb B Rr).
Notation sframe := (step_frame).
Notation mstep' := (mstep decompress pol r).
Notation mrun' := (mrun decompress pol r).

(* the addresses of a successful next point into buffers of the iterator (or the file) and
   dereference to the entry *)
Definition out_ok (st' : mstate) (op : mop) (o : mout) : Prop :=
  match o with
  | ONext n => exists i mi', op = MNext i /\ slot st' i = Some mi' /\ nout_ok (ms_mem st') (owns mi') n
  | _ => True
  end.

Lemma fun_make_ok kind key bound :
  exists oit, fun_make decompress r kind key bound = Ok oit /\
              match oit with Some it => itok ib iridx nb B Rr it | None => True end.
Proof.
  destruct T. destruct kind.
  - destruct (reader_iter_refines decompress r ib iridx nb B Rr) as (it & Hit & Hok & _); try assumption.
    exists (Some it). split; [exact Hit|exact Hok].
  - pose proof (reader_iter_init_refines decompress r ib iridx nb B Rr t_index t_index_wf t_count t_load t_block_wf
                  t_offsets_distinct t_sep_ge_last t_sep_lt_next KGet key bound) as H. cbn [fun_make].
    destruct (reader_iter_init decompress r KGet key bound) as [[it|]| | |]; try contradiction;
      eexists; (split; [reflexivity|]); [apply H|exact I].
  - pose proof (reader_iter_init_refines decompress r ib iridx nb B Rr t_index t_index_wf t_count t_load t_block_wf
                  t_offsets_distinct t_sep_ge_last t_sep_lt_next KPrefix key bound) as H. cbn [fun_make].
    destruct (reader_iter_init decompress r KPrefix key bound) as [[it|]| | |]; try contradiction;
      eexists; (split; [reflexivity|]); [apply H|exact I].
  - pose proof (reader_iter_init_refines decompress r ib iridx nb B Rr t_index t_index_wf t_count t_load t_block_wf
                  t_offsets_distinct t_sep_ge_last t_sep_lt_next KRange key bound) as H. cbn [fun_make].
    destruct (reader_iter_init decompress r KRange key bound) as [[it|]| | |]; try contradiction;
      eexists; (split; [reflexivity|]); [apply H|exact I].
Qed.

Lemma fun_next_ok it : itok ib iridx nb B Rr it ->
  exists it' e, reader_iter_next decompress r it = Ok (it', e) /\ itok ib iridx nb B Rr it'.
Proof.
  intros Hok. destruct T.
  destruct (reader_next_refines decompress r ib iridx nb B Rr t_index t_index_wf t_count t_load t_block_wf
              t_offsets_distinct t_sep_ge_last t_sep_lt_next it Hok) as (it' & e & H1 & H2 & _).
  exists it', e. split; assumption.
Qed.

Lemma fun_seek_ok it key : itok ib iridx nb B Rr it ->
  exists it', reader_iter_seek decompress r it key = Ok (it', true) /\ itok ib iridx nb B Rr it'.
Proof.
  intros Hok. destruct T.
  destruct (reader_seek_refines decompress r ib iridx nb B Rr t_index t_index_wf t_count t_load t_block_wf
              t_offsets_distinct t_sep_ge_last t_sep_lt_next it key Hok) as (it' & H1 & (H2 & _) & _).
  exists it'. split; assumption.
Qed.

Lemma slot_proj st i : nth i (proj st) None = option_map mi_it (slot st i).
Proof. apply nth_proj. Qed.

(* one operation of the machine, from any state that satisfies the invariant *)
Lemma mstep_ok st op : inv st ->
  exists st' o, mstep' st op = MOk (st', o) /\ inv st' /\ sframe st op st' /\
                fstep decompress r (proj st) op = Ok (proj st', fo o) /\ out_ok st' op o.
Proof.
  intros Hinv. pose proof Hinv as (Hfile & Hsl & Hdj). pose proof (t_index _ _ _ _ _ _ _ T) as Hidx.
  assert (Hnop : sframe st op st).
  { unfold step_frame. repeat split; auto. }
  destruct op as [kind key bound|i|i key|i]; cbn [mstep fstep].
  - (* MNew *)
    destruct (fun_make_ok kind key bound) as (oit & Hmk & Hok).
    destruct (make_step decompress pol r ib Hidx (ms_mem st) kind key bound oit Hfile Hmk) as (m' & omi & -> & Hfr & Hpost).
    cbn [mbind]. eexists _, _. split; [reflexivity|]. rewrite Hmk. cbn [bind].
    assert (Hx : match omi with
                 | Some mi' => mi_inv ib m' mi' /\ itok ib iridx nb B Rr (mi_it mi') /\
                               (forall id, In id (owns mi') -> (m_next (ms_mem st) <= id)%nat)
                 | None => True end).
    { destruct oit as [it|], omi as [mi'|]; try exact I; try contradiction.
      destruct Hpost as (E & H1 & H2). rewrite E. tauto. }
    destruct (new_inv r ib iridx nb B Rr st m' omi kind key bound Hinv Hfr Hx) as [H1 H2].
    split; [exact H1|]. split; [exact H2|]. split; [|exact I].
    unfold proj. cbn [ms_its fo]. rewrite map_app. cbn [map].
    destruct oit as [it|], omi as [mi'|]; try contradiction; [|reflexivity].
    destruct Hpost as (E & _). subst it. reflexivity.
  - (* MNext *)
    rewrite slot_proj. destruct (slot st i) as [mi|] eqn:Ei; cbn [option_map].
    2:{ exists st, OBad. split; [reflexivity|]. split; [exact Hinv|]. split; [exact Hnop|]. split; [reflexivity|exact I]. }
    destruct (Hsl i mi Ei) as [Hmi Hok].
    destruct (fun_next_ok (mi_it mi) Hok) as (it' & e & Hf & Hok').
    destruct (next_step decompress pol r ib Hidx (ms_mem st) mi it' e Hfile Hmi Hf (itok_range ib iridx nb B Rr it' Hok'))
      as (m' & L' & o & -> & Hoe & Hfr & Hfo & Hmi' & Hno).
    cbn [mbind]. eexists _, _. split; [reflexivity|]. rewrite Hf. cbn [bind fst snd].
    destruct (upd_inv r ib iridx nb B Rr st i mi m' (Some (mkmi it' L')) (MNext i) Hinv Ei eq_refl Hfr) as [H1 H2].
    { split; [exact Hfo|]. split; [exact Hmi'|exact Hok']. }
    split; [exact H1|]. split; [exact H2|]. split.
    + unfold proj. cbn [ms_its fo]. rewrite map_set_nth, Hoe. reflexivity.
    + cbn [out_ok]. exists i, (mkmi it' L'). split; [reflexivity|]. split; [|exact Hno].
      unfold slot. cbn [ms_its]. apply nth_set_nth_same. exact (nth_some_lt _ _ _ Ei).
  - (* MSeek *)
    rewrite slot_proj. destruct (slot st i) as [mi|] eqn:Ei; cbn [option_map].
    2:{ exists st, OBad. split; [reflexivity|]. split; [exact Hinv|]. split; [exact Hnop|]. split; [reflexivity|exact I]. }
    destruct (Hsl i mi Ei) as [Hmi Hok].
    destruct (fun_seek_ok (mi_it mi) key Hok) as (it' & Hf & Hok').
    destruct (seek_step decompress pol r ib Hidx (ms_mem st) mi key it' true Hfile Hmi Hf)
      as (m' & L' & -> & Hfr & Hfo & Hmi').
    cbn [mbind]. eexists _, _. split; [reflexivity|]. rewrite Hf. cbn [bind fst snd].
    destruct (upd_inv r ib iridx nb B Rr st i mi m' (Some (mkmi it' L')) (MSeek i key) Hinv Ei eq_refl Hfr) as [H1 H2].
    { split; [exact Hfo|]. split; [exact Hmi'|exact Hok']. }
    split; [exact H1|]. split; [exact H2|]. split; [|exact I].
    unfold proj. cbn [ms_its fo]. rewrite map_set_nth. reflexivity.
  - (* MFree *)
    rewrite slot_proj. destruct (slot st i) as [mi|] eqn:Ei; cbn [option_map].
    2:{ exists st, OBad. split; [reflexivity|]. split; [exact Hinv|]. split; [exact Hnop|]. split; [reflexivity|exact I]. }
    destruct (Hsl i mi Ei) as [Hmi Hok].
    destruct (free_step decompress pol ib (ms_mem st) mi Hmi) as (m' & -> & Hfr & _).
    cbn [mbind]. eexists _, _. split; [reflexivity|].
    destruct (upd_inv r ib iridx nb B Rr st i mi m' None (MFree i) Hinv Ei eq_refl Hfr I) as [H1 H2].
    split; [exact H1|]. split; [exact H2|]. split; [|exact I].
    unfold proj. cbn [ms_its fo]. rewrite map_set_nth. reflexivity.
Qed.

(* ---------------------------------------------------------------- histories *)
Lemma inv_init : inv (ms_init r).
Proof.
  unfold ms_inv, ms_init, slot. cbn [ms_mem ms_its mem_init m_file]. split; [reflexivity|]. split.
  - intros i mi H. destruct i; discriminate.
  - intros i j mi mj _ H. destruct i; discriminate.
Qed.

Lemma mrun_ok : forall ops st, inv st ->
  exists st' outs, mrun' st ops = MOk (st', outs) /\ inv st' /\
                   frun decompress r (proj st) ops = Ok (proj st', map fo outs).
Proof.
  induction ops as [|op tl IH]; intros st Hinv.
  - exists st, []. split; [reflexivity|]. split; [exact Hinv|reflexivity].
  - destruct (mstep_ok st op Hinv) as (st1 & o & Hs & Hinv1 & _ & Hfs & _).
    destruct (IH st1 Hinv1) as (st2 & outs & Hr & Hinv2 & Hfr).
    exists st2, (o :: outs). cbn [mrun frun]. rewrite Hs. cbn [mbind]. rewrite Hr. cbn [mbind].
    rewrite Hfs. cbn [bind fst snd]. rewrite Hfr. cbn [bind fst snd map]. split; [reflexivity|]. split; [exact Hinv2|reflexivity].
Qed.

Lemma mrun_app : forall a b st,
  mrun' st (a ++ b) =
  mbind (mrun' st a) (fun x => mbind (mrun' (fst x) b) (fun y => MOk (fst y, snd x ++ snd y))).
Proof.
  induction a as [|op a IH]; intros b st.
  - cbn. destruct (mrun' st b) as [[st2 o2]| |]; reflexivity.
  - cbn [app mrun]. destruct (mstep' st op) as [[st1 o]| |]; cbn [mbind]; try reflexivity.
    rewrite IH. destruct (mrun' st1 a) as [[st2 o2]| |]; cbn [mbind fst snd]; try reflexivity.
    destruct (mrun' st2 b) as [[st3 o3]| |]; reflexivity.
Qed.

(* the states of the machine: any interleaved history from the freshly opened reader *)
Definition reachable (st : mstate) : Prop := exists ops outs, mrun' (ms_init r) ops = MOk (st, outs).

Lemma reachable_inv st : reachable st -> inv st.
Proof.
  intros (ops & outs & H). destruct (mrun_ok ops (ms_init r) inv_init) as (st' & outs' & H' & Hinv & _).
  rewrite H in H'. inversion H'; subst. exact Hinv.
Qed.

(* M1: refinement.  Every history runs without memory fault (and without functional error);
   the functional components are the iterators of the functional model after the same
   history, with the same answers; the addresses handed out by the last call, if it is a
   successful next, dereference (in the memory right after the call) to the key and the
   value the functional model returns.  [ops] ranges over all histories, so this covers
   every call of every history. *)
Theorem M1 : forall ops, exists st outs,
  mrun' (ms_init r) ops = MOk (st, outs) /\
  frun decompress r [] ops = Ok (proj st, map fo outs) /\
  match last outs OBad with
  | ONext (NOk ka kl va vl e) =>
      deref (ms_mem st) ka kl = Some (fst e) /\ deref (ms_mem st) va vl = Some (snd e)
  | _ => True
  end.
Proof.
  intros ops. destruct (mrun_ok ops (ms_init r) inv_init) as (st & outs & Hr & Hinv & Hfr).
  exists st, outs. split; [exact Hr|]. split; [exact Hfr|].
  destruct (rev_case' ops) as [->|(ops0 & op & ->)].
  - cbn in Hr. inversion Hr; subst. exact I.
  - destruct (mrun_ok ops0 (ms_init r) inv_init) as (st0 & outs0 & Hr0 & Hinv0 & _).
    destruct (mstep_ok st0 op Hinv0) as (st1 & o & Hs & _ & _ & _ & Hout).
    rewrite mrun_app, Hr0 in Hr. cbn [mbind fst snd mrun] in Hr. rewrite Hs in Hr. cbn [mbind fst snd] in Hr.
    inversion Hr; subst. rewrite last_last. destruct o as [| |[|ka kl va vl e]| |]; try exact I.
    destruct Hout as (i & mi' & _ & _ & H1 & H2 & _). split; assumption.
Qed.

(* M2: frame / non-interference.  In every reachable state the ownership sets of distinct
   live iterators are disjoint and every owned buffer is live; every operation succeeds,
   leaves the file alone, changes (rewrites or frees) among the existing buffers only ones
   owned by the iterator it acts on (creation: none at all), and leaves every other
   iterator - its state and the content of each of its buffers - exactly as it was. *)
Theorem M2 : forall st, reachable st ->
  (forall i j mi mj, i <> j -> slot st i = Some mi -> slot st j = Some mj ->
     forall id, In id (owns mi) -> ~ In id (owns mj)) /\
  (forall i mi id, slot st i = Some mi -> In id (owns mi) -> live (ms_mem st) id <> None) /\
  forall op, exists st' o, mstep' st op = MOk (st', o) /\
    m_file (ms_mem st') = m_file (ms_mem st) /\
    (forall id, (id < m_next (ms_mem st))%nat -> hg (ms_mem st') id <> hg (ms_mem st) id ->
       exists i mi, target op = Some i /\ slot st i = Some mi /\ In id (owns mi)) /\
    (forall j mj, target op <> Some j -> slot st j = Some mj ->
       slot st' j = Some mj /\ forall id, In id (owns mj) -> hg (ms_mem st') id = hg (ms_mem st) id).
Proof.
  intros st Hre. pose proof (reachable_inv st Hre) as Hinv. pose proof Hinv as (Hfile & Hsl & Hdj).
  split; [exact Hdj|]. split.
  { intros i mi id Hi Hid. destruct (Hsl i mi Hi) as [(_ & Hlv & _) _]. apply (Hlv id Hid). }
  intros op. destruct (mstep_ok st op Hinv) as (st' & o & Hs & _ & (Hf & Hn & Hh & Hslots) & _ & _).
  exists st', o. split; [exact Hs|]. split; [exact Hf|]. split.
  - intros id Hid Hne. destruct (target op) as [i|] eqn:Et.
    + destruct (slot st i) as [mi|] eqn:Ei.
      * destruct (in_dec Nat.eq_dec id (owns mi)) as [Hin|Hnin]; [exists i, mi; auto|].
        exfalso. apply Hne. apply Hh; [exact Hid|]. intros i0 mi0 E0 Hi0. inversion E0; subst i0.
        rewrite Ei in Hi0. inversion Hi0; subst. exact Hnin.
      * exfalso. apply Hne. apply Hh; [exact Hid|]. intros i0 mi0 E0 Hi0. inversion E0; subst i0. congruence.
    + exfalso. apply Hne. apply Hh; [exact Hid|]. intros i0 mi0 E0. discriminate.
  - intros j mj Hj Hsj. split.
    + rewrite (Hslots j Hj (nth_some_lt _ _ _ Hsj)). exact Hsj.
    + intros id Hid. apply Hh.
      * apply (owned_lt ib _ mj id (proj1 (Hsl j mj Hsj)) Hid).
      * intros i mi Et Hi. apply (Hdj j i mj mi); [congruence|exact Hsj|exact Hi|exact Hid].
Qed.

(* M3: stability of what next handed out.  After a successful next on iterator i, any
   sequence of operations none of which acts on iterator i - next / seek / free on other
   iterators, creation of new ones - leaves the key and value bytes readable, unchanged,
   at the addresses that were handed out. *)
Theorem M3 : forall st, reachable st ->
  forall i st1 ka kl va vl e,
  mstep' st (MNext i) = MOk (st1, ONext (NOk ka kl va vl e)) ->
  forall ops, Forall (not_on i) ops ->
  forall st2 outs, mrun' st1 ops = MOk (st2, outs) ->
  deref (ms_mem st2) ka kl = Some (fst e) /\ deref (ms_mem st2) va vl = Some (snd e).
Proof.
  intros st Hre i st1 ka kl va vl e Hs ops Hops st2 outs Hr.
  pose proof (reachable_inv st Hre) as Hinv.
  destruct (mstep_ok st (MNext i) Hinv) as (st1' & o & Hs' & Hinv1 & _ & _ & Hout).
  rewrite Hs in Hs'. inversion Hs'; subst st1' o. clear Hs'.
  destruct Hout as (i0 & mi' & E & Hi & Hd1 & Hd2 & Ha1 & Ha2). inversion E; subst i0. clear E.
  (* generalise: the state after any prefix keeps slot i and the content of its buffers *)
  assert (G : forall ops st1, inv st1 -> slot st1 i = Some mi' -> Forall (not_on i) ops ->
              forall st2 outs, mrun' st1 ops = MOk (st2, outs) ->
              m_file (ms_mem st2) = m_file (ms_mem st1) /\
              forall id, In id (owns mi') -> hg (ms_mem st2) id = hg (ms_mem st1) id).
  { clear - T. induction ops as [|op tl IH]; intros st1 Hinv1 Hi Hops st2 outs Hr.
    - cbn in Hr. inversion Hr; subst. split; reflexivity.
    - inversion Hops as [|? ? Hop Htl]; subst.
      destruct (mstep_ok st1 op Hinv1) as (sta & o & Hs & Hinva & (Hf & Hn & Hh & Hslots) & _ & _).
      cbn [mrun] in Hr. rewrite Hs in Hr. cbn [mbind] in Hr.
      destruct (mrun' sta tl) as [[stb os]| |] eqn:Hrb; cbn [mbind] in Hr; try discriminate.
      inversion Hr; subst stb outs. clear Hr.
      pose proof Hinv1 as (_ & Hsl & Hdj).
      assert (Ht : target op <> Some i).
      { destruct op; cbn in *; congruence. }
      assert (Hia : slot sta i = Some mi').
      { rewrite (Hslots i Ht (nth_some_lt _ _ _ Hi)). exact Hi. }
      destruct (IH sta Hinva Hia Htl st2 os Hrb) as [Hf2 Hh2]. split; [congruence|].
      intros id Hid. rewrite (Hh2 id Hid). apply Hh.
      + apply (owned_lt ib _ mi' id (proj1 (Hsl i mi' Hi)) Hid).
      + intros j mj Et Hj. apply (Hdj i j mi' mj); [congruence|exact Hi|exact Hj|exact Hid]. }
  destruct (G ops st1 Hinv1 Hi Hops st2 outs Hr) as [Hf Hh].
  rewrite (deref_frame (ms_mem st1) (ms_mem st2) ka kl (owns mi') Hf Hh Ha1).
  rewrite (deref_frame (ms_mem st1) (ms_mem st2) va vl (owns mi') Hf Hh Ha2).
  split; assumption.
Qed.

(* addendum to M2: destroying an iterator frees every buffer it owns (each exactly once - a
   double free would be a fault), so iterators do not leak *)
Theorem M2_free_all : forall st, reachable st -> forall i mi, slot st i = Some mi ->
  exists st', mstep' st (MFree i) = MOk (st', OFree) /\ slot st' i = None /\
              forall id, In id (owns mi) -> live (ms_mem st') id = None.
Proof.
  intros st Hre i mi Hi. pose proof (reachable_inv st Hre) as (_ & Hsl & _).
  destruct (free_step decompress pol ib (ms_mem st) mi (proj1 (Hsl i mi Hi))) as (m' & E & _ & Hall).
  cbn [mstep]. rewrite Hi, E. cbn [mbind]. eexists. split; [reflexivity|]. split.
  - unfold slot. cbn [ms_its]. apply nth_set_nth_same. exact (nth_some_lt _ _ _ Hi).
  - intros id Hid. cbn [ms_mem]. rewrite live_hg, (Hall id Hid). reflexivity.
Qed.
End C03Mem.

Print Assumptions M1.
Print Assumptions M2.
Print Assumptions M3.
Print Assumptions M2_free_all.

(* ---------------------------------------------------------------- concrete runs *)
(* a table written by the writer model: four entries, 30-byte values, block size 64 ->
   three data blocks; compression NONE, or algorithm 1 with the identity "store"
   compressor / decompressor (block contents then live in malloc'ed buffers) *)
Definition ex_idc : N -> bytes -> res bytes := fun _ s => Ok s.
Definition ex_idl : N -> Z -> bytes -> res bytes := fun _ _ s => Ok s.
Definition ex_es : list entry :=
  [([97], repeat 120 30); ([97; 98], repeat 121 30); ([98], repeat 122 30); ([98; 0], [7])].
Definition ex_tbl (comp : N) : bytes :=
  match writer_session ex_idc ex_idl (mkwopts comp (-10000)%Z 64 2) 0 ex_es with
  | Ok (w, _) => writer_bytes w | _ => [] end.
Definition ex_rd (comp : N) : option reader :=
  match fst (reader_open (ex_tbl comp) false) with Ok (Some r) => Some r | _ => None end.
(* realloc policies: never move / always move when the key has more than one byte *)
Definition pol_stay : mem -> nat -> bytes -> bool := fun _ _ _ => false.
Definition pol_move : mem -> nat -> bytes -> bool := fun _ _ c => 1 <? len c.

Definition bytes_eqb (a b : bytes) : bool := (length a =? length b)%nat && forallb (fun p => fst p =? snd p) (combine a b).
Definition obytes_is (o : option bytes) (b : bytes) : bool := match o with Some a => bytes_eqb a b | None => false end.

(* run [pre], then MNext i (must succeed), then [post]: what the addresses handed out by that
   next dereference to at the end; None if anything went wrong *)
Definition ex_after (comp : N) (pol : mem -> nat -> bytes -> bool) (pre : list mop) (i : nat) (post : list mop)
  : option (entry * option bytes * option bytes) :=
  match ex_rd comp with
  | None => None
  | Some r =>
    match mrun ex_idc pol r (ms_init r) pre with
    | MOk (st, _) =>
      match mstep ex_idc pol r st (MNext i) with
      | MOk (st1, ONext (NOk ka kl va vl e)) =>
        match mrun ex_idc pol r st1 post with
        | MOk (st2, _) => Some (e, deref (ms_mem st2) ka kl, deref (ms_mem st2) va vl)
        | _ => None
        end
      | _ => None
      end
    | _ => None
    end
  end.
Definition ex_stable comp pol pre i post : bool :=
  match ex_after comp pol pre i post with
  | Some (e, k, v) => obytes_is k (fst e) && obytes_is v (snd e)
  | None => false
  end.

(* the functional answers of two interleaved iterators, both tables, both policies *)
Definition ex_ops : list mop :=
  [MNew KIter [] []; MNext 0; MNew KGet [98] [98]; MNext 1; MNext 0; MSeek 1 [97; 98]; MNext 1;
   MNext 0; MFree 1; MNext 0; MNext 0; MFree 0; MNext 0].
Definition ex_answers (comp : N) (pol : mem -> nat -> bytes -> bool) : option (list fout) :=
  match ex_rd comp with
  | Some r => match mrun ex_idc pol r (ms_init r) ex_ops with MOk (_, outs) => Some (map fo outs) | _ => None end
  | None => None
  end.
Definition ex_expected : list fout :=
  [FNew true; FNext (Some ([97], repeat 120 30)); FNew true; FNext (Some ([98], repeat 122 30));
   FNext (Some ([97; 98], repeat 121 30)); FSeek true; FNext None;
   FNext (Some ([98], repeat 122 30)); FFree; FNext (Some ([98; 0], [7])); FNext None; FFree; FBad].
Example ex_interleaved :
  ex_answers 0 pol_stay = Some ex_expected /\ ex_answers 0 pol_move = Some ex_expected /\
  ex_answers 1 pol_stay = Some ex_expected /\ ex_answers 1 pol_move = Some ex_expected.
Proof. vm_compute. repeat split. Qed.

(* M3 on the concrete tables: what iterator 0 got from next survives creation, next (with block
   switches), seek and destruction of iterator 1 *)
Definition ex_others : list mop :=
  [MNew KIter [] []; MNext 1; MNext 1; MNext 1; MSeek 1 [97]; MNext 1; MNew KRange [97] [98]; MNext 2; MFree 1; MNext 2; MFree 2].
Example ex_M3_instances :
  ex_stable 0 pol_stay [MNew KIter [] []] 0 ex_others = true /\
  ex_stable 0 pol_move [MNew KIter [] []; MNext 0] 0 ex_others = true /\
  ex_stable 1 pol_stay [MNew KIter [] []; MNext 0] 0 ex_others = true /\
  ex_stable 1 pol_move [MNew KPrefix [97] [97]; MNext 0] 0 ex_others = true.
Proof. vm_compute. repeat split. Qed.

(* the model is not permissive.  Compressed table: right after the call the addresses read the
   entry; after ONE further next on the same iterator, which leaves the block, the old value
   address (inside the freed decompressed buffer) and the old key address (the ubuf of the
   destroyed block_iter) are no longer readable *)
Example M3_negative_compressed :
  ex_after 1 pol_stay [MNew KIter [] []] 0 [] = Some (([97], repeat 120 30), Some [97], Some (repeat 120 30)) /\
  ex_after 1 pol_stay [MNew KIter [] []] 0 [MNext 0] = Some (([97], repeat 120 30), None, None).
Proof. vm_compute. split; reflexivity. Qed.

(* uncompressed table: a next inside the same block that makes the key ubuf grow and move
   (realloc) kills the old key address; the value address points into the mapping and survives.
   A seek that rewrites the key in place with a shorter key also invalidates the old (address,
   length); and freeing the iterator kills everything it owned *)
Example M3_negative_others :
  ex_after 0 pol_move [MNew KIter [] []; MNext 0; MNext 0] 0 [MNext 0]
    = Some (([98], repeat 122 30), None, Some (repeat 122 30)) /\
  ex_after 0 pol_stay [MNew KIter [] []; MNext 0; MNext 0; MNext 0] 0 [MSeek 0 [98]]
    = Some (([98; 0], [7]), None, Some [7]) /\
  ex_after 1 pol_stay [MNew KIter [] []; MNext 0; MNext 0] 0 [MFree 0]
    = Some (([98], repeat 122 30), None, None).
Proof. vm_compute. repeat split. Qed.
