(* Extraction of the executable model to OCaml.  ExtrOcamlBasic only: bool,
   option, unit, list, prod, sumbool map to OCaml's; N / positive / nat / string
   stay the Coq inductives (no Extract Constant, no native integers). *)
From Coq Require Import Extraction ExtrOcamlBasic.
From Mtbl Require Import gen.Consts gen.CrcTables model.Bytes model.Codec model.Order model.Crc model.Block model.Writer model.WriteLoop model.WriteLoopErrno model.Reader model.IterMem model.Verify model.OpenModel model.Tools model.ToolsMerge model.Compress model.Heap model.Merger model.Sorter model.Fileset model.Setfile model.FilesetPart model.Ledger model.Pool model.ResCore model.ResT1 model.ResSorter model.ResFileset model.Resources spec.Leb128 spec.Parse spec.TableCheck spec.Encode proofs.PoolLife proofs.PoolFairEx.
Extraction Language OCaml.
Set Extraction KeepSingleton.
Extraction "mtbl_model.ml"
  varint_length varint_length_packed varint_encode32 varint_encode64
  varint_decode32 varint_decode64 fixed_encode32 fixed_encode64 fixed_decode32 fixed_decode64
  bcmp sep lcp is_prefix crc32c_ref crc_slicing crc_sse42
  writer_session writer_init writer_add writer_finish writer_chunks writer_bytes clamp_block_size clamp_restart_interval metadata_read metadata_write
  write_chunks write_all error_met write_chunks_e strip_e
  frun fs_init fstate_after setfile_names loaded_names fileset_partition parity_cb ledger footprint lrun rrun obs heap_live wf_history all_destroyedb oc_default rl_none
  pool_init pstep pspurious enabled_set gett prog_wf prog_wf_weak wake_fairb sched_fairb terminalb
  sorter_init sorter_add sorter_iter sorter_next
  merger_iter_make merger_next merger_seek first_ge_from
  verify_file compression_type_to_str compression_type_from_str zlib_level lz4hc_level zstd_level
  lz4_bound zstd_bound snappy_bound zstd_capacity inflate_cap0 plan_compress default_level wrapper_compress_level wrapper_compress wrapper_decompress
  mrun ms_init reader_open reader_iter reader_get reader_get_prefix reader_get_range reader_iter_seek reader_iter_next
  dump_line_hex dump_line_text dump_keep info_model merge_tool_model merge_tool_run writer_init_path reader_init_path fs_get
  parse_table wf_validate table_entries table_check encode_table layout_ok
  DEFAULT_COMPRESSION_TYPE DEFAULT_COMPRESSION_LEVEL DEFAULT_BLOCK_SIZE DEFAULT_BLOCK_RESTART_INTERVAL
  MERGE_TOOL_DEFAULT_BLOCK_SIZE MERGE_TOOL_DEFAULT_COMPRESSION.
