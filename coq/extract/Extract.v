(* Extraction of the executable model to OCaml.  ExtrOcamlBasic only: bool,
   option, unit, list, prod, sumbool map to OCaml's; N / positive / nat / string
   stay the Coq inductives (no Extract Constant, no native integers). *)
From Coq Require Import Extraction ExtrOcamlBasic.
From Mtbl Require Import gen.Consts gen.CrcTables model.Bytes model.Codec.
Extraction Language OCaml.
Set Extraction KeepSingleton.
Extraction "mtbl_model.ml"
  varint_length varint_length_packed varint_encode32 varint_encode64
  varint_decode32 varint_decode64 fixed_encode32 fixed_encode64 fixed_decode32 fixed_decode64.
