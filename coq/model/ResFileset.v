(* C18 operational resource model, tier 3: fileset.c and libmy/my_fileset.c.
   A fileset handle (struct mtbl_fileset) and the shared part (struct shared_fileset with its
   my_fileset) are two objects: handles come and go (init, dup, destroy) in any order, the
   shared part lives until the last handle is destroyed.
   Assumptions: the lines of a setfile are distinct; no filename / reader filter is set. *)
From Coq Require Import NArith List Bool.
From Mtbl Require Import model.ResCore model.ResT1.
Import ListNotations.
Local Open Scope N_scope.

(* ---------- my_fileset.c ---------- *)
(* an entry of the my_fileset: does it hold a reader (true) or NULL, the file not being a table *)
Definition fp_entry (r : bool) : list rkind := HFsEntry :: (if r then fp_reader RTable else []).
Definition fp_entries (l : list bool) : list rkind := flat_map fp_entry l.

(* what my_fileset_reload finds *)
Record rl := mkrl {
  rl_due : bool;                           (* mtbl_fileset_reload: the reload interval has elapsed *)
  rl_changed : bool;                       (* setfile_updated() and fopen succeed *)
  rl_keep : list bool;                     (* for each current entry: its line is still there and the file exists *)
  rl_added : list (bool * rd_outcome)      (* new lines whose file exists: open succeeds, outcome of the reader *)
}.
Definition rl_none : rl := mkrl false false [] [].

Definition loaded (a : bool * rd_outcome) : bool :=
  fst a && match snd a with RdOk => true | _ => false end.

(* entries paired with their keep flag (no flag: the line is gone) *)
Fixpoint zip_keep (entries keep : list bool) : list (bool * bool) :=
  match entries with
  | [] => []
  | r :: t => match keep with
              | [] => (r, false) :: zip_keep t []
              | k :: kt => (r, k) :: zip_keep t kt
              end
  end.
Definition kept (z : list (bool * bool)) : list bool := map fst (filter snd z).

(* fs_unload: mtbl_reader_destroy (NULL-safe) *)
Definition unload_code (r : bool) : list ev := if r then reader_destroy_code RTable else [].

(* my_fileset_reload: events, new entries, n_loaded, n_unloaded *)
Definition my_reload_code (entries : list bool) (p : rl) : list ev * list bool * N * N :=
  if rl_changed p then
    let z := zip_keep entries (rl_keep p) in
    (acq HEntryVec                                                           (* new_entries *)
     ++ flat_map (fun rk : bool * bool => when (snd rk) (acq HFsEntry)) z   (* a kept line: new entry, same ptr *)
     ++ flat_map (fun a => acq HFsEntry ++ reader_init_code (fst a) (snd a)) (rl_added p)   (* fs_load *)
     ++ flat_map (fun rk : bool * bool => when (negb (snd rk)) (unload_code (fst rk)) ++ rel HFsEntry) z
     ++ rel HEntryVec,                                                       (* entry_vec_destroy(&fs->entries) *)
     kept z ++ map loaded (rl_added p),
     N.of_nat (length (rl_added p)),
     N.of_nat (length (filter (fun rk : bool * bool => negb (snd rk)) z)))
  else ([], entries, 0, 0).

(* my_fileset_destroy *)
Definition my_destroy_code (entries : list bool) : list ev :=
  flat_map (fun r => unload_code r ++ rel HFsEntry) entries ++ rel HEntryVec ++ rel HMyFileset.

(* ---------- fileset.c ---------- *)
Record shst := mksh {
  sh_handles : N;        (* n_fs *)
  sh_iters : N;          (* n_iters *)
  sh_needed : bool;      (* reload_needed *)
  sh_stamp : N;          (* fs_last, as a counter *)
  sh_entries : list bool
}.
Record fst_ := mkf {
  f_shared : N;          (* id of the shared part *)
  f_stamp : N            (* f->fs_last *)
}.
Definition fp_shared (s : shst) : list rkind :=
  [HSharedFs; HMyFileset; HEntryVec] ++ fp_entries (sh_entries s).
Definition fp_handle : list rkind := [HFileset; HMergerOpts] ++ fp_merger ++ [HSource].

(* mtbl_fileset_set_options *)
Definition set_options_code : list ev := acq HMergerOpts ++ merger_init_code ++ acq HSource.
(* mtbl_fileset_init, the handle's part and the shared part *)
Definition fileset_init_hcode : list ev := acq HFileset ++ set_options_code.
Definition fileset_init_scode : list ev := acq HSharedFs ++ acq HMyFileset ++ acq HEntryVec (* my_fileset_init *).
Definition shared_init_st : shst := mksh 1 0 true 0 [].
(* mtbl_fileset_dup *)
Definition fileset_dup_hcode : list ev := acq HFileset ++ set_options_code.

(* fs_reinit_merger *)
Definition reinit_code : list ev := merger_destroy_code ++ merger_init_code.

(* mtbl_fileset_reload ([now] = false) and mtbl_fileset_reload_now ([now] = true):
   events on the handle, its new state, events on the shared part, its new state *)
Definition fileset_reload_code (now : bool) (f : fst_) (sh : shst) (p : rl) : list ev * fst_ * list ev * shst :=
  (* if our merger is from an out of date fileset, reinitialize it *)
  let e1 := when (negb (f_stamp f =? sh_stamp sh)) reinit_code in
  let f1 := mkf (f_shared f) (sh_stamp sh) in
  let skip (needed : bool) :=
    (e1, f1, [], mksh (sh_handles sh) (sh_iters sh) needed (sh_stamp sh) (sh_entries sh)) in
  let reload :=
    let '(es, ents, nl, nu) := my_reload_code (sh_entries sh) p in
    (e1 ++ when ((0 <? nl) || (0 <? nu)) reinit_code,        (* n_loaded > 0 || n_unloaded > 0 *)
     mkf (f_shared f) (sh_stamp sh + 1),
     es, mksh (sh_handles sh) (sh_iters sh) false (sh_stamp sh + 1) ents) in
  if 0 <? sh_iters sh then skip (if now then true else sh_needed sh)   (* open iterators: do not reload now *)
  else if now || sh_needed sh || rl_due p then reload
  else skip (sh_needed sh).

Fixpoint reader_subs (n : nat) (ocs : list ioc) : list (list ev * iterst * bool) :=
  match n with
  | O => []
  | S m =>
      let o := match ocs with [] => oc_default | o :: _ => o end in
      (reader_iter_code (oc_nonnull o), oc_filled o) :: reader_subs m (tl ocs)
  end.
Definition n_readers (entries : list bool) : nat := length (filter (fun r : bool => r) entries).

(* fileset_source_iter / _get / _get_prefix / _get_range after the reload: the iterator of the
   handle's merger over the loaded readers, wrapped by fileset_iter_init *)
Definition fileset_iter_icode (q : query) (entries : list bool) (oc : ioc) : list ev * iterst :=
  let '(em, inner) := merger_iter_code q (reader_subs (n_readers entries) (oc_subs oc)) in
  (em ++ acq HFilesetIter ++ acq HIter, ItFileset inner).

(* mtbl_fileset_destroy: the shared part (None: it is freed), then the handle *)
Definition fileset_destroy_scode (sh : shst) : list ev * option shst :=
  if sh_handles sh <=? 1 then
    (my_destroy_code (sh_entries sh) ++ rel HSharedFs, None)
  else ([], Some (mksh (sh_handles sh - 1) (sh_iters sh) (sh_needed sh) (sh_stamp sh) (sh_entries sh))).
Definition fileset_destroy_hcode : list ev :=
  merger_destroy_code ++ rel HMergerOpts ++ rel HSource ++ rel HFileset.
