(* C18 operational resource model, tier 2: sorter.c.  The event lists follow
   mtbl_sorter_init / _add / _mtbl_sorter_flush / _mtbl_sorter_write_chunk / mtbl_sorter_iter /
   mtbl_sorter_destroy top to bottom.  [svariant] switches back the three repairs
   7721227, 541a3d1, 650dd74 so that the old code can be run too. *)
From Coq Require Import NArith List Bool.
From Mtbl Require Import model.ResCore model.ResT1.
Import ListNotations.
Local Open Scope N_scope.

Record svariant := mkv {
  v_close_fd : bool;          (* 7721227: close(fd) after the chunk has been written *)
  v_mergefail_cleanup : bool; (* 541a3d1: merge failure frees the entries, the vector, closes fd *)
  v_iter_free_mopt : bool;    (* 650dd74: mtbl_sorter_iter frees mopt when the final flush fails *)
  v_join_first : bool         (* 6dca6c0: mtbl_sorter_destroy joins the handler before freeing the readers *)
}.
Definition v_current : svariant := mkv true true true true.

(* what happens at one iteration of the loop of _mtbl_sorter_write_chunk *)
Inductive cstep :=
| CWrite       (* the entry is added to the chunk writer and freed *)
| CMerge       (* equal keys: merge callback succeeds; ent, next_ent freed, merge_ent allocated *)
| CMergeFail.  (* equal keys: merge callback returns NULL *)

(* a pending chunk job: number of entries of the batch, outcome of its loop *)
Notation job := (N * list cstep)%type (only parsing).

Inductive smode :=
| SPlain                    (* opt.pool == NULL, or the handler has been joined *)
| SHandler                  (* a pool object without threads: handler, chunks written in line *)
| SPool (jobs : list job).  (* s->pool != NULL: batches dispatched, not yet collected *)

Record sst := mks {
  s_mode : smode;
  s_entries : N;      (* entries buffered in s->vec *)
  s_ok : N;           (* chunk readers in s->readers *)
  s_failed : N;       (* NULL pointers in s->readers: chunks whose merge failed *)
  s_iterating : bool
}.

Definition fp_batch (n : N) : list rkind := [HBatch; HEntryVec] ++ ncopies n [HSEntry].
Definition fp_job (j : job) : list rkind := fp_batch (fst j).
Definition fp_handler : list rkind := [HHandler; HResultQ; KThread].
Definition fp_sorter (s : sst) : list rkind :=
  [HSorter; HEntryVec; HReaderVec; HTmpName]
  ++ ncopies (s_entries s) [HSEntry]
  ++ ncopies (s_ok s) (fp_reader RTable)
  ++ match s_mode s with
     | SPlain => []
     | SHandler => fp_handler
     | SPool jobs => fp_handler ++ flat_map fp_job jobs
     end.

Definition s_has_handler (m : smode) : bool := match m with SPlain => false | _ => true end.

(* mtbl_sorter_init (opt != NULL) *)
Definition sorter_init_code (m : smode) : list ev :=
  acq HSorter ++ acq HTmpName (* strdup *) ++ acq HEntryVec ++ acq HReaderVec
  ++ when (s_has_handler m) handler_init_code.
Definition sorter_init_st (m : smode) : sst :=
  mks (match m with SPool _ => SPool [] | _ => m end) 0 0 0 false.

(* the loop of _mtbl_sorter_write_chunk over [rem] remaining vector slots.
   Returns the events and whether the loop completed (false: merge failure).
   (mtbl_writer_add on the chunk writer cannot be refused: keys are sorted, equal keys merged;
    its block flushes acquire and release a data block in line and are left out.) *)
Fixpoint chunk_loop (v : svariant) (rem : nat) (steps : list cstep) : list ev * bool :=
  match rem with
  | O => ([], true)
  | S r =>
      let write t := let '(e, ok) := chunk_loop v r t in (rel HSEntry (* free(ent) *) ++ e, ok) in
      match steps with
      | [] => write []
      | CWrite :: t => write t
      | CMerge :: t =>
          match r with
          | O => write t        (* last slot: there is no next entry *)
          | S _ => let '(e, ok) := chunk_loop v r t in
                   (acq HSEntry (* merge_ent *) ++ rel HSEntry ++ rel HSEntry ++ e, ok)
          end
      | CMergeFail :: t =>
          match r with
          | O => write t
          | S _ => (when (v_mergefail_cleanup v) (times rem (rel HSEntry)), false)
          end
      end
  end.

(* _mtbl_sorter_write_chunk on a batch of [n] entries; returns whether a reader results *)
Definition chunk_code (v : svariant) (n : N) (steps : list cstep) : list ev * bool :=
  let '(el, ok) := chunk_loop v (N.to_nat n) steps in
  let pre := acq KFd ++ acq KTmp (* mkstemp *) ++ rel KTmp (* unlink *)
             ++ acq HWriterOpts ++ writer_init_fd_code WPlain ++ rel HWriterOpts in
  if ok then
    (pre ++ el
     ++ writer_destroy_code (mkw WPlain true) ++ rel HEntryVec ++ rel HBatch
     ++ reader_init_fd_code RdOk                    (* the file just written is a table *)
     ++ when (v_close_fd v) (rel KFd), true)
  else
    (pre ++ el                                      (* ... for (j = i; ...) free(entries[j]) *)
     ++ when (v_mergefail_cleanup v) (rel HEntryVec)
     ++ rel HBatch
     ++ writer_destroy_code (mkw WPlain true)
     ++ when (v_mergefail_cleanup v) (rel KFd), false).

(* the result of a chunk is appended to s->readers (a NULL pointer when it failed) *)
Definition add_result (s : sst) (m : smode) (entries : N) (ok : bool) : sst :=
  mks m entries (if ok then s_ok s + 1 else s_ok s) (if ok then s_failed s else s_failed s + 1) (s_iterating s).

(* _mtbl_sorter_flush (with _mtbl_sorter_get_entry_batch): events, new state, result,
   whether a job was dispatched *)
Definition flush_code (v : svariant) (s : sst) (steps : list cstep) : list ev * sst * bool * bool :=
  let pre := acq HBatch ++ acq HEntryVec (* the new s->vec; the old one now belongs to the batch *) in
  match s_mode s with
  | SPool jobs =>
      (pre, mks (SPool (jobs ++ [(s_entries s, steps)])) 0 (s_ok s) (s_failed s) (s_iterating s), true, true)
  | m =>
      let '(ec, ok) := chunk_code v (s_entries s) steps in
      (pre ++ ec, add_result s m 0 ok, ok, false)
  end.

(* mtbl_sorter_add; [spill]: the memory limit is reached, with the outcome of the chunk loop *)
Definition sorter_add_code (v : svariant) (s : sst) (spill : option (list cstep)) : list ev * sst * bool :=
  if s_iterating s then ([], s, false)
  else
    let s1 := mks (s_mode s) (s_entries s + 1) (s_ok s) (s_failed s) false in
    match spill with
    | None => (acq HSEntry, s1, false)
    | Some steps => let '(e, s2, _, d) := flush_code v s1 steps in (acq HSEntry ++ e, s2, d)
    end.

(* one pending job runs in a worker and its result is collected (_collect_readers_cb) *)
Definition sorter_job_code (v : svariant) (s : sst) : list ev * sst :=
  match s_mode s with
  | SPool (j :: t) =>
      let '(ec, ok) := chunk_code v (fst j) (snd j) in (ec, add_result s (SPool t) (s_entries s) ok)
  | _ => ([], s)
  end.

(* all pending jobs: events, readers produced, failures *)
Fixpoint run_jobs (v : svariant) (jobs : list job) : list ev * N * N :=
  match jobs with
  | [] => ([], 0, 0)
  | j :: t =>
      let '(ec, ok) := chunk_code v (fst j) (snd j) in
      let '(et, o, f) := run_jobs v t in
      (ec ++ et, (if ok then o + 1 else o), (if ok then f else f + 1))
  end.

(* result_handler_destroy(&s->rhandler): every pending job completes and is collected *)
Definition sorter_join (v : svariant) (s : sst) : list ev * sst :=
  match s_mode s with
  | SPlain => ([], s)
  | SHandler => (handler_destroy_code true [], mks SPlain (s_entries s) (s_ok s) (s_failed s) (s_iterating s))
  | SPool jobs =>
      let '(ej, o, f) := run_jobs v jobs in
      (handler_destroy_code true ej, mks SPlain (s_entries s) (s_ok s + o) (s_failed s + f) (s_iterating s))
  end.

(* mtbl_sorter_iter, the part acting on the sorter: final flush, then result_handler_destroy.
   Returns events, new state, whether the flush succeeded, whether a job was dispatched. *)
Definition sorter_iter_scode (v : svariant) (s : sst) (steps : list cstep) : list ev * sst * bool * bool :=
  let '(ef, s1, ok, d) :=
    if 0 <? s_entries s then flush_code v s steps else ([], s, true, false) in
  if ok then
    let '(ej, s2) := sorter_join v s1 in
    (ef ++ ej, mks (s_mode s2) (s_entries s2) (s_ok s2) (s_failed s2) true, true, d)
  else (ef, s1, false, d).

(* iterators over the [n] chunk readers, for the merger of mtbl_sorter_iter *)
Fixpoint chunk_subs (n : nat) (ocs : list ioc) : list (list ev * iterst * bool) :=
  match n with
  | O => []
  | S m =>
      let o := match ocs with [] => oc_default | o :: _ => o end in
      (reader_iter_code (oc_nonnull o), oc_filled o) :: chunk_subs m (tl ocs)
  end.

(* mtbl_sorter_iter, the part that builds the iterator (owned by the new iterator object) *)
Definition sorter_iter_icode (v : svariant) (flush_ok : bool) (n_readers : N) (oc : ioc) : list ev * iterst :=
  let pre := acq HSorterIter ++ acq HMergerOpts in
  if flush_ok then
    let '(em, inner) := merger_iter_code QIter (chunk_subs (N.to_nat n_readers) (oc_subs oc)) in
    (pre ++ merger_init_code ++ rel HMergerOpts
     ++ em                                     (* mtbl_source_iter(mtbl_merger_source(it->m)) *)
     ++ acq HIter, ItSorter inner)
  else
    (pre ++ when (v_iter_free_mopt v) (rel HMergerOpts) ++ rel HSorterIter, ItNull).

(* mtbl_sorter_destroy *)
Definition sorter_destroy_code (v : svariant) (s : sst) : list ev :=
  let '(ej, s1) := sorter_join v s in
  let free_rest (ok : N) :=
    ntimes (s_entries s) (rel HSEntry) ++ rel HEntryVec
    ++ ntimes ok (reader_destroy_code RTable)   (* mtbl_reader_destroy on every non-NULL reader *)
    ++ rel HReaderVec in
  (if v_join_first v then ej ++ free_rest (s_ok s1) else free_rest (s_ok s) ++ ej)
  ++ rel HTmpName ++ rel HSorter.
