(* Resource ledger (C18): every API operation's effect on the process-level resources
   that must be gone once every object is destroyed.  Objects are numbered; the ledger is
   the sum of the footprints of the live objects. *)
From Mtbl Require Import model.Bytes.
Local Open Scope N_scope.

Inductive okind :=
| KPool (threads : N)            (* worker threads are created lazily, at most [threads] *)
| KWriter (pooled : bool)        (* one descriptor (dup of the caller's); pooled: + one handler thread until closed *)
| KReader (is_table : bool)      (* a table: one mapping; not a table: NULL, nothing *)
| KIter                          (* borrows from its source; owns only heap *)
| KMerger
| KSorter (pooled : bool) (chunks : N)   (* one mapping per spilled chunk (the temp file is already unlinked and its descriptor closed) *)
| KFileset (readers : N)         (* one mapping per loaded table file *)
| KDup.

Record led := mkled { l_fds : N; l_maps : N; l_tmpfiles : N; l_handler_threads : N }.
Definition led0 := mkled 0 0 0 0.
Definition led_add (a b : led) : led :=
  mkled (l_fds a + l_fds b) (l_maps a + l_maps b) (l_tmpfiles a + l_tmpfiles b) (l_handler_threads a + l_handler_threads b).

Definition footprint (k : okind) : led :=
  match k with
  | KPool _ => led0
  | KWriter pooled => mkled 1 0 0 (if pooled then 1 else 0)
  | KReader true => mkled 0 1 0 0
  | KReader false => led0
  | KIter => led0
  | KMerger => led0
  | KSorter pooled chunks => mkled 0 chunks 0 (if pooled then 1 else 0)
  | KFileset readers => mkled 0 readers 0 0
  | KDup => led0
  end.

(* the live objects: (id, kind) *)
Definition live := list (N * okind).
Definition ledger (l : live) : led := fold_right (fun o acc => led_add (footprint (snd o)) acc) led0 l.

Inductive lop :=
| LCreate (id : N) (k : okind)
| LUpdate (id : N) (k : okind)     (* e.g. a sorter spilled another chunk, a fileset reloaded *)
| LDestroy (id : N).

Definition lstep (l : live) (o : lop) : live :=
  match o with
  | LCreate id k => (id, k) :: l
  | LUpdate id k => map (fun p => if fst p =? id then (id, k) else p) l
  | LDestroy id => filter (fun p => negb (fst p =? id)) l
  end.
Definition lrun (ops : list lop) : live := fold_left lstep ops [].
