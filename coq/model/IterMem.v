(* Memory-level model of the reader iterators of mtbl/reader.c + mtbl/block.c + libmy/ubuf.h.
   model/Reader.v says WHAT an iterator computes; this file says WHERE the bytes it hands
   out live, which buffers are allocated, rewritten and freed by each call, so that the
   clauses of property C03 "whatever is done to other iterators of the same reader" and
   "the key/value buffers handed out stay intact until the next call on that iterator"
   become statements that can fail (proofs/IterMemProofs.v shows they hold).

   Memory: the mapped file (immutable) and a heap of malloc'ed buffers.  Buffer ids are
   never reused (a counter), free marks a buffer dead, every access to a dead or unknown
   buffer is a fault, and so is a double free.

   What is tracked per iterator (struct reader_iter):
     index_iter->key->_v   the ubuf of the index block_iter            (ml_ikey)
     bi->key->_v           the ubuf of the data block_iter, if bi != 0  (ml_blk, 1st)
     b->data, b->size      the block contents: AFile off (needs_free = false, points into
                           the mapping) or AHeap id 0 (needs_free = true, the buffer
                           malloc'ed by mtbl_decompress)                (ml_blk, 2nd, 3rd)
     k->_v                 the ubuf of the bound key (get / prefix / range) (ml_k)
   The fixed-size structs themselves (reader_iter, block, block_iter, ubuf header) are
   allocated and freed together with these and are never handed out; they are not tracked.

   ubuf growth: ubuf_append -> ubuf_reserve may realloc (and ubuf_reset may shrink with
   realloc); whether realloc moves the buffer is up to the allocator.  [pol] decides, for
   every rewrite of a key ubuf, whether it happens in place (same id, new content) or
   moves (fresh id, old id freed).  Everything is proved for an arbitrary [pol]. *)
From Coq Require Import ZArith.
From Mtbl Require Import gen.Consts model.Bytes model.Codec model.Order model.Crc model.Writer
  spec.Leb128 spec.Parse model.Reader.
Local Open Scope N_scope.

(* ------------------------------------------------------------------ memory *)
Inductive addr := AFile (off : N) | AHeap (id : nat) (off : N).

Definition heap := list (nat * option bytes).     (* newest binding first; None = freed *)
Record mem := mkmem { m_file : bytes; m_heap : heap; m_next : nat }.

Fixpoint hget (h : heap) (id : nat) : option (option bytes) :=
  match h with
  | [] => None
  | (i, v) :: tl => if Nat.eqb i id then Some v else hget tl id
  end.

(* content of a live buffer *)
Definition live (m : mem) (id : nat) : option bytes :=
  match hget (m_heap m) id with Some (Some c) => Some c | _ => None end.

Definition mem_init (file : bytes) : mem := mkmem file [] 0.

(* malloc + fill *)
Definition alloc (m : mem) (c : bytes) : mem * nat :=
  (mkmem (m_file m) ((m_next m, Some c) :: m_heap m) (S (m_next m)), m_next m).

(* overwrite the content of a live buffer *)
Definition mwrite (m : mem) (id : nat) (c : bytes) : option mem :=
  match live m id with
  | Some _ => Some (mkmem (m_file m) ((id, Some c) :: m_heap m) (m_next m))
  | None => None
  end.

(* free: a fault when the buffer is not live (double free, wild free) *)
Definition mfree (m : mem) (id : nat) : option mem :=
  match live m id with
  | Some _ => Some (mkmem (m_file m) ((id, None) :: m_heap m) (m_next m))
  | None => None
  end.

Definition deref (m : mem) (a : addr) (n : N) : option bytes :=
  match a with
  | AFile off => slice (m_file m) off n
  | AHeap id off => match live m id with Some c => slice c off n | None => None end
  end.

Definition addr_add (a : addr) (d : N) : addr :=
  match a with AFile off => AFile (off + d) | AHeap id off => AHeap id (off + d) end.

(* outcome of a memory-level call: MFault = an access to dead/unknown memory or a bad free,
   MErr = the functional model reports Abort / Oob / Fail (never on a table_ok table) *)
Inductive mres (A : Type) : Type := MOk (a : A) | MFault | MErr.
Arguments MOk {A} a.
Arguments MFault {A}.
Arguments MErr {A}.

Definition of_opt {A} (o : option A) : mres A := match o with Some a => MOk a | None => MFault end.
Definition of_res {A} (x : res A) : mres A := match x with Ok a => MOk a | _ => MErr end.
Definition mbind {A B} (x : mres A) (f : A -> mres B) : mres B :=
  match x with MOk a => f a | MFault => MFault | MErr => MErr end.
Notation "'do' x <- a ; b" := (mbind a (fun x => b)) (at level 200, x pattern, a at level 100, b at level 200).

(* ------------------------------------------------------------------ block.c helpers *)
(* restart_offset as computed by block_init (same expression as in model/Reader.v) *)
Definition block_ro (raw : bytes) : N :=
  let size := len raw in
  match fixed_decode32 (drop (size - 4) raw) with
  | None => 0
  | Some nr =>
    let ro32 := u64 (size + 18446744073709551616 - u32 (1 + nr) * 4) in
    if 4294967295 <? ro32 then u64 (size + 18446744073709551616 * 8 - (4 + nr * 8)) else ro32
  end.

(* decode_entry at offset [eoff] of the block bytes, limit = data + restarts: the offset of
   the value (bi->val - bi->data = p + non_shared - data) *)
Definition val_off (raw : bytes) (eoff : N) : option N :=
  let D := take (block_ro raw) raw in
  match get_varint32 (drop eoff D) with
  | Some (_, d1, _) =>
    match get_varint32 d1 with
    | Some (ns, d2, _) =>
      match get_varint32 d2 with
      | Some (_, d3, _) => Some (len D - len d3 + ns)
      | None => None
      end
    | None => None
    end
  | None => None
  end.

Section WithEnv.
Variable decompress : N -> bytes -> res bytes.
(* realloc policy: [pol m id c] = true when rewriting buffer [id] of memory [m] with the new
   content [c] moves it to a fresh buffer *)
Variable pol : mem -> nat -> bytes -> bool.
Variable r : reader.

(* ------------------------------------------------------------------ ubuf *)
(* one rewrite of a key ubuf (ubuf_reset / ubuf_clip + ubuf_append of parse_next_key,
   possibly several of them inside one block_iter call; only the final content and the
   final location are kept): in place, or realloc = malloc new + copy + free old *)
Definition key_update (m : mem) (id : nat) (f : bytes -> bytes) : option (mem * nat) :=
  match live m id with
  | None => None
  | Some old =>
    let c := f old in
    if pol m id c then
      let '(m1, id') := alloc m c in
      match mfree m1 id with Some m2 => Some (m2, id') | None => None end
    else match mwrite m id c with Some m1 => Some (m1, id) | None => None end
  end.

(* the key ubuf of a block_iter after a call that left it in state [s] over block [b]:
   the current key when valid; when the iterator ran off the end the bytes are whatever
   was parsed last (never read again: block_iter_get fails) - kept as they were *)
Definition bkey_sync (m : mem) (id : nat) (b : ablock) (s : bstate) : option (mem * nat) :=
  key_update m id (fun old => if bs_valid s then bs_key b s else old).

(* ------------------------------------------------------------------ get_block *)
(* get_block of model/Reader.v, also returning where the stored bytes start in the mapping
   (raw_contents = &r->data[offset + len + 4]) and the uncompressed bytes *)
Definition get_block_loc (offset : N) : res (ablock * N * bytes) :=
  let f := r_file r in
  if negb (offset <? len f) then Abort else
  let hdr :=
    if r_version r =? FORMAT_V1 then
      match fixed_decode32 (drop offset f) with Some n => Ok (n, 4) | None => Oob end
    else match varint_decode64 (drop offset f) with
         | Ok (n, l) => Ok (n, l) | Oob => Oob | _ => Abort end in
  match hdr with
  | Ok (n, l) =>
    match slice f (offset + l + 4) n with
    | None => Oob
    | Some stored =>
      let crc_ok :=
        if r_verify r then
          match fixed_decode32 (drop (offset + l) f) with
          | Some c => c =? crc32c_ref stored
          | None => false
          end
        else true in
      if negb crc_ok then Abort else
      let raw := if r_comp r =? COMP_NONE then Ok stored else decompress (r_comp r) stored in
      match raw with
      | Ok rb => match block_init rb with Some b => Ok (b, offset + l + 4, rb) | None => Abort end
      | _ => Abort
      end
    end
  | Oob => Oob | _ => Abort
  end.

(* the struct block made by get_block: data, size; a compressed table gets a malloc'ed
   buffer (needs_free = true), an uncompressed one points into the mapping *)
Definition mem_get_block (m : mem) (offset : N) : mres (mem * ablock * addr * N) :=
  do x <- of_res (get_block_loc offset);
  let '(b, doff, raw) := x in
  if r_comp r =? COMP_NONE then MOk (m, b, AFile doff, len raw)
  else let '(m1, id) := alloc m raw in MOk (m1, b, AHeap id 0, len raw).

(* block_destroy: free(data) when needs_free *)
Definition mem_block_destroy (m : mem) (da : addr) : option mem :=
  match da with AFile _ => Some m | AHeap id _ => mfree m id end.

(* ------------------------------------------------------------------ iterators *)
Record mloc := mkml {
  ml_ikey : nat;                        (* index_iter->key *)
  ml_blk : option (nat * addr * N);     (* bi->key, b->data, b->size; None: b == bi == NULL *)
  ml_k : option nat;                    (* k; None: k == NULL (mtbl_source_iter iterators) *)
}.
Record miter := mkmi { mi_it : riter; mi_loc : mloc }.

Definition data_owned (da : addr) : list nat := match da with AFile _ => [] | AHeap id _ => [id] end.
Definition blk_owned (x : option (nat * addr * N)) : list nat :=
  match x with Some (bk, da, _) => bk :: data_owned da | None => [] end.
Definition owns_loc (l : mloc) : list nat :=
  ml_ikey l :: blk_owned (ml_blk l) ++ match ml_k l with Some k => [k] | None => [] end.
Definition owns (mi : miter) : list nat := owns_loc (mi_loc mi).

(* block_destroy(&it->b); block_iter_destroy(&it->bi); - both accept NULL *)
Definition mem_drop_blk (m : mem) (x : option (nat * addr * N)) : option mem :=
  match x with
  | None => Some m
  | Some (bk, da, _) =>
    match mem_block_destroy m da with Some m1 => mfree m1 bk | None => None end
  end.

(* the pointers block_iter_get(bi) hands out: ubuf_data(bi->key), ubuf_size, bi->val, bi->val_len.
   The value offset is recomputed from the block bytes read through memory. *)
Definition mem_block_get (m : mem) (bk : nat) (da : addr) (sz : N) (b : ablock) (s : bstate)
  : option (addr * N * addr * N) :=
  match deref m da sz with
  | None => None
  | Some raw =>
    match val_off raw (pe_off (entry_at b (bs_cur s))) with
    | None => None
    | Some vo => Some (AHeap bk 0, len (bs_key b s), addr_add da vo, len (pe_val (entry_at b (bs_cur s))))
    end
  end.

(* result of a next: the four out-parameters of mtbl_iter_next, and (ghost) the entry the
   functional model returns *)
Inductive nout := NFail | NOk (ka : addr) (kl : N) (va : addr) (vl : N) (e : entry).

(* the bound key as reader_iter_next reads it: ubuf_data(it->k), through memory *)
Definition read_bound (m : mem) (it : riter) (L : mloc) : option bytes :=
  match it_kind it with
  | KIter => Some (it_k it)                     (* it->k is not read *)
  | _ => match ml_k L with Some kid => live m kid | None => None end
  end.

(* tail of reader_iter_next: block_iter_get + the switch on it_type *)
Definition next_finish (m : mem) (it : riter) (L : mloc)
    (blk : option (N * ablock)) (lblk : option (nat * addr * N))
    (boff : N) (bi2 idx2 : bstate) (ik2 : nat) (valid : bool) : mres (mem * miter * nout) :=
  let L' := mkml ik2 lblk (ml_k L) in
  if negb valid then MOk (m, mkmi (mkri (it_kind it) (it_k it) boff blk bi2 idx2 false false) L', NFail)
  else match blk, lblk with
       | Some (_, cb), Some (cbk, cda, csz) =>
         do ptrs <- of_opt (mem_block_get m cbk cda csz cb bi2);
         do kb <- of_opt (read_bound m it L);
         let e := entry_at cb (bs_cur bi2) in
         let ok := bound_ok (it_kind it) kb (pe_key e) in
         let '(ka, kl, va, vl) := ptrs in
         MOk (m, mkmi (mkri (it_kind it) (it_k it) boff blk bi2 idx2 false ok) L',
              if ok then NOk ka kl va vl (pe_key e, pe_val e) else NFail)
       | None, None => MErr
       | _, _ => MFault
       end.

Definition mem_iter_next (m : mem) (mi : miter) : mres (mem * miter * nout) :=
  let it := mi_it mi in
  let L := mi_loc mi in
  match r_index r with
  | None => MErr
  | Some ib =>
    if negb (it_valid it) then MOk (m, mi, NFail) else
    match it_b it, ml_blk L with
    | Some (o, b), Some (bk, da, sz) =>
      (* if (!it->first) block_iter_next(it->bi); *)
      let bi1 := if it_first it then it_bi it else block_next b (it_bi it) in
      do x1 <- of_opt (if it_first it then Some (m, bk) else bkey_sync m bk b bi1);
      let '(m1, bk1) := x1 in
      if bs_valid bi1
      then next_finish m1 it L (Some (o, b)) (Some (bk1, da, sz)) (it_block_offset it) bi1 (it_index it) (ml_ikey L) true
      else
        (* block_destroy(&it->b); block_iter_destroy(&it->bi); *)
        do m2 <- of_opt (mem_drop_blk m1 (Some (bk1, da, sz)));
        (* block_iter_next(it->index_iter) *)
        let idx1 := block_next ib (it_index it) in
        do x3 <- of_opt (bkey_sync m2 (ml_ikey L) ib idx1);
        let '(m3, ik1) := x3 in
        if negb (bs_valid idx1)
        then next_finish m3 it L None None (it_block_offset it) bi1 idx1 ik1 false
        else
          let off := index_offset ib idx1 in
          do x4 <- mem_get_block m3 off;                 (* get_block_at_index *)
          let '(m4, nb, nda, nsz) := x4 in
          let '(m5, nbk) := alloc m4 [] in               (* block_iter_init: ubuf_init(64) *)
          do nbi <- of_res (block_seek_to_first nb);
          do x6 <- of_opt (bkey_sync m5 nbk nb nbi);
          let '(m6, nbk1) := x6 in
          next_finish m6 it L (Some (off, nb)) (Some (nbk1, nda, nsz)) off nbi idx1 ik1 (bs_valid nbi)
    | None, None => MErr
    | _, _ => MFault
    end
  end.

Definition mem_iter_seek (m : mem) (mi : miter) (key : bytes) : mres (mem * miter * bool) :=
  let it := mi_it mi in
  let L := mi_loc mi in
  match r_index r with
  | None => MErr
  | Some ib =>
    let nis := needs_index_seek ib it key in
    do idx <- of_res (if nis then block_seek ib (it_index it) key else Ok (it_index it));
    do x1 <- of_opt (if nis then bkey_sync m (ml_ikey L) ib idx else Some (m, ml_ikey L));
    let '(m1, ik1) := x1 in
    if negb (bs_valid idx)
    then MOk (m1, mkmi (mkri (it_kind it) (it_k it) (it_block_offset it) (it_b it) (it_bi it) idx (it_first it) false)
                       (mkml ik1 (ml_blk L) (ml_k L)), true)
    else
      let new_offset := index_offset ib idx in
      let reuse := match it_b it with Some _ => it_block_offset it =? new_offset | None => false end in
      do x2 <- (if reuse then
                  match it_b it, ml_blk L with
                  | Some (o, b), Some (bk, da, sz) => MOk (m1, o, b, it_bi it, it_block_offset it, bk, da, sz)
                  | None, _ => MErr
                  | _, _ => MFault
                  end
                else
                  (* block_destroy(&it->b); block_iter_destroy(&it->bi); get_block; block_iter_init *)
                  do m2 <- of_opt (mem_drop_blk m1 (ml_blk L));
                  do x3 <- mem_get_block m2 new_offset;
                  let '(m3, nb, nda, nsz) := x3 in
                  let '(m4, nbk) := alloc m3 [] in
                  MOk (m4, new_offset, nb, bs_invalid nb, new_offset, nbk, nda, nsz));
      let '(m5, o, b, bi0, boff, bk, da, sz) := x2 in
      do bi <- of_res (block_seek b bi0 key);
      do x6 <- of_opt (bkey_sync m5 bk b bi);
      let '(m6, bk1) := x6 in
      MOk (m6, mkmi (mkri (it_kind it) (it_k it) boff (Some (o, b)) bi idx true true)
                    (mkml ik1 (Some (bk1, da, sz)) (ml_k L)), true)
  end.

(* reader_iter_free: ubuf_destroy(&it->k); block_destroy(&it->b); block_iter_destroy(&it->bi);
   block_iter_destroy(&it->index_iter) *)
Definition mem_iter_free (m : mem) (mi : miter) : mres mem :=
  let L := mi_loc mi in
  do m1 <- of_opt (match ml_k L with Some k => mfree m k | None => Some m end);
  do m2 <- of_opt (mem_drop_blk m1 (ml_blk L));
  of_opt (mfree m2 (ml_ikey L)).

(* what the functional model creates: mtbl_source_iter for KIter, reader_get / _prefix /
   _range (reader_iter_init key, bound) otherwise *)
Definition fun_make (kind : ikind) (key bound : bytes) : res (option riter) :=
  match kind with
  | KIter => reader_iter decompress r
  | _ => reader_iter_init decompress r kind key bound
  end.

(* reader_iter / reader_iter_init + reader_get*: None = NULL *)
Definition mem_iter_make (m : mem) (kind : ikind) (key bound : bytes) : mres (mem * option miter) :=
  match r_index r with
  | None => MErr
  | Some ib =>
    let '(m1, ik) := alloc m [] in                        (* block_iter_init(r->index) *)
    do idx <- of_res (match kind with
                      | KIter => block_seek_to_first ib
                      | _ => block_seek ib (bs_invalid ib) key end);
    do x2 <- of_opt (bkey_sync m1 ik ib idx);
    let '(m2, ik1) := x2 in
    if negb (bs_valid idx)
    then (* get_block_at_index = NULL: block_iter_destroy(&it->index_iter); return NULL *)
      do m3 <- of_opt (mfree m2 ik1); MOk (m3, None)
    else
      let off := index_offset ib idx in
      do x3 <- mem_get_block m2 off;
      let '(m3, b, da, sz) := x3 in
      let '(m4, bk) := alloc m3 [] in                     (* block_iter_init(it->b) *)
      do bi <- of_res (match kind with
                       | KIter => block_seek_to_first b
                       | _ => block_seek b (bs_invalid b) key end);
      do x5 <- of_opt (bkey_sync m4 bk b bi);
      let '(m5, bk1) := x5 in
      (* reader_get*: it->k = ubuf_init(len); ubuf_append(it->k, bound) *)
      let '(m6, kk) := match kind with
                       | KIter => (m5, None)
                       | _ => let '(m', id) := alloc m5 bound in (m', Some id)
                       end in
      MOk (m6, Some (mkmi (mkri kind (match kind with KIter => [] | _ => bound end)
                                off (Some (off, b)) bi idx true true)
                          (mkml ik1 (Some (bk1, da, sz)) kk)))
  end.

(* ------------------------------------------------------------------ several iterators of one reader *)
Inductive mop :=
| MNew (kind : ikind) (key bound : bytes)
| MNext (i : nat)
| MSeek (i : nat) (key : bytes)
| MFree (i : nat).

Inductive mout := OBad | ONew (created : bool) | ONext (o : nout) | OSeek (ok : bool) | OFree.

(* slot i: Some = live iterator; None = NULL was returned, or the iterator was freed *)
Record mstate := mkms { ms_mem : mem; ms_its : list (option miter) }.

Fixpoint set_nth {A} (i : nat) (x : A) (l : list A) : list A :=
  match l, i with
  | [], _ => []
  | _ :: tl, O => x :: tl
  | a :: tl, S j => a :: set_nth j x tl
  end.

Definition slot (st : mstate) (i : nat) : option miter := nth i (ms_its st) None.

(* an operation on a slot that holds no live iterator is a client error: no effect, OBad *)
Definition mstep (st : mstate) (op : mop) : mres (mstate * mout) :=
  match op with
  | MNew kind key bound =>
    do x <- mem_iter_make (ms_mem st) kind key bound;
    let '(m', o) := x in
    MOk (mkms m' (ms_its st ++ [o]), ONew (match o with Some _ => true | None => false end))
  | MNext i =>
    match slot st i with
    | None => MOk (st, OBad)
    | Some mi =>
      do x <- mem_iter_next (ms_mem st) mi;
      let '(m', mi', o) := x in
      MOk (mkms m' (set_nth i (Some mi') (ms_its st)), ONext o)
    end
  | MSeek i key =>
    match slot st i with
    | None => MOk (st, OBad)
    | Some mi =>
      do x <- mem_iter_seek (ms_mem st) mi key;
      let '(m', mi', ok) := x in
      MOk (mkms m' (set_nth i (Some mi') (ms_its st)), OSeek ok)
    end
  | MFree i =>
    match slot st i with
    | None => MOk (st, OBad)
    | Some mi =>
      do m' <- mem_iter_free (ms_mem st) mi;
      MOk (mkms m' (set_nth i None (ms_its st)), OFree)
    end
  end.

Fixpoint mrun (st : mstate) (ops : list mop) : mres (mstate * list mout) :=
  match ops with
  | [] => MOk (st, [])
  | op :: tl =>
    do x <- mstep st op;
    let '(st1, o) := x in
    do y <- mrun st1 tl;
    let '(st2, os) := y in
    MOk (st2, o :: os)
  end.

Definition ms_init : mstate := mkms (mem_init (r_file r)) [].

(* the operation does not act on iterator i *)
Definition not_on (i : nat) (op : mop) : Prop :=
  match op with
  | MNew _ _ _ => True
  | MNext j | MSeek j _ | MFree j => j <> i
  end.

End WithEnv.
