(* Model of libmy/heap.c: a binary min-heap in an array (here: a list indexed from 0),
   with the comparison results used exactly as in the C code (<= 0 tie-breaks). *)
From Coq Require Import List Arith.
Import ListNotations.

Section Heap.
Variable A : Type.
Variable cmp : A -> A -> comparison.     (* Lt: a < b; the C code tests cmp(a,b) <= 0 *)
Variable dflt : A.

Definition le_c (a b : A) : bool := match cmp a b with Gt => false | _ => true end.

Fixpoint set_nth (l : list A) (i : nat) (x : A) : list A :=
  match l, i with
  | [], _ => []
  | _ :: tl, O => x :: tl
  | h :: tl, S k => h :: set_nth tl k x
  end.
Definition get (l : list A) (i : nat) : A := nth i l dflt.

(* siftup: the new item is the last element *)
Fixpoint siftup_loop (fuel : nat) (l : list A) (pos : nat) (item : A) : list A :=
  match fuel with
  | O => set_nth l pos item
  | S f =>
    match pos with
    | O => set_nth l 0 item
    | S _ =>
      let parentpos := Nat.div (pos - 1) 2 in
      let parent := get l parentpos in
      if le_c parent item then set_nth l pos item
      else siftup_loop f (set_nth l pos parent) parentpos item
    end
  end.
Definition siftup (l : list A) : list A :=
  match l with
  | [] => []
  | _ => let pos := length l - 1 in siftup_loop (length l) l pos (get l pos)
  end.

Fixpoint siftdown_loop (fuel : nat) (l : list A) (pos : nat) (item : A) : list A :=
  match fuel with
  | O => set_nth l pos item
  | S f =>
    let endpos := length l in
    let childpos := 2 * pos + 1 in
    if childpos <? endpos then
      let rightpos := childpos + 1 in
      let childval := get l childpos in
      let '(cpos, cval) :=
        if rightpos <? endpos then
          let rightval := get l rightpos in
          if le_c rightval childval then (rightpos, rightval) else (childpos, childval)
        else (childpos, childval) in
      if le_c item cval then set_nth l pos item
      else siftdown_loop f (set_nth l pos cval) cpos item
    else set_nth l pos item
  end.
Definition siftdown (l : list A) (pos : nat) : list A :=
  if pos <? length l then siftdown_loop (length l) l pos (get l pos) else l.

(* heap_heapify: for (i = size/2; i-- > 0;) siftdown(i) *)
Fixpoint heapify_loop (i : nat) (l : list A) : list A :=
  match i with
  | O => l
  | S k => heapify_loop k (siftdown l k)
  end.
Definition heapify (l : list A) : list A := heapify_loop (Nat.div (length l) 2) l.

Definition heap_add (l : list A) (x : A) : list A := l ++ [x].
Definition heap_push (l : list A) (x : A) : list A := siftup (l ++ [x]).
Definition heap_peek (l : list A) : option A := match l with [] => None | x :: _ => Some x end.
(* heap_pop: returns the new heap (the popped item is the old root) *)
Definition heap_pop (l : list A) : list A :=
  match l with
  | [] => []
  | _ =>
    let lastelt := get l (length l - 1) in
    let l' := firstn (length l - 1) l in
    match l' with
    | [] => []
    | _ => siftdown (set_nth l' 0 lastelt) 0
    end
  end.
(* heap_replace: vec[0] = item; siftdown(0) *)
Definition heap_replace (l : list A) (x : A) : list A :=
  match l with [] => [] | _ => siftdown (set_nth l 0 x) 0 end.
End Heap.
