(* Model of src/mtbl_dump.c: dump() reads the table with the reader and prints, for every entry that
   passes the -k / -v prefix filters and the -K / -V minimum lengths, "<key> <value>" - in hex mode (-x) each
   string as %08x of its length, ':' and the bytes as two lower-case hex digits joined by '-'.
   Characters are numbers (ASCII codes); a line is a list of them, without the newline. *)
From Mtbl Require Import model.Bytes model.Order model.Reader.
Local Open Scope N_scope.

Definition hexdigit (d : N) : N := if d <? 10 then 48 + d else 87 + d.      (* '0'..'9', 'a'..'f' *)
Definition hex2 (b : N) : list N := [hexdigit (b / 16 mod 16); hexdigit (b mod 16)].
(* "%08x" of an unsigned int *)
Definition hex8 (n : N) : list N :=
  map (fun i => hexdigit (n / 16 ^ i mod 16)) [7; 6; 5; 4; 3; 2; 1; 0].
Fixpoint hex_join (l : bytes) : list N :=
  match l with
  | [] => []
  | [b] => hex2 b
  | b :: tl => hex2 b ++ 45 :: hex_join tl       (* '-' *)
  end.
(* print_hex_string *)
Definition hex_string (s : bytes) : list N := hex8 (len s) ++ 58 :: hex_join s.
Definition dump_line_hex (e : entry) : list N := hex_string (fst e) ++ 32 :: hex_string (snd e).

(* print_string (libmy/print_string.h), the text mode: a double quote, then every byte - printable in the C locale
   (0x20..0x7e; mtbl_dump never calls setlocale) as itself, a double quote as backslash + quote, anything else as
   backslash x and two hex digits -, then a double quote *)
Definition text_char (c : N) : list N :=
  if (32 <=? c) && (c <=? 126) then (if c =? 34 then [92; 34] else [c])
  else [92; 120] ++ hex2 c.
Definition text_string (s : bytes) : list N := 34 :: flat_map text_char s ++ [34].
Definition dump_line_text (e : entry) : list N := text_string (fst e) ++ 32 :: text_string (snd e).

Record dump_opts := mkdo {
  do_key_prefix : option bytes;      (* -k *)
  do_val_prefix : option bytes;      (* -v *)
  do_key_min : N;                    (* -K, 0 when absent *)
  do_val_min : N;                    (* -V *)
}.

(* the three `continue` tests of dump(), in order *)
Definition dump_keep (o : dump_opts) (e : entry) : bool :=
  (match do_key_prefix o with
   | Some p => negb ((len (fst e) <? len p) || negb (is_prefix p (fst e)))
   | None => true
   end)
  && (match do_val_prefix o with
      | Some p => negb ((len (snd e) <? len p) || negb (is_prefix p (snd e)))
      | None => true
      end)
  && negb ((len (fst e) <? do_key_min o) || (len (snd e) <? do_val_min o)).

Section Dump.
Variable decompress : N -> bytes -> res bytes.
(* mtbl_dump -x [filters] file: None = "mtbl_reader_init() failed" / the reader stopped *)
Definition dump_hex (o : dump_opts) (fuel : nat) (file : bytes) : option (list (list N)) :=
  match read_all decompress fuel file with
  | Ok es => Some (map dump_line_hex (filter (dump_keep o) es))
  | _ => None
  end.
(* mtbl_dump [filters] file (text mode) *)
Definition dump_text (o : dump_opts) (fuel : nat) (file : bytes) : option (list (list N)) :=
  match read_all decompress fuel file with
  | Ok es => Some (map dump_line_text (filter (dump_keep o) es))
  | _ => None
  end.
End Dump.

(* ---- src/mtbl_info.c: print_info() in the C locale (no digit grouping) - the lines that carry the statistics.
   Each is a fixed label padded to 23 columns and the decimal number; the two percentages and the compactness line
   are floating-point renderings and are not modelled. *)
From Mtbl Require Import gen.Consts model.Writer model.Compress.
From Coq Require Import String Ascii.
Fixpoint dec_digits (fuel : nat) (n : N) (acc : list N) : list N :=
  match fuel with
  | O => acc
  | S f => let acc' := (48 + n mod 10) :: acc in if n <? 10 then acc' else dec_digits f (n / 10) acc'
  end.
Definition decimal (n : N) : list N := dec_digits 40 n [].
Fixpoint chars (s : string) : list N :=
  match s with EmptyString => [] | String c tl => N_of_ascii c :: chars tl end.
Definition info_line (label : string) (n : N) : list N := chars label ++ decimal n.
Record info_out := mkinfo {
  io_index_block_offset : list N; io_index_bytes : list N; io_data_block_bytes : list N; io_data_block_size : list N;
  io_data_block_count : list N; io_entry_count : list N; io_key_bytes : list N; io_value_bytes : list N; io_compression : list N }.
(* the part of the line before " (xx.xx%)" for the two lines that carry a percentage *)
Definition info_model (m : meta) : info_out :=
  mkinfo (info_line "index block offset:    " (m_index_block_offset m))
         (info_line "index bytes:           " (m_bytes_index_block m))
         (info_line "data block bytes       " (m_bytes_data_blocks m))
         (info_line "data block size:       " (m_data_block_size m))
         (info_line "data block count       " (m_count_data_blocks m))
         (info_line "entry count:           " (m_count_entries m))
         (info_line "key bytes:             " (m_bytes_keys m))
         (info_line "value bytes:           " (m_bytes_values m))
         (chars "compression algorithm: " ++ match compression_type_to_str (m_compression_algorithm m) with
                                             | Some s => chars s
                                             | None => decimal (m_compression_algorithm m)
                                             end).
