(* Model of src/mtbl_dump.c: dump() reads the table with the reader and prints, for every entry that
   passes the -k / -v prefix filters and the -K / -V minimum lengths, "<key> <value>" - in hex mode (-x) each
   string as %08x of its length, ':' and the bytes as two lower-case hex digits joined by '-'.
   Characters are numbers (ASCII codes); a line is a list of them, without the newline. *)
From Mtbl Require Import model.Bytes model.Order model.Reader.
Local Open Scope N_scope.

Definition hexdigit (d : N) : N := if d <? 10 then 48 + d else 87 + d.      (* '0'..'9', 'a'..'f' *)
Definition hex2 (b : N) : list N := [hexdigit (b / 16 mod 16); hexdigit (b mod 16)].
(* "%08x" of an unsigned int *)
Definition hex8 (n : N) : list N :=
  map (fun i => hexdigit (n / 16 ^ i mod 16)) [7; 6; 5; 4; 3; 2; 1; 0].
Fixpoint hex_join (l : bytes) : list N :=
  match l with
  | [] => []
  | [b] => hex2 b
  | b :: tl => hex2 b ++ 45 :: hex_join tl       (* '-' *)
  end.
(* print_hex_string *)
Definition hex_string (s : bytes) : list N := hex8 (len s) ++ 58 :: hex_join s.
Definition dump_line_hex (e : entry) : list N := hex_string (fst e) ++ 32 :: hex_string (snd e).

(* print_string (libmy/print_string.h), the text mode: a double quote, then every byte - printable in the C locale
   (0x20..0x7e; mtbl_dump never calls setlocale) as itself, a double quote as backslash + quote, anything else as
   backslash x and two hex digits -, then a double quote *)
Definition text_char (c : N) : list N :=
  if (32 <=? c) && (c <=? 126) then (if c =? 34 then [92; 34] else [c])
  else [92; 120] ++ hex2 c.
Definition text_string (s : bytes) : list N := 34 :: flat_map text_char s ++ [34].
Definition dump_line_text (e : entry) : list N := text_string (fst e) ++ 32 :: text_string (snd e).

Record dump_opts := mkdo {
  do_key_prefix : option bytes;      (* -k *)
  do_val_prefix : option bytes;      (* -v *)
  do_key_min : N;                    (* -K, 0 when absent *)
  do_val_min : N;                    (* -V *)
}.

(* the three `continue` tests of dump(), in order *)
Definition dump_keep (o : dump_opts) (e : entry) : bool :=
  (match do_key_prefix o with
   | Some p => negb ((len (fst e) <? len p) || negb (is_prefix p (fst e)))
   | None => true
   end)
  && (match do_val_prefix o with
      | Some p => negb ((len (snd e) <? len p) || negb (is_prefix p (snd e)))
      | None => true
      end)
  && negb ((len (fst e) <? do_key_min o) || (len (snd e) <? do_val_min o)).

Section Dump.
Variable decompress : N -> bytes -> res bytes.
(* mtbl_dump -x [filters] file: None = "mtbl_reader_init() failed" / the reader stopped *)
Definition dump_hex (o : dump_opts) (fuel : nat) (file : bytes) : option (list (list N)) :=
  match read_all decompress fuel file with
  | Ok es => Some (map dump_line_hex (filter (dump_keep o) es))
  | _ => None
  end.
(* mtbl_dump [filters] file (text mode) *)
Definition dump_text (o : dump_opts) (fuel : nat) (file : bytes) : option (list (list N)) :=
  match read_all decompress fuel file with
  | Ok es => Some (map dump_line_text (filter (dump_keep o) es))
  | _ => None
  end.
End Dump.
