(* Model of src/mtbl_merge.c as the composition of the merger model (model/Merger.v) and the table writer
   model (model/Writer.v).
     main():      init_mtbl() - a merger with the user's merge function (no dupsort function), a writer for the
                  output path with the options -b (block size), -c (compression), -l (level);
                  for every input file: mtbl_reader_init, mtbl_merger_add_source(merger, mtbl_reader_source(r));
     merge():     it = mtbl_source_iter(mtbl_merger_source(merger)); assert(it != NULL);
                  while (mtbl_iter_next(it, &k, &v) == mtbl_res_success) {
                    res = mtbl_writer_add(writer, k, v); assert(res == mtbl_res_success); }
                  mtbl_writer_destroy(&writer)   - finishes the table: last data block, index block, trailer.
   The inputs are taken in the form the merger theorems (C04) use: one strictly sorted entry list per input
   table, standing for the ideal cursor  mksc es 0 true BAll false  over it (C03 / MT3 in proofs/MergeTool.v:
   the iterator of a reader over a written table IS that cursor).  A failed assertion is the result Abort. *)
From Coq Require Import NArith ZArith List.
From Mtbl Require Import model.Bytes model.Order model.Heap model.Merger model.Block model.Writer.
Import ListNotations.
Local Open Scope N_scope.

Section MergeTool.
Variable compress_default : N -> bytes -> res bytes.
Variable compress_level : N -> Z -> bytes -> res bytes.
(* the merge function of the DSO; None = it left *merged_val NULL (the merger then fails the call) *)
Variable mf : bytes -> bytes -> bytes -> option bytes.

(* the cursors main() adds to the merger, one per input table *)
Definition tool_sources (srcs : list (list entry)) : list scur := map (fun es => mksc es 0 true BAll false) srcs.

(* while (mtbl_iter_next(it, ...) == mtbl_res_success) collect the entry; the C loop has no bound, the fuel is
   an upper bound on what the iterator can deliver (every source entry is consumed at most once) *)
Fixpoint merge_drain (fuel : nat) (it : miter) : list entry :=
  match fuel with
  | O => []
  | S f => match merger_next (Some mf) None it with
           | (it', Some e) => e :: merge_drain f it'
           | (_, None) => []
           end
  end.

(* everything the merger's iterator delivers, from the start *)
Definition merge_output (srcs : list (list entry)) : list entry :=
  match merger_iter_make None (tool_sources srcs) false with
  | Some it => merge_drain (S (length (concat srcs))) it
  | None => []
  end.

(* the tool: the writer (initial file offset 0: mtbl_writer_init creates the file) is fed the merger's output
   and finished.  Result: the finished writer (writer_bytes = the output file) and the results of the adds
   (true = mtbl_res_success; the tool asserts every one of them). *)
Definition merge_tool_model (o : wopts) (srcs : list (list entry)) : res (writer * list bool) :=
  match merger_iter_make None (tool_sources srcs) false with
  | None => Abort                                                     (* assert(it != NULL) *)
  | Some it => writer_session compress_default compress_level o 0 (merge_drain (S (length (concat srcs))) it)
  end.

(* the same with the loop of merge() as it is written: one mtbl_iter_next, one mtbl_writer_add, the assertion
   after each add; Oob = fuel exhausted (never happens: MT1_loop) *)
Fixpoint merge_loop (fuel : nat) (it : miter) (w : writer) : res writer :=
  match fuel with
  | O => Oob
  | S fu =>
    match merger_next (Some mf) None it with
    | (it', Some (k, v)) =>
      match writer_add compress_default compress_level w k v with
      | Ok (w1, true) => merge_loop fu it' w1
      | Ok (_, false) => Abort                                        (* assert(res == mtbl_res_success) *)
      | Fail => Fail | Abort => Abort | Oob => Oob
      end
    | (_, None) => Ok w
    end
  end.

Definition merge_tool_run (o : wopts) (srcs : list (list entry)) : res writer :=
  match merger_iter_make None (tool_sources srcs) false with
  | None => Abort
  | Some it =>
    match merge_loop (S (length (concat srcs))) it (writer_init o 0) with
    | Ok w => writer_finish compress_default compress_level w
    | Fail => Fail | Abort => Abort | Oob => Oob
    end
  end.
End MergeTool.
