(* Model of mtbl/block_builder.c *)
From Mtbl Require Import gen.Consts model.Bytes model.Codec model.Order.
Local Open Scope N_scope.

Definition UINT32_MAX : N := 4294967295.

Record bb := mkbb {
  bb_interval : N;
  bb_buf : bytes;
  bb_last_key : bytes;
  bb_restarts : list N;
  bb_finished : bool;
  bb_counter : N;
}.

Definition bb_init (interval : N) : bb := mkbb interval [] [] [0] false 0.
Definition bb_reset (b : bb) : bb := mkbb (bb_interval b) [] [] [0] false 0.
Definition bb_empty (b : bb) : bool := len (bb_buf b) =? 0.

Definition nrestarts (b : bb) : N := N.of_nat (length (bb_restarts b)).

(* uint64_vec_bytes = 8 * #restarts *)
Definition bb_estimate (b : bb) : N :=
  if UINT32_MAX <? len (bb_buf b)
  then len (bb_buf b) + 8 * nrestarts b + 4
  else len (bb_buf b) + (8 * nrestarts b) / 2 + 4.

Definition bb_finish (b : bb) : bytes :=
  let restart64 := UINT32_MAX <? len (bb_buf b) in
  bb_buf b
  ++ concat (map (fun r => if restart64 then fixed_encode64 r else fixed_encode32 r) (bb_restarts b))
  ++ fixed_encode32 (nrestarts b).

Definition entry_encode (shared : N) (key val : bytes) : bytes :=
  varint_encode32 shared ++ varint_encode32 (len key - shared) ++ varint_encode32 (len val)
  ++ drop shared key ++ val.

Definition bb_add (b : bb) (key val : bytes) : res bb :=
  if negb (bb_counter b <=? bb_interval b) || bb_finished b then Abort
  else
    let share := bb_counter b <? bb_interval b in
    let shared := if share then lcp (bb_last_key b) key else 0 in
    let restarts := if share then bb_restarts b else bb_restarts b ++ [len (bb_buf b)] in
    let counter := if share then bb_counter b else 0 in
    Ok (mkbb (bb_interval b) (bb_buf b ++ entry_encode shared key val) key restarts false (counter + 1)).
