(* Model of mtbl/writer.c and mtbl/metadata.c.
   External behaviour enters as Section variables:
     compress : algorithm -> level -> block -> res bytes   (mtbl_compress[_level])
   The file is produced as the list of buffers handed to _write_all, in order. *)
From Coq Require Import ZArith.
From Mtbl Require Import gen.Consts model.Bytes model.Codec model.Order model.Block model.Crc.
Local Open Scope N_scope.

Record meta := mkmeta {
  m_index_block_offset : N;
  m_data_block_size : N;
  m_compression_algorithm : N;
  m_count_entries : N;
  m_count_data_blocks : N;
  m_bytes_data_blocks : N;
  m_bytes_index_block : N;
  m_bytes_keys : N;
  m_bytes_values : N;
}.

Definition meta_field (m : meta) (i : N) : N :=
  match i with
  | 0 => m_index_block_offset m | 1 => m_data_block_size m | 2 => m_compression_algorithm m
  | 3 => m_count_entries m | 4 => m_count_data_blocks m | 5 => m_bytes_data_blocks m
  | 6 => m_bytes_index_block m | 7 => m_bytes_keys m | _ => m_bytes_values m
  end.

Definition meta_set (m : meta) (i v : N) : meta :=
  match i with
  | 0 => mkmeta v (m_data_block_size m) (m_compression_algorithm m) (m_count_entries m) (m_count_data_blocks m) (m_bytes_data_blocks m) (m_bytes_index_block m) (m_bytes_keys m) (m_bytes_values m)
  | 1 => mkmeta (m_index_block_offset m) v (m_compression_algorithm m) (m_count_entries m) (m_count_data_blocks m) (m_bytes_data_blocks m) (m_bytes_index_block m) (m_bytes_keys m) (m_bytes_values m)
  | 2 => mkmeta (m_index_block_offset m) (m_data_block_size m) v (m_count_entries m) (m_count_data_blocks m) (m_bytes_data_blocks m) (m_bytes_index_block m) (m_bytes_keys m) (m_bytes_values m)
  | 3 => mkmeta (m_index_block_offset m) (m_data_block_size m) (m_compression_algorithm m) v (m_count_data_blocks m) (m_bytes_data_blocks m) (m_bytes_index_block m) (m_bytes_keys m) (m_bytes_values m)
  | 4 => mkmeta (m_index_block_offset m) (m_data_block_size m) (m_compression_algorithm m) (m_count_entries m) v (m_bytes_data_blocks m) (m_bytes_index_block m) (m_bytes_keys m) (m_bytes_values m)
  | 5 => mkmeta (m_index_block_offset m) (m_data_block_size m) (m_compression_algorithm m) (m_count_entries m) (m_count_data_blocks m) v (m_bytes_index_block m) (m_bytes_keys m) (m_bytes_values m)
  | 6 => mkmeta (m_index_block_offset m) (m_data_block_size m) (m_compression_algorithm m) (m_count_entries m) (m_count_data_blocks m) (m_bytes_data_blocks m) v (m_bytes_keys m) (m_bytes_values m)
  | 7 => mkmeta (m_index_block_offset m) (m_data_block_size m) (m_compression_algorithm m) (m_count_entries m) (m_count_data_blocks m) (m_bytes_data_blocks m) (m_bytes_index_block m) v (m_bytes_values m)
  | _ => mkmeta (m_index_block_offset m) (m_data_block_size m) (m_compression_algorithm m) (m_count_entries m) (m_count_data_blocks m) (m_bytes_data_blocks m) (m_bytes_index_block m) (m_bytes_keys m) v
  end.

Definition meta_zero : meta := mkmeta 0 0 0 0 0 0 0 0 0.

(* metadata_write: the fields in the order the source stores them, zero padding,
   magic in the last four bytes *)
Definition metadata_write (m : meta) : bytes :=
  let fields := concat (map (fun i => fixed_encode64 (meta_field m i)) META_WRITE_ORDER) in
  let padding := MTBL_METADATA_SIZE - len fields - 4 in
  fields ++ repeat 0 (N.to_nat padding) ++ fixed_encode32 META_WRITE_MAGIC.

(* metadata_read: Some (version, meta) or None (bad magic); buf has 512 bytes *)
Fixpoint meta_read_fields (order : list N) (buf : bytes) (m : meta) : option meta :=
  match order with
  | [] => Some m
  | i :: tl => match fixed_decode64 buf with
               | Some v => meta_read_fields tl (drop 8 buf) (meta_set m i v)
               | None => None
               end
  end.
Definition metadata_read (buf : bytes) : option (N * meta) :=
  match fixed_decode32 (drop (MTBL_METADATA_SIZE - 4) buf) with
  | None => None
  | Some magic =>
    let ver := if magic =? MTBL_MAGIC_V1 then Some FORMAT_V1
               else if magic =? MTBL_MAGIC then Some FORMAT_V2 else None in
    match ver with
    | None => None
    | Some v => match meta_read_fields META_READ_ORDER buf meta_zero with
                | Some m => Some (v, m)
                | None => None
                end
    end
  end.

Record wopts := mkwopts {
  wo_comp : N;
  wo_level : Z;
  wo_block_size : N;
  wo_interval : N;
}.

(* mtbl_writer_options_set_block_size clamps *)
Definition clamp_block_size (n : N) : N := if n <? MIN_BLOCK_SIZE then MIN_BLOCK_SIZE else n.
(* mtbl_writer_options_set_block_restart_interval: an interval of 0 keys means a restart at every key (repair F13) *)
Definition clamp_restart_interval (n : N) : N := if n <? MIN_BLOCK_RESTART_INTERVAL then MIN_BLOCK_RESTART_INTERVAL else n.

Record writer := mkwriter {
  w_opt : wopts;
  w_m : meta;
  w_data : bb;
  w_index : bb;
  w_last_key : bytes;
  w_last_offset : N;
  w_pending_offset : N;
  w_closed : bool;
  w_out : list bytes;      (* buffers passed to _write_all, most recent first *)
}.

Definition writer_init (o : wopts) (initial_offset : N) : writer :=
  mkwriter o
    (mkmeta 0 (wo_block_size o) (wo_comp o) 0 0 0 0 0 0)
    (bb_init (wo_interval o)) (bb_init (wo_interval o))
    [] initial_offset initial_offset false [].

Section WithCompress.
Variable compress_default : N -> bytes -> res bytes.        (* mtbl_compress *)
Variable compress_level : N -> Z -> bytes -> res bytes.    (* mtbl_compress_level *)

(* _mtbl_writer_compress_block: assert(res == mtbl_res_success) *)
Definition compress_block (o : wopts) (raw : bytes) : res bytes :=
  if wo_comp o =? COMP_NONE then Ok raw
  else match (if Z.eqb (wo_level o) DEFAULT_COMPRESSION_LEVEL
              then compress_default (wo_comp o) raw
              else compress_level (wo_comp o) (wo_level o) raw) with
       | Ok c => Ok c
       | _ => Abort
       end.

(* _mtbl_writer_write_block: three _write_all calls *)
Definition block_chunks (stored : bytes) : list bytes :=
  [varint_encode64 (len stored); fixed_encode32 (crc32c_ref stored); stored].
Definition block_written (stored : bytes) : N :=
  len (varint_encode64 (len stored)) + 4 + len stored.

Definition set_m (w : writer) (m : meta) : writer :=
  mkwriter (w_opt w) m (w_data w) (w_index w) (w_last_key w) (w_last_offset w) (w_pending_offset w) (w_closed w) (w_out w).

(* _mtbl_writer_write_data_block *)
Definition write_data_block (w : writer) (last_key stored : bytes) : res writer :=
  let bw := block_written stored in
  let last_offset := w_pending_offset w in
  let m := w_m w in
  let m' := mkmeta (m_index_block_offset m) (m_data_block_size m) (m_compression_algorithm m)
                   (m_count_entries m) (m_count_data_blocks m + 1) (m_bytes_data_blocks m + bw)
                   (m_bytes_index_block m) (m_bytes_keys m) (m_bytes_values m) in
  match bb_add (w_index w) last_key (varint_encode64 last_offset) with
  | Ok idx =>
    Ok (mkwriter (w_opt w) m' (w_data w) idx (w_last_key w) last_offset (w_pending_offset w + bw)
                 (w_closed w) (rev (block_chunks stored) ++ w_out w))
  | _ => Abort
  end.

(* _mtbl_writer_flush *)
Definition writer_flush (w : writer) : res writer :=
  if w_closed w then Abort
  else if bb_empty (w_data w) then Ok w
  else
    let raw := bb_finish (w_data w) in
    let w1 := mkwriter (w_opt w) (w_m w) (bb_reset (w_data w)) (w_index w) (w_last_key w)
                       (w_last_offset w) (w_pending_offset w) (w_closed w) (w_out w) in
    match compress_block (w_opt w) raw with
    | Ok stored => write_data_block w1 (w_last_key w) stored
    | _ => Abort
    end.

(* mtbl_writer_add: Ok (w', true) = success, Ok (w, false) = mtbl_res_failure *)
Definition writer_add (w : writer) (key val : bytes) : res (writer * bool) :=
  if w_closed w then Abort
  else if (0 <? m_count_entries (w_m w)) &&
          negb (match bcmp key (w_last_key w) with
                | Gt => true
                | Eq => negb WRITER_GATE_IS_STRICT
                | Lt => false end)
  then Ok (w, false)
  else
    let est := bb_estimate (w_data w) + WRITER_ENTRY_OVERHEAD + len key + len val in
    let cut := if WRITER_CUT_IS_GE then wo_block_size (w_opt w) <=? est else wo_block_size (w_opt w) <? est in
    let r1 :=
      if cut then
        (* bytes_shortest_separator(w->last_key, key) with its closing assert *)
        let lk := sep (w_last_key w) key in
        if negb (sep_early (w_last_key w) key) && negb (blt lk key) then Abort
        else writer_flush (mkwriter (w_opt w) (w_m w) (w_data w) (w_index w) lk (w_last_offset w)
                                    (w_pending_offset w) (w_closed w) (w_out w))
      else Ok w in
    match r1 with
    | Ok w1 =>
      let m := w_m w1 in
      let m' := mkmeta (m_index_block_offset m) (m_data_block_size m) (m_compression_algorithm m)
                       (m_count_entries m + 1) (m_count_data_blocks m) (m_bytes_data_blocks m)
                       (m_bytes_index_block m) (m_bytes_keys m + len key) (m_bytes_values m + len val) in
      match bb_add (w_data w1) key val with
      | Ok d => Ok (mkwriter (w_opt w1) m' d (w_index w1) key (w_last_offset w1) (w_pending_offset w1)
                             (w_closed w1) (w_out w1), true)
      | _ => Abort
      end
    | _ => Abort
    end.

(* _mtbl_writer_finish (called by mtbl_writer_destroy) *)
Definition writer_finish (w : writer) : res writer :=
  match writer_flush w with
  | Ok w1 =>
    let idx := bb_finish (w_index w1) in
    let bw := block_written idx in
    let m := w_m w1 in
    let m' := mkmeta (w_pending_offset w1) (m_data_block_size m) (m_compression_algorithm m)
                     (m_count_entries m) (m_count_data_blocks m) (m_bytes_data_blocks m)
                     bw (m_bytes_keys m) (m_bytes_values m) in
    Ok (mkwriter (w_opt w1) m' (w_data w1) (bb_reset (w_index w1)) (w_last_key w1)
                 (w_pending_offset w1) (w_pending_offset w1 + bw) true
                 ([metadata_write m'] ++ rev (block_chunks idx) ++ w_out w1))
  | _ => Abort
  end.

(* a whole writer session: the adds, then destroy.  Returns the per-add results
   and the final writer (whose w_out holds all buffers written, newest first). *)
Fixpoint writer_adds (w : writer) (ops : list entry) : res (writer * list bool) :=
  match ops with
  | [] => Ok (w, [])
  | (k, v) :: tl =>
    match writer_add w k v with
    | Ok (w1, r) =>
      match writer_adds w1 tl with
      | Ok (w2, rs) => Ok (w2, r :: rs)
      | Fail => Fail | Abort => Abort | Oob => Oob
      end
    | Fail => Fail | Abort => Abort | Oob => Oob
    end
  end.

Definition writer_chunks (w : writer) : list bytes := rev (w_out w).
Definition writer_bytes (w : writer) : bytes := concat (writer_chunks w).

Definition writer_session (o : wopts) (initial_offset : N) (ops : list entry)
  : res (writer * list bool) :=
  match writer_adds (writer_init o initial_offset) ops with
  | Ok (w, rs) => match writer_finish w with
                  | Ok w' => Ok (w', rs)
                  | Fail => Fail | Abort => Abort | Oob => Oob
                  end
  | Fail => Fail | Abort => Abort | Oob => Oob
  end.

End WithCompress.
