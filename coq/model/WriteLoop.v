(* Model of _write_all() in mtbl/writer.c against an arbitrary sequence of
   write(2) outcomes.  One outcome is consumed per write(2) call; when the list is
   exhausted every further call completes in full. *)
From Mtbl Require Import model.Bytes.
Local Open Scope N_scope.

Inductive outcome :=
| OFull                (* all requested bytes written *)
| OPartial (n : N)     (* min(max 1 n, size) bytes written *)
| OEintr               (* -1, errno = EINTR *)
| OZero                (* returns 0 *)
| OErr.                (* -1, other errno *)

Definition partial_len (n : N) (size : N) : N := N.min (N.max 1 n) size.

(* the while loop; [buf] = bytes not yet written *)
Fixpoint write_loop (os : list outcome) (file buf : bytes) : res (bytes * list outcome) :=
  match buf with
  | [] => Ok (file, os)
  | _ :: _ =>
    match os with
    | [] => Ok (file ++ buf, [])
    | OFull :: os' => Ok (file ++ buf, os')
    | OPartial n :: os' =>
      let k := partial_len n (len buf) in
      write_loop os' (file ++ take k buf) (drop k buf)
    | OEintr :: os' => write_loop os' file buf
    | OZero :: _ => Abort            (* assert(bytes_written > 0) *)
    | OErr :: _ => Abort
    end
  end.

(* _write_all: assert(size > 0) first *)
Definition write_all (os : list outcome) (file buf : bytes) : res (bytes * list outcome) :=
  match buf with [] => Abort | _ => write_loop os file buf end.

(* the sequence of buffers a writer hands to _write_all *)
Fixpoint write_chunks (os : list outcome) (file : bytes) (chunks : list bytes) : res (bytes * list outcome) :=
  match chunks with
  | [] => Ok (file, os)
  | c :: tl => match write_all os file c with
               | Ok (f, os') => write_chunks os' f tl
               | Fail => Fail | Abort => Abort | Oob => Oob
               end
  end.

(* independent description of "a hard error or a zero return is met before the
   remaining [size] bytes are written" *)
Fixpoint error_met (os : list outcome) (size : N) : bool :=
  match os with
  | [] => false
  | OFull :: _ => false
  | OPartial n :: os' => let k := partial_len n size in if size - k =? 0 then false else error_met os' (size - k)
  | OEintr :: os' => error_met os' size
  | OZero :: _ => true
  | OErr :: _ => true
  end.
