(* Model of mtbl/block.c (block iterator) and mtbl/reader.c (open, get_block,
   reader iterators).  A block is parsed eagerly into the abstract form of
   spec/Parse.v when it is loaded; the iterator logic (restart index, galloping +
   binary search over restart points, linear scan, index/block hand-over,
   block_offset bookkeeping, first/valid flags, bounds) mirrors the C code. *)
From Coq Require Import ZArith.
From Mtbl Require Import gen.Consts model.Bytes model.Codec model.Order model.Crc model.Writer spec.Leb128 spec.Parse.
Local Open Scope N_scope.

(* ------------------------------------------------------------------ block.c *)

Definition nentries (b : ablock) : nat := length (ab_entries b).
Definition nrest (b : ablock) : N := N.of_nat (length (ab_restarts b)).
Definition dummy_pe : pentry := mkpe 0 0 [] [] true.
Definition entry_at (b : ablock) (j : nat) : pentry := nth j (ab_entries b) dummy_pe.
Definition restart_at (b : ablock) (i : N) : N := nth (N.to_nat i) (ab_restarts b) 0.
Definition key_at (b : ablock) (j : nat) : bytes := pe_key (entry_at b j).
Definition off_at (b : ablock) (j : nat) : N := pe_off (entry_at b j).

Fixpoint find_off (es : list pentry) (off : N) (i : nat) : option nat :=
  match es with
  | [] => None
  | e :: tl => if pe_off e =? off then Some i else find_off tl off (S i)
  end.

(* iterator state between API calls: valid at entry [bs_cur], or invalid
   (current == restarts, restart_index == num_restarts) *)
Record bstate := mkbs { bs_valid : bool; bs_cur : nat; bs_ri : N }.
Definition bs_invalid (b : ablock) : bstate := mkbs false 0 (nrest b).
Definition bs_key (b : ablock) (s : bstate) : bytes := pe_key (entry_at b (bs_cur s)).

(* while (ri + 1 < num_restarts && get_restart_point(ri + 1) < current) ri++ *)
Fixpoint advance_ri (fuel : nat) (b : ablock) (ri cur_off : N) : N :=
  match fuel with
  | O => ri
  | S f => if (ri + 1 <? nrest b) && (restart_at b (ri + 1) <? cur_off)
           then advance_ri f b (ri + 1) cur_off else ri
  end.

(* parse_next_key when bi->next points at entry j (or at the end) *)
Definition parse_at (b : ablock) (j : nat) (ri : N) : bstate :=
  if (j <? nentries b)%nat
  then mkbs true j (advance_ri (length (ab_restarts b)) b ri (pe_off (entry_at b j)))
  else bs_invalid b.

(* seek_to_restart_point(idx) followed by parse_next_key *)
Definition seek_restart (b : ablock) (idx : N) : res bstate :=
  if negb (idx <? nrest b) then Abort                       (* assert(idx < num_restarts) *)
  else match find_off (ab_entries b) (restart_at b idx) 0 with
       | Some j => Ok (parse_at b j idx)
       | None => if restart_at b idx <? 0 then Abort else
                 (* restart offset at/after the end of the entries: p >= limit *)
                 Ok (bs_invalid b)
       end.

Definition block_seek_to_first (b : ablock) : res bstate := seek_restart b 0.

Definition block_next (b : ablock) (s : bstate) : bstate :=
  if bs_valid s then parse_at b (S (bs_cur s)) (bs_ri s) else s.

(* compare_restart_point: key stored at restart point i against target; asserts shared == 0 *)
Definition cmp_restart (b : ablock) (i : N) (target : bytes) : res comparison :=
  if negb (i <? nrest b) then Abort else
  match find_off (ab_entries b) (restart_at b i) 0 with
  | Some j => let e := entry_at b j in
              if pe_shared e =? 0 then Ok (bcmp (pe_key e) target) else Abort
  | None => Abort
  end.

(* galloping phase: returns (lo, hi) *)
Fixpoint gallop (fuel : nat) (b : ablock) (target : bytes) (i incr lo hi : N) : res (N * N) :=
  match fuel with
  | O => Abort
  | S f =>
    match cmp_restart b i target with
    | Ok Lt =>
      let lo1 := i in
      let i' := i + incr in
      if nrest b - 1 <? i' then Ok (lo1, nrest b - 1)
      else gallop f b target i' (incr * 2) lo1 i'
    | Ok _ => Ok (lo, hi)
    | _ => Abort
    end
  end.

Fixpoint binsearch (fuel : nat) (b : ablock) (target : bytes) (lo hi : N) : res N :=
  match fuel with
  | O => Abort
  | S f =>
    if lo <? hi then
      let mid := (lo + hi + 1) / 2 in
      match cmp_restart b mid target with
      | Ok Lt => binsearch f b target mid hi
      | Ok _ => binsearch f b target lo (mid - 1)
      | _ => Abort
      end
    else Ok lo
  end.

(* linear scan: parse_next_key until key >= target or the entries end *)
Fixpoint scan (fuel : nat) (b : ablock) (target : bytes) (j : nat) (ri : N) : bstate :=
  match fuel with
  | O => bs_invalid b
  | S f =>
    let s := parse_at b j ri in
    if negb (bs_valid s) then s
    else match bcmp (bs_key b s) target with
         | Lt => scan f b target (S j) (bs_ri s)
         | _ => s
         end
  end.

Definition block_seek (b : ablock) (s : bstate) (target : bytes) : res bstate :=
  let n := nrest b in
  if n =? 0 then Abort else
  let start_ri := bs_ri s in
  let lr := if negb (n =? start_ri) && negb (start_ri =? 0)
            then gallop (S (length (ab_restarts b))) b target start_ri 1 0 start_ri
            else Ok (0, n - 1) in
  match lr with
  | Ok (lo0, hi0) =>
    let l := if lo0 + 1 <? hi0
             then binsearch (S (length (ab_restarts b))) b target lo0 hi0
             else Ok lo0 in
    match l with
    | Ok lo =>
      let same := start_ri =? lo in
      let cmp := bcmp (bs_key b s) target in
      if same && (match cmp with Eq => true | _ => false end) then Ok s
      else if same && (match cmp with Lt => true | _ => false end)
      then Ok (scan (S (nentries b)) b target (S (bs_cur s)) (bs_ri s))
      else
        if negb (lo <? n) then Abort else
        match find_off (ab_entries b) (restart_at b lo) 0 with
        | Some j => Ok (scan (S (nentries b)) b target j lo)
        | None => Ok (bs_invalid b)
        end
    | _ => Abort
    end
  | _ => Abort
  end.

(* ------------------------------------------------------------------ reader.c *)

Record reader := mkreader {
  r_file : bytes;             (* the whole mapping *)
  r_version : N;
  r_comp : N;
  r_verify : bool;
  r_index : option ablock;    (* None: block_init left size = 0 (malformed index) *)
  r_meta : meta;
}.

Section WithDecompress.
Variable decompress : N -> bytes -> res bytes.

(* block_init + the asserts of block_iter_init, on the raw (uncompressed) bytes;
   mirrors the restart-array location logic of block_init *)
Definition block_init (raw : bytes) : option ablock :=
  let size := len raw in
  if size <? 4 then None else
  match fixed_decode32 (drop (size - 4) raw) with
  | None => None
  | Some nr =>
    (* size - (1 + num_restarts) * 4 in size_t arithmetic; 1 + nr is a uint32_t sum *)
    let ro32 := u64 (size + 18446744073709551616 - u32 (1 + nr) * 4) in
    let w64 := 4294967295 <? ro32 in
    let ro := if w64 then u64 (size + 18446744073709551616 * 8 - (4 + nr * 8)) else ro32 in
    if w64 && (ro <=? 4294967295) then None
    else if size - 4 <? ro then None
    else if size <? 8 then None           (* assert(b->size >= 2*sizeof(uint32_t)) in block_iter_init *)
    else
      match parse_array (N.to_nat nr) (if w64 then 8 else 4) (drop ro raw) with
      | None => None
      | Some restarts =>
        match parse_entries (length raw) 0 [] (take ro raw) with
        | None => None
        | Some es => Some (mkab es restarts size w64)
        end
      end
  end.

(* get_block(r, offset): Abort = assertion, Oob = read outside the mapping *)
Definition get_block (r : reader) (offset : N) : res ablock :=
  let f := r_file r in
  if negb (offset <? len f) then Abort else
  let hdr :=
    if r_version r =? FORMAT_V1 then
      match fixed_decode32 (drop offset f) with Some n => Ok (n, 4) | None => Oob end
    else match varint_decode64 (drop offset f) with
         | Ok (n, l) => Ok (n, l) | Oob => Oob | _ => Abort end in
  match hdr with
  | Ok (n, l) =>
    match slice f (offset + l + 4) n with
    | None => Oob
    | Some stored =>
      let crc_ok :=
        if r_verify r then
          match fixed_decode32 (drop (offset + l) f) with
          | Some c => c =? crc32c_ref stored
          | None => false
          end
        else true in
      if negb crc_ok then Abort else
      let raw := if r_comp r =? COMP_NONE then Ok stored else decompress (r_comp r) stored in
      match raw with
      | Ok rb => match block_init rb with Some b => Ok b | None => Abort end
      | _ => Abort                          (* assert(res == mtbl_res_success) *)
      end
    end
  | Oob => Oob | _ => Abort
  end.

(* the offset stored in an index entry's value *)
Definition index_offset (ib : ablock) (s : bstate) : N :=
  match varint_decode64 (pe_val (entry_at ib (bs_cur s))) with
  | Ok (v, _) => v
  | _ => 0
  end.

Inductive ikind := KIter | KGet | KPrefix | KRange.

Record riter := mkri {
  it_kind : ikind;
  it_k : bytes;                  (* bound key (get: key, prefix: prefix, range: key1) *)
  it_block_offset : N;           (* the field block_offset *)
  it_b : option (N * ablock);    (* decoded block actually held, with the offset it was read from *)
  it_bi : bstate;
  it_index : bstate;
  it_first : bool;
  it_valid : bool;
}.

Definition get_block_at_index (r : reader) (ib : ablock) (idx : bstate) : res (option (N * ablock)) :=
  if bs_valid idx then
    let off := index_offset ib idx in
    match get_block r off with
    | Ok b => Ok (Some (off, b))
    | Abort => Abort | Oob => Oob | Fail => Fail
    end
  else Ok None.

(* reader_iter(): None = NULL *)
Definition reader_iter (r : reader) : res (option riter) :=
  match r_index r with
  | None => Abort                                   (* block_iter_init asserts on a size-0 index *)
  | Some ib =>
    match block_seek_to_first ib with
    | Ok idx =>
      match get_block_at_index r ib idx with
      | Ok None => Ok None
      | Ok (Some (off, b)) =>
        match block_seek_to_first b with
        | Ok bi => Ok (Some (mkri KIter [] off (Some (off, b)) bi idx true true))
        | _ => Abort
        end
      | Abort => Abort | Oob => Oob | Fail => Fail
      end
    | _ => Abort
    end
  end.

(* reader_iter_init(r, key) + the kind-specific part of reader_get/_prefix/_range *)
Definition reader_iter_init (r : reader) (kind : ikind) (key bound : bytes) : res (option riter) :=
  match r_index r with
  | None => Abort
  | Some ib =>
    match block_seek ib (bs_invalid ib) key with
    | Ok idx =>
      match get_block_at_index r ib idx with
      | Ok None => Ok None
      | Ok (Some (off, b)) =>
        match block_seek b (bs_invalid b) key with
        | Ok bi => Ok (Some (mkri kind bound off (Some (off, b)) bi idx true true))
        | _ => Abort
        end
      | Abort => Abort | Oob => Oob | Fail => Fail
      end
    | _ => Abort
    end
  end.

Definition reader_get (r : reader) (key : bytes) := reader_iter_init r KGet key key.
Definition reader_get_prefix (r : reader) (p : bytes) := reader_iter_init r KPrefix p p.
Definition reader_get_range (r : reader) (k0 k1 : bytes) := reader_iter_init r KRange k0 k1.

Definition needs_index_seek (ib : ablock) (it : riter) (key : bytes) : bool :=
  if it_first it then true else
  match it_b it with
  | None => true
  | Some (_, b) =>
    if negb (bs_valid (it_bi it)) then true
    else match bcmp (bs_key b (it_bi it)) key with
         | Gt => true
         | _ =>
           if negb (bs_valid (it_index it)) then true
           else match bcmp (bs_key ib (it_index it)) key with Lt => true | _ => false end
         end
  end.

(* reader_iter_seek: returns the new iterator and the mtbl_res (true = success) *)
Definition reader_iter_seek (r : reader) (it : riter) (key : bytes) : res (riter * bool) :=
  match r_index r with
  | None => Abort
  | Some ib =>
    let idx_r := if needs_index_seek ib it key then block_seek ib (it_index it) key else Ok (it_index it) in
    match idx_r with
    | Ok idx =>
      if negb (bs_valid idx)
      then Ok (mkri (it_kind it) (it_k it) (it_block_offset it) (it_b it) (it_bi it) idx (it_first it) false, true)
      else
        let new_offset := index_offset ib idx in
        let reuse := match it_b it with Some _ => it_block_offset it =? new_offset | None => false end in
        let blk :=
          if reuse then Ok (it_b it, it_bi it, it_block_offset it)
          else match get_block r new_offset with
               | Ok b => Ok (Some (new_offset, b), bs_invalid b, new_offset)
               | Abort => Abort | Oob => Oob | Fail => Fail
               end in
        match blk with
        | Ok (Some (o, b), bi0, boff) =>
          match block_seek b bi0 key with
          | Ok bi => Ok (mkri (it_kind it) (it_k it) boff (Some (o, b)) bi idx true true, true)
          | _ => Abort
          end
        | Ok (None, _, _) => Abort
        | Abort => Abort | Oob => Oob | Fail => Fail
        end
    | _ => Abort
    end
  end.

Definition bound_ok (kind : ikind) (k key : bytes) : bool :=
  match kind with
  | KIter => true
  | KGet => match bcmp key k with Eq => true | _ => false end
  | KPrefix => is_prefix k key
  | KRange => match bcmp key k with Gt => false | _ => true end
  end.

(* reader_iter_next: the new iterator and Some entry (success) or None (failure) *)
Definition reader_iter_next (r : reader) (it : riter) : res (riter * option entry) :=
  match r_index r with
  | None => Abort
  | Some ib =>
    if negb (it_valid it) then Ok (it, None) else
    match it_b it with
    | None => Abort        (* valid iterators always hold a block *)
    | Some (o, b) =>
      let bi1 := if it_first it then it_bi it else block_next b (it_bi it) in
      let step :=
        if bs_valid bi1 then Ok (Some (o, b), it_block_offset it, bi1, it_index it, true)
        else
          (* block exhausted: advance the index iterator, load the next block *)
          let idx1 := block_next ib (it_index it) in
          if negb (bs_valid idx1) then Ok (None, it_block_offset it, bi1, idx1, false)
          else
            let off := index_offset ib idx1 in
            match get_block r off with
            | Ok nb =>
              match block_seek_to_first nb with
              | Ok nbi => Ok (Some (off, nb), off, nbi, idx1, bs_valid nbi)
              | _ => Abort
              end
            | Abort => Abort | Oob => Oob | Fail => Fail
            end in
      match step with
      | Ok (blk, boff, bi2, idx2, valid) =>
        if negb valid then Ok (mkri (it_kind it) (it_k it) boff blk bi2 idx2 false false, None)
        else match blk with
             | Some (_, cb) =>
               let e := entry_at cb (bs_cur bi2) in
               let ok := bound_ok (it_kind it) (it_k it) (pe_key e) in
               Ok (mkri (it_kind it) (it_k it) boff blk bi2 idx2 false ok,
                   if ok then Some (pe_key e, pe_val e) else None)
             | None => Abort
             end
      | Abort => Abort | Oob => Oob | Fail => Fail
      end
    end
  end.

(* ---------------- mtbl_reader_init_fd on a byte string ------------------------- *)
(* every read of the mapping is recorded as (offset, length); Oob is reported when
   one leaves the file.  Returns None for NULL. *)
Definition reader_open (f : bytes) (verify : bool) : res (option reader) * list (N * N) :=
  let n := len f in
  if n <? MTBL_METADATA_SIZE then (Ok None, []) else
  let moff := n - MTBL_METADATA_SIZE in
  let tr1 := [(moff, MTBL_METADATA_SIZE)] in
  match metadata_read (drop moff f) with
  | None => (Ok None, tr1)
  | Some (ver, m) =>
    let minlen := if ver =? FORMAT_V1 then READER_MIN_BLOCK_V1 else READER_MIN_BLOCK_V2 in
    let ibo := m_index_block_offset m in
    let e := u64 (ibo + MTBL_METADATA_SIZE + minlen) in
    if (n <? e) || (e <? ibo) then (Ok None, tr1) else
    (* length prefix of the index block *)
    let hdr :=
      if ver =? FORMAT_V1 then
        (match fixed_decode32 (drop ibo f) with Some v => Ok (v, 4) | None => Oob end, [(ibo, 4)])
      else
        match varint_decode64 (drop ibo f) with
        | Ok (v, l) => (Ok (v, l), [(ibo, if l =? 0 then 10 else l)])
        | Oob => (Oob, [(ibo, 10)])
        | _ => (Abort, [(ibo, 10)])
        end in
    match hdr with
    | (Ok (ilen, ill), tr2) =>
      let avail := moff - ibo in
      let ihdr := ill + 4 in
      if (avail <? ihdr) || (avail - ihdr <? ilen) then (Ok None, tr1 ++ tr2) else
      let idata_off := ibo + ill + 4 in
      let tr3 := if verify then [(ibo + ill, 4); (idata_off, ilen)] else [] in
      match slice f idata_off ilen with
      | None => (Oob, tr1 ++ tr2 ++ tr3 ++ [(idata_off, ilen)])
      | Some idata =>
        let crc_ok := if verify then
                        match fixed_decode32 (drop (ibo + ill) f) with
                        | Some c => c =? crc32c_ref idata | None => false end
                      else true in
        if negb crc_ok then (Abort, tr1 ++ tr2 ++ tr3) else
        (* block_init reads the restart count at the end of the index data when size >= 4 *)
        let tr4 := if 8 <=? ilen then [(idata_off + ilen - 4, 4)] else [] in
        if (4 <=? ilen) && (ilen <? 8) then (Abort, tr1 ++ tr2 ++ tr3)   (* assert in num_restarts *)
        else (Ok (Some (mkreader f ver (m_compression_algorithm m) verify (block_init idata) m)),
              tr1 ++ tr2 ++ tr3 ++ tr4)
      end
    | (Oob, tr2) => (Oob, tr1 ++ tr2)
    | (_, tr2) => (Abort, tr1 ++ tr2)
    end
  end.

End WithDecompress.

(* drain an iterator: the entries returned until the first failure (fuel = upper bound on calls) *)
Section Drain.
Variable decompress : N -> bytes -> res bytes.
Fixpoint drain (fuel : nat) (r : reader) (it : riter) : res (list entry) :=
  match fuel with
  | O => Ok []
  | S f => match reader_iter_next decompress r it with
           | Ok (it', Some e) => match drain f r it' with
                                 | Ok l => Ok (e :: l)
                                 | Fail => Fail | Abort => Abort | Oob => Oob
                                 end
           | Ok (_, None) => Ok []
           | Fail => Fail | Abort => Abort | Oob => Oob
           end
  end.
(* open + iterate from the start: what `mtbl_dump` prints *)
Definition read_all (fuel : nat) (f : bytes) : res (list entry) :=
  match fst (reader_open f false) with
  | Ok (Some r) => match reader_iter decompress r with
                   | Ok (Some it) => drain fuel r it
                   | Ok None => Ok []
                   | Fail => Fail | Abort => Abort | Oob => Oob
                   end
  | Ok None => Fail
  | Fail => Fail | Abort => Abort | Oob => Oob
  end.
End Drain.
