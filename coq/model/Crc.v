(* CRC-32C.  [crc32c_ref] is the bit-serial definition of the standard
   (Castagnoli polynomial 0x1EDC6F41, reflected form 0x82F63B78, init and final
   xor 0xFFFFFFFF - RFC 3720 / iSCSI).  The table-driven and SSE4.2 models of
   libmy/crc32c-*.c are further down. *)
From Mtbl Require Import gen.CrcTables model.Bytes.
Local Open Scope N_scope.

Definition CRC_POLY_REFLECTED : N := 2197175160. (* 0x82F63B78 *)
Definition CRC_MASK : N := 4294967295.

Definition crc_step_bit (c : N) : N :=
  if N.odd c then N.lxor (N.shiftr c 1) CRC_POLY_REFLECTED else N.shiftr c 1.
Definition crc_step8 (c : N) : N :=
  crc_step_bit (crc_step_bit (crc_step_bit (crc_step_bit
  (crc_step_bit (crc_step_bit (crc_step_bit (crc_step_bit c))))))).
Definition crc_byte (c b : N) : N := crc_step8 (N.lxor c b).
Definition crc_update (c : N) (l : bytes) : N := fold_left crc_byte l c.
Definition crc32c_ref (l : bytes) : N := N.lxor (crc_update CRC_MASK l) CRC_MASK.

(* ---- libmy/crc32c-slicing.c (little-endian branch) ------------------------ *)
Definition tbl (t : N) (i : N) : N :=
  nth (N.to_nat i) (nth (N.to_nat t) CRC_TABLES []) 0.

(* crc = T0[(crc ^ *p) & 0xFF] ^ (crc >> 8) *)
Definition sl_byte (c b : N) : N :=
  N.lxor (tbl 0 (N.land (N.lxor c b) 255)) (N.shiftr c 8).

Definition le32 (b0 b1 b2 b3 : N) : N := b0 + 256 * b1 + 65536 * b2 + 16777216 * b3.

(* one 8-byte step of the main loop, lookups as scraped into CRC_SLICING_LOOKUPS *)
Definition sl_lookup (w0 w1 : N) (d : N * N * N) : N :=
  let '(t, w, sh) := d in
  tbl t (N.land (N.shiftr (if w =? 0 then w0 else w1) sh) 255).
Definition sl_qword (c : N) (b0 b1 b2 b3 b4 b5 b6 b7 : N) : N :=
  let w0 := N.lxor c (le32 b0 b1 b2 b3) in
  let w1 := le32 b4 b5 b6 b7 in
  fold_left (fun acc d => N.lxor acc (sl_lookup w0 w1 d)) CRC_SLICING_LOOKUPS 0.

Fixpoint sl_main (fuel : nat) (c : N) (l : bytes) : N * bytes :=
  match fuel with
  | O => (c, l)
  | S f =>
    match l with
    | b0 :: b1 :: b2 :: b3 :: b4 :: b5 :: b6 :: b7 :: tl => sl_main f (sl_qword c b0 b1 b2 b3 b4 b5 b6 b7) tl
    | _ => (c, l)
    end
  end.

(* head: byte-wise while the address is not 4-aligned and bytes remain.
   [misalign] = address mod 4 of the first byte. *)
Fixpoint sl_head (n : nat) (c : N) (l : bytes) : N * bytes :=
  match n, l with
  | S n', b :: tl => sl_head n' (sl_byte c b) tl
  | _, _ => (c, l)
  end.

Definition crc_slicing (misalign : N) (l : bytes) : N :=
  let nhead := N.to_nat ((4 - misalign mod 4) mod 4) in
  let '(c1, l1) := sl_head nhead CRC_SLICING_INIT l in
  (* nqwords = len / 8 computed on the remaining length; the tail handles len & 7 *)
  let '(c2, l2) := sl_main (Nat.div (length l1) 8) c1 l1 in
  let c3 := fold_left sl_byte l2 c2 in
  N.lxor c3 CRC_MASK.

(* ---- libmy/crc32c-sse42.c ---------------------------------------------------
   crc32{b,w,l,q} fold the operand's bytes, least significant first, into the
   register (Intel SDM: CRC32 - Accumulate CRC32 Value): modelled as crc_byte over
   the little-endian bytes read from memory. *)
Fixpoint sse_main (fuel : nat) (c : N) (l : bytes) : N * bytes :=
  match fuel with
  | O => (c, l)
  | S f => (fun r => sse_main f (crc_update c (firstn (N.to_nat CRC_SSE42_MAIN_WIDTH) l)) r)
             (skipn (N.to_nat CRC_SSE42_MAIN_WIDTH) l)
  end.
Definition sse_tail_ops (n : N) : list (N * N) :=
  match find (fun e => fst e =? n) CRC_SSE42_TAIL with
  | Some e => snd e
  | None => []
  end.
Definition crc_sse42 (l : bytes) : N :=
  let nmain := Nat.div (length l) (N.to_nat CRC_SSE42_MAIN_WIDTH) in
  let '(c1, tail) := sse_main nmain CRC_SSE42_INIT l in
  let ops := sse_tail_ops (N.land (len l) CRC_SSE42_TAIL_MASK) in
  let c2 := fold_left (fun c op => crc_update c (firstn (N.to_nat (snd op)) (skipn (N.to_nat (fst op)) tail))) ops c1 in
  N.lxor c2 CRC_MASK.
