(* Model of mtbl/merger.c.  Sources are ideal cursors over sorted entry lists (the
   contract of C03); the merge and dupsort functions are Section variables. *)
From Mtbl Require Import model.Bytes model.Order model.Heap.
Local Open Scope N_scope.

(* ---- an ideal source iterator (specification cursor of C03) ----------------------- *)
Inductive sbound := BAll | BGet (k : bytes) | BPrefix (p : bytes) | BRange (k1 : bytes).
Record scur := mksc { sc_es : list entry; sc_pos : nat; sc_valid : bool; sc_bound : sbound; sc_null : bool }.

Definition sbound_ok (b : sbound) (key : bytes) : bool :=
  match b with
  | BAll => true
  | BGet k => beq key k
  | BPrefix p => is_prefix p key
  | BRange k1 => ble key k1
  end.
Fixpoint first_ge_from (es : list entry) (k : bytes) (i : nat) : nat :=
  match es with
  | [] => i
  | (key, _) :: tl => if blt key k then first_ge_from tl k (S i) else i
  end.
Definition sc_next (s : scur) : scur * option entry :=
  if sc_null s || negb (sc_valid s) then (s, None) else
  match nth_error (sc_es s) (sc_pos s) with
  | None => (mksc (sc_es s) (sc_pos s) false (sc_bound s) false, None)
  | Some (k, v) =>
    if sbound_ok (sc_bound s) k then (mksc (sc_es s) (S (sc_pos s)) true (sc_bound s) false, Some (k, v))
    else (mksc (sc_es s) (sc_pos s) false (sc_bound s) false, None)
  end.
(* mtbl_iter_seek: failure on a NULL iterator *)
Definition sc_seek (s : scur) (k : bytes) : scur * bool :=
  if sc_null s then (s, false)
  else (mksc (sc_es s) (first_ge_from (sc_es s) k 0) true (sc_bound s) false, true).

Record hent := mkhe { he_src : nat; he_key : bytes; he_val : bytes; he_fin : bool }.
Definition dummy_he : hent := mkhe 0 [] [] true.

Record miter := mkmi {
  mi_srcs : list scur;        (* all source iterators, by position *)
  mi_heap : list hent;
  mi_entries : list nat;      (* sources whose first fill succeeded (entry_vec) *)
  mi_cur_key : bytes;
  mi_cur_val : bytes;
  mi_finished : bool;
  mi_pending : bool;
}.

Section Merger.
Variable mergef : option (bytes -> bytes -> bytes -> option bytes).
Variable dupsort : option (bytes -> bytes -> bytes -> comparison).

(* _mtbl_merger_compare *)
Definition mcmp (a b : hent) : comparison :=
  match bcmp (he_key a) (he_key b) with
  | Eq => match dupsort with Some f => f (he_key a) (he_val a) (he_val b) | None => Eq end
  | c => c
  end.

Notation hpush := (heap_push hent mcmp dummy_he).
Notation hpop := (heap_pop hent mcmp dummy_he).
Notation hreplace := (heap_replace hent mcmp dummy_he).
Notation hheapify := (heapify hent mcmp dummy_he).

Fixpoint set_src (l : list scur) (i : nat) (x : scur) : list scur :=
  match l, i with
  | [], _ => []
  | _ :: tl, O => x :: tl
  | h :: tl, S k => h :: set_src tl k x
  end.
Definition null_cur : scur := mksc [] 0 false BAll true.
Definition get_src (l : list scur) (i : nat) : scur := nth i l null_cur.

(* entry_fill on source i: new sources, and Some (key, val) on success *)
Definition fill (srcs : list scur) (i : nat) : list scur * option entry :=
  let '(s', e) := sc_next (get_src srcs i) in (set_src srcs i s', e).

(* constructor: iterators already created (source_iter / get / get_prefix / get_range);
   [skip_null]: the get-style constructors drop NULL iterators and return NULL when no
   entry was registered *)
Fixpoint add_entries (srcs : list scur) (ids : list nat) (heap : list hent) (entries : list nat)
  : list scur * list hent * list nat :=
  match ids with
  | [] => (srcs, heap, entries)
  | i :: tl =>
    let '(srcs', e) := fill srcs i in
    match e with
    | Some (k, v) => add_entries srcs' tl (hpush heap (mkhe i k v false)) (entries ++ [i])
    | None => add_entries srcs' tl heap entries
    end
  end.
Definition merger_iter_make (srcs : list scur) (skip_null : bool) : option miter :=
  let ids := filter (fun i => negb (skip_null && sc_null (get_src srcs i))) (seq 0 (length srcs)) in
  let '(srcs', heap, entries) := add_entries srcs ids [] [] in
  if skip_null && (match entries with [] => true | _ => false end) then None
  else Some (mkmi srcs' heap entries [] [] false false).

(* the root entry refilled from its source: heap_replace on success, marked finished otherwise *)
Definition refill_root (srcs : list scur) (heap : list hent) : list scur * list hent :=
  match heap with
  | [] => (srcs, heap)
  | e :: _ =>
    let '(srcs', r) := fill srcs (he_src e) in
    match r with
    | Some (k, v) => (srcs', hreplace heap (mkhe (he_src e) k v false))
    | None => (srcs', set_nth hent heap 0 (mkhe (he_src e) (he_key e) (he_val e) true))
    end
  end.

Fixpoint pop_finished (fuel : nat) (heap : list hent) : list hent :=
  match fuel with
  | O => heap
  | S f => match heap with
           | e :: _ => if he_fin e then pop_finished f (hpop heap) else heap
           | [] => heap
           end
  end.

(* the main loop of merger_iter_next; result: Some it = loop left normally, None = the merge
   function failed (the call returns failure at once, state as it is) *)
Fixpoint next_loop (fuel : nat) (it : miter) : miter * bool :=
  match fuel with
  | O => (it, true)
  | S f =>
    let heap := pop_finished (S (length (mi_heap it))) (mi_heap it) in
    match heap with
    | [] => (mkmi (mi_srcs it) heap (mi_entries it) (mi_cur_key it) (mi_cur_val it) true (mi_pending it), true)
    | e :: _ =>
      if negb (mi_pending it) then
        let '(srcs', heap') := refill_root (mi_srcs it) heap in
        next_loop f (mkmi srcs' heap' (mi_entries it) (he_key e) (he_val e) (mi_finished it) true)
      else
        match mergef with
        | None => (mkmi (mi_srcs it) heap (mi_entries it) (mi_cur_key it) (mi_cur_val it) (mi_finished it) (mi_pending it), true)
        | Some mf =>
          if beq (mi_cur_key it) (he_key e) then
            match mf (mi_cur_key it) (mi_cur_val it) (he_val e) with
            | None => (mkmi (mi_srcs it) heap (mi_entries it) (mi_cur_key it) (mi_cur_val it) (mi_finished it) (mi_pending it), false)
            | Some merged =>
              let '(srcs', heap') := refill_root (mi_srcs it) heap in
              next_loop f (mkmi srcs' heap' (mi_entries it) (mi_cur_key it) merged (mi_finished it) true)
            end
          else (mkmi (mi_srcs it) heap (mi_entries it) (mi_cur_key it) (mi_cur_val it) (mi_finished it) (mi_pending it), true)
        end
    end
  end.

Definition total_remaining (it : miter) : nat :=
  fold_right (fun s a => length (sc_es s) + a)%nat 0%nat (mi_srcs it).

Definition merger_next (it : miter) : miter * option entry :=
  if mi_finished it then (it, None) else
  let it0 := mkmi (mi_srcs it) (mi_heap it) (mi_entries it) [] [] (mi_finished it) false in
  let '(it1, ok) := next_loop (S (S (total_remaining it + 2 * length (mi_srcs it)))) it0 in
  if negb ok then (it1, None)
  else if mi_pending it1
       then (mkmi (mi_srcs it1) (mi_heap it1) (mi_entries it1) (mi_cur_key it1) (mi_cur_val it1) (mi_finished it1) false,
             Some (mi_cur_key it1, mi_cur_val it1))
       else (it1, None).

(* full re-seek of every registered entry, then heapify *)
Fixpoint reseek_all (srcs : list scur) (ids : list nat) (key : bytes) (heap : list hent) : list scur * list hent :=
  match ids with
  | [] => (srcs, heap)
  | i :: tl =>
    let '(s1, ok) := sc_seek (get_src srcs i) key in
    let srcs1 := set_src srcs i s1 in
    if negb ok then reseek_all srcs1 tl key heap else
    let '(srcs2, e) := fill srcs1 i in
    match e with
    | Some (k, v) => reseek_all srcs2 tl key (heap ++ [mkhe i k v false])
    | None => reseek_all srcs2 tl key heap
    end
  end.

(* forward seek: advance the sources that are behind the target *)
Fixpoint forward_loop (fuel : nat) (srcs : list scur) (heap : list hent) (key : bytes) (changed finished : bool)
  : list scur * list hent * bool * bool :=
  match fuel with
  | O => (srcs, heap, changed, finished)
  | S f =>
    match heap with
    | [] => (srcs, heap, changed, finished)
    | e :: _ =>
      if match bcmp key (he_key e) with Gt => true | _ => false end then
        let '(s1, ok) := sc_seek (get_src srcs (he_src e)) key in
        let srcs1 := set_src srcs (he_src e) s1 in
        let '(srcs2, r) := if ok then fill srcs1 (he_src e) else (srcs1, None) in
        match r with
        | Some (k, v) => forward_loop f srcs2 (hreplace heap (mkhe (he_src e) k v false)) key true finished
        | None =>
          let heap' := hpop heap in
          match heap' with
          | [] => (srcs2, heap', true, true)
          | _ => forward_loop f srcs2 heap' key true finished
          end
        end
      else (srcs, heap, changed, finished)
    end
  end.

Definition merger_seek (it : miter) (key : bytes) : miter :=
  let backward :=
    match mi_heap it with
    | [] => true
    | _ => (len (mi_cur_key it) =? 0) || (match bcmp key (mi_cur_key it) with Gt => false | _ => true end)
    end in
  if backward then
    let '(srcs, heap) := reseek_all (mi_srcs it) (mi_entries it) key [] in
    mkmi srcs (hheapify heap) (mi_entries it) (mi_cur_key it) (mi_cur_val it) false false
  else
    let '(srcs, heap, changed, finished) :=
      forward_loop (S (length (mi_heap it))) (mi_srcs it) (mi_heap it) key false false in
    if changed then mkmi srcs heap (mi_entries it) key [] finished false
    else mkmi srcs heap (mi_entries it) (mi_cur_key it) (mi_cur_val it) finished false.

End Merger.
