(* Model of mtbl/fileset.c + libmy/my_fileset.c as a state machine over an abstract
   world (setfile, files, clock).  Readers are identified by numbers; using a reader
   that has been unloaded is the outcome UAF. *)
From Coq Require Import ZArith.
From Mtbl Require Import gen.Consts model.Bytes.
Local Open Scope N_scope.

Definition fname := N.                      (* file names are abstract, ordered by number (= strcmp order of the real names) *)
Inductive fkind := FTable (table_id : N) | FNotTable.

Record world := mkworld {
  w_set_ino : N; w_set_mtime : N; w_set_lines : list fname;
  w_files : list (fname * fkind);          (* existing paths *)
  w_sec : N; w_nsec : N;                   (* CLOCK_MONOTONIC *)
}.

Definition lookup_file (w : world) (n : fname) : option fkind :=
  match find (fun p => fst p =? n) (w_files w) with Some p => Some (snd p) | None => None end.

(* a loaded entry: name, reader (None = mtbl_reader_init returned NULL), the table it read *)
Record fentry := mkfe { fe_name : fname; fe_reader : option N; fe_table : N }.

Record shared := mkshared {
  sh_n_iters : N; sh_reload_needed : bool; sh_last_sec : N; sh_last_nsec : N;
  sh_last_ino : N; sh_last_mtime : N;
  sh_entries : list fentry;                (* sorted by name *)
  sh_next_reader : N;                      (* fresh reader ids *)
  sh_dead : list N;                        (* unloaded reader ids *)
  sh_n_fs : N;
}.

Record handle := mkhandle {
  h_interval : N;
  h_last_sec : N; h_last_nsec : N;
  h_merger : list (N * N);                 (* (reader id, table id) of the sources of its merger *)
  h_name_filter : option N;                (* None, or Some m: keep names with n mod 2 = m *)
  h_reader_filter : option N;              (* None, or Some m: keep tables with id mod 2 = m *)
  h_alive : bool;
}.

Record fstate := mkfs { fs_world : world; fs_shared : shared; fs_handles : list handle;
                        fs_iters : list (nat * list (N * N) * bool) (* handle, snapshot, open *) }.

Fixpoint insert_sorted (e : fentry) (l : list fentry) : list fentry :=
  match l with
  | [] => [e]
  | x :: tl => if fe_name e <=? fe_name x then e :: l else x :: insert_sorted e tl
  end.

(* my_fileset_reload *)
Definition my_fileset_reload (w : world) (s : shared) : shared * N * N (* n_loaded, n_unloaded *) :=
  if (sh_last_ino s =? w_set_ino w) && (sh_last_mtime s =? w_set_mtime w) then (s, 0, 0) else
  let old := sh_entries s in
  let step := fun (acc : list fentry * N * N * list fname) (line : fname) =>
    let '(ents, next, loaded, kept) := acc in
    match lookup_file w line with
    | None => acc
    | Some k =>
      match find (fun e => fe_name e =? line) old with
      | Some e => (insert_sorted (mkfe line (fe_reader e) (fe_table e)) ents, next, loaded, line :: kept)
      | None =>
        match k with
        | FTable t => (insert_sorted (mkfe line (Some next) t) ents, next + 1, loaded + 1, kept)
        | FNotTable => (insert_sorted (mkfe line None 0) ents, next, loaded + 1, kept)
        end
      end
    end in
  let '(ents, next, loaded, kept) := fold_left step (w_set_lines w) ([], sh_next_reader s, 0, []) in
  let dropped := filter (fun e => negb (existsb (fun n => n =? fe_name e) kept)) old in
  let dead := fold_left (fun d e => match fe_reader e with Some r => r :: d | None => d end) dropped (sh_dead s) in
  (mkshared (sh_n_iters s) (sh_reload_needed s) (sh_last_sec s) (sh_last_nsec s)
            (w_set_ino w) (w_set_mtime w) ents next dead (sh_n_fs s),
   loaded, N.of_nat (length dropped)).

(* fs_reinit_merger *)
Definition reinit_merger (s : shared) (h : handle) : list (N * N) :=
  fold_right (fun e acc =>
    match fe_reader e with
    | None => acc
    | Some r =>
      let okn := match h_name_filter h with None => true | Some m => (fe_name e) mod 2 =? m end in
      let okr := match h_reader_filter h with None => true | Some m => (fe_table e) mod 2 =? m end in
      if okn && okr then (r, fe_table e) :: acc else acc
    end) [] (sh_entries s).

Definition set_merger (h : handle) (m : list (N * N)) (sec nsec : N) : handle :=
  mkhandle (h_interval h) sec nsec m (h_name_filter h) (h_reader_filter h) (h_alive h).

(* the "merger is from an out of date fileset" step *)
Definition sync_handle (s : shared) (h : handle) : handle :=
  if (h_last_sec h =? sh_last_sec s) && (h_last_nsec h =? sh_last_nsec s) then h
  else set_merger h (reinit_merger s h) (sh_last_sec s) (sh_last_nsec s).

Definition do_reload (w : world) (s : shared) (h : handle) : shared * handle :=
  let '(s1, loaded, unloaded) := my_fileset_reload w s in
  let h1 := if (0 <? loaded) || (0 <? unloaded) then set_merger h (reinit_merger s1 h) (h_last_sec h) (h_last_nsec h) else h in
  (mkshared (sh_n_iters s1) false (w_sec w) (w_nsec w) (sh_last_ino s1) (sh_last_mtime s1)
            (sh_entries s1) (sh_next_reader s1) (sh_dead s1) (sh_n_fs s1),
   set_merger h1 (h_merger h1) (w_sec w) (w_nsec w)).

(* every reading of CLOCK_MONOTONIC returns a strictly later value (hypothesis of C07: the
   code uses the reading as a generation number); the harness clock ticks 1 ns per call *)
Definition tick (w : world) : world :=
  let ns := w_nsec w + 1 in
  mkworld (w_set_ino w) (w_set_mtime w) (w_set_lines w) (w_files w) (w_sec w + ns / 1000000000) (ns mod 1000000000).

(* mtbl_fileset_reload *)
Definition fileset_reload (w : world) (s : shared) (h : handle) : world * shared * handle :=
  let h0 := sync_handle s h in
  if negb (sh_reload_needed s) && (h_interval h0 =? FILESET_RELOAD_INTERVAL_NEVER) then (w, s, h0)
  else if 0 <? sh_n_iters s then (w, s, h0)
  else
    let w1 := tick w in
    if sh_reload_needed s || (h_interval h0 <? w_sec w1 - sh_last_sec s)
    then let '(s', h') := do_reload w1 s h0 in (w1, s', h') else (w1, s, h0).

(* mtbl_fileset_reload_now *)
Definition fileset_reload_now (w : world) (s : shared) (h : handle) : world * shared * handle :=
  let h0 := sync_handle s h in
  if 0 <? sh_n_iters s
  then (w, mkshared (sh_n_iters s) true (sh_last_sec s) (sh_last_nsec s) (sh_last_ino s) (sh_last_mtime s)
                 (sh_entries s) (sh_next_reader s) (sh_dead s) (sh_n_fs s), h0)
  else let w1 := tick w in let '(s', h') := do_reload w1 s h0 in (w1, s', h').

Inductive fop :=
| OpSetFile (lines : list fname)        (* rewrite the setfile: new mtime *)
| OpCreate (n : fname) (k : fkind)
| OpDelete (n : fname)
| OpAdvance (dsec dnsec : N)
| OpReload (h : nat)
| OpReloadNow (h : nat)
| OpOpen (h : nat)                      (* a source operation creating an iterator *)
| OpClose (it : nat)
| OpDup (h : nat) (interval : N) (nf rf : option N)
| OpDestroy (h : nat).

Inductive fout := OutNone | OutView (tables : list N) | OutUAF.

Definition upd {A} (l : list A) (i : nat) (x : A) : list A :=
  firstn i l ++ match skipn i l with [] => [] | _ :: tl => x :: tl end.

Definition dummy_handle := mkhandle 0 0 0 [] None None false.
Definition set_iters (s : shared) (n : N) : shared :=
  mkshared n (sh_reload_needed s) (sh_last_sec s) (sh_last_nsec s) (sh_last_ino s) (sh_last_mtime s)
           (sh_entries s) (sh_next_reader s) (sh_dead s) (sh_n_fs s).

Definition fstep (st : fstate) (op : fop) : fstate * fout :=
  let w := fs_world st in let s := fs_shared st in
  match op with
  | OpSetFile lines =>
    (mkfs (mkworld (w_set_ino w) (w_set_mtime w + 1) lines (w_files w) (w_sec w) (w_nsec w)) s (fs_handles st) (fs_iters st), OutNone)
  | OpCreate n k =>
    (mkfs (mkworld (w_set_ino w) (w_set_mtime w) (w_set_lines w)
                   ((n, k) :: filter (fun p => negb (fst p =? n)) (w_files w)) (w_sec w) (w_nsec w)) s (fs_handles st) (fs_iters st), OutNone)
  | OpDelete n =>
    (mkfs (mkworld (w_set_ino w) (w_set_mtime w) (w_set_lines w) (filter (fun p => negb (fst p =? n)) (w_files w)) (w_sec w) (w_nsec w))
          s (fs_handles st) (fs_iters st), OutNone)
  | OpAdvance ds dn =>
    let ns := w_nsec w + dn in
    (mkfs (mkworld (w_set_ino w) (w_set_mtime w) (w_set_lines w) (w_files w) (w_sec w + ds + ns / 1000000000) (ns mod 1000000000))
          s (fs_handles st) (fs_iters st), OutNone)
  | OpReload hi =>
    let '(w', s', h') := fileset_reload w s (nth hi (fs_handles st) dummy_handle) in
    (mkfs w' s' (upd (fs_handles st) hi h') (fs_iters st), OutNone)
  | OpReloadNow hi =>
    let '(w', s', h') := fileset_reload_now w s (nth hi (fs_handles st) dummy_handle) in
    (mkfs w' s' (upd (fs_handles st) hi h') (fs_iters st), OutNone)
  | OpOpen hi =>
    let '(w', s', h') := fileset_reload w s (nth hi (fs_handles st) dummy_handle) in
    let snapshot := h_merger h' in
    let uaf := existsb (fun p => existsb (fun d => d =? fst p) (sh_dead s')) snapshot in
    (mkfs w' (set_iters s' (sh_n_iters s' + 1)) (upd (fs_handles st) hi h') (fs_iters st ++ [(hi, snapshot, true)]),
     if uaf then OutUAF else OutView (map snd snapshot))
  | OpClose ii =>
    match nth_error (fs_iters st) ii with
    | Some (hi, snap, true) =>
      let s1 := set_iters s (sh_n_iters s - 1) in
      let '(w', s', h') := fileset_reload w s1 (nth hi (fs_handles st) dummy_handle) in
      (mkfs w' s' (upd (fs_handles st) hi h') (upd (fs_iters st) ii (hi, snap, false)), OutNone)
    | _ => (st, OutNone)
    end
  | OpDup hi interval nf rf =>
    let s' := mkshared (sh_n_iters s) (sh_reload_needed s) (sh_last_sec s) (sh_last_nsec s) (sh_last_ino s) (sh_last_mtime s)
                       (sh_entries s) (sh_next_reader s) (sh_dead s) (sh_n_fs s + 1) in
    (mkfs w s' (fs_handles st ++ [mkhandle interval 0 0 [] nf rf true]) (fs_iters st), OutNone)
  | OpDestroy hi =>
    let h := nth hi (fs_handles st) dummy_handle in
    let s' := mkshared (sh_n_iters s) (sh_reload_needed s) (sh_last_sec s) (sh_last_nsec s) (sh_last_ino s) (sh_last_mtime s)
                       (sh_entries s) (sh_next_reader s) (sh_dead s) (sh_n_fs s - 1) in
    (mkfs w s' (upd (fs_handles st) hi (mkhandle (h_interval h) (h_last_sec h) (h_last_nsec h) [] (h_name_filter h) (h_reader_filter h) false))
          (fs_iters st), OutNone)
  end.

Definition fs_init (w : world) (interval : N) (nf rf : option N) : fstate :=
  mkfs w (mkshared 0 true 0 0 0 0 [] 1 [] 1) [mkhandle interval 0 0 [] nf rf true] [].

Fixpoint frun (st : fstate) (ops : list fop) : list fout :=
  match ops with
  | [] => []
  | op :: tl => let '(st', o) := fstep st op in o :: frun st' tl
  end.
