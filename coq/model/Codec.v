(* Model of mtbl/varint.c and mtbl/fixed.c.  Constants, branch thresholds and
   per-branch byte layouts come from gen/Consts.v (scraped from the source). *)
From Mtbl Require Import gen.Consts model.Bytes.
Local Open Scope N_scope.

(* ---- mtbl_varint_length: while (v >= 128) { v >>= 7; len++; } ------------ *)
Fixpoint varint_length_loop (fuel : nat) (v len : N) : N :=
  match fuel with
  | O => len
  | S f => if VARINT_LEN_BOUND <=? v
           then varint_length_loop f (N.shiftr v VARINT_LEN_SHIFT) (len + 1)
           else len
  end.
(* 64 iterations always suffice for a uint64_t argument *)
Definition varint_length (v : N) : N := varint_length_loop 64 v 1.

(* ---- mtbl_varint_length_packed ------------------------------------------- *)
Fixpoint vlp_loop (data : bytes) (i : N) : N :=
  match data with
  | [] => i
  | b :: tl => if N.land b 128 =? 0 then i else vlp_loop tl (i + 1)
  end.
Definition varint_length_packed (data : bytes) : N :=
  let i := vlp_loop data 0 in
  if i =? len data then 0 else i + 1.

(* ---- mtbl_varint_encode32: unrolled branches ------------------------------ *)
Definition enc_byte (v : N) (d : N * bool) : N :=
  let '(sh, cont) := d in
  u8 (if cont then N.lor (N.shiftr v sh) VARINT_B else N.shiftr v sh).

Fixpoint enc32_select (v : N) (ths : list N) (brs : list (list (N * bool))) : bytes :=
  match ths, brs with
  | t :: ths', b :: brs' => if v <? 2 ^ t then map (enc_byte v) b else enc32_select v ths' brs'
  | [], b :: _ => map (enc_byte v) b
  | _, [] => []
  end.
(* argument is a uint32_t: callers pass size_t values, truncated by the call *)
Definition varint_encode32 (v : N) : bytes :=
  enc32_select (u32 v) VARINT_ENC32_THRESH_BITS VARINT_ENC32_BRANCHES.

(* ---- mtbl_varint_encode64: while (v >= B) { *p++ = (v & (B-1)) | B; v >>= 7; } *p++ = v *)
Fixpoint varint_encode64_loop (fuel : nat) (v : N) : bytes :=
  match fuel with
  | O => [u8 v]
  | S f => if VARINT_B64 <=? v
           then u8 (N.lor (N.land v (VARINT_B64 - 1)) VARINT_B64)
                :: varint_encode64_loop f (N.shiftr v VARINT_ENC64_SHIFT)
           else [u8 v]
  end.
Definition varint_encode64 (v : N) : bytes := varint_encode64_loop 64 (u64 v).

(* ---- _varint_decode -------------------------------------------------------
   Result: Ok (value, consumed) | Oob when the byte string ends before the
   varint does (the C code would read past the buffer it was handed).
   The "overflow" exit of the C loop returns value 0, length 0. *)
Fixpoint varint_decode_loop (fuel : nat) (max_shift shift val n : N) (data : bytes)
  : res (N * N) :=
  match fuel with
  | O => Abort (* unreachable: fuel 11 > 64/7 *)
  | S f =>
    if shift <? max_shift then
      match data with
      | [] => Oob
      | b :: tl =>
        let val' := N.lor val (u64 (N.shiftl (N.land b VARINT_DEC_MASK) shift)) in
        if N.land b VARINT_DEC_CONT =? 0 then Ok (val', n + 1)
        else varint_decode_loop f max_shift (shift + VARINT_DEC_STEP) val' (n + 1) tl
      end
    else Ok (0, 0)
  end.

Definition varint_decode64 (data : bytes) : res (N * N) :=
  varint_decode_loop 11 VARINT_DEC64_MAX_SHIFT 0 0 0 data.

Definition varint_decode32 (data : bytes) : res (N * N) :=
  match varint_decode_loop 11 VARINT_DEC32_MAX_SHIFT 0 0 0 data with
  | Ok (v, n) => Ok (u32 v, n)
  | Fail => Fail | Abort => Abort | Oob => Oob
  end.

(* ---- fixed.c: htoleN + memcpy = little-endian byte list ------------------- *)
Fixpoint le_encode (nbytes : nat) (v : N) : bytes :=
  match nbytes with
  | O => []
  | S k => (v mod 256) :: le_encode k (v / 256)
  end.
Fixpoint le_decode (nbytes : nat) (data : bytes) : option N :=
  match nbytes with
  | O => Some 0
  | S k => match data with
           | [] => None
           | b :: tl => match le_decode k tl with
                        | Some r => Some (b + 256 * r)
                        | None => None
                        end
           end
  end.
Definition fixed_encode32 (v : N) : bytes := le_encode 4 (u32 v).
Definition fixed_encode64 (v : N) : bytes := le_encode 8 (u64 v).
Definition fixed_decode32 (data : bytes) : option N := le_decode 4 data.
Definition fixed_decode64 (data : bytes) : option N := le_decode 8 data.
