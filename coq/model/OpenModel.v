(* A model of open(2) as far as mtbl_writer_init and mtbl_reader_init depend on it (POSIX.1-2017, open(),
   "O_CREAT", "O_EXCL", "O_TRUNC"; Linux open(2) for the symlink case of O_CREAT|O_EXCL).
   The flag lists are NOT written here: they are regenerated from the C sources on every run
   (gen/Consts.v: WRITER_OPEN_FLAGS, READER_OPEN_FLAGS), so the theorems of Properties_C08 are
   about the flags the code passes today. *)
From Coq Require Import List String Bool NArith.
From Mtbl Require Import gen.Consts model.Bytes.
Import ListNotations.
Local Open Scope string_scope.

(* what a path names; paths are opaque strings, one directory level is enough for these calls *)
Inductive node :=
| NReg (content : bytes)
| NLink (target : string)      (* symbolic link *)
| NDir.

Definition fsys := list (string * node).

Fixpoint fs_get (fs : fsys) (p : string) : option node :=
  match fs with
  | [] => None
  | (q, n) :: rest => if String.eqb p q then Some n else fs_get rest p
  end.

Fixpoint fs_set (fs : fsys) (p : string) (n : node) : fsys :=
  match fs with
  | [] => [(p, n)]
  | (q, m) :: rest => if String.eqb p q then (q, n) :: rest else (q, m) :: fs_set rest p n
  end.

Definition has (flags : list string) (f : string) : bool := existsb (String.eqb f) flags.

Inductive open_result :=
| OpenFail                      (* -1: EEXIST, ENOENT, EISDIR, ELOOP ... *)
| OpenOk (path : string).       (* a descriptor on the regular file now named by [path] *)

Definition writable (flags : list string) : bool := has flags "O_WRONLY" || has flags "O_RDWR".

(* open on a path that names a regular file / nothing, after link resolution *)
Definition open_resolved (flags : list string) (fs : fsys) (p : string) : open_result * fsys :=
  match fs_get fs p with
  | Some (NReg c) =>
      if has flags "O_TRUNC" && writable flags then (OpenOk p, fs_set fs p (NReg [])) else (OpenOk p, fs)
  | Some NDir => if writable flags || has flags "O_CREAT" then (OpenFail, fs) else (OpenFail, fs)  (* EISDIR; a directory is never a table *)
  | Some (NLink _) => (OpenFail, fs)                       (* a second link level: ELOOP in this model *)
  | None => if has flags "O_CREAT" then (OpenOk p, fs_set fs p (NReg [])) else (OpenFail, fs)
  end.

Definition posix_open (flags : list string) (fs : fsys) (p : string) : open_result * fsys :=
  match fs_get fs p with
  | Some n =>
      if has flags "O_CREAT" && has flags "O_EXCL" then (OpenFail, fs)     (* EEXIST, links not followed *)
      else match n with
           | NLink t => if has flags "O_NOFOLLOW" then (OpenFail, fs) else open_resolved flags fs t
           | _ => open_resolved flags fs p
           end
  | None => open_resolved flags fs p
  end.

(* mtbl_writer_init / mtbl_reader_init as far as the file system sees them: one open with the flags of the source *)
Definition writer_init_path (fs : fsys) (p : string) : open_result * fsys := posix_open WRITER_OPEN_FLAGS fs p.
Definition reader_init_path (fs : fsys) (p : string) : open_result * fsys := posix_open READER_OPEN_FLAGS fs p.
