(* Model of src/mtbl_verify.c: verify_file / verify_data_blocks *)
From Mtbl Require Import gen.Consts model.Bytes model.Codec model.Crc model.Writer spec.Parse model.Reader.
Local Open Scope N_scope.

Inductive vres := VOk | VFailed | VOpenFailed | VAbort | VOob.

(* the loop over count_data_blocks; [data] starts at data_offset *)
Fixpoint verify_blocks (fuel : nat) (ver : N) (data : bytes) (offset consumed bytes_data_blocks : N) (remaining : N) : vres :=
  match fuel with
  | O => VAbort
  | S f =>
    if remaining =? 0 then VOk else
    let hdr := if ver =? FORMAT_V1
               then match fixed_decode32 (drop offset data) with Some n => Ok (n, 4) | None => Oob end
               else match varint_decode64 (drop offset data) with Ok (n, l) => Ok (n, l) | Oob => Oob | _ => Abort end in
    match hdr with
    | Ok (n, l) =>
      let consumed' := consumed + l + 4 + n in
      if bytes_data_blocks <? consumed' then VFailed
      else match fixed_decode32 (drop (offset + l) data), slice data (offset + l + 4) n with
           | Some c, Some stored =>
             if c =? crc32c_ref stored
             then verify_blocks f ver data (offset + l + 4 + n) consumed' bytes_data_blocks (remaining - 1)
             else VFailed
           | _, _ => VOob
           end
    | Oob => VOob
    | _ => VAbort
    end
  end.

Definition verify_file (f : bytes) : vres :=
  match fst (reader_open f true) with
  | Ok None => VOpenFailed
  | Ok (Some r) =>
    let m := r_meta r in
    let cnt := m_count_data_blocks m in
    let bdb := m_bytes_data_blocks m in
    if (bdb =? 0) && (cnt =? 0) then VOk else
    let data_offset := u64 (m_index_block_offset m + 18446744073709551616 - bdb) in
    (* mmap of data_offset + bdb bytes from the start of the file *)
    verify_blocks (S (N.to_nat (N.min cnt (len f)))) (r_version r) (drop data_offset (take (data_offset + bdb) f)) 0 0 bdb cnt
  | Abort => VAbort
  | Oob => VOob
  | Fail => VOpenFailed
  end.
