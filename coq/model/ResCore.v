(* C18, operational resource model - core: resource kinds, acquisition / release events,
   the multiset of live resources.  Executable Gallina, no proofs.
   Every API operation is written (in the tier files ResT1, ResSorter, ...) as the list of
   events the C function performs, top to bottom, failure branches included. *)
From Coq Require Import NArith List Bool.
Import ListNotations.
Local Open Scope N_scope.

(* process-level resources, and heap objects classified by allocation site *)
Inductive rkind :=
(* process level *)
| KFd            (* open file descriptor *)
| KMap           (* file mapping (mmap) *)
| KTmp           (* temporary file present in the temp directory *)
| KThread        (* result-handler thread *)
| KWorker        (* pool worker thread *)
(* writer.c *)
| HWriter        (* struct mtbl_writer (+ last_key) *)
| HBuilder       (* block_builder_init *)
| HDataBlock     (* a finished data block: last_key copy + block bytes (+ the heap copy sent to the pool) *)
| HWriterOpts    (* mtbl_writer_options_init *)
(* threadpool.c *)
| HHandler       (* struct result_handler *)
| HResultQ       (* resultq_init *)
| HMtblPool      (* struct mtbl_threadpool *)
| HPool          (* threadpool_init *)
| HWorkerS       (* struct thread of a worker *)
(* reader.c / block.c / source.c / iter.c *)
| HReader        (* struct mtbl_reader *)
| HBlock         (* block_init (+ decompressed bytes when needs_free) *)
| HBlockIter     (* block_iter_init *)
| HSource        (* mtbl_source_init *)
| HIter          (* mtbl_iter_init *)
| HReaderIter    (* struct reader_iter (+ its bound key) *)
(* merger.c *)
| HMerger        (* struct mtbl_merger *)
| HSourceVec     (* source_vec_init *)
| HMergerOpts    (* mtbl_merger_options_init *)
| HMergerIter    (* struct merger_iter (+ cur_key, cur_val) *)
| HHeap          (* heap_init *)
| HEntryVec      (* entry_vec_init (merger iterator and sorter) *)
| HIterVec       (* iter_vec_init *)
| HMEntry        (* struct entry of a merger iterator *)
(* sorter.c *)
| HSorter        (* struct mtbl_sorter *)
| HReaderVec     (* reader_vec_init *)
| HTmpName       (* strdup(opt->tmp_dname) *)
| HSEntry        (* one buffered sorter entry *)
| HBatch         (* struct entry_batch *)
| HSorterIter    (* struct sorter_iter *)
(* fileset.c / my_fileset.c *)
| HFileset       (* struct mtbl_fileset *)
| HSharedFs      (* struct shared_fileset *)
| HMyFileset     (* my_fileset_init: struct + setfile name + entry vector *)
| HFsEntry       (* one fileset entry: struct + file name *)
| HFilesetIter.  (* struct fileset_iter *)

Scheme Equality for rkind.

Definition is_heap (k : rkind) : bool :=
  match k with KFd | KMap | KTmp | KThread | KWorker => false | _ => true end.

Inductive ev := Acq (k : rkind) | Rel (k : rkind).

(* a live resource and the API object that owns it *)
Record res := mkres { r_owner : N; r_kind : rkind }.
Definition res_eqb (a b : res) : bool := (r_owner a =? r_owner b) && rkind_beq (r_kind a) (r_kind b).

(* releasing a resource removes ONE occurrence; releasing what is not live changes nothing *)
Fixpoint remove1 (r : res) (l : list res) : list res :=
  match l with
  | [] => []
  | x :: t => if res_eqb r x then t else x :: remove1 r t
  end.

Definition apply_ev (id : N) (l : list res) (e : ev) : list res :=
  match e with
  | Acq k => mkres id k :: l
  | Rel k => remove1 (mkres id k) l
  end.
Definition apply_evs (id : N) (evs : list ev) (l : list res) : list res := fold_left (apply_ev id) evs l.

(* helpers to write the event lists *)
Definition acq (k : rkind) : list ev := [Acq k].
Definition rel (k : rkind) : list ev := [Rel k].
Definition acqs (ks : list rkind) : list ev := map Acq ks.
Definition rels (ks : list rkind) : list ev := map Rel ks.
Definition when (b : bool) (evs : list ev) : list ev := if b then evs else [].
Fixpoint times (n : nat) (evs : list ev) : list ev :=
  match n with O => [] | S m => evs ++ times m evs end.
Definition ntimes (n : N) (evs : list ev) : list ev := times (N.to_nat n) evs.
Fixpoint copies (n : nat) (ks : list rkind) : list rkind :=
  match n with O => [] | S m => ks ++ copies m ks end.
Definition ncopies (n : N) (ks : list rkind) : list rkind := copies (N.to_nat n) ks.

Definition count_kind (k : rkind) (l : list res) : N :=
  N.of_nat (length (filter (fun r => rkind_beq k (r_kind r)) l)).
