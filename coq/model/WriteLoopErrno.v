(* _write_all() of mtbl/writer.c once more, one level down: write(2) as the C code sees it - a RETURN VALUE and the
   thread's errno - and the loop written with the tests the C code makes:

       bytes_written = write(fd, buf, size);
       if (bytes_written < 0 && errno == EINTR) continue;
       if (bytes_written <= 0) { ... assert(bytes_written > 0); }
       buf += bytes_written; size -= bytes_written;

   errno is state: a failing write sets it, a write that succeeds (in full, short, or with 0) may leave it alone or set it
   to anything (POSIX: its value is meaningful only when the return value says so) - [succ_errno] is that arbitrary
   behaviour, and the value errno has when _write_all is entered is arbitrary too (whatever an earlier call left).
   model/WriteLoop.v abstracts all this into the outcome alone; proofs/WriteLoopErrnoProofs.v shows the abstraction loses
   nothing: the loop below, started with ANY errno and under ANY succ_errno, is write_loop. *)
From Coq Require Import NArith ZArith List.
From Mtbl Require Import model.Bytes model.WriteLoop.
Import ListNotations.
Local Open Scope N_scope.

Inductive eno := E_none | E_intr | E_other.
Definition is_intr (e : eno) : bool := match e with E_intr => true | _ => false end.

Section Errno.
Variable succ_errno : outcome -> eno -> eno.

(* one write(2) call asked for [size] bytes with errno = e: (return value, errno afterwards) *)
Definition sys_write (o : outcome) (size : N) (e : eno) : Z * eno :=
  match o with
  | OFull => (Z.of_N size, succ_errno o e)
  | OPartial n => (Z.of_N (partial_len n size), succ_errno o e)
  | OZero => (0%Z, succ_errno o e)
  | OEintr => ((-1)%Z, E_intr)
  | OErr => ((-1)%Z, E_other)
  end.

Fixpoint write_loop_e (os : list outcome) (e : eno) (file buf : bytes) : res (bytes * list outcome * eno) :=
  match buf with
  | [] => Ok (file, os, e)
  | _ :: _ =>
    match os with
    | [] => Ok (file ++ buf, [], e)
    | o :: os' =>
      let '(r, e') := sys_write o (len buf) e in
      if ((r <? 0)%Z && is_intr e')%bool then write_loop_e os' e' file buf
      else if (r <=? 0)%Z then Abort
      else let k := Z.to_N r in write_loop_e os' e' (file ++ take k buf) (drop k buf)
    end
  end.

Definition write_all_e (os : list outcome) (e : eno) (file buf : bytes) : res (bytes * list outcome * eno) :=
  match buf with [] => Abort | _ => write_loop_e os e file buf end.

Fixpoint write_chunks_e (os : list outcome) (e : eno) (file : bytes) (chunks : list bytes) : res (bytes * list outcome * eno) :=
  match chunks with
  | [] => Ok (file, os, e)
  | c :: tl => match write_all_e os e file c with
               | Ok (f, os', e') => write_chunks_e os' e' f tl
               | Fail => Fail | Abort => Abort | Oob => Oob
               end
  end.
End Errno.

(* forgetting errno *)
Definition strip_e {A B : Type} (r : res (A * B * eno)) : res (A * B) :=
  match r with Ok (a, b, _) => Ok (a, b) | Fail => Fail | Abort => Abort | Oob => Oob end.
