(* C18 operational resource model, tier 1: writer, reader, iterators, merger.
   Each [*_code] is the list of acquisitions / releases of the C function named in its
   comment, in program order, with its failure branches; each [fp_*] is the footprint of an
   object as a function of its abstract state (written independently of the code). *)
From Coq Require Import NArith List Bool.
From Mtbl Require Import model.ResCore.
Import ListNotations.
Local Open Scope N_scope.

(* ---------- threadpool.c: result_handler_init / result_handler_destroy ---------- *)
Definition handler_init_code : list ev :=
  acq HHandler ++ acq HResultQ (* resultq_init *) ++ acq KThread (* pthread_create *).
(* [drain]: what the callbacks of the jobs still in flight release while the handler is joined *)
Definition handler_destroy_code (present : bool) (drain : list ev) : list ev :=
  when present (             (* if (rh == NULL) return; *)
    drain ++                 (* resultq_finish; result_worker: rh->cb(res) for every pending result *)
    rel HResultQ ++          (* result_worker: resultq_destroy *)
    rel KThread ++           (* pthread_join *)
    rel HHandler).           (* free(rh) *)

(* ---------- writer.c ---------- *)
Inductive wmode :=
| WPlain                 (* opt.pool == NULL *)
| WHandler               (* a pool object without threads: a result handler, blocks written in line *)
| WPool (inflight : N).  (* w->pool != NULL: blocks are compressed in the pool; [inflight] not yet written *)
Record wst := mkw {
  w_mode : wmode;
  w_pending : bool     (* the data block builder is not empty *)
}.
Definition has_handler (m : wmode) : bool := match m with WPlain => false | _ => true end.
Definition fp_writer (w : wst) : list rkind :=
  [KFd; HWriter; HBuilder; HBuilder]
  ++ match w_mode w with
     | WPlain => []
     | WHandler => [HHandler; HResultQ; KThread]
     | WPool i => [HHandler; HResultQ; KThread] ++ ncopies i [HDataBlock]
     end.

(* mtbl_writer_init_fd *)
Definition writer_init_fd_code (m : wmode) : list ev :=
  acq KFd (* dup *) ++ acq HWriter ++ acq HBuilder ++ acq HBuilder
  ++ when (has_handler m) handler_init_code.
Definition writer_init_st (m : wmode) : wst :=
  mkw (match m with WPool _ => WPool 0 | _ => m end) false.

(* mtbl_writer_init: open(O_EXCL) may fail; the opened descriptor is closed after the dup *)
Definition writer_init_code (open_ok : bool) (m : wmode) : list ev :=
  if open_ok then acq KFd ++ writer_init_fd_code m ++ rel KFd else [].

(* _mtbl_writer_flush: returns the events and the new mode *)
Definition writer_flush_code (w : wst) : list ev * wmode :=
  if w_pending w then
    match w_mode w with
    | WPool i => (acq HDataBlock (* last_key, data, bthread; dispatched *), WPool (i + 1))
    | m => (acq HDataBlock ++ rel HDataBlock (* compress, write, free *), m)
    end
  else ([], w_mode w).

(* mtbl_writer_add: [refused] = key not greater than the last one; [full] = the block is flushed first *)
Definition writer_add_code (w : wst) (refused full : bool) : list ev * wst :=
  if refused then ([], w)
  else if full then
    let '(e, m) := writer_flush_code w in (e, mkw m true)
  else ([], mkw (w_mode w) true).

(* mtbl_writer_destroy (closed is false for every live writer: only _mtbl_writer_finish sets it) *)
Definition writer_destroy_code (w : wst) : list ev :=
  let '(e, m) := writer_flush_code w in
  e                                                              (* _mtbl_writer_finish: flush *)
  ++ handler_destroy_code (has_handler m)                        (* result_handler_destroy *)
       (match m with WPool i => ntimes i (rel HDataBlock) | _ => [] end)
  ++ acq HDataBlock ++ rel HDataBlock                            (* index block: finish, write, free *)
  ++ rel KFd                                                     (* close(w->fd) *)
  ++ rel HBuilder ++ rel HBuilder ++ rel HWriter.

(* ---------- reader.c ---------- *)
Inductive rst := RNull | RTable.
Definition fp_reader (r : rst) : list rkind :=
  match r with RNull => [] | RTable => [HReader; KMap; HBlock; HSource] end.

Inductive rd_outcome :=
| RdTooSmall        (* st_size < MTBL_METADATA_SIZE *)
| RdMmapFail
| RdBadMagic        (* metadata_read fails *)
| RdBadIndexOffset  (* index offset leaves no room *)
| RdBadIndexLen     (* varint length does not fit size_t *)
| RdIndexPastMeta   (* index block extends past the metadata block *)
| RdOk.

(* mtbl_reader_destroy on a partially built reader: index and source are still NULL *)
Definition reader_destroy_partial : list ev := rel KMap ++ rel HReader.

(* mtbl_reader_init_fd *)
Definition reader_init_fd_code (o : rd_outcome) : list ev :=
  match o with
  | RdTooSmall => []
  | RdMmapFail => acq HReader ++ rel HReader
  | RdBadMagic | RdBadIndexOffset | RdBadIndexLen | RdIndexPastMeta =>
      acq HReader ++ acq KMap ++ reader_destroy_partial
  | RdOk => acq HReader ++ acq KMap ++ acq HBlock (* index *) ++ acq HSource
  end.
Definition reader_init_st (o : rd_outcome) : rst := match o with RdOk => RTable | _ => RNull end.

(* mtbl_reader_init: open may fail; the descriptor is closed whatever init_fd returns *)
Definition reader_init_code (open_ok : bool) (o : rd_outcome) : list ev :=
  if open_ok then acq KFd ++ reader_init_fd_code o ++ rel KFd else [].

(* mtbl_reader_destroy *)
Definition reader_destroy_code (r : rst) : list ev :=
  match r with
  | RNull => []
  | RTable => rel HBlock ++ rel KMap ++ rel HSource ++ rel HReader
  end.

(* ---------- iterators: iter.c, reader.c (reader_iter), merger.c (merger_iter) ---------- *)
(* the state of an iterator is the tree of the iterators it owns *)
Inductive iterst :=
| ItNull                                        (* a NULL mtbl_iter pointer *)
| ItReader (has_block : bool)                   (* reader_iter; [has_block]: it->b, it->bi are set *)
| ItMerger (entries : N) (subs : list iterst)   (* merger_iter: heap entries, iterators of the sources *)
| ItSorter (inner : iterst)                     (* sorter_iter: its own merger and that merger's iterator *)
| ItFileset (inner : iterst).                   (* fileset_iter: the iterator of the handle's merger *)

Fixpoint fp_iter (it : iterst) : list rkind :=
  match it with
  | ItNull => []
  | ItReader hb => [HIter; HReaderIter; HBlockIter] ++ (if hb then [HBlock; HBlockIter] else [])
  | ItMerger e subs =>
      [HIter; HMergerIter; HHeap; HEntryVec; HIterVec] ++ ncopies e [HMEntry] ++ flat_map fp_iter subs
  | ItSorter inner => [HIter; HSorterIter; HMerger; HSourceVec; HSource] ++ fp_iter inner
  | ItFileset inner => [HIter; HFilesetIter] ++ fp_iter inner
  end.

(* mtbl_merger_destroy *)
Definition merger_destroy_code : list ev := rel HSourceVec ++ rel HSource ++ rel HMerger.

(* mtbl_iter_destroy: iter_free(clos), then free(it).
   reader_iter_free, merger_iter_free, sorter_iter_free, fileset_iter_free (the part that
   touches the iterator's own memory; its effect on the fileset is in ResFileset) *)
Fixpoint iter_destroy_code (it : iterst) : list ev :=
  match it with
  | ItNull => []
  | ItReader hb =>
      when hb (rel HBlock ++ rel HBlockIter)      (* block_destroy(&it->b); block_iter_destroy(&it->bi) *)
      ++ rel HBlockIter ++ rel HReaderIter        (* index_iter; free(it) *)
      ++ rel HIter
  | ItMerger e subs =>
      rel HHeap ++ ntimes e (rel HMEntry) ++ rel HEntryVec
      ++ flat_map iter_destroy_code subs           (* mtbl_iter_destroy on every it->iters[i] *)
      ++ rel HIterVec ++ rel HMergerIter
      ++ rel HIter
  | ItSorter inner =>
      iter_destroy_code inner ++ merger_destroy_code ++ rel HSorterIter ++ rel HIter
  | ItFileset inner =>
      iter_destroy_code inner ++ rel HFilesetIter ++ rel HIter
  end.

(* draining: reader_iter_next at the end of the index destroys the block and its iterator *)
Fixpoint iter_drain_code (it : iterst) : list ev :=
  match it with
  | ItNull => []
  | ItReader hb => when hb (rel HBlock ++ rel HBlockIter)
  | ItMerger _ subs => flat_map iter_drain_code subs
  | ItSorter inner | ItFileset inner => iter_drain_code inner
  end.
Fixpoint iter_drain_st (it : iterst) : iterst :=
  match it with
  | ItNull => ItNull
  | ItReader _ => ItReader false
  | ItMerger e subs => ItMerger e (map iter_drain_st subs)
  | ItSorter inner => ItSorter (iter_drain_st inner)
  | ItFileset inner => ItFileset (iter_drain_st inner)
  end.

(* seeking: reader_iter_seek to another block (or after draining) replaces block and iterator.
   Simplification: merger_iter_seek is taken to seek every source iterator. *)
Fixpoint iter_seek_code (it : iterst) : list ev :=
  match it with
  | ItNull => []
  | ItReader hb => when hb (rel HBlock ++ rel HBlockIter) ++ acq HBlock ++ acq HBlockIter
  | ItMerger _ subs => flat_map iter_seek_code subs
  | ItSorter inner | ItFileset inner => iter_seek_code inner
  end.
Fixpoint iter_seek_st (it : iterst) : iterst :=
  match it with
  | ItNull => ItNull
  | ItReader _ => ItReader true
  | ItMerger e subs => ItMerger e (map iter_seek_st subs)
  | ItSorter inner => ItSorter (iter_seek_st inner)
  | ItFileset inner => ItFileset (iter_seek_st inner)
  end.
(* reader_iter_next moving to the next block: old block out, new block in *)
Fixpoint iter_next_code (it : iterst) : list ev :=
  match it with
  | ItNull => []
  | ItReader hb => when hb (rel HBlock ++ rel HBlockIter ++ acq HBlock ++ acq HBlockIter)
  | ItMerger _ subs => flat_map iter_next_code subs
  | ItSorter inner | ItFileset inner => iter_next_code inner
  end.

(* ---------- creating iterators: source.c dispatch ---------- *)
Inductive query := QIter | QGet | QPrefix | QRange.
Definition is_qiter (q : query) : bool := match q with QIter => true | _ => false end.

(* outcome of the data-dependent branches, one node per source visited:
   [oc_nonnull]: a reader source found a first block (reader_iter / reader_iter_init not NULL);
   [oc_filled]: the first entry_fill on the new iterator succeeded (merger_iter_add_entry) *)
Inductive ioc := Ioc (oc_nonnull oc_filled : bool) (oc_subs : list ioc).
Definition oc_nonnull (o : ioc) := let '(Ioc a _ _) := o in a.
Definition oc_filled (o : ioc) := let '(Ioc _ b _) := o in b.
Definition oc_subs (o : ioc) := let '(Ioc _ _ l) := o in l.
Definition oc_default : ioc := Ioc false false [].

(* reader_iter / reader_get / reader_get_prefix / reader_get_range (via reader_iter_init) *)
Definition reader_iter_code (nonnull : bool) : list ev * iterst :=
  if nonnull then
    (acq HReaderIter ++ acq HBlockIter (* index_iter *) ++ acq HBlock (* get_block_at_index *)
     ++ acq HBlockIter (* bi *) ++ acq HIter, ItReader true)
  else
    (acq HReaderIter ++ acq HBlockIter
     ++ rel HBlockIter ++ rel HReaderIter (* it->b == NULL: destroy index_iter, free(it), return NULL *),
     ItNull).

Definition is_null (it : iterst) : bool := match it with ItNull => true | _ => false end.

(* merger.c: the loop over m->sources of merger_iter / merger_get / _get_prefix / _get_range.
   [subs]: for each source the events of its own iterator creation, the iterator, and whether
   entry_fill succeeds on it.  Returns events, number of entries kept, non-NULL iterators. *)
Fixpoint merger_loop (q : query) (subs : list (list ev * iterst * bool)) : list ev * N * list iterst :=
  match subs with
  | [] => ([], 0, [])
  | (e, it, filled) :: t =>
      let '(et, n, its) := merger_loop q t in
      if is_null it then
        if is_qiter q then
          (* merger_iter: iter_vec_add(NULL); merger_iter_add_entry: entry_fill fails, free(ent) *)
          (e ++ acq HMEntry ++ rel HMEntry ++ et, n, its)
        else (e ++ et, n, its)                  (* if (s_it != NULL) ... *)
      else if filled then (e ++ acq HMEntry ++ et, n + 1, it :: its)
      else (e ++ acq HMEntry ++ rel HMEntry ++ et, n, it :: its)
  end.

Definition merger_iter_code (q : query) (subs : list (list ev * iterst * bool)) : list ev * iterst :=
  let '(el, n, its) := merger_loop q subs in
  let init := acq HMergerIter ++ acq HHeap ++ acq HEntryVec ++ acq HIterVec in   (* merger_iter_init *)
  if negb (is_qiter q) && (n =? 0) then
    (* entry_vec_size(it->entries) == 0: merger_iter_free(it); return NULL *)
    (init ++ el
     ++ rel HHeap ++ rel HEntryVec ++ flat_map iter_destroy_code its ++ rel HIterVec ++ rel HMergerIter,
     ItNull)
  else (init ++ el ++ acq HIter, ItMerger n its).

(* what a source id denotes (looked up in the state by the caller) *)
Inductive srcdesc := SNone | SReader | SMerger (srcs : list N).

Fixpoint zip_oc (srcs : list N) (ocs : list ioc) : list (N * ioc) :=
  match srcs with
  | [] => []
  | s :: t => match ocs with
              | [] => (s, oc_default) :: zip_oc t []
              | o :: ot => (s, o) :: zip_oc t ot
              end
  end.

(* mtbl_source_iter / _get / _get_prefix / _get_range on source [src].  Mergers of mergers
   recurse; [fuel] bounds the depth (the borrow graph is acyclic). *)
Fixpoint mk_iter (fuel : nat) (look : N -> srcdesc) (q : query) (src : N) (oc : ioc) : list ev * iterst :=
  match fuel with
  | O => ([], ItNull)
  | S f =>
      match look src with
      | SNone => ([], ItNull)
      | SReader => reader_iter_code (oc_nonnull oc)
      | SMerger srcs =>
          merger_iter_code q
            (map (fun so => (mk_iter f look (match q with QGet => QRange | _ => q end) (fst so) (snd so),
                             oc_filled (snd so)))
                 (zip_oc srcs (oc_subs oc)))
      end
  end.

(* ---------- merger.c: object ---------- *)
Definition fp_merger : list rkind := [HMerger; HSourceVec; HSource].
(* mtbl_merger_init *)
Definition merger_init_code : list ev := acq HMerger ++ acq HSourceVec ++ acq HSource.
