(* C18 operational resource model: instrumented run that counts releases of a resource that is
   not live (double free / double close / double munmap in the model). Executable, no proofs. *)
From Coq Require Import NArith List Bool.
From Mtbl Require Import model.ResCore model.ResT1 model.ResSorter model.ResFileset model.Resources.
Import ListNotations.
Local Open Scope N_scope.

Fixpoint is_live (r : res) (l : list res) : bool :=
  match l with [] => false | x :: t => res_eqb r x || is_live r t end.

Definition ev_faults (id : N) (l : list res) (e : ev) : N :=
  match e with Acq _ => 0 | Rel k => if is_live (mkres id k) l then 0 else 1 end.
Fixpoint evs_faults (id : N) (evs : list ev) (l : list res) : N :=
  match evs with
  | [] => 0
  | e :: t => ev_faults id l e + evs_faults id t (apply_ev id l e)
  end.
Fixpoint upds_faults (s : rstate) (us : list upd) : N :=
  match us with
  | [] => 0
  | u :: t => evs_faults (fst (fst u)) (snd (fst u)) (live s) + upds_faults (apply_upd s u) t
  end.
Fixpoint run_faults_from (v : svariant) (s : rstate) (ops : list rop) : N :=
  match ops with
  | [] => 0
  | op :: t => upds_faults s (decode_v v s op) + run_faults_from v (rstep_v v s op) t
  end.
Definition run_faults (ops : list rop) : N := run_faults_from v_current rinit ops.
