(* Basic vocabulary of the model: bytes are N (< 256 when well-formed), byte
   strings are lists; C outcomes are a four-valued result type. *)
From Coq Require Export NArith List Bool.
Export ListNotations.
Local Open Scope N_scope.

Definition byte := N.
Definition bytes := list N.

Definition wf_byte (b : N) : Prop := b < 256.
Definition wf_bytes (l : bytes) : Prop := Forall wf_byte l.
Definition wf_bytesb (l : bytes) : bool := forallb (fun b => b <? 256) l.

Definition u8 (x : N) : N := x mod 256.
Definition u32 (x : N) : N := x mod 4294967296.
Definition u64 (x : N) : N := x mod 18446744073709551616.

Definition len (l : bytes) : N := N.of_nat (length l).

(* sub-list [off, off+n) ; None when it leaves the list (an out-of-bounds read) *)
Definition slice (l : bytes) (off n : N) : option bytes :=
  if off + n <=? len l then Some (firstn (N.to_nat n) (skipn (N.to_nat off) l)) else None.

Definition drop (n : N) (l : bytes) : bytes := skipn (N.to_nat n) l.
Definition take (n : N) (l : bytes) : bytes := firstn (N.to_nat n) l.

(* Outcome of a C call in the model.
   Fail  = mtbl_res_failure / NULL,
   Abort = a failed assert() (the library is built without NDEBUG),
   Oob   = a memory read outside the buffer the code was given. *)
Inductive res (A : Type) : Type :=
| Ok (a : A)
| Fail
| Abort
| Oob.
Arguments Ok {A} a.
Arguments Fail {A}.
Arguments Abort {A}.
Arguments Oob {A}.

Definition bind {A B} (r : res A) (f : A -> res B) : res B :=
  match r with Ok a => f a | Fail => Fail | Abort => Abort | Oob => Oob end.

Definition entry := (bytes * bytes)%type.
