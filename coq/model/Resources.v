(* C18 operational resource model: the state (live resources + abstract state of every API
   object), the API operations [rop], [rstep], [rrun], the observation [obs], [wf_history].
   Executable Gallina, no proofs.  The per-function event lists are in ResT1 / ResSorter /
   ResFileset; this file dispatches. *)
From Coq Require Import NArith List Bool.
From Mtbl Require Import model.ResCore model.ResT1 model.ResSorter model.ResFileset.
Import ListNotations.
Local Open Scope N_scope.

(* ---------- threadpool.c: pool object ---------- *)
Record pst := mkp { p_max : N; p_workers : N }.
Definition fp_pool (p : pst) : list rkind :=
  [HMtblPool] ++ (if p_max p =? 0 then [] else [HPool] ++ ncopies (p_workers p) [HWorkerS; KWorker]).
(* mtbl_threadpool_init *)
Definition pool_init_code (n : N) : list ev := acq HMtblPool ++ when (negb (n =? 0)) (acq HPool).
(* threadpool_next when no idle thread is taken: a new worker *)
Definition pool_spawn_code : list ev := acq HWorkerS ++ acq KWorker.
(* a dispatch spawns iff it finds no idle worker; it cannot when count == max (it waits), it
   must when there is no worker yet; otherwise it depends on timing: argument [spawn] *)
Definition pool_spawns (p : pst) (spawn : bool) : bool :=
  (p_workers p <? p_max p) && ((p_workers p =? 0) || spawn).
(* mtbl_threadpool_destroy: threadpool_destroy joins and frees every worker *)
Definition pool_destroy_code (p : pst) : list ev :=
  when (negb (p_max p =? 0)) (ntimes (p_workers p) (rel KWorker ++ rel HWorkerS) ++ rel HPool)
  ++ rel HMtblPool.

(* ---------- objects ---------- *)
Inductive ostate :=
| ODead                                   (* destroyed, or never created *)
| OPool (p : pst)
| OWriter (w : wst) (pool : option N)
| OReader (r : rst)
| OMerger (srcs : list N)
| OIter (src : N) (it : iterst)
| OSorter (s : sst) (pool : option N)
| OFileset (f : fst_)                     (* a handle: struct mtbl_fileset *)
| OShared (sh : shst).                    (* struct shared_fileset + my_fileset, owned by its handles *)

Definition fp (o : ostate) : list rkind :=
  match o with
  | ODead => []
  | OPool p => fp_pool p
  | OWriter w _ => fp_writer w
  | OReader r => fp_reader r
  | OMerger _ => fp_merger
  | OIter _ it => fp_iter it
  | OSorter st _ => fp_sorter st
  | OFileset _ => fp_handle
  | OShared sh => fp_shared sh
  end.

Record rstate := mkst { live : list res; objs : list (N * ostate) }.
Definition rinit : rstate := mkst [] [].

(* the newest binding of an id wins; an id without binding is dead *)
Fixpoint get (id : N) (l : list (N * ostate)) : ostate :=
  match l with
  | [] => ODead
  | (i, o) :: t => if i =? id then o else get id t
  end.
Definition known (id : N) (l : list (N * ostate)) : bool := existsb (fun p => fst p =? id) l.
Definition is_dead (o : ostate) : bool := match o with ODead => true | _ => false end.

(* one update: the events performed on behalf of object [id], and its new abstract state *)
Definition upd := (N * list ev * ostate)%type.
Definition apply_upd (s : rstate) (u : upd) : rstate :=
  let '(id, evs, o) := u in mkst (apply_evs id evs (live s)) ((id, o) :: objs s).

(* every id that ever was bound is dead *)
Definition all_destroyedb (s : rstate) : bool :=
  forallb (fun p => is_dead (get (fst p) (objs s))) (objs s).
Definition all_destroyed (s : rstate) : Prop := forall id, get id (objs s) = ODead.

(* observation: (open descriptors, file mappings, temp files, result-handler threads) *)
Definition obs (s : rstate) : N * N * N * N :=
  (count_kind KFd (live s), count_kind KMap (live s), count_kind KTmp (live s), count_kind KThread (live s)).
Definition heap_live (s : rstate) : N := N.of_nat (length (filter (fun r => is_heap (r_kind r)) (live s))).

(* ---------- helpers used by several operations ---------- *)
(* what mtbl_*_source(id) denotes *)
Definition look (s : rstate) (id : N) : srcdesc :=
  match get id (objs s) with
  | OReader RTable => SReader
  | OMerger srcs => SMerger srcs
  | _ => SNone
  end.
Definition fuel (s : rstate) : nat := S (length (objs s)).

(* writer options: the mode a writer gets from opt.pool *)
Definition mode_of (s : rstate) (pool : option N) : option wmode :=
  match pool with
  | None => Some WPlain
  | Some p => match get p (objs s) with
              | OPool ps => Some (if p_max ps =? 0 then WHandler else WPool 0)
              | _ => None
              end
  end.

Definition smode_of (s : rstate) (pool : option N) : option smode :=
  match pool with
  | None => Some SPlain
  | Some p => match get p (objs s) with
              | OPool ps => Some (if p_max ps =? 0 then SHandler else SPool [])
              | _ => None
              end
  end.

Definition is_wpool (m : wmode) : bool := match m with WPool _ => true | _ => false end.
(* does this mtbl_writer_add reach threadpool_dispatch? *)
Definition add_dispatches (w : wst) (refused full : bool) : bool :=
  negb refused && full && w_pending w && is_wpool (w_mode w).

(* a run of successful mtbl_writer_add calls; also counts the dispatches *)
Fixpoint writer_adds (w : wst) (fulls : list bool) : list ev * wst * nat :=
  match fulls with
  | [] => ([], w, O)
  | f :: t =>
      let '(e, w') := writer_add_code w false f in
      let '(et, w'', n) := writer_adds w' t in
      (e ++ et, w'', ((if add_dispatches w false f then 1 else 0) + n)%nat)
  end.

(* [n] calls of threadpool_dispatch on pool state [p] *)
Fixpoint pool_dispatches (n : nat) (p : pst) (spawn : bool) : list ev * pst :=
  match n with
  | O => ([], p)
  | S m =>
      if pool_spawns p spawn then
        let '(e, p') := pool_dispatches m (mkp (p_max p) (p_workers p + 1)) spawn in
        (pool_spawn_code ++ e, p')
      else pool_dispatches m p spawn
  end.
Definition pool_upd (s : rstate) (pool : option N) (n : nat) (spawn : bool) : list upd :=
  match pool with
  | None => []
  | Some p => match get p (objs s) with
              | OPool ps => let '(e, ps') := pool_dispatches n ps spawn in [(p, e, OPool ps')]
              | _ => []
              end
  end.

(* ---------- the API operations ---------- *)
Inductive rop :=
(* threadpool.c *)
| RPoolInit (id : N) (threads : N)                          (* mtbl_threadpool_init *)
| RPoolDestroy (id : N)                                     (* mtbl_threadpool_destroy *)
(* writer.c *)
| RWriterInit (id : N) (open_ok : bool) (pool : option N)   (* mtbl_writer_init *)
| RWriterInitFd (id : N) (pool : option N)                  (* mtbl_writer_init_fd *)
| RWriterAdd (id : N) (refused full spawn : bool)           (* mtbl_writer_add *)
| RWriterDestroy (id : N) (spawn : bool)                    (* mtbl_writer_destroy *)
(* reader.c *)
| RReaderInit (id : N) (open_ok : bool) (o : rd_outcome)    (* mtbl_reader_init *)
| RReaderInitFd (id : N) (o : rd_outcome)                   (* mtbl_reader_init_fd *)
| RReaderDestroy (id : N)                                   (* mtbl_reader_destroy *)
(* merger.c *)
| RMergerInit (id : N)                                      (* mtbl_merger_init *)
| RMergerAddSource (id src : N)                             (* mtbl_merger_add_source *)
| RMergerDestroy (id : N)                                   (* mtbl_merger_destroy *)
(* source.c / iter.c *)
| RSourceIter (it src : N) (q : query) (oc : ioc)           (* mtbl_source_iter / _get / _get_prefix / _get_range *)
| RSourceWrite (src w : N) (oc : ioc) (fulls : list bool) (refused spawn : bool)   (* mtbl_source_write *)
| RIterNext (it : N)                                        (* mtbl_iter_next, into the next block *)
| RIterDrain (it : N)                                       (* mtbl_iter_next until it fails *)
| RIterSeek (it : N)                                        (* mtbl_iter_seek *)
| RIterDestroy (it : N)                                     (* mtbl_iter_destroy *)
(* sorter.c *)
| RSorterInit (id : N) (pool : option N)                    (* mtbl_sorter_init *)
| RSorterAdd (id : N) (spill : option (list cstep)) (spawn : bool)   (* mtbl_sorter_add; spill: a chunk is written *)
| RSorterJob (id : N)                                       (* a dispatched chunk job completes and is collected *)
| RSorterIter (it id : N) (steps : list cstep) (oc : ioc) (spawn : bool)   (* mtbl_sorter_iter *)
| RSorterDestroy (id : N)                                   (* mtbl_sorter_destroy *)
(* fileset.c *)
| RFilesetInit (id sh : N)                                  (* mtbl_fileset_init; [sh]: id for the shared part *)
| RFilesetDup (id orig : N)                                 (* mtbl_fileset_dup *)
| RFilesetReload (id : N) (now : bool) (p : rl)             (* mtbl_fileset_reload / mtbl_fileset_reload_now *)
| RFilesetIter (it id : N) (q : query) (p : rl) (oc : ioc)  (* mtbl_source_iter / _get* on mtbl_fileset_source *)
| RFilesetIterDestroy (it : N) (p : rl)                     (* mtbl_iter_destroy of such an iterator (it reloads) *)
| RFilesetDestroy (id : N).                                 (* mtbl_fileset_destroy *)

(* ---------- one step: the updates an operation performs (none when the call is not possible) ---------- *)
(* an object can only be created under an id that is not live *)
Definition create (s : rstate) (id : N) (us : list upd) : list upd :=
  if is_dead (get id (objs s)) then us else [].

(* mtbl_sorter_iter reaches mtbl_reader_source(NULL) - an assertion failure - when a chunk failed earlier *)
Definition sorter_iter_aborts (v : svariant) (st : sst) (steps : list cstep) : bool :=
  let '(_, st', ok, _) := sorter_iter_scode v st steps in ok && (0 <? s_failed st').

Definition decode_v (v : svariant) (s : rstate) (op : rop) : list upd :=
  match op with
  | RPoolInit id n => create s id [(id, pool_init_code n, OPool (mkp n 0))]
  | RPoolDestroy id =>
      match get id (objs s) with OPool p => [(id, pool_destroy_code p, ODead)] | _ => [] end
  | RWriterInit id open_ok pool =>
      match mode_of s pool with
      | Some m => create s id [(id, writer_init_code open_ok m,
                    if open_ok then OWriter (writer_init_st m) pool else ODead (* NULL *))]
      | None => []
      end
  | RWriterInitFd id pool =>
      match mode_of s pool with
      | Some m => create s id [(id, writer_init_fd_code m, OWriter (writer_init_st m) pool)]
      | None => []
      end
  | RWriterAdd id refused full spawn =>
      match get id (objs s) with
      | OWriter w pool =>
          let '(e, w') := writer_add_code w refused full in
          (id, e, OWriter w' pool)
          :: pool_upd s pool (if add_dispatches w refused full then 1 else 0)%nat spawn
      | _ => []
      end
  | RWriterDestroy id spawn =>
      match get id (objs s) with
      | OWriter w pool =>
          (id, writer_destroy_code w, ODead)
          :: pool_upd s pool (if w_pending w && is_wpool (w_mode w) then 1 else 0)%nat spawn
      | _ => []
      end
  | RReaderInit id open_ok o =>
      create s id [(id, reader_init_code open_ok o, if open_ok then OReader (reader_init_st o) else OReader RNull)]
  | RReaderInitFd id o => create s id [(id, reader_init_fd_code o, OReader (reader_init_st o))]
  | RReaderDestroy id =>
      match get id (objs s) with OReader r => [(id, reader_destroy_code r, ODead)] | _ => [] end
  | RMergerInit id => create s id [(id, merger_init_code, OMerger [])]
  | RMergerAddSource id src =>
      match get id (objs s) with OMerger srcs => [(id, [], OMerger (srcs ++ [src]))] | _ => [] end
  | RMergerDestroy id =>
      match get id (objs s) with OMerger _ => [(id, merger_destroy_code, ODead)] | _ => [] end
  | RSourceIter it src q oc =>
      let '(e, i) := mk_iter (fuel s) (look s) q src oc in create s it [(it, e, OIter src i)]
  | RSourceWrite src w oc fulls refused spawn =>
      match get w (objs s) with
      | OWriter ws pool =>
          let '(ei, i) := mk_iter (fuel s) (look s) QIter src oc in
          if is_null i then [(w, ei, OWriter ws pool)]        (* it == NULL: mtbl_res_failure *)
          else
            let '(ea, ws', n) := writer_adds ws fulls in        (* the loop; [refused]: it ends by a break *)
            (w, ei ++ ea ++ iter_destroy_code i, OWriter ws' pool) :: pool_upd s pool n spawn
      | _ => []
      end
  | RIterNext it =>
      match get it (objs s) with OIter src i => [(it, iter_next_code i, OIter src i)] | _ => [] end
  | RIterDrain it =>
      match get it (objs s) with OIter src i => [(it, iter_drain_code i, OIter src (iter_drain_st i))] | _ => [] end
  | RIterSeek it =>
      match get it (objs s) with OIter src i => [(it, iter_seek_code i, OIter src (iter_seek_st i))] | _ => [] end
  | RIterDestroy it =>
      match get it (objs s) with OIter src i => [(it, iter_destroy_code i, ODead)] | _ => [] end
  | RSorterInit id pool =>
      match smode_of s pool with
      | Some m => create s id [(id, sorter_init_code m, OSorter (sorter_init_st m) pool)]
      | None => []
      end
  | RSorterAdd id spill spawn =>
      match get id (objs s) with
      | OSorter st pool =>
          let '(e, st', d) := sorter_add_code v st spill in
          (id, e, OSorter st' pool) :: pool_upd s pool (if d then 1 else 0)%nat spawn
      | _ => []
      end
  | RSorterJob id =>
      match get id (objs s) with
      | OSorter st pool => let '(e, st') := sorter_job_code v st in [(id, e, OSorter st' pool)]
      | _ => []
      end
  | RSorterIter it id steps oc spawn =>
      match get id (objs s) with
      | OSorter st pool =>
          if sorter_iter_aborts v st steps then []
          else
            let '(es, st', ok, d) := sorter_iter_scode v st steps in
            let '(ei, i) := sorter_iter_icode v ok (s_ok st') oc in
            create s it ((id, es, OSorter st' pool) :: (it, ei, OIter id i)
                         :: pool_upd s pool (if d then 1 else 0)%nat spawn)
      | _ => []
      end
  | RSorterDestroy id =>
      match get id (objs s) with OSorter st _ => [(id, sorter_destroy_code v st, ODead)] | _ => [] end
  | RFilesetInit id sh =>
      if is_dead (get id (objs s)) && is_dead (get sh (objs s)) && negb (id =? sh) then
        [(id, fileset_init_hcode, OFileset (mkf sh 0)); (sh, fileset_init_scode, OShared shared_init_st)]
      else []
  | RFilesetDup id orig =>
      match get orig (objs s) with
      | OFileset f =>
          match get (f_shared f) (objs s) with
          | OShared sh =>
              create s id
                [(id, fileset_dup_hcode, OFileset (mkf (f_shared f) 0));
                 (f_shared f, [], OShared (mksh (sh_handles sh + 1) (sh_iters sh) (sh_needed sh) (sh_stamp sh) (sh_entries sh)))]
          | _ => []
          end
      | _ => []
      end
  | RFilesetReload id now p =>
      match get id (objs s) with
      | OFileset f =>
          match get (f_shared f) (objs s) with
          | OShared sh =>
              let '(eh, f', es, sh') := fileset_reload_code now f sh p in
              [(id, eh, OFileset f'); (f_shared f, es, OShared sh')]
          | _ => []
          end
      | _ => []
      end
  | RFilesetIter it id q p oc =>
      match get id (objs s) with
      | OFileset f =>
          match get (f_shared f) (objs s) with
          | OShared sh =>
              let '(eh, f', es, sh') := fileset_reload_code false f sh p in   (* mtbl_fileset_reload(f) *)
              let '(ei, i) := fileset_iter_icode q (sh_entries sh') oc in
              create s it
                [(id, eh, OFileset f');
                 (f_shared f, es, OShared (mksh (sh_handles sh') (sh_iters sh' + 1) (sh_needed sh') (sh_stamp sh') (sh_entries sh')));
                 (it, ei, OIter id i)]
          | _ => []
          end
      | _ => []
      end
  | RFilesetIterDestroy it p =>
      match get it (objs s) with
      | OIter src (ItFileset inner) =>
          match get src (objs s) with
          | OFileset f =>
              match get (f_shared f) (objs s) with
              | OShared sh =>
                  (* fileset_iter_free: n_iters--, destroy the inner iterator, mtbl_fileset_reload, free *)
                  let sh1 := mksh (sh_handles sh) (sh_iters sh - 1) (sh_needed sh) (sh_stamp sh) (sh_entries sh) in
                  let '(eh, f', es, sh') := fileset_reload_code false f sh1 p in
                  [(it, iter_destroy_code (ItFileset inner), ODead); (src, eh, OFileset f'); (f_shared f, es, OShared sh')]
              | _ => []
              end
          | _ => []
          end
      | _ => []
      end
  | RFilesetDestroy id =>
      match get id (objs s) with
      | OFileset f =>
          match get (f_shared f) (objs s) with
          | OShared sh =>
              let '(es, osh) := fileset_destroy_scode sh in
              [(f_shared f, es, match osh with Some sh' => OShared sh' | None => ODead end);
               (id, fileset_destroy_hcode, ODead)]
          | _ => []
          end
      | _ => []
      end
  end.
Definition decode := decode_v v_current.

Definition rstep_v (v : svariant) (s : rstate) (op : rop) : rstate := fold_left apply_upd (decode_v v s op) s.
Definition rrun_v (v : svariant) (ops : list rop) : rstate := fold_left (rstep_v v) ops rinit.
Definition rstep (s : rstate) (op : rop) : rstate := fold_left apply_upd (decode s op) s.
Definition rrun_from (s : rstate) (ops : list rop) : rstate := fold_left rstep ops s.
Definition rrun (ops : list rop) : rstate := rrun_from rinit ops.

(* mtbl_sorter_write(s, w) = mtbl_sorter_iter, mtbl_writer_add in a loop, mtbl_iter_destroy
   (it returns at once when s->iterating or when the iterator is NULL); [tmp]: an unused id *)
Definition sorter_write_ops (tmp id w : N) (steps : list cstep) (oc : ioc) (fulls : list bool) (spawn : bool) : list rop :=
  RSorterIter tmp id steps oc spawn :: map (fun f => RWriterAdd w false f spawn) fulls ++ [RIterDestroy tmp].

(* ---------- well-formed histories ---------- *)
Definition borrows (o : ostate) (id : N) : bool :=
  match o with
  | OWriter _ (Some p) => p =? id
  | OMerger srcs => existsb (N.eqb id) srcs
  | OIter src _ => src =? id
  | OSorter _ (Some p) => p =? id
  | OFileset f => f_shared f =? id
  | _ => false
  end.
(* some live object borrows [id] *)
Definition borrowed (s : rstate) (id : N) : bool :=
  existsb (fun p => borrows (get (fst p) (objs s)) id) (objs s).
Definition fresh (s : rstate) (id : N) : bool := negb (known id (objs s)).
Definition is_pool (s : rstate) (id : N) := match get id (objs s) with OPool _ => true | _ => false end.
Definition is_writer (s : rstate) (id : N) := match get id (objs s) with OWriter _ _ => true | _ => false end.
Definition is_reader (s : rstate) (id : N) := match get id (objs s) with OReader _ => true | _ => false end.
Definition is_merger (s : rstate) (id : N) := match get id (objs s) with OMerger _ => true | _ => false end.
Definition is_iter (s : rstate) (id : N) := match get id (objs s) with OIter _ _ => true | _ => false end.
Definition is_sorter (s : rstate) (id : N) := match get id (objs s) with OSorter _ _ => true | _ => false end.
Definition has_job (s : rstate) (id : N) :=
  match get id (objs s) with OSorter st _ => match s_mode st with SPool (_ :: _) => true | _ => false end | _ => false end.
Definition iter_aborts (s : rstate) (id : N) (steps : list cstep) :=
  match get id (objs s) with OSorter st _ => sorter_iter_aborts v_current st steps | _ => false end.
Definition is_fileset (s : rstate) (id : N) := match get id (objs s) with OFileset _ => true | _ => false end.
Definition is_fileset_iter (s : rstate) (it : N) :=
  match get it (objs s) with OIter src (ItFileset _) => is_fileset s src | _ => false end.
Definition is_source (s : rstate) (id : N) := match look s id with SNone => false | _ => true end.
Definition pool_ok (s : rstate) (pool : option N) := match pool with None => true | Some p => is_pool s p end.

(* no call on a destroyed (or unknown) object; ids are not reused; an object is destroyed only
   when no live object borrows it *)
Definition wf_step (s : rstate) (op : rop) : bool :=
  match op with
  | RPoolInit id _ => fresh s id
  | RPoolDestroy id => is_pool s id && negb (borrowed s id)
  | RWriterInit id _ pool | RWriterInitFd id pool => fresh s id && pool_ok s pool
  | RWriterAdd id _ _ _ => is_writer s id
  | RWriterDestroy id _ => is_writer s id && negb (borrowed s id)
  | RReaderInit id _ _ | RReaderInitFd id _ => fresh s id
  | RReaderDestroy id => is_reader s id && negb (borrowed s id)
  | RMergerInit id => fresh s id
  | RMergerAddSource id src => is_merger s id && is_source s src && negb (id =? src)
  | RMergerDestroy id => is_merger s id && negb (borrowed s id)
  | RSourceIter it src _ _ => fresh s it && is_source s src
  | RSourceWrite src w _ _ _ _ => is_source s src && is_writer s w
  | RIterNext it | RIterDrain it | RIterSeek it => is_iter s it
  | RIterDestroy it => is_iter s it && negb (is_fileset_iter s it)
  | RFilesetInit id sh => fresh s id && fresh s sh && negb (id =? sh)
  | RFilesetDup id orig => fresh s id && is_fileset s orig
  | RFilesetReload id _ _ => is_fileset s id
  | RFilesetIter it id _ _ _ => fresh s it && is_fileset s id
  | RFilesetIterDestroy it _ => is_fileset_iter s it
  | RFilesetDestroy id => is_fileset s id && negb (borrowed s id)
  | RSorterInit id pool => fresh s id && pool_ok s pool
  | RSorterAdd id _ _ => is_sorter s id
  | RSorterJob id => has_job s id
  | RSorterIter it id steps _ _ => fresh s it && is_sorter s id && negb (iter_aborts s id steps) && negb (it =? id)
  | RSorterDestroy id => is_sorter s id && negb (borrowed s id)
  end.

Fixpoint wf_from (s : rstate) (ops : list rop) : bool :=
  match ops with
  | [] => true
  | op :: t => wf_step s op && wf_from (rstep s op) t
  end.
Definition wf_history (ops : list rop) : bool := wf_from rinit ops.
