(* The text of a setfile as my_fileset_reload (libmy/my_fileset.c) reads it, byte for byte:

       while (getline(&line, &len, fp) != -1) {
           ubuf_clip(u, 0);
           if (line[0] != '/') { ubuf_add_cstr(u, fs->setdir); ubuf_add(u, '/'); }
           ubuf_add_cstr(u, line);          /* strlen: up to the first NUL */
           ubuf_rstrip(u, '\n');            /* ONE trailing newline, if there is one */
           fname = ubuf_cstr(u);

   getline returns each line WITH its newline; the last line comes without one when the file does not end in a newline.
   model/Fileset.v takes the list of names as given (w_set_lines); this file says which list a given text is. *)
From Coq Require Import NArith List.
From Mtbl Require Import model.Bytes model.Order.
Import ListNotations.
Local Open Scope N_scope.

(* the lines getline delivers, each with its newline (the last one possibly without) *)
Fixpoint split_lines (cur_rev : bytes) (l : bytes) : list bytes :=
  match l with
  | [] => match cur_rev with [] => [] | _ => [rev cur_rev] end
  | c :: tl => if c =? 10 then rev (c :: cur_rev) :: split_lines [] tl else split_lines (c :: cur_rev) tl
  end.

(* strlen semantics: the bytes before the first NUL *)
Fixpoint cstr (l : bytes) : bytes :=
  match l with [] => [] | c :: tl => if c =? 0 then [] else c :: cstr tl end.

Definition rstrip_nl (l : bytes) : bytes :=
  match rev l with c :: r => if c =? 10 then rev r else l | [] => l end.

Definition setfile_name (setdir line : bytes) : bytes :=
  let pre := match line with c :: _ => if c =? 47 then [] else cstr setdir ++ [47] | [] => cstr setdir ++ [47] end in
  cstr (rstrip_nl (pre ++ cstr line)).

Definition setfile_names (setdir text : bytes) : list bytes := map (setfile_name setdir) (split_lines [] text).

(* what my_fileset_reload keeps of them: the names whose path exists (stat), sorted (qsort with strcmp - for NUL-free
   strings the order of bcmp), one entry per path (the repair F12) *)
Fixpoint insert_uniq (x : bytes) (l : list bytes) : list bytes :=
  match l with
  | [] => [x]
  | y :: tl => match bcmp x y with Lt => x :: l | Eq => l | Gt => y :: insert_uniq x tl end
  end.
Definition sort_uniq (l : list bytes) : list bytes := fold_right insert_uniq [] l.
Definition loaded_names (path_exists : bytes -> bool) (setdir text : bytes) : list bytes :=
  sort_uniq (filter path_exists (setfile_names setdir text)).
