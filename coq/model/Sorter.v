(* Model of mtbl/sorter.c (sequential view: chunk contents and spill points do not depend
   on the pool, only the order in which chunk readers are collected does).
   qsort is a Section variable [sort] (any function returning a key-sorted permutation),
   the merge function is [mergef]. *)
From Mtbl Require Import gen.Consts model.Bytes model.Order model.Heap model.Merger.
Local Open Scope N_scope.

Record sorter := mkso {
  so_vec : list entry;            (* buffered entries, in the order added *)
  so_entry_bytes : N;
  so_chunks : list (option (list entry));   (* spilled chunks in spill order; None = the chunk failed (reader NULL) *)
  so_iterating : bool;
  so_max_memory : N;
}.

(* mtbl_sorter_options_set_max_memory clamps; MTBL_VERIF lowers the minimum to 1 *)
Definition sorter_init (max_memory : N) : sorter := mkso [] 0 [] false max_memory.

Section Sorter.
Variable mergef : option (bytes -> bytes -> bytes -> option bytes).
Variable sort : list entry -> list entry.

(* the loop of _mtbl_sorter_write_chunk over the sorted batch: equal neighbours are folded
   left to right; None = the merge function failed; a missing merge function with equal
   neighbours is an assert *)
Fixpoint fold_sorted (fuel : nat) (l : list entry) : res (list entry) :=
  match fuel with
  | O => Abort
  | S f =>
    match l with
    | [] => Ok []
    | [e] => Ok [e]
    | (k0, v0) :: ((k1, v1) :: tl) as rest =>
      if beq k0 k1 then
        match mergef with
        | None => Abort
        | Some mf => match mf k0 v0 v1 with
                     | Some m => fold_sorted f ((k0, m) :: tl)
                     | None => Fail
                     end
        end
      else match fold_sorted f rest with
           | Ok r => Ok ((k0, v0) :: r)
           | Fail => Fail | Abort => Abort | Oob => Oob
           end
    end
  end.

Definition write_chunk (batch : list entry) : res (option (list entry)) :=
  match fold_sorted (S (length batch)) (sort batch) with
  | Ok c => Ok (Some c)
  | Fail => Ok None            (* returns NULL: the reader is missing *)
  | Abort => Abort | Oob => Oob
  end.

(* _mtbl_sorter_flush (no pool): returns failure when the chunk failed *)
Definition sorter_flush (s : sorter) : res (sorter * bool) :=
  match write_chunk (so_vec s) with
  | Ok c => Ok (mkso [] 0 (so_chunks s ++ [c]) (so_iterating s) (so_max_memory s),
                match c with Some _ => true | None => false end)
  | Fail => Fail | Abort => Abort | Oob => Oob
  end.

(* mtbl_sorter_add: (state, mtbl_res) *)
Definition sorter_add (s : sorter) (k v : bytes) : res (sorter * bool) :=
  if so_iterating s then Ok (s, false) else
  let vec := so_vec s ++ [(k, v)] in
  let eb := so_entry_bytes s + SORTER_ENTRY_HEADER + len k + len v in
  let s1 := mkso vec eb (so_chunks s) false (so_max_memory s) in
  if so_max_memory s <=? eb + SORTER_PTR_BYTES * N.of_nat (length vec)
  then sorter_flush s1 else Ok (s1, true).

(* mtbl_sorter_iter: final flush if anything is buffered; None = NULL (flush failed);
   a NULL reader among the chunks is an assert in mtbl_reader_source *)
Definition sorter_iter (s : sorter) : res (sorter * option miter) :=
  let fl := match so_vec s with
            | [] => Ok (s, true)
            | _ => sorter_flush s
            end in
  match fl with
  | Ok (s1, true) =>
    if existsb (fun c => match c with None => true | Some _ => false end) (so_chunks s1) then Abort
    else
      let srcs := map (fun c => match c with Some es => mksc es 0 true BAll false | None => mksc [] 0 true BAll false end) (so_chunks s1) in
      match merger_iter_make None srcs false with
      | Some it => Ok (mkso (so_vec s1) (so_entry_bytes s1) (so_chunks s1) true (so_max_memory s1), Some it)
      | None => Abort
      end
  | Ok (s1, false) => Ok (s1, None)
  | Fail => Fail | Abort => Abort | Oob => Oob
  end.

Definition sorter_next (it : miter) : miter * option entry := merger_next mergef None it.

End Sorter.
