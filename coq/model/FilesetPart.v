(* mtbl_fileset_partition (mtbl/fileset.c) on the fileset model: after bringing the handle up to date
   (mtbl_fileset_reload), every loaded entry's reader becomes a source of the first merger when the
   caller's filename predicate accepts its name and of the second one otherwise.  The handle's own
   filename / reader filters are NOT consulted, and - unlike fs_reinit_merger - an entry whose file did
   not open as a table (reader NULL) is not skipped: mtbl_reader_source(NULL) trips its assertion
   (observation O8), which the model reproduces as PAbort. *)
From Coq Require Import ZArith List.
From Mtbl Require Import gen.Consts model.Bytes model.Fileset.
Import ListNotations.
Local Open Scope N_scope.

Definition fstate_after (st : fstate) (ops : list fop) : fstate := fold_left (fun s op => fst (fstep s op)) ops st.

Inductive pout := PAbort | POk (m1 m2 : list (N * N)).    (* (reader id, table id) of the sources of the two mergers *)

Definition entry_source (e : fentry) : option (N * N) :=
  match fe_reader e with Some r => Some (r, fe_table e) | None => None end.

Fixpoint sources_where (p : fentry -> bool) (l : list fentry) : list (N * N) :=
  match l with
  | [] => []
  | e :: tl => if p e then match entry_source e with Some s => s :: sources_where p tl | None => sources_where p tl end
               else sources_where p tl
  end.

Definition partition_entries (cb : fname -> bool) (ents : list fentry) : pout :=
  if existsb (fun e => match fe_reader e with None => true | Some _ => false end) ents then PAbort
  else POk (sources_where (fun e => cb (fe_name e)) ents) (sources_where (fun e => negb (cb (fe_name e))) ents).

Definition fileset_partition (st : fstate) (hi : nat) (cb : fname -> bool) : fstate * pout :=
  let '(w', s', h') := fileset_reload (fs_world st) (fs_shared st) (nth hi (fs_handles st) dummy_handle) in
  (mkfs w' s' (upd (fs_handles st) hi h') (fs_iters st), partition_entries cb (sh_entries s')).

(* the predicate the driver passes: the parity of the number in the file name *)
Definition parity_cb (m : N) (n : fname) : bool := n mod 2 =? m.
