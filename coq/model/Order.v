(* bytes_compare (mtbl-private.h) and bytes_shortest_separator (bytes.h) *)
From Mtbl Require Import model.Bytes.
Local Open Scope N_scope.

(* memcmp on the common prefix, then the shorter string first *)
Fixpoint bcmp (a b : bytes) : comparison :=
  match a, b with
  | [], [] => Eq
  | [], _ :: _ => Lt
  | _ :: _, [] => Gt
  | x :: a', y :: b' => match x ?= y with Eq => bcmp a' b' | c => c end
  end.

Definition blt (a b : bytes) : bool := match bcmp a b with Lt => true | _ => false end.
Definition ble (a b : bytes) : bool := match bcmp a b with Gt => false | _ => true end.
Definition beq (a b : bytes) : bool := match bcmp a b with Eq => true | _ => false end.

(* length of the longest common prefix *)
Fixpoint lcp (a b : bytes) : N :=
  match a, b with
  | x :: a', y :: b' => if x =? y then 1 + lcp a' b' else 0
  | _, _ => 0
  end.

Fixpoint is_prefix (p k : bytes) : bool :=
  match p, k with
  | [], _ => true
  | x :: p', y :: k' => (x =? y) && is_prefix p' k'
  | _ :: _, [] => false
  end.

(* bytes_shortest_separator(start, limit): the new content of `start`.
   The trailing assert(bytes_compare(start, limit) < 0) is only reached on the
   paths that do not return early; [sep] returns the value, [sep_assert] says
   whether that assert is reached and holds. *)
Fixpoint sep (a b : bytes) : bytes :=
  match a, b with
  | x :: a', y :: b' =>
      if x =? y then x :: sep a' b'
      else if (x <? 255) && (x + 1 <? y) then [x + 1]
      else match a', b' with
           | x1 :: _ :: _, y1 :: _ :: _ =>    (* diff_index + 2 < min_length *)
               let us := x * 256 + x1 in
               let ul := y * 256 + y1 in
               let ub := (us + 1) mod 65536 in
               if (us <=? ub) && (ub <=? ul) then [ub / 256; ub mod 256] else a
           | _, _ => a
           end
  | _, _ => a
  end.

(* did bytes_shortest_separator return early (diff_index >= min_length)? *)
Fixpoint sep_early (a b : bytes) : bool :=
  match a, b with
  | x :: a', y :: b' => if x =? y then sep_early a' b' else false
  | _, _ => true
  end.
