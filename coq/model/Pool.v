(* Labelled transition system of mtbl/threadpool.c.  One step = one pthread operation
   (lock, unlock, cond_wait's release half, re-acquisition after a wake-up, signal, create,
   join, thread start/exit) together with the straight-line code that follows it up to the
   next such operation.  Single caller thread (tid 0) running a program of
   NewHandler / Dispatch / Finish / DestroyPool commands. *)
From Mtbl Require Import model.Bytes.
Local Open Scope N_scope.

Inductive obj := OPoolM | OPoolC | OWm (i : nat) | OWc (i : nat) | OQm (j : nat) | OQc (j : nat) | OThread (t : nat) | ONone.
Inductive opk := KStart | KLock | KUnlock | KWait | KReacq | KSignal | KCreate | KJoin | KExit.

(* continuation labels *)
Inductive label :=
| CNext
| D1 (q : nat) | D3 (q : nat) (w : nat) (fresh : bool) | D4 (q w : nat) | D5 (q w : nat) | D5s (q w : nat) | D6 (q w : nat)
| D7 (q w : nat) | D7s (q : nat) | D8
| F1 (q : nat) | F1s (q : nat) | F2 (q : nat) | F3
| P1 | P3 (w : nat) | P3s (w : nat) | P4 (w : nat) | P5 | P6
| W0 (i : nat) | W1 (i : nat) | W3 (i : nat) | W4u (i q : nat) | W4us (i q : nat) | W5u (i : nat)
| W4o (i : nat) | W4os (i : nat) | W5o (i : nat)
| H0 (j : nat) | H1 (j : nat) | H3 (j : nat) (w : option nat) | H4 (j w : nat) | H6 (j w : nat) | H7 (j w : nat) | H7s (j w : nat) | H8 (j : nat) (r : N)
| LDone.

Inductive cmd := NewHandler (ordered : bool) | Dispatch (q : nat) | Finish (q : nat) | DestroyPool.

Record worker := mkw { wk_tid : nat; wk_running : bool; wk_hasjob : bool; wk_job : N; wk_res : option N; wk_rq : option nat }.
Record queue := mkq { q_ordered : bool; q_tid : nat; q_finished : bool; q_nthreads : N; q_list : list nat }.

(* a thread: its pending operation (kind, object), the label reached once it is performed,
   whether it is blocked on a condition variable, whether it has exited *)
Record thread := mkt { t_op : opk; t_obj : obj; t_lab : label; t_blocked : option obj (* cond waited on *);
                       t_wmutex : obj (* mutex to re-acquire after the wait *); t_done : bool }.

Record pstate := mkp {
  ps_threads : list thread;
  ps_owner : list (obj * nat);           (* held mutexes *)
  ps_idle : list nat;                     (* idle worker stack, head first *)
  ps_count : N; ps_max : N;
  ps_workers : list worker;
  ps_queues : list queue;
  ps_prog : list cmd;                     (* rest of the caller's program *)
  ps_njobs : N;                           (* jobs dispatched so far (job ids) *)
  ps_delivered : list (nat * N);          (* (handler, job) in delivery order *)
  ps_abort : bool;                        (* an assert of threadpool.c failed *)
}.

Definition obj_eqb (a b : obj) : bool :=
  match a, b with
  | OPoolM, OPoolM | OPoolC, OPoolC | ONone, ONone => true
  | OWm i, OWm j | OWc i, OWc j | OQm i, OQm j | OQc i, OQc j | OThread i, OThread j => Nat.eqb i j
  | _, _ => false
  end.
Definition owner_of (st : pstate) (m : obj) : option nat :=
  match find (fun p => obj_eqb (fst p) m) (ps_owner st) with Some p => Some (snd p) | None => None end.

Definition upd_nth {A} (l : list A) (i : nat) (x : A) : list A :=
  firstn i l ++ match skipn i l with [] => [] | _ :: tl => x :: tl end.
Definition dummy_w := mkw 0 false false 0 None None.
Definition dummy_q := mkq true 0 false 0 [].
Definition dummy_t := mkt KExit ONone LDone None ONone true.
Definition getw (st : pstate) i := nth i (ps_workers st) dummy_w.
Definition getq (st : pstate) j := nth j (ps_queues st) dummy_q.
Definition gett (st : pstate) t := nth t (ps_threads st) dummy_t.

Definition enabled (st : pstate) (t : nat) : bool :=
  let th := gett st t in
  if t_done th then false else
  match t_blocked th with
  | Some _ => false
  | None =>
    match t_op th with
    | KLock | KReacq => match owner_of st (t_obj th) with None => true | Some _ => false end
    | KJoin => match t_obj th with OThread u => t_done (gett st u) | _ => false end
    | _ => true
    end
  end.

Definition set_thread (st : pstate) (t : nat) (th : thread) : pstate :=
  mkp (upd_nth (ps_threads st) t th) (ps_owner st) (ps_idle st) (ps_count st) (ps_max st) (ps_workers st) (ps_queues st)
      (ps_prog st) (ps_njobs st) (ps_delivered st) (ps_abort st).
Definition pend (op : opk) (o : obj) (l : label) : thread := mkt op o l None ONone false.

(* the caller fetches its next command *)
Definition caller_next (st : pstate) : pstate * thread :=
  match ps_prog st with
  | [] => (st, mkt KExit ONone LDone None ONone true)     (* the caller's program is over *)
  | c :: rest =>
    let st' := mkp (ps_threads st) (ps_owner st) (ps_idle st) (ps_count st) (ps_max st) (ps_workers st) (ps_queues st)
                   rest (ps_njobs st) (ps_delivered st) (ps_abort st) in
    match c with
    | NewHandler ord =>
      let j := length (ps_queues st) in
      let tid := length (ps_threads st) in
      (* the handler thread is created by result_handler_init: the create step *)
      (mkp (ps_threads st' ++ [pend KStart ONone (H0 j)]) (ps_owner st') (ps_idle st') (ps_count st') (ps_max st') (ps_workers st')
           (ps_queues st' ++ [mkq ord tid false 0 []]) (ps_prog st') (ps_njobs st') (ps_delivered st') (ps_abort st'),
       pend KCreate (OThread tid) CNext)
    | Dispatch q => (st', pend KLock OPoolM (D1 q))
    | Finish q => (st', pend KLock (OQm q) (F1 q))
    | DestroyPool => (st', pend KLock OPoolM P1)
    end
  end.

Definition set_owner (st : pstate) (m : obj) (t : option nat) : pstate :=
  let others := filter (fun p => negb (obj_eqb (fst p) m)) (ps_owner st) in
  mkp (ps_threads st) (match t with Some u => (m, u) :: others | None => others end) (ps_idle st) (ps_count st) (ps_max st)
      (ps_workers st) (ps_queues st) (ps_prog st) (ps_njobs st) (ps_delivered st) (ps_abort st).
Definition set_workers (st : pstate) (ws : list worker) : pstate :=
  mkp (ps_threads st) (ps_owner st) (ps_idle st) (ps_count st) (ps_max st) ws (ps_queues st) (ps_prog st) (ps_njobs st) (ps_delivered st) (ps_abort st).
Definition set_queues (st : pstate) (qs : list queue) : pstate :=
  mkp (ps_threads st) (ps_owner st) (ps_idle st) (ps_count st) (ps_max st) (ps_workers st) qs (ps_prog st) (ps_njobs st) (ps_delivered st) (ps_abort st).
Definition set_pool (st : pstate) (idle : list nat) (count : N) : pstate :=
  mkp (ps_threads st) (ps_owner st) idle count (ps_max st) (ps_workers st) (ps_queues st) (ps_prog st) (ps_njobs st) (ps_delivered st) (ps_abort st).
Definition set_abort (st : pstate) : pstate :=
  mkp (ps_threads st) (ps_owner st) (ps_idle st) (ps_count st) (ps_max st) (ps_workers st) (ps_queues st) (ps_prog st) (ps_njobs st) (ps_delivered st) true.

(* the straight-line code executed after the operation leading to label [l] has been performed by thread t *)
Definition continue (st : pstate) (t : nat) (l : label) : pstate * thread :=
  match l with
  | CNext => caller_next st
  | D1 q =>
    match ps_idle st with
    | [] => if ps_count st =? ps_max st then (st, pend KWait OPoolC (D1 q))
            else
              (* a new worker will be created after the unlock; count++ now *)
              let i := length (ps_workers st) in
              (set_pool st [] (ps_count st + 1), pend KUnlock OPoolM (D3 q i true))
    | i :: rest =>
      let w := getw st i in
      let st1 := if wk_hasjob w || (match wk_res w with Some _ => true | None => false end) || wk_running w then set_abort st else st in
      (set_pool st1 rest (ps_count st1), pend KUnlock OPoolM (D3 q i false))
    end
  | D3 q i fresh =>
    if fresh then
      let tid := length (ps_threads st) in
      let st1 := mkp (ps_threads st ++ [pend KStart ONone (W0 i)]) (ps_owner st) (ps_idle st) (ps_count st) (ps_max st)
                     (ps_workers st ++ [mkw tid false false 0 None None]) (ps_queues st) (ps_prog st) (ps_njobs st) (ps_delivered st) (ps_abort st) in
      (st1, pend KCreate (OThread tid) (D4 q i))
    else (st, pend KLock (OWm i) (D5 q i))
  | D4 q i => (st, pend KLock (OWm i) (D5 q i))
  | D5 q i =>
    let w := getw st i in
    let qq := getq st q in
    let job := ps_njobs st in
    let w' := mkw (wk_tid w) true true job (wk_res w) (if q_ordered qq then None else Some q) in
    let st1 := set_workers st (upd_nth (ps_workers st) i w') in
    (mkp (ps_threads st1) (ps_owner st1) (ps_idle st1) (ps_count st1) (ps_max st1) (ps_workers st1) (ps_queues st1) (ps_prog st1)
         (job + 1) (ps_delivered st1) (ps_abort st1), pend KSignal (OWc i) (D5s q i))
  | D5s q i => (st, pend KUnlock (OWm i) (D6 q i))
  | D6 q i => (st, pend KLock (OQm q) (D7 q i))
  | D7 q i =>
    let qq := getq st q in
    let st0 := if q_finished qq then set_abort st else st in
    let nt := (q_nthreads qq + 1) mod 18446744073709551616 in
    if q_ordered qq then
      (set_queues st0 (upd_nth (ps_queues st0) q (mkq true (q_tid qq) (q_finished qq) nt (q_list qq ++ [i]))), pend KSignal (OQc q) (D7s q))
    else
      (set_queues st0 (upd_nth (ps_queues st0) q (mkq false (q_tid qq) (q_finished qq) nt (q_list qq))), pend KUnlock (OQm q) D8)
  | D7s q => (st, pend KUnlock (OQm q) D8)
  | D8 => caller_next st
  | F1 q =>
    let qq := getq st q in
    (set_queues st (upd_nth (ps_queues st) q (mkq (q_ordered qq) (q_tid qq) true (q_nthreads qq) (q_list qq))), pend KSignal (OQc q) (F1s q))
  | F1s q => (st, pend KUnlock (OQm q) (F2 q))
  | F2 q => (st, pend KJoin (OThread (q_tid (getq st q))) F3)
  | F3 => caller_next st
  | P1 =>
    if 0 <? ps_count st then
      match ps_idle st with
      | [] => (st, pend KWait OPoolC P1)
      | i :: rest =>
        let st1 := if wk_hasjob (getw st i) then set_abort st else st in
        (set_pool st1 rest (ps_count st1), pend KLock (OWm i) (P3 i))
      end
    else (st, pend KUnlock OPoolM P6)
  | P3 i =>
    let w := getw st i in
    (set_workers st (upd_nth (ps_workers st) i (mkw (wk_tid w) true (wk_hasjob w) (wk_job w) (wk_res w) (wk_rq w))), pend KSignal (OWc i) (P3s i))
  | P3s i => (st, pend KUnlock (OWm i) (P4 i))
  | P4 i => (st, pend KJoin (OThread (wk_tid (getw st i))) P5)
  | P5 => let st1 := set_pool st (ps_idle st) (ps_count st - 1) in
          (* back to the loop test of P1, no operation in between *)
          if 0 <? ps_count st1 then
            match ps_idle st1 with
            | [] => (st1, pend KWait OPoolC P1)
            | i :: rest =>
              let st2 := if wk_hasjob (getw st1 i) then set_abort st1 else st1 in
              (set_pool st2 rest (ps_count st2), pend KLock (OWm i) (P3 i))
            end
          else (st1, pend KUnlock OPoolM P6)
  | P6 => caller_next st
  | W0 i => (st, pend KLock (OWm i) (W1 i))
  | W1 i => if wk_running (getw st i) then (st, pend KUnlock (OWm i) (W3 i)) else (st, pend KWait (OWc i) (W1 i))
  | W3 i =>
    let w := getw st i in
    if negb (wk_hasjob w) then (st, pend KExit ONone LDone)
    else
      match wk_rq w with
      | Some q =>
        (* unordered: res = cb(arg); running = false without the lock; then queue self *)
        (set_workers st (upd_nth (ps_workers st) i (mkw (wk_tid w) false false 0 (Some (wk_job w)) None)), pend KLock (OQm q) (W4u i q))
      | None =>
        (set_workers st (upd_nth (ps_workers st) i (mkw (wk_tid w) (wk_running w) false 0 (Some (wk_job w)) None)), pend KLock (OWm i) (W4o i))
      end
  | W4u i q =>
    let qq := getq st q in
    (set_queues st (upd_nth (ps_queues st) q (mkq (q_ordered qq) (q_tid qq) (q_finished qq) (q_nthreads qq) (q_list qq ++ [i]))),
     pend KSignal (OQc q) (W4us i q))
  | W4us i q => (st, pend KUnlock (OQm q) (W5u i))
  | W5u i => (st, pend KLock (OWm i) (W1 i))
  | W4o i =>
    let w := getw st i in
    (set_workers st (upd_nth (ps_workers st) i (mkw (wk_tid w) false (wk_hasjob w) (wk_job w) (wk_res w) (wk_rq w))), pend KSignal (OWc i) (W4os i))
  | W4os i => (st, pend KUnlock (OWm i) (W5o i))
  | W5o i => (st, pend KLock (OWm i) (W1 i))
  | H0 j => (st, pend KLock (OQm j) (H1 j))
  | H1 j =>
    let qq := getq st j in
    match q_list qq with
    | [] => if q_finished qq && (q_nthreads qq =? 0) then (st, pend KUnlock (OQm j) (H3 j None))
            else (st, pend KWait (OQc j) (H1 j))
    | i :: rest =>
      let nt := (q_nthreads qq + 18446744073709551616 - 1) mod 18446744073709551616 in
      (set_queues st (upd_nth (ps_queues st) j (mkq (q_ordered qq) (q_tid qq) (q_finished qq) nt rest)), pend KUnlock (OQm j) (H3 j (Some i)))
    end
  | H3 j None =>
    let qq := getq st j in
    (* resultq_destroy: assert(head == NULL && finished && nthreads == 0) *)
    let st1 := if negb (match q_list qq with [] => true | _ => false end) || negb (q_finished qq) || negb (q_nthreads qq =? 0) then set_abort st else st in
    (st1, pend KExit ONone LDone)
  | H3 j (Some i) => (st, pend KLock (OWm i) (H4 j i))
  | H4 j i =>
    let w := getw st i in
    if wk_running w then (st, pend KWait (OWc i) (H4 j i))
    else (set_workers st (upd_nth (ps_workers st) i (mkw (wk_tid w) false (wk_hasjob w) (wk_job w) None (wk_rq w))),
          pend KUnlock (OWm i) (H6 j i))
  | H6 j i => (st, pend KLock OPoolM (H7 j i))
  | H7 j i => (set_pool st (i :: ps_idle st) (ps_count st), pend KSignal OPoolC (H7s j i))
  | H7s j i => (st, pend KUnlock OPoolM (H8 j 0))
  | H8 j _ => (st, pend KLock (OQm j) (H1 j))
  | LDone => (st, dummy_t)
  end.

(* result value carried from H4 to the delivery after H8: kept in the delivered log at H4 time is
   wrong (delivery happens after the pool unlock), so H4 stashes it in the thread's label via H6..H8;
   to keep labels simple the delivery is logged when the unlock of H7s/H8 has been performed, using
   the job remembered in [stash] *)

(* a signal wakes the waiter the implementation chose *)
Definition wake_step (st : pstate) (op : opk) (wake : option nat) : pstate :=
  match op, wake with
  | KSignal, Some u =>
    let tu := gett st u in
    set_thread st u (mkt KReacq (t_wmutex tu) (t_lab tu) None ONone false)
  | _, _ => st
  end.

(* the handler fetches a result at H4 (stashed) and hands it to the callback after H8 *)
Definition stash_deliver (st : pstate) (t : nat) (lab : label) (stash : list (nat * N)) : list (nat * N) * pstate :=
  match lab with
  | H4 j i => if wk_running (getw st i) then (stash, st)
              else (match wk_res (getw st i) with Some r => (t, r) :: stash | None => stash end, st)
  | H8 j _ =>
    match find (fun p => Nat.eqb (fst p) t) stash with
    | Some (_, r) =>
      (filter (fun p => negb (Nat.eqb (fst p) t)) stash,
       mkp (ps_threads st) (ps_owner st) (ps_idle st) (ps_count st) (ps_max st) (ps_workers st) (ps_queues st)
           (ps_prog st) (ps_njobs st) (ps_delivered st ++ [(j, r)]) (ps_abort st))
    | None => (stash, st)
    end
  | _ => (stash, st)
  end.

Definition wait_mutex (l : label) : obj :=
  match l with D1 _ | P1 => OPoolM | W1 i => OWm i | H1 j => OQm j | H4 _ i => OWm i | _ => ONone end.

(* one step of thread t.  [wake]: for a signal, the waiter the implementation woke (if any). *)
Definition pstep (st : pstate) (t : nat) (wake : option nat) (stash : list (nat * N)) : option (pstate * opk * obj * list (nat * N)) :=
  if negb (enabled st t) then None else
  let th := gett st t in
  let op := t_op th in let o := t_obj th in
  match op with
  | KWait =>
    let m := wait_mutex (t_lab th) in
    Some (set_thread (set_owner st m None) t (mkt KReacq m (t_lab th) (Some o) m false), op, o, stash)
  | KExit => Some (set_thread st t (mkt KExit ONone LDone None ONone true), op, o, stash)
  | _ =>
    let st1 := match op with
               | KLock | KReacq => set_owner st o (Some t)
               | KUnlock => set_owner st o None
               | _ => st
               end in
    let st2 := wake_step st1 op wake in
    let '(stash1, st3) := stash_deliver st2 t (t_lab th) stash in
    let '(st4, th') := continue st3 t (t_lab th) in
    Some (set_thread st4 t th', op, o, stash1)
  end.

(* a spurious wake-up of a thread blocked in pthread_cond_wait *)
Definition pspurious (st : pstate) (t : nat) : option pstate :=
  let th := gett st t in
  match t_blocked th with
  | Some _ => Some (set_thread st t (mkt KReacq (t_wmutex th) (t_lab th) None ONone false))
  | None => None
  end.

Definition pool_init (maxthreads : N) (prog : list cmd) : pstate :=
  let st0 := mkp [dummy_t] [] [] 0 maxthreads [] [] prog 0 [] false in
  let '(st1, th) := caller_next st0 in
  set_thread st1 0 th.

Definition enabled_set (st : pstate) : list nat := filter (enabled st) (seq 0 (length (ps_threads st))).
