(* Model of the wrapper logic of mtbl/compression.c: name tables, level clamping,
   the LZ4 length prefix, output capacities.  The compression libraries themselves
   are oracles. *)
From Coq Require Import ZArith String Ascii.
From Mtbl Require Import gen.Consts model.Bytes model.Codec.
Local Open Scope N_scope.

(* ---- names ------------------------------------------------------------------- *)
Definition lower_ascii (c : ascii) : ascii :=
  let n := N_of_ascii c in
  if (65 <=? n) && (n <=? 90) then ascii_of_N (n + 32) else c.
Fixpoint lower (s : string) : string :=
  match s with EmptyString => EmptyString | String c tl => String (lower_ascii c) (lower tl) end.

Fixpoint assoc_to_str (t : N) (tbl : list (N * string)) : option string :=
  match tbl with [] => None | (k, v) :: tl => if k =? t then Some v else assoc_to_str t tl end.
(* strcasecmp(s, name) == 0, first match wins *)
Fixpoint assoc_from_str (s : string) (tbl : list (string * N)) : option N :=
  match tbl with
  | [] => None
  | (name, t) :: tl => if String.eqb (lower s) (lower name) then Some t else assoc_from_str s tl
  end.
Definition compression_type_to_str (t : N) : option string := assoc_to_str t COMP_TO_STR.
Definition compression_type_from_str (s : string) : option N := assoc_from_str s COMP_FROM_STR.

(* ---- level handed to each library ------------------------------------------------ *)
Local Open Scope Z_scope.
Definition zlib_level (l : Z) : Z := if l <? -1 then 0 else if 9 <? l then 9 else l.
Definition lz4hc_level (l : Z) : Z := if l <? 0 then 0 else l.
Definition zstd_level (minl maxl l : Z) : Z := if l <? minl then minl else if maxl <? l then maxl else l.
(* mtbl_compress (no level): the library levels used *)
Definition default_level (alg : N) : Z :=
  if (alg =? COMP_ZLIB)%N then -1 else if (alg =? COMP_LZ4HC)%N then 9 else if (alg =? COMP_ZSTD)%N then 9 else 0.
Local Close Scope Z_scope.

(* ---- LZ4: 4-byte little-endian length prefix ------------------------------------ *)
Definition lz4_wrap (input_size : N) (lz4_bytes : bytes) : bytes := fixed_encode32 input_size ++ lz4_bytes.
Definition lz4_unwrap (stored : bytes) : option (N * bytes) :=
  if len stored <? 4 then None
  else match fixed_decode32 stored with Some n => Some (n, drop 4 stored) | None => None end.

(* ---- the wrappers' control flow around the four libraries ----------------------------
   Everything mtbl's own code decides: the INT_MAX gates, the level clamps, the capacity of
   the destination handed to each library, the LZ4 length prefix, the zstd content-size path,
   the zlib inflate grow loop, which outcome is a failure and which an assert.  The libraries
   are parameters (oracles); their documented bound formulas are written out so that the
   capacity obligations are theorems, and engine c15 compares the formulas with the real
   LZ4_compressBound / ZSTD_compressBound / snappy_max_compressed_length. *)
Definition INT_MAX : N := 2147483647.
Definition LZ4_MAX_INPUT_SIZE : N := 2113929216.   (* 0x7E000000 *)
Definition lz4_bound (n : N) : N := if LZ4_MAX_INPUT_SIZE <? n then 0 else n + n / 255 + 16.
Definition zstd_bound (n : N) : N := n + n / 256 + (if n <? 131072 then (131072 - n) / 2048 else 0).
Definition snappy_bound (n : N) : N := 32 + n + n / 6.
(* zstd: twice the bound when that is small ("compression runs faster") *)
Definition zstd_capacity (n : N) : N := let b := zstd_bound n in if b <? INT_MAX / 2 then 2 * b else b.
(* zlib inflate: first guess 4n rounded to the next KiB boundary above *)
Definition inflate_cap0 (n : N) : N := 4 * n - (4 * n) mod 1024 + 1024.

Inductive cres := COk (out : bytes) | CFail | CAbort.
Inductive infl := IEnd (out : bytes) | IBuf | IOther.   (* Z_STREAM_END, Z_BUF_ERROR, anything else *)

Record libs := mklibs {
  lz4_c : bytes -> N -> option bytes;            (* LZ4_compress_default src dstCapacity; None = 0 *)
  lz4hc_c : bytes -> N -> Z -> option bytes;     (* LZ4_compress_HC *)
  lz4_d : bytes -> N -> option bytes;            (* LZ4_decompress_safe src dstCapacity; None = negative *)
  zstd_min : Z; zstd_max : Z;                    (* ZSTD_minCLevel / ZSTD_maxCLevel *)
  zstd_c : bytes -> N -> Z -> option bytes;      (* ZSTD_compress; None = ZSTD_isError *)
  zstd_size : bytes -> option N;                 (* ZSTD_getFrameContentSize; None = ERROR / UNKNOWN *)
  zstd_d : bytes -> N -> option bytes;           (* ZSTD_decompress dstCapacity *)
  snappy_c : bytes -> N -> option bytes;         (* snappy_compress with *output_length = capacity *)
  snappy_len : bytes -> option N;                (* snappy_uncompressed_length *)
  snappy_d : bytes -> N -> option bytes;         (* snappy_uncompress *)
  zl_init_ok : Z -> bool;                        (* deflateInit(level) == Z_OK *)
  zl_bound : Z -> N -> N;                        (* deflateBound *)
  zl_deflate : bytes -> N -> Z -> option bytes;  (* deflate(Z_FINISH) with avail_out = capacity: Some = Z_STREAM_END, all input consumed *)
  zl_end_ok : bool;                              (* deflateEnd == Z_OK *)
  zl_inflate : bytes -> N -> infl;               (* inflate(Z_FINISH) once the output space offered so far totals the capacity *)
}.

Section Wrappers.
Variable L : libs.

Definition compress_lz4 (input : bytes) : cres :=
  let n := len input in
  if INT_MAX <? n then CFail else
  match lz4_c L input (lz4_bound n) with None => CFail | Some z => COk (lz4_wrap n z) end.
Definition compress_lz4hc (level : Z) (input : bytes) : cres :=
  let n := len input in
  if INT_MAX <? n then CFail else
  match lz4hc_c L input (lz4_bound n) (lz4hc_level level) with None => CFail | Some z => COk (lz4_wrap n z) end.
Definition decompress_lz4 (stored : bytes) : cres :=
  let n := len stored in
  if (INT_MAX <? n) || (n <? 4) then CFail else
  match lz4_unwrap stored with
  | None => CFail
  | Some (size, body) => match lz4_d L body size with None => CFail | Some out => COk out end
  end.
Definition compress_zstd (level : Z) (input : bytes) : cres :=
  let n := len input in
  if INT_MAX <? n then CFail else
  match zstd_c L input (zstd_capacity n) (zstd_level (zstd_min L) (zstd_max L) level) with None => CFail | Some z => COk z end.
Definition decompress_zstd (stored : bytes) : cres :=
  if INT_MAX <? len stored then CFail else
  match zstd_size L stored with
  | None => CFail
  | Some size => match zstd_d L stored size with None => CFail | Some out => COk out end
  end.
Definition compress_snappy (input : bytes) : cres :=
  match snappy_c L input (snappy_bound (len input)) with None => CFail | Some z => COk z end.
Definition decompress_snappy (stored : bytes) : cres :=
  match snappy_len L stored with
  | None => CFail
  | Some size => match snappy_d L stored size with None => CFail | Some out => COk out end
  end.
Definition compress_zlib (level : Z) (input : bytes) : cres :=
  let l := zlib_level level in
  if negb (zl_init_ok L l) then CAbort else
  match zl_deflate L input (zl_bound L l (len input)) l with
  | None => CAbort
  | Some z => if zl_end_ok L then COk z else CFail
  end.
Fixpoint inflate_loop (fuel : nat) (stored : bytes) (cap : N) : cres :=
  match fuel with
  | O => CAbort     (* out of fuel: excluded by the theorems (64 doublings exceed any size_t) *)
  | S f => match zl_inflate L stored cap with
           | IEnd out => COk out
           | IBuf => inflate_loop f stored (2 * cap)
           | IOther => CAbort
           end
  end.
Definition decompress_zlib (stored : bytes) : cres := inflate_loop 64 stored (inflate_cap0 (len stored)).

(* mtbl_compress_level / mtbl_compress / mtbl_decompress *)
Definition wrapper_compress_level (alg : N) (level : Z) (input : bytes) : cres :=
  if alg =? COMP_SNAPPY then compress_snappy input
  else if alg =? COMP_ZLIB then compress_zlib level input
  else if alg =? COMP_LZ4 then compress_lz4 input
  else if alg =? COMP_LZ4HC then compress_lz4hc level input
  else if alg =? COMP_ZSTD then compress_zstd level input
  else CFail.
Definition wrapper_compress (alg : N) (input : bytes) : cres := wrapper_compress_level alg (default_level alg) input.
Definition wrapper_decompress (alg : N) (stored : bytes) : cres :=
  if alg =? COMP_SNAPPY then decompress_snappy stored
  else if alg =? COMP_ZLIB then decompress_zlib stored
  else if (alg =? COMP_LZ4) || (alg =? COMP_LZ4HC) then decompress_lz4 stored
  else if alg =? COMP_ZSTD then decompress_zstd stored
  else CFail.
End Wrappers.

(* what the wrapper hands to the library for an input of n bytes: (level, destination capacity);
   executable, compared by engine c15 with the arguments recorded at the library boundary *)
Definition plan_compress (zmin zmax : Z) (alg : N) (level : Z) (n : N) : option (Z * N) :=
  if alg =? COMP_SNAPPY then Some (0%Z, snappy_bound n)
  else if alg =? COMP_ZLIB then Some (zlib_level level, 0)       (* capacity = deflateBound: the library's own *)
  else if alg =? COMP_LZ4 then if INT_MAX <? n then None else Some (0%Z, lz4_bound n)
  else if alg =? COMP_LZ4HC then if INT_MAX <? n then None else Some (lz4hc_level level, lz4_bound n)
  else if alg =? COMP_ZSTD then if INT_MAX <? n then None else Some (zstd_level zmin zmax level, zstd_capacity n)
  else None.
