(* Model of the wrapper logic of mtbl/compression.c: name tables, level clamping,
   the LZ4 length prefix, output capacities.  The compression libraries themselves
   are oracles. *)
From Coq Require Import ZArith String Ascii.
From Mtbl Require Import gen.Consts model.Bytes model.Codec.
Local Open Scope N_scope.

(* ---- names ------------------------------------------------------------------- *)
Definition lower_ascii (c : ascii) : ascii :=
  let n := N_of_ascii c in
  if (65 <=? n) && (n <=? 90) then ascii_of_N (n + 32) else c.
Fixpoint lower (s : string) : string :=
  match s with EmptyString => EmptyString | String c tl => String (lower_ascii c) (lower tl) end.

Fixpoint assoc_to_str (t : N) (tbl : list (N * string)) : option string :=
  match tbl with [] => None | (k, v) :: tl => if k =? t then Some v else assoc_to_str t tl end.
(* strcasecmp(s, name) == 0, first match wins *)
Fixpoint assoc_from_str (s : string) (tbl : list (string * N)) : option N :=
  match tbl with
  | [] => None
  | (name, t) :: tl => if String.eqb (lower s) (lower name) then Some t else assoc_from_str s tl
  end.
Definition compression_type_to_str (t : N) : option string := assoc_to_str t COMP_TO_STR.
Definition compression_type_from_str (s : string) : option N := assoc_from_str s COMP_FROM_STR.

(* ---- level handed to each library ------------------------------------------------ *)
Local Open Scope Z_scope.
Definition zlib_level (l : Z) : Z := if l <? -1 then 0 else if 9 <? l then 9 else l.
Definition lz4hc_level (l : Z) : Z := if l <? 0 then 0 else l.
Definition zstd_level (minl maxl l : Z) : Z := if l <? minl then minl else if maxl <? l then maxl else l.
(* mtbl_compress (no level): the library levels used *)
Definition default_level (alg : N) : Z :=
  if (alg =? COMP_ZLIB)%N then -1 else if (alg =? COMP_LZ4HC)%N then 9 else if (alg =? COMP_ZSTD)%N then 9 else 0.
Local Close Scope Z_scope.

(* ---- LZ4: 4-byte little-endian length prefix ------------------------------------ *)
Definition lz4_wrap (input_size : N) (lz4_bytes : bytes) : bytes := fixed_encode32 input_size ++ lz4_bytes.
Definition lz4_unwrap (stored : bytes) : option (N * bytes) :=
  if len stored <? 4 then None
  else match fixed_decode32 stored with Some n => Some (n, drop 4 stored) | None => None end.
