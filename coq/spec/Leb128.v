(* Specification: standard little-endian base-128 (LEB128 / protobuf varint)
   and little-endian fixed-width integers, written without reference to the
   implementation's control flow. *)
From Mtbl Require Import model.Bytes.
Local Open Scope N_scope.

Fixpoint leb128_f (fuel : nat) (v : N) : bytes :=
  match fuel with
  | O => []
  | S f => if v <? 128 then [v] else (v mod 128 + 128) :: leb128_f f (v / 128)
  end.
(* N.size v = number of binary digits of v: more than enough base-128 digits *)
Definition leb128 (v : N) : bytes := leb128_f (S (N.to_nat (N.size v))) v.

(* value denoted by a base-128 little-endian digit string (continuation bits ignored) *)
Fixpoint leb_value (l : bytes) : N :=
  match l with
  | [] => 0
  | b :: tl => b mod 128 + 128 * leb_value tl
  end.

(* well-formed LEB128 string: all bytes but the last carry the continuation
   bit, the last does not, and (canonical form) the last digit is non-zero unless
   the string has length 1 *)
Fixpoint leb_wf (l : bytes) : Prop :=
  match l with
  | [] => False
  | [b] => b < 128
  | b :: tl => 128 <= b < 256 /\ leb_wf tl
  end.

Fixpoint le_value (l : bytes) : N :=
  match l with
  | [] => 0
  | b :: tl => b + 256 * le_value tl
  end.
