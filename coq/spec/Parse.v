(* An independent decoder of the MTBL file format, written from the format
   description (not from the writer): it parses framing, blocks, entries, the
   restart array, the index and the trailer into an abstract table, and
   [wf_check] validates every structural clause of property C09 and the
   statistics of C10 on the result.  It is executable; the extracted version is
   what judges the files produced by the real writer. *)
From Coq Require Import ZArith.
From Mtbl Require Import gen.Consts model.Bytes model.Codec model.Order model.Crc spec.Leb128.
Local Open Scope N_scope.

(* error codes (for diagnostics only) *)
Definition E_SHORT := 1.        Definition E_MAGIC := 2.      Definition E_PADDING := 3.
Definition E_FRAME := 4.        Definition E_CRC := 5.        Definition E_VARINT_NONCANON := 6.
Definition E_BLOCK := 7.        Definition E_ENTRY := 8.      Definition E_RESTART := 9.
Definition E_INDEX_COUNT := 10. Definition E_INDEX_OFFSET := 11. Definition E_INDEX_KEY := 12.
Definition E_ORDER := 13.       Definition E_SHARING := 14.   Definition E_CADENCE := 15.
Definition E_SIZE := 16.        Definition E_CUT := 17.       Definition E_META := 18.
Definition E_DECOMPRESS := 19.  Definition E_LAYOUT := 20.    Definition E_EMPTY_BLOCK := 21.

Record pentry := mkpe {
  pe_off : N;          (* offset of the entry inside the block *)
  pe_shared : N;
  pe_key : bytes;      (* reconstructed full key *)
  pe_val : bytes;
  pe_canon : bool;     (* the three length varints are in canonical (shortest) form *)
}.

Record ablock := mkab {
  ab_entries : list pentry;
  ab_restarts : list N;
  ab_raw_len : N;        (* size of the uncompressed block *)
  ab_width64 : bool;     (* 64-bit restart array *)
}.

(* canonical varint32 at the head of data: (value, rest, canonical) *)
Definition get_varint32 (data : bytes) : option (N * bytes * bool) :=
  match varint_decode32 data with
  | Ok (v, n) => if n =? 0 then None
                 else Some (v, drop n data, n =? len (leb128 v))
  | _ => None
  end.
Definition get_varint64 (data : bytes) : option (N * bytes * bool) :=
  match varint_decode64 data with
  | Ok (v, n) => if n =? 0 then None
                 else Some (v, drop n data, n =? len (leb128 v))
  | _ => None
  end.

Fixpoint parse_entries (fuel : nat) (off : N) (prev : bytes) (data : bytes) : option (list pentry) :=
  match data with
  | [] => Some []
  | _ :: _ =>
    match fuel with
    | O => None
    | S f =>
      match get_varint32 data with
      | None => None
      | Some (shared, d1, c1) =>
        match get_varint32 d1 with
        | None => None
        | Some (nonshared, d2, c2) =>
          match get_varint32 d2 with
          | None => None
          | Some (vlen, d3, c3) =>
            if (len prev <? shared) || (len d3 <? nonshared + vlen) then None
            else
              let key := take shared prev ++ take nonshared d3 in
              let val := take vlen (drop nonshared d3) in
              let rest := drop (nonshared + vlen) d3 in
              let consumed := len data - len rest in
              match parse_entries f (off + consumed) key rest with
              | None => None
              | Some tl => Some (mkpe off shared key val (c1 && c2 && c3) :: tl)
              end
          end
        end
      end
    end
  end.

Fixpoint parse_array (n : nat) (width : nat) (data : bytes) : option (list N) :=
  match n with
  | O => Some []
  | S k => match le_decode width data with
           | None => None
           | Some v => match parse_array k width (skipn width data) with
                       | None => None
                       | Some tl => Some (v :: tl)
                       end
           end
  end.

(* a raw (uncompressed) block: entries, restart array, restart count *)
Definition parse_block (raw : bytes) : option ablock :=
  let n := len raw in
  if n <? 8 then None else
  match fixed_decode32 (drop (n - 4) raw) with
  | None => None
  | Some nr =>
    if (nr =? 0) then None else
    (* format rule: 32-bit offsets unless the entries region exceeds UINT32_MAX bytes *)
    let ro32 := n - 4 - 4 * nr in
    let ro64 := n - 4 - 8 * nr in
    if n <? 4 + 4 * nr then None else
    let w64 := 4294967295 <? ro32 in
    if w64 && (n <? 4 + 8 * nr) then None else
    let ro := if w64 then ro64 else ro32 in
    if w64 && (ro <=? 4294967295) then None else
    match parse_array (N.to_nat nr) (if w64 then 8 else 4) (drop ro raw) with
    | None => None
    | Some restarts =>
      match parse_entries (length raw) 0 [] (take ro raw) with
      | None => None
      | Some es => Some (mkab es restarts n w64)
      end
    end
  end.

(* one framed block at the head of data: (stored bytes, framed size, rest) *)
Definition parse_frame (data : bytes) : option (bytes * N * bytes) :=
  match get_varint64 data with
  | None => None
  | Some (n, d1, canon) =>
    if negb canon then None else
    match fixed_decode32 d1 with
    | None => None
    | Some crc =>
      let d2 := drop 4 d1 in
      if len d2 <? n then None
      else let stored := take n d2 in
           if crc =? crc32c_ref stored then Some (stored, len data - len d2 + n, drop n d2) else None
    end
  end.

(* frames laid end to end filling exactly [data]; each with its start offset *)
Fixpoint parse_frames (fuel : nat) (off : N) (data : bytes) : option (list (N * bytes * N)) :=
  match data with
  | [] => Some []
  | _ :: _ =>
    match fuel with
    | O => None
    | S f => match parse_frame data with
             | None => None
             | Some (stored, sz, rest) =>
               match parse_frames f (off + sz) rest with
               | None => None
               | Some tl => Some ((off, stored, sz) :: tl)
               end
             end
    end
  end.

Record trailer := mktr {
  tr_version : N;
  tr_index_block_offset : N; tr_data_block_size : N; tr_compression_algorithm : N;
  tr_count_entries : N; tr_count_data_blocks : N; tr_bytes_data_blocks : N;
  tr_bytes_index_block : N; tr_bytes_keys : N; tr_bytes_values : N;
}.

(* the trailer per the format description: nine little-endian 64-bit fields in
   this fixed order, zero padding, 32-bit magic *)
Definition parse_trailer (t : bytes) : option trailer :=
  if negb (len t =? 512) then None else
  match le_decode 4 (drop 508 t) with
  | None => None
  | Some magic =>
    let ver := if magic =? 1297367628 then Some 1 else if magic =? 2005165686 then Some 0 else None in
    match ver with
    | None => None
    | Some v =>
      if negb (forallb (fun b => b =? 0) (take (508 - 72) (drop 72 t))) then None else
      let f i := match le_decode 8 (drop (8 * i) t) with Some x => x | None => 0 end in
      Some (mktr v (f 0) (f 1) (f 2) (f 3) (f 4) (f 5) (f 6) (f 7) (f 8))
    end
  end.

Record atable := mkat {
  at_trailer : trailer;
  at_blocks : list (N * ablock * N);   (* absolute start offset, block, framed size *)
  at_index : ablock;
  at_index_framed : N;
}.

Section WithDecompress.
Variable decompress : N -> bytes -> res bytes.

Definition unstore (comp : N) (stored : bytes) : option bytes :=
  if comp =? 0 then Some stored
  else match decompress comp stored with Ok raw => Some raw | _ => None end.

Fixpoint parse_blocks (comp : N) (frames : list (N * bytes * N)) : option (list (N * ablock * N)) :=
  match frames with
  | [] => Some []
  | (off, stored, sz) :: tl =>
    match unstore comp stored with
    | None => None
    | Some raw =>
      match parse_block raw with
      | None => None
      | Some b => match parse_blocks comp tl with
                  | None => None
                  | Some r => Some ((off, b, sz) :: r)
                  end
      end
    end
  end.

(* [f] = the bytes of the file from the writer's initial offset [off0] on *)
Definition parse_table (off0 : N) (f : bytes) : N + atable :=
  let n := len f in
  if n <? 512 then inl E_SHORT else
  match parse_trailer (drop (n - 512) f) with
  | None => inl E_MAGIC
  | Some tr =>
    let ibo := tr_index_block_offset tr in
    if (ibo <? off0) || (n - 512 <? ibo - off0) then inl E_LAYOUT else
    let rel := ibo - off0 in
    match parse_frames (length f) off0 (take rel f) with
    | None => inl E_FRAME
    | Some frames =>
      match parse_frame (take (n - 512 - rel) (drop rel f)) with
      | None => inl E_FRAME
      | Some (istored, isz, irest) =>
        if negb (len irest =? 0) then inl E_LAYOUT else
        match parse_block istored with
        | None => inl E_BLOCK
        | Some ib =>
          match parse_blocks (tr_compression_algorithm tr) frames with
          | None => inl E_BLOCK
          | Some bl => inr (mkat tr bl ib isz)
          end
        end
      end
    end
  end.

End WithDecompress.

(* ------------------------------------------------------------------ validation *)

Definition block_keys (b : ablock) : list bytes := map pe_key (ab_entries b).
Definition block_pairs (b : ablock) : list entry := map (fun e => (pe_key e, pe_val e)) (ab_entries b).
Definition table_entries (t : atable) : list entry :=
  concat (map (fun x => block_pairs (snd (fst x))) (at_blocks t)).

Fixpoint strictly_increasing (l : list bytes) : bool :=
  match l with
  | a :: ((b :: _) as tl) => blt a b && strictly_increasing tl
  | _ => true
  end.

(* entries of a block: canonical varints; restart points exactly at entries
   0, I, 2I, ... (and listed in the restart array in that order); the longest
   common prefix with the previous key elided elsewhere, nothing shared at a
   restart point *)
Fixpoint check_entries (interval : N) (i : N) (prev : bytes) (es : list pentry)
  : bool * list N (* restart offsets implied *) :=
  match es with
  | [] => (true, [])
  | e :: tl =>
    let at_restart := (i mod interval =? 0) in
    let ok_here := pe_canon e &&
                   (if at_restart then pe_shared e =? 0 else pe_shared e =? lcp prev (pe_key e)) in
    let '(ok_tl, rs) := check_entries interval (i + 1) (pe_key e) tl in
    (ok_here && ok_tl, if at_restart then pe_off e :: rs else rs)
  end.

Definition list_eqb (a b : list N) : bool :=
  (length a =? length b)%nat && forallb (fun p => fst p =? snd p) (combine a b).

Definition check_block (interval : N) (b : ablock) : N :=
  match ab_entries b with
  | [] => E_EMPTY_BLOCK
  | _ =>
    let '(ok, rs) := check_entries interval 0 [] (ab_entries b) in
    if negb ok then E_SHARING
    else if negb (list_eqb rs (ab_restarts b)) then E_CADENCE
    else 0
  end.

Definition first_key (b : ablock) : bytes := match ab_entries b with e :: _ => pe_key e | [] => [] end.
Definition last_key (b : ablock) : bytes := last (block_keys b) [].

(* index entries against the data blocks *)
Fixpoint check_index (ies : list pentry) (blocks : list (N * ablock * N)) : N :=
  match ies, blocks with
  | [], [] => 0
  | ie :: itl, (off, b, _) :: btl =>
    (* value = canonical varint64 of the block's start offset *)
    match get_varint64 (pe_val ie) with
    | Some (v, [], true) =>
      if negb (v =? off) then E_INDEX_OFFSET
      else if negb (ble (last_key b) (pe_key ie)) then E_INDEX_KEY
      else match btl with
           | (_, nb, _) :: _ => if negb (blt (pe_key ie) (first_key nb)) then E_INDEX_KEY
                                else check_index itl btl
           | [] => check_index itl btl
           end
    | _ => E_INDEX_OFFSET
    end
  | _, _ => E_INDEX_COUNT
  end.

Definition entry_cost (e : pentry) : N := 15 + len (pe_key e) + len (pe_val e).

(* size policy: a block with more than one entry is smaller than block_size; a
   block is closed only when the next entry would bring it to block_size *)
Fixpoint check_sizes (block_size : N) (blocks : list (N * ablock * N)) : N :=
  match blocks with
  | [] => 0
  | (_, b, _) :: tl =>
    if (1 <? N.of_nat (length (ab_entries b))) && negb (ab_raw_len b <? block_size) then E_SIZE
    else match tl with
         | (_, nb, _) :: _ =>
           match ab_entries nb with
           | e :: _ => if ab_raw_len b + entry_cost e <? block_size then E_CUT else check_sizes block_size tl
           | [] => E_EMPTY_BLOCK
           end
         | [] => 0
         end
  end.

Fixpoint sumN (l : list N) : N := match l with [] => 0 | x :: tl => x + sumN tl end.

Record expect := mkexpect { ex_block_size : N; ex_interval : N; ex_comp : N }.

(* 0 = well-formed *)
Definition wf_validate (off0 : N) (x : expect) (t : atable) : N :=
  let tr := at_trailer t in
  let blocks := at_blocks t in
  let es := table_entries t in
  if negb (tr_version tr =? 1) then E_MAGIC else
  let cb := fold_left (fun acc bl => if acc =? 0 then check_block (ex_interval x) (snd (fst bl)) else acc) blocks 0 in
  if negb (cb =? 0) then cb else
  let ci := match ab_entries (at_index t), blocks with
            | [], [] => (* empty table: the index block holds no entry *)
                        if list_eqb (ab_restarts (at_index t)) [0] then 0 else E_CADENCE
            | _, _ => check_block (ex_interval x) (at_index t)
            end in
  if negb (ci =? 0) then ci else
  if negb (strictly_increasing (map fst es)) then E_ORDER else
  let cx := check_index (ab_entries (at_index t)) blocks in
  if negb (cx =? 0) then cx else
  let cs := check_sizes (ex_block_size x) blocks in
  if negb (cs =? 0) then cs else
  (* contiguity from off0 is built into parse_frames; statistics (C10): *)
  if negb ((tr_count_entries tr =? N.of_nat (length es))
        && (tr_count_data_blocks tr =? N.of_nat (length blocks))
        && (tr_bytes_data_blocks tr =? sumN (map snd blocks))
        && (tr_index_block_offset tr =? off0 + sumN (map snd blocks))
        && (tr_bytes_index_block tr =? at_index_framed t)
        && (tr_bytes_keys tr =? sumN (map (fun e => len (fst e)) es))
        && (tr_bytes_values tr =? sumN (map (fun e => len (snd e)) es))
        && (tr_data_block_size tr =? ex_block_size x)
        && (tr_compression_algorithm tr =? ex_comp x)) then E_META
  else 0.
