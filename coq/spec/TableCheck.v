(* An executable legality check for a table as the reader sees it (definitions only; the
   soundness proof - whatever passes satisfies table_ok, so every theorem of ReaderProofs
   applies - is proofs/CheckProofs.v).  The check decides the structural side conditions
   only (offsets, key order, restart points, index values, separators); it says nothing
   about how the bytes were produced, so it covers the writer's output and any other
   legal encoding alike.  The extracted check is run on every file the engines generate. *)
From Coq Require Import NArith Arith List.
From Mtbl Require Import gen.Consts model.Bytes model.Codec model.Order spec.Parse model.Reader.
Local Open Scope N_scope.

Fixpoint chainb {A} (rb : A -> A -> bool) (l : list A) : bool :=
  match l with
  | a :: ((b :: _) as tl) => rb a b && chainb rb tl
  | _ => true
  end.

(* the entry index of every restart point *)
Definition ridx_of (b : ablock) : option (list nat) :=
  fold_right (fun off acc => match find_off (ab_entries b) off 0, acc with
                             | Some j, Some l => Some (j :: l)
                             | _, _ => None
                             end) (Some []) (ab_restarts b).

Definition wfb_check (b : ablock) (ridx : list nat) : bool :=
  (0 <? nentries b)%nat
  && chainb (fun x y => pe_off x <? pe_off y) (ab_entries b)
  && chainb (fun x y => blt (pe_key x) (pe_key y)) (ab_entries b)
  && (length ridx =? length (ab_restarts b))%nat
  && (0 <? length ridx)%nat
  && forallb (fun i => (restart_at b (N.of_nat i) =? off_at b (nth i ridx 0%nat))
                       && (nth i ridx 0 <? nentries b)%nat
                       && (pe_shared (entry_at b (nth i ridx 0%nat)) =? 0))
             (seq 0 (length ridx))
  && chainb Nat.ltb ridx
  && (nth 0 ridx 0 =? 0)%nat.

Section Table.
Variable decompress : N -> bytes -> res bytes.

Definition dummy_ab : ablock := mkab [] [] 0 false.

(* load and check the data block of every index entry *)
Fixpoint load_blocks (r : reader) (ies : list pentry) : option (list (ablock * list nat)) :=
  match ies with
  | [] => Some []
  | ie :: tl =>
    match varint_decode64 (pe_val ie) with
    | Ok (off, _) =>
      match get_block decompress r off with
      | Ok b => match ridx_of b with
                | Some ridx => if wfb_check b ridx
                               then match load_blocks r tl with
                                    | Some l => Some ((b, ridx) :: l)
                                    | None => None
                                    end
                               else None
                | None => None
                end
      | _ => None
      end
    | _ => None
    end
  end.

Definition blk (bl : list (ablock * list nat)) (i : nat) : ablock := fst (nth i bl (dummy_ab, [])).
Definition rdx (bl : list (ablock * list nat)) (i : nat) : list nat := snd (nth i bl (dummy_ab, [])).

(* last key of block i <= separator i < first key of block i+1 *)
Fixpoint seps_check (ies : list pentry) (bl : list (ablock * list nat)) : bool :=
  match ies, bl with
  | ie :: itl, (b, _) :: btl =>
    ble (key_at b (nentries b - 1)) (pe_key ie)
    && match btl with
       | (nb, _) :: _ => blt (pe_key ie) (key_at nb 0)
       | [] => true
       end
    && seps_check itl btl
  | _, _ => true
  end.

Definition offs_of (ib : ablock) : list N :=
  map (fun ie => match varint_decode64 (pe_val ie) with Ok (v, _) => v | _ => 0 end) (ab_entries ib).

Definition table_check (r : reader) : option (ablock * list nat * list (ablock * list nat)) :=
  match r_index r with
  | None => None
  | Some ib =>
    match ridx_of ib with
    | None => None
    | Some iridx =>
      if negb (wfb_check ib iridx) then None else
      match load_blocks r (ab_entries ib) with
      | None => None
      | Some bl =>
        if chainb N.ltb (offs_of ib) && seps_check (ab_entries ib) bl
        then Some (ib, iridx, bl) else None
      end
    end
  end.

End Table.
