(* Specification of the merged content of a family of sorted sources *)
From Coq Require Import Permutation.
From Mtbl Require Import model.Bytes model.Order.
Local Open Scope N_scope.

(* all values the sources hold for key k, in source order *)
Definition values_for (k : bytes) (srcs : list (list entry)) : list bytes :=
  concat (map (fun es => map snd (filter (fun e => beq (fst e) k) es)) srcs).

(* insertion of a key into a strictly ascending key list *)
Fixpoint insert_key (k : bytes) (l : list bytes) : list bytes :=
  match l with
  | [] => [k]
  | x :: tl => match bcmp k x with Lt => k :: l | Eq => l | Gt => x :: insert_key k tl end
  end.
Definition all_keys (srcs : list (list entry)) : list bytes :=
  fold_right insert_key [] (map fst (concat srcs)).

(* left fold of the merge function over a non-empty value list; None = the merge function failed *)
Fixpoint fold_merge (mf : bytes -> bytes -> bytes -> option bytes) (k : bytes) (acc : bytes) (vs : list bytes) : option bytes :=
  match vs with
  | [] => Some acc
  | v :: tl => match mf k acc v with Some a => fold_merge mf k a tl | None => None end
  end.

(* the output (k, v) is acceptable for key k: v is the fold over SOME ordering of exactly the
   values held for k *)
Definition merged_value_ok (mf : bytes -> bytes -> bytes -> option bytes) (srcs : list (list entry)) (k v : bytes) : Prop :=
  exists first rest, Permutation (first :: rest) (values_for k srcs) /\ fold_merge mf k first rest = Some v.
