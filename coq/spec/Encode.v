(* An independent, executable encoder of the MTBL file format, written from the format
   description only (not from writer.c / block_builder.c or their models):

     entry    = varint32(shared) varint32(unshared) varint32(|val|) key-suffix value
     block    = entries ; restart array (fixed32 offsets) ; fixed32 restart count
     frame    = length-prefix crc32c stored-bytes        (length prefix: varint64 in format
                                                           v2, fixed32 in format v1)
     index    = a block whose entries map a separator key per data block to
                varint64(offset of the block's frame in the file)
     trailer  = 512 bytes: nine fixed64 fields, zero padding, fixed32 magic
     file     = foreign-prefix ; data frames ; index frame ; trailer

   Every choice the format leaves open is a field of [layout]: the format version, the
   leading foreign bytes, the compression algorithm, how the entry list is cut into blocks,
   for each entry of each block (data and index) whether it is a restart point or, if not,
   how many bytes it shares with its predecessor, the separator key of each block, and the
   block-size statistic of the trailer.  [layout_ok] decides whether a layout is legal for
   a given entry list.  Only codec primitives (varint/fixed encoders, crc32c, bcmp, lcp)
   are shared with the rest of the development. *)
From Coq Require Import NArith Arith List Bool.
From Mtbl Require Import model.Bytes model.Codec model.Order model.Crc.
Local Open Scope N_scope.

Inductive fversion := V1 | V2.

(* the choice made for one entry of a block:
     None   - the entry is a restart point (shares nothing, its offset is in the restart array)
     Some s - not a restart point; the first s bytes of the key are taken from the previous key *)
Definition choice := option N.
Definition share_of (c : choice) : N := match c with None => 0 | Some s => s end.

Record layout := mklayout {
  l_version : fversion;
  l_prefix : bytes;                        (* foreign bytes in front of the table *)
  l_comp : N;                              (* compression algorithm of the data blocks *)
  l_block_size : N;                        (* the data_block_size statistic *)
  l_blocks : list (list choice * bytes);   (* per data block: one choice per entry, separator key *)
  l_index : list choice;                   (* one choice per index entry *)
}.

(* ---- blocks ---------------------------------------------------------------------------- *)
Definition enc_entry (shared : N) (k v : bytes) : bytes :=
  varint_encode32 shared ++ varint_encode32 (len k - shared) ++ varint_encode32 (len v)
  ++ drop shared k ++ v.

Fixpoint enc_entries (es : list entry) (ch : list choice) : bytes :=
  match es, ch with
  | (k, v) :: es', c :: ch' => enc_entry (share_of c) k v ++ enc_entries es' ch'
  | _, _ => []
  end.

(* offsets (inside the block) of the entries chosen as restart points; [off] = offset of the
   first entry of [es] *)
Fixpoint restart_offsets (off : N) (es : list entry) (ch : list choice) : list N :=
  match es, ch with
  | (k, v) :: es', c :: ch' =>
    let tl := restart_offsets (off + len (enc_entry (share_of c) k v)) es' ch' in
    match c with None => off :: tl | Some _ => tl end
  | _, _ => []
  end.

(* a block without entries (the index of an empty table) carries the single restart offset 0 *)
Definition encode_block (es : list entry) (ch : list choice) : bytes :=
  let rs := match restart_offsets 0 es ch with [] => [0] | rs => rs end in
  enc_entries es ch ++ concat (map fixed_encode32 rs) ++ fixed_encode32 (N.of_nat (length rs)).

Definition encode_frame (ver : fversion) (stored : bytes) : bytes :=
  match ver with V1 => fixed_encode32 (len stored) | V2 => varint_encode64 (len stored) end
  ++ fixed_encode32 (crc32c_ref stored) ++ stored.

Definition magic_of (ver : fversion) : N :=
  match ver with V1 => 2005165686 (* 0x77846676 *) | V2 => 1297367628 (* 0x4D54424C *) end.

Definition encode_trailer (ver : fversion) (fields : list N) : bytes :=
  let fb := concat (map fixed_encode64 fields) in
  fb ++ repeat 0 (N.to_nat (512 - len fb - 4)) ++ fixed_encode32 (magic_of ver).

(* ---- the table ---------------------------------------------------------------------------- *)
(* cut the entry list as the layout says: block i takes as many entries as it has choices *)
Fixpoint split_blocks (es : list entry) (bls : list (list choice * bytes))
  : list (list entry * list choice * bytes) :=
  match bls with
  | [] => []
  | (ch, sp) :: tl => (firstn (length ch) es, ch, sp) :: split_blocks (skipn (length ch) es) tl
  end.

Definition sumlen (l : list bytes) : N := fold_right (fun b a => len b + a) 0 l.

Section WithCompress.
(* the compression library: None = the algorithm failed on this input *)
Variable compress : N -> bytes -> option bytes.

Definition store (comp : N) (raw : bytes) : option bytes :=
  if comp =? 0 then Some raw else compress comp raw.

(* the data frames laid end to end from file offset [off], and the index entries
   (separator, varint64(frame offset)) they give rise to *)
Fixpoint encode_data (ver : fversion) (comp : N) (off : N) (blocks : list (list entry * list choice * bytes))
  : option (bytes * list entry) :=
  match blocks with
  | [] => Some ([], [])
  | (bes, ch, sp) :: tl =>
    match store comp (encode_block bes ch) with
    | None => None
    | Some stored =>
      let fr := encode_frame ver stored in
      match encode_data ver comp (off + len fr) tl with
      | None => None
      | Some (rest, idx) => Some (fr ++ rest, (sp, varint_encode64 off) :: idx)
      end
    end
  end.

Definition encode_table (lay : layout) (es : list entry) : option bytes :=
  let ver := l_version lay in
  let blocks := split_blocks es (l_blocks lay) in
  match encode_data ver (l_comp lay) (len (l_prefix lay)) blocks with
  | None => None
  | Some (data, idx) =>
    let iframe := encode_frame ver (encode_block idx (l_index lay)) in    (* never compressed *)
    Some (l_prefix lay ++ data ++ iframe ++
          encode_trailer ver
            [ len (l_prefix lay) + len data;       (* index_block_offset *)
              l_block_size lay;                    (* data_block_size *)
              l_comp lay;                          (* compression_algorithm *)
              N.of_nat (length es);                (* count_entries *)
              N.of_nat (length blocks);            (* count_data_blocks *)
              len data;                            (* bytes_data_blocks *)
              len iframe;                          (* bytes_index_block *)
              sumlen (map fst es);                 (* bytes_keys *)
              sumlen (map snd es) ])               (* bytes_values *)
  end.

(* ---- legality of a layout ------------------------------------------------------------------ *)
Definition entry_ok (e : entry) : bool :=
  wf_bytesb (fst e) && wf_bytesb (snd e) && (len (fst e) <? 2 ^ 32) && (len (snd e) <? 2 ^ 32).

Fixpoint chain {A} (rb : A -> A -> bool) (l : list A) : bool :=
  match l with
  | a :: ((b :: _) as tl) => rb a b && chain rb tl
  | _ => true
  end.
Definition keys_increasing (es : list entry) : bool := chain (fun a b => blt (fst a) (fst b)) es.

(* one choice per entry; an entry that is not a restart point shares at most the longest common
   prefix with its predecessor *)
Fixpoint choices_ok (prev : bytes) (es : list entry) (ch : list choice) : bool :=
  match es, ch with
  | [], [] => true
  | (k, _) :: es', c :: ch' =>
    match c with None => true | Some s => s <=? lcp prev k end && choices_ok k es' ch'
  | _, _ => false
  end.
(* entry 0 of a block is a restart point *)
Definition block_choices_ok (es : list entry) (ch : list choice) : bool :=
  match ch with None :: _ => choices_ok [] es ch | _ => false end.

Definition first_key (es : list entry) : bytes := match es with e :: _ => fst e | [] => [] end.
Definition last_key (es : list entry) : bytes := fst (last es ([], [])).

(* last key of block i <= separator i < first key of block i+1 *)
Fixpoint seps_ok (blocks : list (list entry * list choice * bytes)) : bool :=
  match blocks with
  | [] => true
  | (bes, _, sp) :: tl =>
    ble (last_key bes) sp && wf_bytesb sp && (len sp <? 2 ^ 32)
    && match tl with (nes, _, _) :: _ => blt sp (first_key nes) | [] => true end
    && seps_ok tl
  end.

(* a data block: below 4 GiB raw, the compressor accepts it and returns bytes; the stored size
   must fit the length prefix (32 bits in format v1, 64 bits in format v2) *)
Definition block_fits (ver : fversion) (comp : N) (b : list entry * list choice * bytes) : bool :=
  let '(bes, ch, _) := b in
  let raw := encode_block bes ch in
  (len raw <? 2 ^ 32)
  && match store comp raw with
     | Some s => wf_bytesb s && (len s <? match ver with V1 => 2 ^ 32 | V2 => 2 ^ 64 end)
     | None => false
     end.

Definition layout_ok (lay : layout) (es : list entry) : bool :=
  let blocks := split_blocks es (l_blocks lay) in
  forallb entry_ok es && keys_increasing es
  && wf_bytesb (l_prefix lay) && (l_comp lay <? 2 ^ 64) && (l_block_size lay <? 2 ^ 64)
  (* the blocks are non-empty and use up the entry list *)
  && (fold_right (fun b a => (length (fst b) + a)%nat) 0%nat (l_blocks lay) =? length es)%nat
  && forallb (fun b => block_choices_ok (fst (fst b)) (snd (fst b))) blocks
  && seps_ok blocks
  && forallb (block_fits (l_version lay) (l_comp lay)) blocks
  && match encode_data (l_version lay) (l_comp lay) (len (l_prefix lay)) blocks with
     | None => false
     | Some (_, idx) =>
       (* the index block: one entry per data block, with its own restart / sharing choices *)
       match idx with [] => match l_index lay with [] => true | _ => false end
                    | _ => block_choices_ok idx (l_index lay) end
       && (len (encode_block idx (l_index lay)) <? 2 ^ 32)
     end
  && match encode_table lay es with Some f => len f <? 2 ^ 64 | None => false end.

End WithCompress.
