(* Source ties of C18: the statements of the C functions its model follows, as they were when the model
   was written and validated against them (tools/gen_ties.py --expected).  gen/Ties.v is regenerated from
   /repo on every run; a changed statement breaks the corresponding lemma below. *)
From Coq Require Import List String.
From Mtbl Require Import gen.Ties.
Import ListNotations.
Local Open Scope string_scope.

(* mtbl/merger.c: merger_iter_init *)
Lemma tie_merger_iter_init : TIE_merger_iter_init =
  [(0, "structmerger_iter*it=my_calloc(1,sizeof(*it))");
   (0, "it->m=m");
   (0, "it->h=heap_init(_mtbl_merger_compare,m)");
   (0, "it->entries=entry_vec_init(source_vec_size(m->sources))");
   (0, "it->iters=iter_vec_init(source_vec_size(m->sources))");
   (0, "it->cur_key=ubuf_init(256)");
   (0, "it->cur_val=ubuf_init(256)");
   (0, "return(it)")].
Proof. reflexivity. Qed.

(* mtbl/sorter.c: mtbl_sorter_add *)
Lemma tie_sorter_add : TIE_sorter_add =
  [(0, "mtbl_resres=mtbl_res_success");
   (0, "if(s->iterating)return(mtbl_res_failure)");
   (0, "assert(len_key<=UINT_MAX)");
   (0, "assert(len_val<=UINT_MAX)");
   (0, "structentry*ent");
   (0, "size_tentry_bytes");
   (0, "entry_bytes=sizeof(*ent)+len_key+len_val");
   (0, "ent=my_malloc(entry_bytes)");
   (0, "ent->len_key=len_key");
   (0, "ent->len_val=len_val");
   (0, "memcpy(entry_key(ent),key,len_key)");
   (0, "memcpy(entry_val(ent),val,len_val)");
   (0, "entry_vec_append(s->vec,&ent,1)");
   (0, "s->entry_bytes+=entry_bytes");
   (0, "if(s->entry_bytes+entry_vec_bytes(s->vec)>=s->opt.max_memory)res=_mtbl_sorter_flush(s)");
   (0, "return(res)")].
Proof. reflexivity. Qed.

(* mtbl/sorter.c: mtbl_sorter_iter *)
Lemma tie_sorter_iter : TIE_sorter_iter =
  [(0, "structsorter_iter*it=my_calloc(1,sizeof(*it))");
   (0, "structmtbl_merger_options*mopt=mtbl_merger_options_init()");
   (0, "if(entry_vec_size(s->vec)>0)");
   (1, "mtbl_resres=_mtbl_sorter_flush(s)");
   (1, "if(res!=mtbl_res_success)");
   (2, "mtbl_merger_options_destroy(&mopt)");
   (2, "free(it)");
   (2, "return(NULL)");
   (0, "mtbl_merger_options_set_merge_func(mopt,s->opt.merge,s->opt.merge_clos)");
   (0, "it->m=mtbl_merger_init(mopt)");
   (0, "mtbl_merger_options_destroy(&mopt)");
   (0, "result_handler_destroy(&s->rhandler)");
   (0, "for(size_ti=0;i<reader_vec_size(s->readers);i++)");
   (1, "structmtbl_reader*r=reader_vec_value(s->readers,i)");
   (1, "mtbl_merger_add_source(it->m,mtbl_reader_source(r))");
   (0, "it->m_iter=mtbl_source_iter(mtbl_merger_source(it->m))");
   (0, "s->iterating=true");
   (0, "return(mtbl_iter_init(sorter_iter_seek,sorter_iter_next,sorter_iter_free,it))")].
Proof. reflexivity. Qed.

(* mtbl/sorter.c: mtbl_sorter_write *)
Lemma tie_sorter_write : TIE_sorter_write =
  [(0, "if(s->iterating)return(mtbl_res_failure)");
   (0, "structmtbl_iter*it=mtbl_sorter_iter(s)");
   (0, "constuint8_t*key,*val");
   (0, "size_tlen_key,len_val");
   (0, "mtbl_resres=mtbl_res_success");
   (0, "if(it==NULL)return(mtbl_res_failure)");
   (0, "while(mtbl_iter_next(it,&key,&len_key,&val,&len_val)==mtbl_res_success)");
   (1, "res=mtbl_writer_add(w,key,len_key,val,len_val)");
   (1, "if(res!=mtbl_res_success)break");
   (0, "mtbl_iter_destroy(&it)");
   (0, "return(res)")].
Proof. reflexivity. Qed.

(* mtbl/sorter.c: _mtbl_sorter_write_chunk *)
Lemma tie_sorter_write_chunk : TIE_sorter_write_chunk =
  [(0, "mtbl_resres");
   (0, "conststructmtbl_sorter*s=b->s");
   (0, "chartemplate[64]");
   (0, "sprintf(template,""/.mtbl.%ld.XXXXXX"",(long)getpid())");
   (0, "ubuf*tmp_fname=ubuf_init(strlen(s->opt.tmp_dname)+strlen(template)+1)");
   (0, "ubuf_append(tmp_fname,(uint8_t*)s->opt.tmp_dname,strlen(s->opt.tmp_dname))");
   (0, "ubuf_append(tmp_fname,(uint8_t*)template,strlen(template))");
   (0, "ubuf_append(tmp_fname,(constuint8_t*)""\x00"",1)");
   (0, "intfd=mkstemp((char*)ubuf_data(tmp_fname))");
   (0, "assert(fd>=0)");
   (0, "intunlink_ret=unlink((char*)ubuf_data(tmp_fname))");
   (0, "assert(unlink_ret==0)");
   (0, "ubuf_destroy(&tmp_fname)");
   (0, "structmtbl_writer_options*wopt=mtbl_writer_options_init()");
   (0, "mtbl_writer_options_set_compression(wopt,MTBL_COMPRESSION_SNAPPY)");
   (0, "structmtbl_writer*w=mtbl_writer_init_fd(fd,wopt)");
   (0, "mtbl_writer_options_destroy(&wopt)");
   (0, "structentry**entries=entry_vec_data(b->entries)");
   (0, "qsort(entries,entry_vec_size(b->entries),sizeof(void*),_mtbl_sorter_compare)");
   (0, "for(unsignedi=0;i<entry_vec_size(b->entries);i++)");
   (1, "structentry*ent=entry_vec_value(b->entries,i)");
   (1, "if(i+1<entry_vec_size(b->entries))");
   (2, "structentry*next_ent=entry_vec_value(b->entries,i+1)");
   (2, "structentry*merge_ent=NULL");
   (2, "if(_mtbl_sorter_compare(&ent,&next_ent)==0)");
   (3, "assert(s->opt.merge!=NULL)");
   (3, "uint8_t*merge_val=NULL");
   (3, "size_tlen_merge_val=0");
   (3, "s->opt.merge(s->opt.merge_clos,entry_key(ent),ent->len_key,entry_val(ent),ent->len_val,entry_val(next_ent),next_ent->len_val,&merge_val,&len_merge_val)");
   (3, "if(merge_val==NULL)");
   (4, "for(unsignedj=i;j<entry_vec_size(b->entries);j++)free(entry_vec_value(b->entries,j))");
   (4, "entry_vec_destroy(&b->entries)");
   (4, "free(b)");
   (4, "mtbl_writer_destroy(&w)");
   (4, "close(fd)");
   (4, "return(NULL)");
   (3, "size_tlen=sizeof(structentry)+ent->len_key+len_merge_val");
   (3, "merge_ent=my_malloc(len)");
   (3, "merge_ent->len_key=ent->len_key");
   (3, "merge_ent->len_val=len_merge_val");
   (3, "memcpy(entry_key(merge_ent),entry_key(ent),ent->len_key)");
   (3, "memcpy(entry_val(merge_ent),merge_val,len_merge_val)");
   (3, "free(merge_val)");
   (3, "free(ent)");
   (3, "free(next_ent)");
   (3, "entry_vec_data(b->entries)[i+1]=merge_ent");
   (3, "continue");
   (1, "res=mtbl_writer_add(w,entry_key(ent),ent->len_key,entry_val(ent),ent->len_val)");
   (1, "free(ent)");
   (1, "if(res!=mtbl_res_success)break");
   (0, "mtbl_writer_destroy(&w)");
   (0, "entry_vec_destroy(&b->entries)");
   (0, "free(b)");
   (0, "if(res!=mtbl_res_success)");
   (1, "close(fd)");
   (1, "return(NULL)");
   (0, "structmtbl_reader*r=mtbl_reader_init_fd(fd,NULL)");
   (0, "close(fd)");
   (0, "return(r)")].
Proof. reflexivity. Qed.

(* mtbl/sorter.c: _mtbl_sorter_flush *)
Lemma tie_sorter_flush : TIE_sorter_flush =
  [(0, "mtbl_resres=mtbl_res_success");
   (0, "structentry_batch*b");
   (0, "assert(!s->iterating)");
   (0, "b=_mtbl_sorter_get_entry_batch(s)");
   (0, "if(s->pool!=NULL)");
   (1, "threadpool_dispatch(s->pool,s->rhandler,false,_write_temp_file_wrapper,b)");
   (0, "else");
   (1, "structmtbl_reader*r=_mtbl_sorter_write_chunk(b)");
   (1, "reader_vec_add(s->readers,r)");
   (1, "if(r==NULL)res=mtbl_res_failure");
   (0, "return(res)")].
Proof. reflexivity. Qed.

(* mtbl/sorter.c: mtbl_sorter_destroy *)
Lemma tie_sorter_destroy : TIE_sorter_destroy =
  [(0, "if(*s)");
   (1, "result_handler_destroy(&(*s)->rhandler)");
   (1, "for(unsignedi=0;i<entry_vec_size((*s)->vec);i++)");
   (2, "structentry*ent=entry_vec_value((*s)->vec,i)");
   (2, "free(ent)");
   (1, "entry_vec_destroy(&((*s)->vec))");
   (1, "for(unsignedi=0;i<reader_vec_size((*s)->readers);i++)");
   (2, "structmtbl_reader*r=reader_vec_value((*s)->readers,i)");
   (2, "mtbl_reader_destroy(&r)");
   (1, "reader_vec_destroy(&((*s)->readers))");
   (1, "free((*s)->opt.tmp_dname)");
   (1, "my_free(*s)")].
Proof. reflexivity. Qed.

(* mtbl/fileset.c: mtbl_fileset_reload *)
Lemma tie_fileset_reload : TIE_fileset_reload =
  [(0, "assert(f!=NULL)");
   (0, "structtimespecnow");
   (0, "if((f->fs_last.tv_sec!=f->shared_fs->fs_last.tv_sec)||(f->fs_last.tv_nsec!=f->shared_fs->fs_last.tv_nsec))");
   (1, "fs_reinit_merger(f)");
   (1, "f->fs_last=f->shared_fs->fs_last");
   (0, "if(!f->shared_fs->reload_needed&&f->reload_interval==MTBL_FILESET_RELOAD_INTERVAL_NEVER)return");
   (0, "if(f->shared_fs->n_iters>0)return");
   (0, "#ifHAVE_CLOCK_GETTIME");
   (0, "staticconstclockid_tclock=CLOCK_MONOTONIC");
   (0, "#else");
   (0, "staticconstintclock=-1");
   (0, "#endif");
   (0, "my_gettime(clock,&now)");
   (0, "if(f->shared_fs->reload_needed||(now.tv_sec-f->shared_fs->fs_last.tv_sec>f->reload_interval))");
   (1, "f->shared_fs->n_loaded=0");
   (1, "f->shared_fs->n_unloaded=0");
   (1, "assert(f->shared_fs->my_fs!=NULL)");
   (1, "my_fileset_reload(f->shared_fs->my_fs)");
   (1, "if(f->shared_fs->n_loaded>0||f->shared_fs->n_unloaded>0)fs_reinit_merger(f)");
   (1, "f->shared_fs->fs_last=now");
   (1, "f->fs_last=now");
   (1, "f->shared_fs->reload_needed=false")].
Proof. reflexivity. Qed.

(* mtbl/fileset.c: mtbl_fileset_reload_now *)
Lemma tie_fileset_reload_now : TIE_fileset_reload_now =
  [(0, "assert(f!=NULL)");
   (0, "structtimespecnow");
   (0, "if((f->fs_last.tv_sec!=f->shared_fs->fs_last.tv_sec)||(f->fs_last.tv_nsec!=f->shared_fs->fs_last.tv_nsec))");
   (1, "fs_reinit_merger(f)");
   (1, "f->fs_last=f->shared_fs->fs_last");
   (0, "if(f->shared_fs->n_iters>0)");
   (1, "f->shared_fs->reload_needed=true");
   (1, "return");
   (0, "#ifHAVE_CLOCK_GETTIME");
   (0, "staticconstclockid_tclock=CLOCK_MONOTONIC");
   (0, "#else");
   (0, "staticconstintclock=-1");
   (0, "#endif");
   (0, "my_gettime(clock,&now)");
   (0, "f->shared_fs->n_loaded=0");
   (0, "f->shared_fs->n_unloaded=0");
   (0, "assert(f->shared_fs->my_fs!=NULL)");
   (0, "my_fileset_reload(f->shared_fs->my_fs)");
   (0, "if(f->shared_fs->n_loaded>0||f->shared_fs->n_unloaded>0)fs_reinit_merger(f)");
   (0, "f->shared_fs->fs_last=now");
   (0, "f->fs_last=now");
   (0, "f->shared_fs->reload_needed=false")].
Proof. reflexivity. Qed.

(* mtbl/fileset.c: fileset_iter_init *)
Lemma tie_fileset_iter_init : TIE_fileset_iter_init =
  [(0, "structfileset_iter*it=my_calloc(1,sizeof(*it))");
   (0, "f->shared_fs->n_iters++");
   (0, "it->iter=mit");
   (0, "it->fs=f");
   (0, "returnmtbl_iter_init(fileset_iter_seek,fileset_iter_next,fileset_iter_free,it)")].
Proof. reflexivity. Qed.

(* mtbl/fileset.c: fileset_iter_free *)
Lemma tie_fileset_iter_free : TIE_fileset_iter_free =
  [(0, "structfileset_iter*it=(structfileset_iter*)v");
   (0, "if(it)");
   (1, "it->fs->shared_fs->n_iters--");
   (1, "mtbl_iter_destroy(&it->iter)");
   (1, "mtbl_fileset_reload(it->fs)");
   (1, "free(it)")].
Proof. reflexivity. Qed.

(* mtbl/fileset.c: fs_reinit_merger *)
Lemma tie_fileset_reinit_merger : TIE_fileset_reinit_merger =
  [(0, "constchar*fname");
   (0, "structmtbl_reader*reader");
   (0, "size_ti=0");
   (0, "if(f->merger)");
   (1, "mtbl_merger_destroy(&f->merger)");
   (1, "f->merger=mtbl_merger_init(f->mopt)");
   (0, "assert(f->merger!=NULL)");
   (0, "while(my_fileset_get(f->shared_fs->my_fs,i++,&fname,(void**)&reader))");
   (1, "if(reader==NULL)");
   (2, "continue");
   (1, "if((f->fname_filter==NULL||f->fname_filter(fname,f->fname_filter_clos))&&(f->reader_filter==NULL||f->reader_filter(reader,f->reader_filter_clos)))");
   (2, "mtbl_merger_add_source(f->merger,mtbl_reader_source(reader))")].
Proof. reflexivity. Qed.

(* libmy/my_fileset.c: my_fileset_reload *)
Lemma tie_my_fileset_reload : TIE_my_fileset_reload =
  [(0, "assert(fs!=NULL)");
   (0, "structfileset_entry*ent,**entptr");
   (0, "entry_vec*new_entries");
   (0, "FILE*fp");
   (0, "char*fname,*line=NULL");
   (0, "size_tlen=0");
   (0, "ubuf*u");
   (0, "if(!setfile_updated(fs))return");
   (0, "fp=fopen(fs->setfile,""r"")");
   (0, "if(fp==NULL)return");
   (0, "u=ubuf_init(64)");
   (0, "new_entries=entry_vec_init(1)");
   (0, "while(getline(&line,&len,fp)!=-1)");
   (1, "ubuf_clip(u,0)");
   (1, "if(line[0]!='/')");
   (2, "ubuf_add_cstr(u,fs->setdir)");
   (2, "ubuf_add(u,'/')");
   (1, "ubuf_add_cstr(u,line)");
   (1, "ubuf_rstrip(u,'\n')");
   (1, "fname=ubuf_cstr(u)");
   (1, "if(path_exists(fname))");
   (2, "entptr=fetch_entry(fs->entries,fname)");
   (2, "if(entptr==NULL)");
   (3, "ent=my_calloc(1,sizeof(*ent))");
   (3, "ent->fname=my_strdup(fname)");
   (3, "if(fs->load)ent->ptr=fs->load(fs,fname)");
   (3, "entry_vec_add(new_entries,ent)");
   (2, "else");
   (3, "ent=my_calloc(1,sizeof(*ent))");
   (3, "ent->fname=my_strdup(fname)");
   (3, "ent->ptr=(*entptr)->ptr");
   (3, "(*entptr)->keep=true");
   (3, "entry_vec_add(new_entries,ent)");
   (0, "free(line)");
   (0, "fclose(fp)");
   (0, "qsort(entry_vec_data(new_entries),entry_vec_size(new_entries),sizeof(void*),cmp_fileset_entry)");
   (0, "size_tn_uniq=0");
   (0, "for(size_ti=0;i<entry_vec_size(new_entries);i++)");
   (1, "structfileset_entry*prev");
   (1, "ent=entry_vec_value(new_entries,i)");
   (1, "prev=(n_uniq>0)?entry_vec_value(new_entries,n_uniq-1):NULL");
   (1, "if(prev!=NULL&&strcmp(prev->fname,ent->fname)==0)");
   (2, "if(ent->ptr!=prev->ptr&&fs->unload)fs->unload(fs,ent->fname,ent->ptr)");
   (2, "free(ent->fname)");
   (2, "free(ent)");
   (1, "else");
   (2, "entry_vec_data(new_entries)[n_uniq++]=ent");
   (0, "entry_vec_clip(new_entries,n_uniq)");
   (0, "for(size_ti=0;i<entry_vec_size(fs->entries);i++)");
   (1, "ent=entry_vec_value(fs->entries,i)");
   (1, "assert(ent!=NULL)");
   (1, "if(ent->keep==false&&fs->unload)fs->unload(fs,ent->fname,ent->ptr)");
   (1, "free(ent->fname)");
   (1, "free(ent)");
   (0, "entry_vec_destroy(&fs->entries)");
   (0, "fs->entries=new_entries");
   (0, "ubuf_destroy(&u)")].
Proof. reflexivity. Qed.

(* mtbl/reader.c: mtbl_reader_init_fd *)
Lemma tie_reader_init_fd : TIE_reader_init_fd =
  [(0, "structmtbl_reader*r");
   (0, "structstatss");
   (0, "size_tmetadata_offset");
   (0, "size_tindex_len,index_len_len");
   (0, "uint8_t*index_data");
   (0, "intret=fstat(fd,&ss)");
   (0, "assert(ret==0)");
   (0, "if(ss.st_size<MTBL_METADATA_SIZE)return(NULL)");
   (0, "r=my_calloc(1,sizeof(*r))");
   (0, "if(opt!=NULL)memcpy(&r->opt,opt,sizeof(*opt))");
   (0, "r->len_data=ss.st_size");
   (0, "r->data=mmap(NULL,r->len_data,PROT_READ,MAP_PRIVATE,fd,0)");
   (0, "if(r->data==MAP_FAILED)");
   (1, "free(r)");
   (1, "return(NULL)");
   (0, "metadata_offset=r->len_data-MTBL_METADATA_SIZE");
   (0, "if(!metadata_read(r->data+metadata_offset,&r->m))");
   (1, "mtbl_reader_destroy(&r)");
   (1, "return(NULL)");
   (0, "uint64_tend,min_block_length=13");
   (0, "if(r->m.file_version==MTBL_FORMAT_V1)min_block_length=16");
   (0, "end=r->m.index_block_offset+MTBL_METADATA_SIZE+min_block_length");
   (0, "if((end>r->len_data)||(end<r->m.index_block_offset))");
   (1, "mtbl_reader_destroy(&r)");
   (1, "return(NULL)");
   (0, "reader_init_madvise(r)");
   (0, "if(r->m.file_version==MTBL_FORMAT_V1)");
   (1, "index_len_len=sizeof(uint32_t)");
   (1, "index_len=mtbl_fixed_decode32(r->data+r->m.index_block_offset+0)");
   (0, "else");
   (1, "uint64_ttmp");
   (1, "index_len_len=mtbl_varint_decode64(r->data+r->m.index_block_offset+0,&tmp)");
   (1, "index_len=tmp");
   (1, "if((uint64_t)index_len!=tmp)");
   (2, "mtbl_reader_destroy(&r)");
   (2, "returnNULL");
   (0, "uint64_tindex_avail=metadata_offset-r->m.index_block_offset");
   (0, "uint64_tindex_header=index_len_len+sizeof(uint32_t)");
   (0, "if(index_header>index_avail||index_len>index_avail-index_header)");
   (1, "mtbl_reader_destroy(&r)");
   (1, "return(NULL)");
   (0, "index_data=r->data+r->m.index_block_offset+index_len_len+sizeof(uint32_t)");
   (0, "if(r->opt.verify_checksums)");
   (1, "uint32_tindex_crc,calc_crc");
   (1, "index_crc=mtbl_fixed_decode32(r->data+r->m.index_block_offset+index_len_len)");
   (1, "calc_crc=mtbl_crc32c(index_data,index_len)");
   (1, "assert(index_crc==calc_crc)");
   (0, "r->index=block_init(index_data,index_len,false)");
   (0, "r->source=mtbl_source_init(reader_iter,reader_get,reader_get_prefix,reader_get_range,NULL,r)");
   (0, "return(r)")].
Proof. reflexivity. Qed.

(* mtbl/writer.c: _mtbl_writer_finish *)
Lemma tie_writer_finish : TIE_writer_finish =
  [(0, "structdata_blockindex");
   (0, "uint8_ttbuf[MTBL_METADATA_SIZE]");
   (0, "size_tbytes_written");
   (0, "_mtbl_writer_flush(w)");
   (0, "result_handler_destroy(&w->rhandler)");
   (0, "assert(!w->closed)");
   (0, "w->closed=true");
   (0, "block_builder_finish(w->index,&index.data,&index.len_data)");
   (0, "index.crc=htole32(mtbl_crc32c(index.data,index.len_data))");
   (0, "bytes_written=_mtbl_writer_write_block(w->fd,&index)");
   (0, "w->m.index_block_offset=w->pending_offset");
   (0, "w->m.bytes_index_block=bytes_written");
   (0, "w->last_offset=w->pending_offset");
   (0, "w->pending_offset+=bytes_written");
   (0, "metadata_write(&w->m,tbuf)");
   (0, "_write_all(w->fd,tbuf,sizeof(tbuf))");
   (0, "block_builder_reset(w->index)");
   (0, "free(index.data)")].
Proof. reflexivity. Qed.

(* mtbl/writer.c: mtbl_writer_init *)
Lemma tie_writer_init : TIE_writer_init =
  [(0, "structmtbl_writer*w");
   (0, "intfd");
   (0, "fd=open(fname,O_WRONLY|O_CREAT|O_TRUNC|O_EXCL,0644)");
   (0, "if(fd<0)return(NULL)");
   (0, "w=mtbl_writer_init_fd(fd,opt)");
   (0, "close(fd)");
   (0, "return(w)")].
Proof. reflexivity. Qed.

(* mtbl/writer.c: mtbl_writer_init_fd *)
Lemma tie_writer_init_fd : TIE_writer_init_fd =
  [(0, "structmtbl_writer*w");
   (0, "intfd");
   (0, "fd=dup(orig_fd)");
   (0, "assert(fd>=0)");
   (0, "w=my_calloc(1,sizeof(*w))");
   (0, "if(opt==NULL)");
   (1, "w->opt.compression_type=DEFAULT_COMPRESSION_TYPE");
   (1, "w->opt.compression_level=DEFAULT_COMPRESSION_LEVEL");
   (1, "w->opt.block_size=DEFAULT_BLOCK_SIZE");
   (1, "w->opt.block_restart_interval=DEFAULT_BLOCK_RESTART_INTERVAL");
   (1, "w->opt.pool=NULL");
   (0, "else");
   (1, "memcpy(&w->opt,opt,sizeof(*opt))");
   (0, "w->fd=fd");
   (0, "w->last_offset=lseek(fd,0,SEEK_CUR)");
   (0, "w->pending_offset=w->last_offset");
   (0, "w->last_key=ubuf_init(256)");
   (0, "w->m.file_version=MTBL_FORMAT_V2");
   (0, "w->m.compression_algorithm=w->opt.compression_type");
   (0, "w->m.data_block_size=w->opt.block_size");
   (0, "w->data=block_builder_init(w->opt.block_restart_interval)");
   (0, "w->index=block_builder_init(w->opt.block_restart_interval)");
   (0, "if(w->opt.pool!=NULL)");
   (1, "w->pool=w->opt.pool->pool");
   (1, "w->rhandler=result_handler_init(_write_data_block_wrapper,w)");
   (0, "return(w)")].
Proof. reflexivity. Qed.

(* mtbl/threadpool.c: result_handler_destroy *)
Lemma tie_tp_rh_destroy : TIE_tp_rh_destroy =
  [(0, "structresult_handler*rh=*prh");
   (0, "if(rh==NULL)return");
   (0, "resultq_finish(rh->rq)");
   (0, "pthread_join(rh->thread,NULL)");
   (0, "free(rh)");
   (0, "*prh=NULL")].
Proof. reflexivity. Qed.

(* mtbl/writer.c: mtbl_writer_destroy *)
Lemma tie_writer_destroy : TIE_writer_destroy =
  [(0, "if(*w)");
   (1, "if(!(*w)->closed)");
   (2, "_mtbl_writer_finish(*w)");
   (2, "close((*w)->fd)");
   (1, "block_builder_destroy(&((*w)->data))");
   (1, "block_builder_destroy(&((*w)->index))");
   (1, "ubuf_destroy(&(*w)->last_key)");
   (1, "my_free(*w)")].
Proof. reflexivity. Qed.

(* mtbl/reader.c: mtbl_reader_init *)
Lemma tie_reader_init : TIE_reader_init =
  [(0, "structmtbl_reader*r");
   (0, "intfd");
   (0, "fd=open(fname,O_RDONLY)");
   (0, "if(fd<0)return(NULL)");
   (0, "r=mtbl_reader_init_fd(fd,opt)");
   (0, "close(fd)");
   (0, "return(r)")].
Proof. reflexivity. Qed.

(* mtbl/reader.c: mtbl_reader_destroy *)
Lemma tie_reader_destroy : TIE_reader_destroy =
  [(0, "if(*r!=NULL)");
   (1, "block_destroy(&(*r)->index)");
   (1, "munmap((*r)->data,(*r)->len_data)");
   (1, "mtbl_source_destroy(&(*r)->source)");
   (1, "free(*r)");
   (1, "*r=NULL")].
Proof. reflexivity. Qed.

(* mtbl/reader.c: reader_iter_free *)
Lemma tie_reader_iter_free : TIE_reader_iter_free =
  [(0, "structreader_iter*it=(structreader_iter*)v");
   (0, "if(it)");
   (1, "ubuf_destroy(&it->k)");
   (1, "block_destroy(&it->b)");
   (1, "block_iter_destroy(&it->bi)");
   (1, "block_iter_destroy(&it->index_iter)");
   (1, "free(it)")].
Proof. reflexivity. Qed.

(* mtbl/merger.c: mtbl_merger_destroy *)
Lemma tie_merger_destroy : TIE_merger_destroy =
  [(0, "if(*m)");
   (1, "source_vec_destroy(&(*m)->sources)");
   (1, "mtbl_source_destroy(&(*m)->source)");
   (1, "free(*m)");
   (1, "*m=NULL")].
Proof. reflexivity. Qed.

(* mtbl/merger.c: merger_iter_free *)
Lemma tie_merger_iter_free : TIE_merger_iter_free =
  [(0, "structmerger_iter*it=(structmerger_iter*)v");
   (0, "if(it!=NULL)");
   (1, "heap_destroy(&it->h)");
   (1, "for(size_ti=0;i<entry_vec_size(it->entries);i++)");
   (2, "structentry*ent=entry_vec_value(it->entries,i)");
   (2, "free(ent)");
   (1, "entry_vec_destroy(&it->entries)");
   (1, "for(size_ti=0;i<iter_vec_size(it->iters);i++)");
   (2, "structmtbl_iter*iter=iter_vec_value(it->iters,i)");
   (2, "mtbl_iter_destroy(&iter)");
   (1, "iter_vec_destroy(&it->iters)");
   (1, "ubuf_destroy(&it->cur_key)");
   (1, "ubuf_destroy(&it->cur_val)");
   (1, "free(it)")].
Proof. reflexivity. Qed.

(* mtbl/sorter.c: mtbl_sorter_init *)
Lemma tie_sorter_init : TIE_sorter_init =
  [(0, "structmtbl_sorter*s");
   (0, "s=my_calloc(1,sizeof(*s))");
   (0, "if(opt!=NULL)");
   (1, "memcpy(&s->opt,opt,sizeof(*opt))");
   (1, "s->opt.tmp_dname=strdup(opt->tmp_dname)");
   (0, "s->vec=entry_vec_init(INITIAL_SORTER_VEC_SIZE)");
   (0, "s->readers=reader_vec_init(1)");
   (0, "if(s->opt.pool!=NULL)");
   (1, "s->pool=s->opt.pool->pool");
   (1, "s->rhandler=result_handler_init(_collect_readers_cb,s)");
   (0, "return(s)")].
Proof. reflexivity. Qed.

(* mtbl/sorter.c: sorter_iter_free *)
Lemma tie_sorter_iter_free : TIE_sorter_iter_free =
  [(0, "structsorter_iter*it=(structsorter_iter*)v");
   (0, "if(it)");
   (1, "mtbl_iter_destroy(&it->m_iter)");
   (1, "mtbl_merger_destroy(&it->m)");
   (1, "free(it)")].
Proof. reflexivity. Qed.

(* mtbl/fileset.c: mtbl_fileset_init *)
Lemma tie_fileset_init : TIE_fileset_init =
  [(0, "structmtbl_fileset*f=my_calloc(1,sizeof(*f))");
   (0, "f->shared_fs=my_calloc(1,sizeof(*(f->shared_fs)))");
   (0, "f->shared_fs->n_fs=1");
   (0, "f->shared_fs->reload_needed=true");
   (0, "f->shared_fs->my_fs=my_fileset_init(fname,fs_load,fs_unload,f->shared_fs)");
   (0, "assert(f->shared_fs->my_fs!=NULL)");
   (0, "mtbl_fileset_set_options(f,opt)");
   (0, "return(f)")].
Proof. reflexivity. Qed.

(* mtbl/fileset.c: mtbl_fileset_dup *)
Lemma tie_fileset_dup : TIE_fileset_dup =
  [(0, "structmtbl_fileset*f=my_calloc(1,sizeof(*f))");
   (0, "f->shared_fs=orig->shared_fs");
   (0, "f->shared_fs->n_fs++");
   (0, "mtbl_fileset_set_options(f,opt)");
   (0, "return(f)")].
Proof. reflexivity. Qed.

(* mtbl/fileset.c: mtbl_fileset_destroy *)
Lemma tie_fileset_destroy : TIE_fileset_destroy =
  [(0, "if(*f)");
   (1, "if(--((*f)->shared_fs->n_fs)<=0)");
   (2, "my_fileset_destroy(&(*f)->shared_fs->my_fs)");
   (2, "free((*f)->shared_fs)");
   (1, "mtbl_merger_destroy(&(*f)->merger)");
   (1, "mtbl_merger_options_destroy(&(*f)->mopt)");
   (1, "mtbl_source_destroy(&(*f)->source)");
   (1, "free(*f)");
   (1, "*f=NULL")].
Proof. reflexivity. Qed.

(* libmy/my_fileset.c: my_fileset_destroy *)
Lemma tie_my_fileset_destroy : TIE_my_fileset_destroy =
  [(0, "if(*fs!=NULL)");
   (1, "for(size_ti=0;i<entry_vec_size((*fs)->entries);i++)");
   (2, "structfileset_entry*ent=entry_vec_value((*fs)->entries,i)");
   (2, "if((*fs)->unload)(*fs)->unload(*fs,ent->fname,ent->ptr)");
   (2, "free(ent->fname)");
   (2, "free(ent)");
   (1, "entry_vec_destroy(&(*fs)->entries)");
   (1, "free((*fs)->setdir)");
   (1, "free((*fs)->setfile)");
   (1, "free(*fs)");
   (1, "*fs=NULL")].
Proof. reflexivity. Qed.

(* mtbl/iter.c: mtbl_iter_destroy *)
Lemma tie_iter_destroy : TIE_iter_destroy =
  [(0, "if(*it)");
   (1, "if((*it)->iter_free!=NULL)(*it)->iter_free((*it)->clos)");
   (1, "free(*it)");
   (1, "*it=NULL")].
Proof. reflexivity. Qed.

(* mtbl/source.c: mtbl_source_write *)
Lemma tie_source_write : TIE_source_write =
  [(0, "constuint8_t*key,*val");
   (0, "size_tlen_key,len_val");
   (0, "structmtbl_iter*it=mtbl_source_iter(s)");
   (0, "mtbl_resres=mtbl_res_success");
   (0, "if(it==NULL)return(mtbl_res_failure)");
   (0, "while(mtbl_iter_next(it,&key,&len_key,&val,&len_val)==mtbl_res_success)");
   (1, "res=mtbl_writer_add(w,key,len_key,val,len_val)");
   (1, "if(res!=mtbl_res_success)break");
   (0, "mtbl_iter_destroy(&it)");
   (0, "return(res)")].
Proof. reflexivity. Qed.

(* mtbl/threadpool.c: result_handler_init *)
Lemma tie_tp_rh_init : TIE_tp_rh_init =
  [(0, "structresult_handler*rh=calloc(1,sizeof(*rh))");
   (0, "rh->rq=resultq_init()");
   (0, "rh->cb=cb");
   (0, "rh->cbdata=cbdata");
   (0, "pthread_create(&rh->thread,NULL,result_worker,rh)");
   (0, "returnrh")].
Proof. reflexivity. Qed.

(* mtbl/threadpool.c: mtbl_threadpool_init *)
Lemma tie_tp_pool_init : TIE_tp_pool_init =
  [(0, "structmtbl_threadpool*pool=calloc(1,sizeof(*pool))");
   (0, "if(thread_count>0)pool->pool=threadpool_init(thread_count)");
   (0, "returnpool")].
Proof. reflexivity. Qed.

(* mtbl/threadpool.c: mtbl_threadpool_destroy *)
Lemma tie_tp_pool_destroy : TIE_tp_pool_destroy =
  [(0, "structmtbl_threadpool*pool=*poolp");
   (0, "if(pool==NULL)return");
   (0, "threadpool_destroy(&pool->pool)");
   (0, "free(pool)");
   (0, "*poolp=NULL")].
Proof. reflexivity. Qed.

(* mtbl/block.c: block_destroy *)
Lemma tie_blk_block_destroy : TIE_blk_block_destroy =
  [(0, "if(*b!=NULL)");
   (1, "if((*b)->needs_free)free((*b)->data)");
   (1, "free(*b)");
   (1, "*b=NULL")].
Proof. reflexivity. Qed.

(* mtbl/block.c: block_iter_destroy *)
Lemma tie_blk_block_iter_destroy : TIE_blk_block_iter_destroy =
  [(0, "if(*bi!=NULL)");
   (1, "ubuf_destroy(&(*bi)->key)");
   (1, "free(*bi)");
   (1, "*bi=NULL")].
Proof. reflexivity. Qed.

(* mtbl/fileset.c: fs_load *)
Lemma tie_fs_fs_load : TIE_fs_fs_load =
  [(0, "structshared_fileset*f=(structshared_fileset*)my_fileset_user(fs)");
   (0, "f->n_loaded++");
   (0, "return(mtbl_reader_init(fname,NULL))")].
Proof. reflexivity. Qed.

(* mtbl/fileset.c: fs_unload *)
Lemma tie_fs_fs_unload : TIE_fs_fs_unload =
  [(0, "structshared_fileset*f=(structshared_fileset*)my_fileset_user(fs)");
   (0, "structmtbl_reader*r=(structmtbl_reader*)ptr");
   (0, "f->n_unloaded++");
   (0, "mtbl_reader_destroy(&r)")].
Proof. reflexivity. Qed.

(* mtbl/fileset.c: mtbl_fileset_set_options *)
Lemma tie_fs_mtbl_fileset_set_options : TIE_fs_mtbl_fileset_set_options =
  [(0, "assert(opt!=NULL)");
   (0, "f->reload_interval=opt->reload_interval");
   (0, "f->mopt=mtbl_merger_options_init()");
   (0, "mtbl_merger_options_set_merge_func(f->mopt,opt->merge,opt->merge_clos)");
   (0, "mtbl_merger_options_set_dupsort_func(f->mopt,opt->dupsort,opt->dupsort_clos)");
   (0, "f->fname_filter=opt->fname_filter");
   (0, "f->fname_filter_clos=opt->fname_filter_clos");
   (0, "f->reader_filter=opt->reader_filter");
   (0, "f->reader_filter_clos=opt->reader_filter_clos");
   (0, "f->merger=mtbl_merger_init(f->mopt)");
   (0, "f->source=mtbl_source_init(fileset_source_iter,fileset_source_get,fileset_source_get_prefix,fileset_source_get_range,NULL,f)")].
Proof. reflexivity. Qed.

(* mtbl/fileset.c: mtbl_fileset_options_destroy *)
Lemma tie_fs_mtbl_fileset_options_destroy : TIE_fs_mtbl_fileset_options_destroy =
  [(0, "if(*opt)");
   (1, "free(*opt)");
   (1, "*opt=NULL")].
Proof. reflexivity. Qed.

(* libmy/vector.h: whole file *)
Lemma tie_vector_h : TIE_vector_h =
  [(0, "#include<assert.h>");
   (0, "#include""my_alloc.h""");
   (0, "#defineVECTOR_GENERATE(name,type)\");
   (0, "typedefstructname##__vector");
   (1, "\type*_v");
   (1, "\type*_p");
   (1, "\size_t_n,_n_alloced,_hint");
   (1, "\");
   (0, "name");
   (0, "\__attribute__((unused))\staticinlinename*\name##_init(unsignedhint)\");
   (1, "\name*vec");
   (1, "\vec=my_calloc(1,sizeof(name))");
   (1, "\if(hint==0)hint=1");
   (1, "\vec->_hint=vec->_n_alloced=hint");
   (1, "\vec->_v=my_malloc(vec->_n_alloced*sizeof(type))");
   (1, "\vec->_p=&(vec->_v[0])");
   (1, "\return(vec)");
   (1, "\");
   (0, "\__attribute__((unused))\staticinlinevoid\name##_reinit(unsignedhint,name*vec)\");
   (1, "\if(hint==0)hint=1");
   (1, "\vec->_hint=vec->_n_alloced=hint");
   (1, "\vec->_n=0");
   (1, "\vec->_v=my_malloc(vec->_n_alloced*sizeof(type))");
   (1, "\vec->_p=&(vec->_v[0])");
   (1, "\");
   (0, "\__attribute__((unused))\staticinlinevoid\name##_detach(name*vec,type**out,size_t*outsz)\");
   (1, "\*(out)=(vec)->_v");
   (1, "\*(outsz)=(vec)->_n");
   (1, "\(vec)->_n=0");
   (1, "\(vec)->_n_alloced=(vec)->_hint");
   (1, "\(vec)->_v=my_malloc((vec)->_n_alloced*sizeof(type))");
   (1, "\(vec)->_p=&(vec->_v[0])");
   (1, "\");
   (0, "\__attribute__((unused))\staticinlinevoid\name##_destroy(name**vec)\");
   (1, "\if(*vec)");
   (2, "\my_free((*vec)->_v)");
   (2, "\my_free((*vec))");
   (2, "\");
   (1, "\");
   (0, "\__attribute__((unused))\staticinlinevoid\name##_reserve(name*vec,size_tn_elems)\");
   (1, "\while((n_elems)>((vec)->_n_alloced-(vec)->_n))");
   (2, "\(vec)->_n_alloced*=2");
   (2, "\(vec)->_v=my_realloc((vec)->_v,(vec)->_n_alloced\*sizeof(type))");
   (2, "\(vec)->_p=&((vec)->_v[(vec)->_n])");
   (2, "\");
   (1, "\");
   (0, "\__attribute__((unused))\staticinlinevoid\name##_add(name*vec,typeelem)\");
   (1, "\while((vec)->_n+1>(vec)->_n_alloced)");
   (2, "\(vec)->_n_alloced*=2");
   (2, "\(vec)->_v=my_realloc((vec)->_v,(vec)->_n_alloced\*sizeof(type))");
   (2, "\(vec)->_p=&((vec)->_v[(vec)->_n])");
   (2, "\");
   (1, "\(vec)->_v[(vec)->_n]=elem");
   (1, "\(vec)->_n+=1");
   (1, "\(vec)->_p=&((vec)->_v[(vec)->_n])");
   (1, "\");
   (0, "\__attribute__((unused))\staticinlinevoid\name##_append(name*vec,typeconst*elems,size_tn_elems)\");
   (1, "\name##_reserve(vec,n_elems)");
   (1, "\memcpy((vec)->_v+(vec)->_n,elems,(n_elems)*sizeof(type))");
   (1, "\(vec)->_n+=(n_elems)");
   (1, "\(vec)->_p=&((vec)->_v[(vec)->_n])");
   (1, "\");
   (0, "\__attribute__((unused))\staticinlinevoid\name##_extend(name*vec0,name*vec1)\");
   (1, "\name##_append(vec0,(vec1)->_v,(vec1)->_n)");
   (1, "\");
   (0, "\__attribute__((unused))\staticinlinevoid\name##_reset(name*vec)\");
   (1, "\(vec)->_n=0");
   (1, "\if((vec)->_n_alloced>(vec)->_hint)");
   (2, "\(vec)->_n_alloced=(vec)->_hint");
   (2, "\(vec)->_v=my_realloc((vec)->_v,(vec)->_n_alloced\*sizeof(type))");
   (2, "\");
   (1, "\(vec)->_p=&(vec->_v[0])");
   (1, "\");
   (0, "\__attribute__((unused))\staticinlinevoid\name##_clip(name*vec,size_tn_elems)\");
   (1, "\if(n_elems<(vec)->_n)");
   (2, "\(vec)->_n=n_elems");
   (2, "\(vec)->_p=&((vec)->_v[(vec)->_n])");
   (2, "\");
   (1, "\");
   (0, "\__attribute__((unused))\staticinlinesize_t\name##_bytes(name*vec)\");
   (1, "\return((vec)->_n*sizeof(type))");
   (1, "\");
   (0, "\__attribute__((unused))\staticinlinesize_t\name##_size(name*vec)\");
   (1, "\return((vec)->_n)");
   (1, "\");
   (0, "\__attribute__((unused))\staticinlinetype\name##_value(name*vec,size_ti)\");
   (1, "\assert(i<(vec)->_n)");
   (1, "\return((vec)->_v[i])");
   (1, "\");
   (0, "\__attribute__((unused))\staticinlinetype*\name##_ptr(name*vec)\");
   (1, "\return((vec)->_p)");
   (1, "\");
   (0, "\__attribute__((unused))\staticinlinetype*\name##_data(name*vec)\");
   (1, "\return((vec)->_v)");
   (1, "\");
   (0, "\__attribute__((unused))\staticinlinevoid\name##_advance(name*vec,size_tx)\");
   (1, "\assert(x<=((vec)->_n_alloced-(vec)->_n))");
   (1, "\(vec)->_n+=x");
   (1, "\(vec)->_p=&((vec)->_v[(vec)->_n])");
   (1, "\")].
Proof. reflexivity. Qed.

(* libmy/ubuf.h: whole file *)
Lemma tie_ubuf_h : TIE_ubuf_h =
  [(0, "#ifndefMY_UBUF_H");
   (0, "#defineMY_UBUF_H");
   (0, "#include<stdarg.h>");
   (0, "#include<stdbool.h>");
   (0, "#include<stdint.h>");
   (0, "#include<stdio.h>");
   (0, "#include<stdlib.h>");
   (0, "#include<string.h>");
   (0, "#include""vector.h""");
   (0, "VECTOR_GENERATE(ubuf,uint8_t)");
   (0, "staticinlineubuf*ubuf_new(void)");
   (1, "return(ubuf_init(64))");
   (0, "staticinlineubuf*ubuf_dup_cstr(constchar*s)");
   (1, "size_tlen=strlen(s)");
   (1, "ubuf*u=ubuf_init(len+1)");
   (1, "ubuf_append(u,(constuint8_t*)s,len)");
   (1, "return(u)");
   (0, "staticinlinevoidubuf_add_cstr(ubuf*u,constchar*s)");
   (1, "if(ubuf_size(u)>0&&ubuf_value(u,ubuf_size(u)-1)=='\x00')ubuf_clip(u,ubuf_size(u)-1)");
   (1, "ubuf_append(u,(constuint8_t*)s,strlen(s))");
   (0, "staticinlinevoidubuf_cterm(ubuf*u)");
   (1, "if(ubuf_size(u)==0||(ubuf_size(u)>0&&ubuf_value(u,ubuf_size(u)-1)!='\x00'))");
   (2, "ubuf_append(u,(constuint8_t*)""\x00"",1)");
   (0, "staticinlinechar*ubuf_cstr(ubuf*u)");
   (1, "ubuf_cterm(u)");
   (1, "return((char*)ubuf_data(u))");
   (0, "staticinlinevoidubuf_add_fmt(ubuf*u,constchar*fmt,...)");
   (1, "va_listargs,args_copy");
   (1, "intstatus,needed");
   (1, "if(ubuf_size(u)>0&&ubuf_value(u,ubuf_size(u)-1)=='\x00')ubuf_clip(u,ubuf_size(u)-1)");
   (1, "va_start(args,fmt)");
   (1, "va_copy(args_copy,args)");
   (1, "needed=vsnprintf(NULL,0,fmt,args_copy)");
   (1, "assert(needed>=0)");
   (1, "va_end(args_copy)");
   (1, "ubuf_reserve(u,ubuf_size(u)+needed+1)");
   (1, "status=vsnprintf((char*)ubuf_ptr(u),needed+1,fmt,args)");
   (1, "assert(status>=0)");
   (1, "ubuf_advance(u,needed)");
   (1, "va_end(args)");
   (0, "staticinlinevoidubuf_rstrip(ubuf*u,chars)");
   (1, "if(ubuf_size(u)>0&&ubuf_value(u,ubuf_size(u)-1)==((uint8_t)s))");
   (2, "ubuf_clip(u,ubuf_size(u)-1)");
   (0, "#endif")].
Proof. reflexivity. Qed.
