(* C20 - Writer output does not depend on how write(2) fragments the I/O *)
From Coq Require Import NArith ZArith List Lia.
From Mtbl Require Import gen.Consts model.Bytes model.Order model.Block model.Writer model.WriteLoop model.WriteLoopErrno
  proofs.WriterProofs proofs.WriteLoopProofs proofs.WriteLoopErrnoProofs.
(* source ties: the statements of the C functions the model follows (gen/Ties.v is regenerated from /repo on every run) *)
From Mtbl Require props.Ties_C20.
Local Open Scope N_scope.

(* T20a: one _write_all call under ANY outcome sequence: either exactly the
   buffer is appended (and no error/zero return was met), or the process aborts -
   and it aborts exactly when a hard error or a zero return is met before the
   buffer is complete.  Never a silent short write, never success after an error. *)
Theorem T20a_write_all : forall os file buf, buf <> [] ->
  match write_all os file buf with
  | Ok (f, _) => f = file ++ buf /\ error_met os (len buf) = false
  | Abort => error_met os (len buf) = true
  | _ => False
  end.
Proof. exact write_all_spec. Qed.
Print Assumptions T20a_write_all.

Section C20.
Variable compress_default : N -> bytes -> res bytes.
Variable compress_level : N -> Z -> bytes -> res bytes.
(* world assumptions: a compressor never returns an empty buffer on success *)
Hypothesis compress_default_nonempty : forall a raw c, compress_default a raw = Ok c -> c <> [].
Hypothesis compress_level_nonempty : forall a l raw c, compress_level a l raw = Ok c -> c <> [].

(* T20b: a whole writer session (any configuration, any adds) under any outcome
   sequence: the finished file is byte-identical to the fault-free one
   (writer_bytes), or the process aborted; with only short writes and EINTR it is
   always the former. *)
Theorem T20b_file_independent_of_fragmentation : forall o off0 ops w rs os,
  writer_session compress_default compress_level o off0 ops = Ok (w, rs) ->
  match write_chunks os [] (writer_chunks w) with
  | Ok (f, _) => f = writer_bytes w
  | Abort => True
  | _ => False
  end /\
  (Forall benign os -> exists os', write_chunks os [] (writer_chunks w) = Ok (writer_bytes w, os')).
Proof.
  intros o off0 ops w rs os H. unfold writer_session in H.
  destruct (writer_adds compress_default compress_level (writer_init o off0) ops) as [[w1 rs1]| | |] eqn:E1; try discriminate.
  destruct (writer_finish compress_default compress_level w1) as [w2| | |] eqn:E2; try discriminate.
  inversion H; subst; clear H.
  assert (Hne : Forall (fun c : bytes => c <> []) (writer_chunks w)).
  { unfold writer_chunks. apply Forall_rev.
    eapply (writer_finish_ne compress_default compress_level compress_default_nonempty compress_level_nonempty); [|exact E2].
    eapply (writer_adds_ne compress_default compress_level compress_default_nonempty compress_level_nonempty); [|exact E1].
    constructor. }
  split.
  - exact (write_chunks_spec (writer_chunks w) os [] Hne).
  - intros Hb. exact (write_chunks_benign (writer_chunks w) os [] Hne Hb).
Qed.
End C20.
Print Assumptions T20b_file_independent_of_fragmentation.

Example T20_example :
  write_all [OEintr; OPartial 1; OEintr; OPartial 2; OFull] [9] [1; 2; 3; 4; 5] = Ok ([9; 1; 2; 3; 4; 5], []) /\
  write_all [OPartial 2; OErr] [] [1; 2; 3] = Abort /\
  write_all [OPartial 3; OErr] [] [1; 2; 3] = Ok ([1; 2; 3], [OErr]).
Proof. repeat split. Qed.

(* T20c: the same loop one level down (model/WriteLoopErrno.v): write(2) gives a return value and errno, the loop makes
   the tests the C code makes (r < 0 && errno == EINTR; r <= 0), errno is state.  Whatever errno held when the writer
   was entered (left behind by any earlier call) and whatever writes that SUCCEED - in full, short, or with 0 - do to
   errno, the errno-level session is the outcome-level session of T20a / T20b: so those theorems speak about the loop
   as written, and a stale EINTR in errno can change nothing.  (Added after the seeded change C20-13, which tested
   errno == EINTR after a short but successful write.) *)
Theorem T20c_errno_level_refines : forall (succ_errno : outcome -> eno -> eno) chunks os e file,
  strip_e (write_chunks_e succ_errno os e file chunks) = write_chunks os file chunks.
Proof. exact write_chunks_e_refines. Qed.
Print Assumptions T20c_errno_level_refines.

Theorem T20c_stale_errno_irrelevant : forall g1 g2 e1 e2 os file chunks,
  strip_e (write_chunks_e g1 os e1 file chunks) = strip_e (write_chunks_e g2 os e2 file chunks).
Proof. exact stale_errno_irrelevant. Qed.
Print Assumptions T20c_stale_errno_irrelevant.

(* T20b read at the errno level: the finished file of any writer session, written by the loop with errno as state, entered
   with any errno, is byte-identical to the fault-free one, or the process stopped *)
Theorem T20c_file_independent_at_errno_level : forall compress_default compress_level,
  (forall a raw c, compress_default a raw = Ok c -> c <> []) -> (forall a l raw c, compress_level a l raw = Ok c -> c <> []) ->
  forall (g : outcome -> eno -> eno) e o off0 ops w rs os,
  writer_session compress_default compress_level o off0 ops = Ok (w, rs) ->
  match strip_e (write_chunks_e g os e [] (writer_chunks w)) with
  | Ok (f, _) => f = writer_bytes w
  | Abort => True
  | _ => False
  end.
Proof.
  intros cd cl H1 H2 g e o off0 ops w rs os H. rewrite write_chunks_e_refines.
  exact (proj1 (T20b_file_independent_of_fragmentation cd cl H1 H2 o off0 ops w rs os H)).
Qed.
Print Assumptions T20c_file_independent_at_errno_level.

Example T20c_example :
  (* errno = EINTR on entry, every successful write sets errno to EINTR again: short writes are still not retried *)
  write_chunks_e (fun _ _ => E_intr) [OPartial 2; OEintr; OPartial 1; OFull] E_intr [9] [[1; 2; 3; 4; 5]; [6]]
  = Ok ([9; 1; 2; 3; 4; 5; 6], [], E_intr).
Proof. vm_compute. reflexivity. Qed.
