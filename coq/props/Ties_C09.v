(* Source ties of C09: the statements of the C functions its model follows, as they were when the model
   was written and validated against them (tools/gen_ties.py --expected).  gen/Ties.v is regenerated from
   /repo on every run; a changed statement breaks the corresponding lemma below. *)
From Coq Require Import List String.
From Mtbl Require Import gen.Ties.
Import ListNotations.
Local Open Scope string_scope.

(* mtbl/writer.c: mtbl_writer_add *)
Lemma tie_writer_add : TIE_writer_add =
  [(0, "assert(!w->closed)");
   (0, "if(w->m.count_entries>0)");
   (1, "if(!(bytes_compare(key,len_key,ubuf_data(w->last_key),ubuf_size(w->last_key))>0))");
   (2, "return(mtbl_res_failure)");
   (0, "size_testimated_block_size=block_builder_current_size_estimate(w->data)");
   (0, "estimated_block_size+=3*5+len_key+len_val");
   (0, "if(estimated_block_size>=w->opt.block_size)");
   (1, "bytes_shortest_separator(w->last_key,key,len_key)");
   (1, "_mtbl_writer_flush(w)");
   (0, "ubuf_reset(w->last_key)");
   (0, "ubuf_append(w->last_key,key,len_key)");
   (0, "w->m.count_entries+=1");
   (0, "w->m.bytes_keys+=len_key");
   (0, "w->m.bytes_values+=len_val");
   (0, "block_builder_add(w->data,key,len_key,val,len_val)");
   (0, "return(mtbl_res_success)")].
Proof. reflexivity. Qed.

(* mtbl/writer.c: _mtbl_writer_finish *)
Lemma tie_writer_finish : TIE_writer_finish =
  [(0, "structdata_blockindex");
   (0, "uint8_ttbuf[MTBL_METADATA_SIZE]");
   (0, "size_tbytes_written");
   (0, "_mtbl_writer_flush(w)");
   (0, "result_handler_destroy(&w->rhandler)");
   (0, "assert(!w->closed)");
   (0, "w->closed=true");
   (0, "block_builder_finish(w->index,&index.data,&index.len_data)");
   (0, "index.crc=htole32(mtbl_crc32c(index.data,index.len_data))");
   (0, "bytes_written=_mtbl_writer_write_block(w->fd,&index)");
   (0, "w->m.index_block_offset=w->pending_offset");
   (0, "w->m.bytes_index_block=bytes_written");
   (0, "w->last_offset=w->pending_offset");
   (0, "w->pending_offset+=bytes_written");
   (0, "metadata_write(&w->m,tbuf)");
   (0, "_write_all(w->fd,tbuf,sizeof(tbuf))");
   (0, "block_builder_reset(w->index)");
   (0, "free(index.data)")].
Proof. reflexivity. Qed.

(* mtbl/writer.c: _mtbl_writer_write_data_block *)
Lemma tie_writer_write_data_block : TIE_writer_write_data_block =
  [(0, "uint8_tenc[10]");
   (0, "size_tlen_enc,bytes_written");
   (0, "bytes_written=_mtbl_writer_write_block(w->fd,b)");
   (0, "w->last_offset=w->pending_offset");
   (0, "w->pending_offset+=bytes_written");
   (0, "w->m.bytes_data_blocks+=bytes_written");
   (0, "w->m.count_data_blocks+=1");
   (0, "len_enc=mtbl_varint_encode64(enc,w->last_offset)");
   (0, "block_builder_add(w->index,b->last_key,b->len_last_key,enc,len_enc)");
   (0, "free(b->last_key)");
   (0, "free(b->data)")].
Proof. reflexivity. Qed.

(* mtbl/block_builder.c: block_builder_add *)
Lemma tie_bb_add : TIE_bb_add =
  [(0, "assert(b->counter<=b->block_restart_interval)");
   (0, "assert(b->finished==false)");
   (0, "size_tshared=0");
   (0, "if(b->counter<b->block_restart_interval)");
   (1, "constsize_tmin_length=(ubuf_size(b->last_key)>len_key)?(len_key):(ubuf_size(b->last_key))");
   (1, "while((shared<min_length)&&(ubuf_value(b->last_key,shared)==key[shared]))shared++");
   (0, "else");
   (1, "uint64_vec_add(b->restarts,(uint64_t)ubuf_bytes(b->buf))");
   (1, "b->counter=0");
   (0, "constsize_tnon_shared=len_key-shared");
   (0, "ubuf_reserve(b->buf,5*3+non_shared+len_val)");
   (0, "ubuf_advance(b->buf,mtbl_varint_encode32(ubuf_ptr(b->buf),shared))");
   (0, "ubuf_advance(b->buf,mtbl_varint_encode32(ubuf_ptr(b->buf),non_shared))");
   (0, "ubuf_advance(b->buf,mtbl_varint_encode32(ubuf_ptr(b->buf),len_val))");
   (0, "memcpy(ubuf_ptr(b->buf),key+shared,non_shared)");
   (0, "ubuf_advance(b->buf,non_shared)");
   (0, "memcpy(ubuf_ptr(b->buf),val,len_val)");
   (0, "ubuf_advance(b->buf,len_val)");
   (0, "ubuf_reset(b->last_key)");
   (0, "ubuf_append(b->last_key,key,len_key)");
   (0, "b->counter+=1")].
Proof. reflexivity. Qed.

(* mtbl/block_builder.c: block_builder_finish *)
Lemma tie_bb_finish : TIE_bb_finish =
  [(0, "boolrestart64");
   (0, "restart64=(ubuf_bytes(b->buf)>UINT32_MAX)");
   (0, "ubuf_reserve(b->buf,block_builder_current_size_estimate(b))");
   (0, "for(size_ti=0;i<uint64_vec_size(b->restarts);i++)");
   (1, "if(restart64)");
   (2, "mtbl_fixed_encode64(ubuf_ptr(b->buf),uint64_vec_value(b->restarts,i))");
   (2, "ubuf_advance(b->buf,sizeof(uint64_t))");
   (1, "else");
   (2, "mtbl_fixed_encode32(ubuf_ptr(b->buf),uint64_vec_value(b->restarts,i))");
   (2, "ubuf_advance(b->buf,sizeof(uint32_t))");
   (0, "mtbl_fixed_encode32(ubuf_ptr(b->buf),uint64_vec_size(b->restarts))");
   (0, "ubuf_advance(b->buf,sizeof(uint32_t))");
   (0, "b->finished=true");
   (0, "ubuf_detach(b->buf,buf,bufsz)")].
Proof. reflexivity. Qed.

(* mtbl/block_builder.c: block_builder_current_size_estimate *)
Lemma tie_bb_estimate : TIE_bb_estimate =
  [(0, "if(ubuf_bytes(b->buf)>UINT32_MAX)");
   (1, "return(ubuf_bytes(b->buf)+uint64_vec_bytes(b->restarts)+sizeof(uint32_t))");
   (0, "return(ubuf_bytes(b->buf)+uint64_vec_bytes(b->restarts)/2+sizeof(uint32_t))")].
Proof. reflexivity. Qed.

(* mtbl/bytes.h: bytes_shortest_separator *)
Lemma tie_bytes_separator : TIE_bytes_separator =
  [(0, "size_tmin_length=ubuf_size(start)<len_limit?ubuf_size(start):len_limit");
   (0, "size_tdiff_index=0");
   (0, "while((diff_index<min_length)&&(ubuf_data(start)[diff_index]==limit[diff_index]))");
   (1, "diff_index++");
   (0, "if(diff_index>=min_length)return");
   (0, "uint8_tdiff_byte=ubuf_data(start)[diff_index]");
   (0, "if(diff_byte<0xFF&&diff_byte+1<limit[diff_index])");
   (1, "ubuf_data(start)[diff_index]++");
   (1, "ubuf_clip(start,diff_index+1)");
   (0, "elseif(diff_index+sizeof(uint16_t)<min_length)");
   (1, "uint16_tu_start,u_limit,u_between");
   (1, "memcpy(&u_start,&ubuf_data(start)[diff_index],sizeof(u_start))");
   (1, "memcpy(&u_limit,&limit[diff_index],sizeof(u_limit))");
   (1, "u_start=be16toh(u_start)");
   (1, "u_limit=be16toh(u_limit)");
   (1, "u_between=u_start+1");
   (1, "if(u_start<=u_between&&u_between<=u_limit)");
   (2, "u_between=htobe16(u_between)");
   (2, "memcpy(&ubuf_data(start)[diff_index],&u_between,sizeof(u_between))");
   (2, "ubuf_clip(start,diff_index+sizeof(uint16_t))");
   (0, "assert(bytes_compare(ubuf_data(start),ubuf_size(start),limit,len_limit)<0)")].
Proof. reflexivity. Qed.

(* mtbl/writer.c: _mtbl_writer_flush *)
Lemma tie_writer_flush : TIE_writer_flush =
  [(0, "structdata_blockb");
   (0, "assert(!w->closed)");
   (0, "assert(w->m.file_version==MTBL_FORMAT_V2)");
   (0, "if(block_builder_empty(w->data))return");
   (0, "b.comp_type=w->opt.compression_type");
   (0, "b.comp_level=w->opt.compression_level");
   (0, "b.len_last_key=ubuf_size(w->last_key)");
   (0, "b.last_key=my_malloc(b.len_last_key)");
   (0, "memcpy(b.last_key,ubuf_data(w->last_key),b.len_last_key)");
   (0, "block_builder_finish(w->data,&b.data,&b.len_data)");
   (0, "block_builder_reset(w->data)");
   (0, "if(w->pool!=NULL)");
   (1, "structdata_block*bthread=my_calloc(1,sizeof(*bthread))");
   (1, "memcpy(bthread,&b,sizeof(b))");
   (1, "threadpool_dispatch(w->pool,w->rhandler,true,_compress_block_wrapper,(void*)bthread)");
   (0, "else");
   (1, "_mtbl_writer_compress_block(&b)");
   (1, "_mtbl_writer_write_data_block(w,&b)")].
Proof. reflexivity. Qed.

(* mtbl/writer.c: _mtbl_writer_compress_block *)
Lemma tie_writer_compress_block : TIE_writer_compress_block =
  [(0, "mtbl_resres");
   (0, "structdata_blocktmp");
   (0, "if(b->comp_type==MTBL_COMPRESSION_NONE)");
   (1, "res=mtbl_res_success");
   (0, "elseif(b->comp_level==DEFAULT_COMPRESSION_LEVEL)");
   (1, "res=mtbl_compress(b->comp_type,b->data,b->len_data,&tmp.data,&tmp.len_data)");
   (0, "else");
   (1, "res=mtbl_compress_level(b->comp_type,b->comp_level,b->data,b->len_data,&tmp.data,&tmp.len_data)");
   (0, "assert(res==mtbl_res_success)");
   (0, "if(b->comp_type!=MTBL_COMPRESSION_NONE)");
   (1, "free(b->data)");
   (1, "b->data=tmp.data");
   (1, "b->len_data=tmp.len_data");
   (0, "b->crc=htole32(mtbl_crc32c(b->data,b->len_data))")].
Proof. reflexivity. Qed.

(* mtbl/block_builder.c: block_builder_init *)
Lemma tie_bb_block_builder_init : TIE_bb_block_builder_init =
  [(0, "structblock_builder*b");
   (0, "b=my_calloc(1,sizeof(*b))");
   (0, "b->block_restart_interval=block_restart_interval");
   (0, "b->buf=ubuf_init(65536)");
   (0, "b->last_key=ubuf_init(256)");
   (0, "b->restarts=uint64_vec_init(64)");
   (0, "uint64_vec_add(b->restarts,0)");
   (0, "return(b)")].
Proof. reflexivity. Qed.

(* mtbl/block_builder.c: block_builder_destroy *)
Lemma tie_bb_block_builder_destroy : TIE_bb_block_builder_destroy =
  [(0, "if(*b)");
   (1, "uint64_vec_destroy(&((*b)->restarts))");
   (1, "ubuf_destroy(&((*b)->buf))");
   (1, "ubuf_destroy(&((*b)->last_key))");
   (1, "free((*b))");
   (1, "*b=NULL")].
Proof. reflexivity. Qed.

(* mtbl/block_builder.c: block_builder_reset *)
Lemma tie_bb_block_builder_reset : TIE_bb_block_builder_reset =
  [(0, "ubuf_reset(b->buf)");
   (0, "ubuf_reset(b->last_key)");
   (0, "uint64_vec_reset(b->restarts)");
   (0, "uint64_vec_add(b->restarts,0)");
   (0, "b->counter=0");
   (0, "b->finished=false")].
Proof. reflexivity. Qed.

(* mtbl/block_builder.c: block_builder_empty *)
Lemma tie_bb_block_builder_empty : TIE_bb_block_builder_empty =
  [(0, "return(ubuf_size(b->buf)==0)")].
Proof. reflexivity. Qed.

(* mtbl/writer.c: _mtbl_writer_write_block *)
Lemma tie_wr_mtbl_writer_write_block : TIE_wr_mtbl_writer_write_block =
  [(0, "uint8_tlen[10]");
   (0, "size_tlen_length,bytes_written");
   (0, "len_length=mtbl_varint_encode64(len,b->len_data)");
   (0, "_write_all(fd,(constuint8_t*)len,len_length)");
   (0, "_write_all(fd,(constuint8_t*)&b->crc,sizeof(b->crc))");
   (0, "_write_all(fd,b->data,b->len_data)");
   (0, "bytes_written=len_length+sizeof(b->crc)+b->len_data");
   (0, "return(bytes_written)")].
Proof. reflexivity. Qed.

(* libmy/vector.h: whole file *)
Lemma tie_vector_h : TIE_vector_h =
  [(0, "#include<assert.h>");
   (0, "#include""my_alloc.h""");
   (0, "#defineVECTOR_GENERATE(name,type)\");
   (0, "typedefstructname##__vector");
   (1, "\type*_v");
   (1, "\type*_p");
   (1, "\size_t_n,_n_alloced,_hint");
   (1, "\");
   (0, "name");
   (0, "\__attribute__((unused))\staticinlinename*\name##_init(unsignedhint)\");
   (1, "\name*vec");
   (1, "\vec=my_calloc(1,sizeof(name))");
   (1, "\if(hint==0)hint=1");
   (1, "\vec->_hint=vec->_n_alloced=hint");
   (1, "\vec->_v=my_malloc(vec->_n_alloced*sizeof(type))");
   (1, "\vec->_p=&(vec->_v[0])");
   (1, "\return(vec)");
   (1, "\");
   (0, "\__attribute__((unused))\staticinlinevoid\name##_reinit(unsignedhint,name*vec)\");
   (1, "\if(hint==0)hint=1");
   (1, "\vec->_hint=vec->_n_alloced=hint");
   (1, "\vec->_n=0");
   (1, "\vec->_v=my_malloc(vec->_n_alloced*sizeof(type))");
   (1, "\vec->_p=&(vec->_v[0])");
   (1, "\");
   (0, "\__attribute__((unused))\staticinlinevoid\name##_detach(name*vec,type**out,size_t*outsz)\");
   (1, "\*(out)=(vec)->_v");
   (1, "\*(outsz)=(vec)->_n");
   (1, "\(vec)->_n=0");
   (1, "\(vec)->_n_alloced=(vec)->_hint");
   (1, "\(vec)->_v=my_malloc((vec)->_n_alloced*sizeof(type))");
   (1, "\(vec)->_p=&(vec->_v[0])");
   (1, "\");
   (0, "\__attribute__((unused))\staticinlinevoid\name##_destroy(name**vec)\");
   (1, "\if(*vec)");
   (2, "\my_free((*vec)->_v)");
   (2, "\my_free((*vec))");
   (2, "\");
   (1, "\");
   (0, "\__attribute__((unused))\staticinlinevoid\name##_reserve(name*vec,size_tn_elems)\");
   (1, "\while((n_elems)>((vec)->_n_alloced-(vec)->_n))");
   (2, "\(vec)->_n_alloced*=2");
   (2, "\(vec)->_v=my_realloc((vec)->_v,(vec)->_n_alloced\*sizeof(type))");
   (2, "\(vec)->_p=&((vec)->_v[(vec)->_n])");
   (2, "\");
   (1, "\");
   (0, "\__attribute__((unused))\staticinlinevoid\name##_add(name*vec,typeelem)\");
   (1, "\while((vec)->_n+1>(vec)->_n_alloced)");
   (2, "\(vec)->_n_alloced*=2");
   (2, "\(vec)->_v=my_realloc((vec)->_v,(vec)->_n_alloced\*sizeof(type))");
   (2, "\(vec)->_p=&((vec)->_v[(vec)->_n])");
   (2, "\");
   (1, "\(vec)->_v[(vec)->_n]=elem");
   (1, "\(vec)->_n+=1");
   (1, "\(vec)->_p=&((vec)->_v[(vec)->_n])");
   (1, "\");
   (0, "\__attribute__((unused))\staticinlinevoid\name##_append(name*vec,typeconst*elems,size_tn_elems)\");
   (1, "\name##_reserve(vec,n_elems)");
   (1, "\memcpy((vec)->_v+(vec)->_n,elems,(n_elems)*sizeof(type))");
   (1, "\(vec)->_n+=(n_elems)");
   (1, "\(vec)->_p=&((vec)->_v[(vec)->_n])");
   (1, "\");
   (0, "\__attribute__((unused))\staticinlinevoid\name##_extend(name*vec0,name*vec1)\");
   (1, "\name##_append(vec0,(vec1)->_v,(vec1)->_n)");
   (1, "\");
   (0, "\__attribute__((unused))\staticinlinevoid\name##_reset(name*vec)\");
   (1, "\(vec)->_n=0");
   (1, "\if((vec)->_n_alloced>(vec)->_hint)");
   (2, "\(vec)->_n_alloced=(vec)->_hint");
   (2, "\(vec)->_v=my_realloc((vec)->_v,(vec)->_n_alloced\*sizeof(type))");
   (2, "\");
   (1, "\(vec)->_p=&(vec->_v[0])");
   (1, "\");
   (0, "\__attribute__((unused))\staticinlinevoid\name##_clip(name*vec,size_tn_elems)\");
   (1, "\if(n_elems<(vec)->_n)");
   (2, "\(vec)->_n=n_elems");
   (2, "\(vec)->_p=&((vec)->_v[(vec)->_n])");
   (2, "\");
   (1, "\");
   (0, "\__attribute__((unused))\staticinlinesize_t\name##_bytes(name*vec)\");
   (1, "\return((vec)->_n*sizeof(type))");
   (1, "\");
   (0, "\__attribute__((unused))\staticinlinesize_t\name##_size(name*vec)\");
   (1, "\return((vec)->_n)");
   (1, "\");
   (0, "\__attribute__((unused))\staticinlinetype\name##_value(name*vec,size_ti)\");
   (1, "\assert(i<(vec)->_n)");
   (1, "\return((vec)->_v[i])");
   (1, "\");
   (0, "\__attribute__((unused))\staticinlinetype*\name##_ptr(name*vec)\");
   (1, "\return((vec)->_p)");
   (1, "\");
   (0, "\__attribute__((unused))\staticinlinetype*\name##_data(name*vec)\");
   (1, "\return((vec)->_v)");
   (1, "\");
   (0, "\__attribute__((unused))\staticinlinevoid\name##_advance(name*vec,size_tx)\");
   (1, "\assert(x<=((vec)->_n_alloced-(vec)->_n))");
   (1, "\(vec)->_n+=x");
   (1, "\(vec)->_p=&((vec)->_v[(vec)->_n])");
   (1, "\")].
Proof. reflexivity. Qed.

(* libmy/ubuf.h: whole file *)
Lemma tie_ubuf_h : TIE_ubuf_h =
  [(0, "#ifndefMY_UBUF_H");
   (0, "#defineMY_UBUF_H");
   (0, "#include<stdarg.h>");
   (0, "#include<stdbool.h>");
   (0, "#include<stdint.h>");
   (0, "#include<stdio.h>");
   (0, "#include<stdlib.h>");
   (0, "#include<string.h>");
   (0, "#include""vector.h""");
   (0, "VECTOR_GENERATE(ubuf,uint8_t)");
   (0, "staticinlineubuf*ubuf_new(void)");
   (1, "return(ubuf_init(64))");
   (0, "staticinlineubuf*ubuf_dup_cstr(constchar*s)");
   (1, "size_tlen=strlen(s)");
   (1, "ubuf*u=ubuf_init(len+1)");
   (1, "ubuf_append(u,(constuint8_t*)s,len)");
   (1, "return(u)");
   (0, "staticinlinevoidubuf_add_cstr(ubuf*u,constchar*s)");
   (1, "if(ubuf_size(u)>0&&ubuf_value(u,ubuf_size(u)-1)=='\x00')ubuf_clip(u,ubuf_size(u)-1)");
   (1, "ubuf_append(u,(constuint8_t*)s,strlen(s))");
   (0, "staticinlinevoidubuf_cterm(ubuf*u)");
   (1, "if(ubuf_size(u)==0||(ubuf_size(u)>0&&ubuf_value(u,ubuf_size(u)-1)!='\x00'))");
   (2, "ubuf_append(u,(constuint8_t*)""\x00"",1)");
   (0, "staticinlinechar*ubuf_cstr(ubuf*u)");
   (1, "ubuf_cterm(u)");
   (1, "return((char*)ubuf_data(u))");
   (0, "staticinlinevoidubuf_add_fmt(ubuf*u,constchar*fmt,...)");
   (1, "va_listargs,args_copy");
   (1, "intstatus,needed");
   (1, "if(ubuf_size(u)>0&&ubuf_value(u,ubuf_size(u)-1)=='\x00')ubuf_clip(u,ubuf_size(u)-1)");
   (1, "va_start(args,fmt)");
   (1, "va_copy(args_copy,args)");
   (1, "needed=vsnprintf(NULL,0,fmt,args_copy)");
   (1, "assert(needed>=0)");
   (1, "va_end(args_copy)");
   (1, "ubuf_reserve(u,ubuf_size(u)+needed+1)");
   (1, "status=vsnprintf((char*)ubuf_ptr(u),needed+1,fmt,args)");
   (1, "assert(status>=0)");
   (1, "ubuf_advance(u,needed)");
   (1, "va_end(args)");
   (0, "staticinlinevoidubuf_rstrip(ubuf*u,chars)");
   (1, "if(ubuf_size(u)>0&&ubuf_value(u,ubuf_size(u)-1)==((uint8_t)s))");
   (2, "ubuf_clip(u,ubuf_size(u)-1)");
   (0, "#endif")].
Proof. reflexivity. Qed.
