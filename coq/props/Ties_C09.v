(* Source ties of C09: the statements of the C functions its model follows, as they were when the model
   was written and validated against them (tools/gen_ties.py --expected).  gen/Ties.v is regenerated from
   /repo on every run; a changed statement breaks the corresponding lemma below. *)
From Coq Require Import List String.
From Mtbl Require Import gen.Ties.
Import ListNotations.
Local Open Scope string_scope.

(* mtbl/writer.c: mtbl_writer_add *)
Lemma tie_writer_add : TIE_writer_add =
  [(0, "assert(!w->closed)");
   (0, "if(w->m.count_entries>0)");
   (1, "if(!(bytes_compare(key,len_key,ubuf_data(w->last_key),ubuf_size(w->last_key))>0))");
   (2, "return(mtbl_res_failure)");
   (0, "size_testimated_block_size=block_builder_current_size_estimate(w->data)");
   (0, "estimated_block_size+=3*5+len_key+len_val");
   (0, "if(estimated_block_size>=w->opt.block_size)");
   (1, "bytes_shortest_separator(w->last_key,key,len_key)");
   (1, "_mtbl_writer_flush(w)");
   (0, "ubuf_reset(w->last_key)");
   (0, "ubuf_append(w->last_key,key,len_key)");
   (0, "w->m.count_entries+=1");
   (0, "w->m.bytes_keys+=len_key");
   (0, "w->m.bytes_values+=len_val");
   (0, "block_builder_add(w->data,key,len_key,val,len_val)");
   (0, "return(mtbl_res_success)")].
Proof. reflexivity. Qed.

(* mtbl/writer.c: _mtbl_writer_finish *)
Lemma tie_writer_finish : TIE_writer_finish =
  [(0, "structdata_blockindex");
   (0, "uint8_ttbuf[MTBL_METADATA_SIZE]");
   (0, "size_tbytes_written");
   (0, "_mtbl_writer_flush(w)");
   (0, "result_handler_destroy(&w->rhandler)");
   (0, "assert(!w->closed)");
   (0, "w->closed=true");
   (0, "block_builder_finish(w->index,&index.data,&index.len_data)");
   (0, "index.crc=htole32(mtbl_crc32c(index.data,index.len_data))");
   (0, "bytes_written=_mtbl_writer_write_block(w->fd,&index)");
   (0, "w->m.index_block_offset=w->pending_offset");
   (0, "w->m.bytes_index_block=bytes_written");
   (0, "w->last_offset=w->pending_offset");
   (0, "w->pending_offset+=bytes_written");
   (0, "metadata_write(&w->m,tbuf)");
   (0, "_write_all(w->fd,tbuf,sizeof(tbuf))");
   (0, "block_builder_reset(w->index)");
   (0, "free(index.data)")].
Proof. reflexivity. Qed.

(* mtbl/writer.c: _mtbl_writer_write_data_block *)
Lemma tie_writer_write_data_block : TIE_writer_write_data_block =
  [(0, "uint8_tenc[10]");
   (0, "size_tlen_enc,bytes_written");
   (0, "bytes_written=_mtbl_writer_write_block(w->fd,b)");
   (0, "w->last_offset=w->pending_offset");
   (0, "w->pending_offset+=bytes_written");
   (0, "w->m.bytes_data_blocks+=bytes_written");
   (0, "w->m.count_data_blocks+=1");
   (0, "len_enc=mtbl_varint_encode64(enc,w->last_offset)");
   (0, "block_builder_add(w->index,b->last_key,b->len_last_key,enc,len_enc)");
   (0, "free(b->last_key)");
   (0, "free(b->data)")].
Proof. reflexivity. Qed.

(* mtbl/block_builder.c: block_builder_add *)
Lemma tie_bb_add : TIE_bb_add =
  [(0, "assert(b->counter<=b->block_restart_interval)");
   (0, "assert(b->finished==false)");
   (0, "size_tshared=0");
   (0, "if(b->counter<b->block_restart_interval)");
   (1, "constsize_tmin_length=(ubuf_size(b->last_key)>len_key)?(len_key):(ubuf_size(b->last_key))");
   (1, "while((shared<min_length)&&(ubuf_value(b->last_key,shared)==key[shared]))shared++");
   (0, "else");
   (1, "uint64_vec_add(b->restarts,(uint64_t)ubuf_bytes(b->buf))");
   (1, "b->counter=0");
   (0, "constsize_tnon_shared=len_key-shared");
   (0, "ubuf_reserve(b->buf,5*3+non_shared+len_val)");
   (0, "ubuf_advance(b->buf,mtbl_varint_encode32(ubuf_ptr(b->buf),shared))");
   (0, "ubuf_advance(b->buf,mtbl_varint_encode32(ubuf_ptr(b->buf),non_shared))");
   (0, "ubuf_advance(b->buf,mtbl_varint_encode32(ubuf_ptr(b->buf),len_val))");
   (0, "memcpy(ubuf_ptr(b->buf),key+shared,non_shared)");
   (0, "ubuf_advance(b->buf,non_shared)");
   (0, "memcpy(ubuf_ptr(b->buf),val,len_val)");
   (0, "ubuf_advance(b->buf,len_val)");
   (0, "ubuf_reset(b->last_key)");
   (0, "ubuf_append(b->last_key,key,len_key)");
   (0, "b->counter+=1")].
Proof. reflexivity. Qed.

(* mtbl/block_builder.c: block_builder_finish *)
Lemma tie_bb_finish : TIE_bb_finish =
  [(0, "boolrestart64");
   (0, "restart64=(ubuf_bytes(b->buf)>UINT32_MAX)");
   (0, "ubuf_reserve(b->buf,block_builder_current_size_estimate(b))");
   (0, "for(size_ti=0;i<uint64_vec_size(b->restarts);i++)");
   (1, "if(restart64)");
   (2, "mtbl_fixed_encode64(ubuf_ptr(b->buf),uint64_vec_value(b->restarts,i))");
   (2, "ubuf_advance(b->buf,sizeof(uint64_t))");
   (1, "else");
   (2, "mtbl_fixed_encode32(ubuf_ptr(b->buf),uint64_vec_value(b->restarts,i))");
   (2, "ubuf_advance(b->buf,sizeof(uint32_t))");
   (0, "mtbl_fixed_encode32(ubuf_ptr(b->buf),uint64_vec_size(b->restarts))");
   (0, "ubuf_advance(b->buf,sizeof(uint32_t))");
   (0, "b->finished=true");
   (0, "ubuf_detach(b->buf,buf,bufsz)")].
Proof. reflexivity. Qed.

(* mtbl/block_builder.c: block_builder_current_size_estimate *)
Lemma tie_bb_estimate : TIE_bb_estimate =
  [(0, "if(ubuf_bytes(b->buf)>UINT32_MAX)");
   (1, "return(ubuf_bytes(b->buf)+uint64_vec_bytes(b->restarts)+sizeof(uint32_t))");
   (0, "return(ubuf_bytes(b->buf)+uint64_vec_bytes(b->restarts)/2+sizeof(uint32_t))")].
Proof. reflexivity. Qed.

(* mtbl/bytes.h: bytes_shortest_separator *)
Lemma tie_bytes_separator : TIE_bytes_separator =
  [(0, "size_tmin_length=ubuf_size(start)<len_limit?ubuf_size(start):len_limit");
   (0, "size_tdiff_index=0");
   (0, "while((diff_index<min_length)&&(ubuf_data(start)[diff_index]==limit[diff_index]))");
   (1, "diff_index++");
   (0, "if(diff_index>=min_length)return");
   (0, "uint8_tdiff_byte=ubuf_data(start)[diff_index]");
   (0, "if(diff_byte<0xFF&&diff_byte+1<limit[diff_index])");
   (1, "ubuf_data(start)[diff_index]++");
   (1, "ubuf_clip(start,diff_index+1)");
   (0, "elseif(diff_index+sizeof(uint16_t)<min_length)");
   (1, "uint16_tu_start,u_limit,u_between");
   (1, "memcpy(&u_start,&ubuf_data(start)[diff_index],sizeof(u_start))");
   (1, "memcpy(&u_limit,&limit[diff_index],sizeof(u_limit))");
   (1, "u_start=be16toh(u_start)");
   (1, "u_limit=be16toh(u_limit)");
   (1, "u_between=u_start+1");
   (1, "if(u_start<=u_between&&u_between<=u_limit)");
   (2, "u_between=htobe16(u_between)");
   (2, "memcpy(&ubuf_data(start)[diff_index],&u_between,sizeof(u_between))");
   (2, "ubuf_clip(start,diff_index+sizeof(uint16_t))");
   (0, "assert(bytes_compare(ubuf_data(start),ubuf_size(start),limit,len_limit)<0)")].
Proof. reflexivity. Qed.
