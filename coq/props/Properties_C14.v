(* C14 - No data races in the concurrent uses the API allows.
   The protocol-level part of the argument is stated on the LTS of threadpool.c
   (model/Pool.v): which mutex guards which shared fields (guard_of), mutual exclusion of
   the emulated mutexes, and that the code following a lock / re-acquisition step runs
   with that mutex owned by the stepping thread (T14a_lock_partial).
   NOT proved: the full ownership discipline (T14_statement: every access to the pool's,
   a queue's or a worker mailbox's fields is made by the owner of its guard or by the
   worker that owns its mailbox between wake-up and publication), and - outside any model
   here - that the C code performs only those accesses, that readers are immutable after
   open, and the one-time CRC dispatch.  Those are decided by ThreadSanitizer runs of real
   concurrent programs (engine tsan): several caller threads with pooled writers / sorters
   sharing ONE pool, many threads iterating and querying ONE reader, the process's first
   checksums computed by several workers at once, mixed.  A TSan report is a concrete racy
   execution and is reported as the violation with its log. *)
From Coq Require Import NArith List Lia.
From Mtbl Require Import model.Bytes model.Pool proofs.PoolSched props.Properties_C13.
(* source ties: the statements of the C functions the model follows (gen/Ties.v is regenerated from /repo on every run) *)
From Mtbl Require props.Ties_C14.
Local Open Scope N_scope.

(* the mutex that guards the shared fields touched by the code at a label *)
Definition guard_of (l : label) : option obj :=
  match l with
  | D1 _ | P1 | H7 _ _ => Some OPoolM          (* pool->head, pool->count *)
  | D5 _ i | P3 i | W1 i | W4o i | H4 _ i => Some (OWm i)   (* thr->rq, cb, arg, running, res *)
  | D7 q _ | F1 q | W4u _ q | H1 q => Some (OQm q)   (* rq->finished, nthreads, head, ptail *)
  | _ => None
  end.

Lemma owner_set_same st m t : owner_of (set_owner st m (Some t)) m = Some t.
Proof.
  unfold owner_of, set_owner. cbn [ps_owner find fst].
  assert (E : obj_eqb m m = true) by (destruct m; cbn; try reflexivity; apply PeanoNat.Nat.eqb_refl).
  rewrite E. reflexivity.
Qed.

(* T14a: mutual exclusion, and ownership during the code that follows an acquisition *)
Theorem T14a_lock_partial : forall st t wake stash st' op o stash',
  pstep st t wake stash = Some (st', op, o, stash') ->
  (op = KLock \/ op = KReacq) ->
  owner_of st o = None /\                                        (* it was free: nobody else was inside *)
  o = t_obj (gett st t) /\
  owner_of (set_owner st o (Some t)) o = Some t.                  (* the following code runs as its owner *)
Proof.
  intros st t wake stash st' op o stash' E Hop. unfold pstep in E.
  destruct (negb (enabled st t)) eqn:En; [discriminate|].
  apply Bool.negb_false_iff in En. unfold enabled in En.
  set (th := gett st t) in *.
  destruct (t_done th); [discriminate|]. destruct (t_blocked th); [discriminate|].
  assert (Eo : op = t_op th /\ o = t_obj th).
  { destruct (t_op th) eqn:Eop; try (inversion E; subst; split; reflexivity);
      destruct (stash_deliver _ _ _ _) as [s1 s3]; destruct (continue _ _ _) as [s4 th']; inversion E; subst; split; reflexivity. }
  destruct Eo as [-> ->].
  split; [|split; [reflexivity|apply owner_set_same]].
  destruct Hop as [Hop|Hop]; rewrite Hop in En; destruct (owner_of st (t_obj th)); [discriminate|reflexivity|discriminate|reflexivity].
Qed.
Print Assumptions T14a_lock_partial.

(* the full lockset statement on the LTS: whenever a step runs the code at a label whose shared
   fields are guarded by g, the stepping thread owns g while that code runs *)
Definition T14_statement : Prop :=
  forall maxt prog s st stash t wake st' op o stash',
    prun (pool_init maxt prog) [] s = Some (st, stash) ->
    pstep st t wake stash = Some (st', op, o, stash') ->
    forall g, guard_of (t_lab (gett st t)) = Some g ->
      op = KWait \/
      owner_of (match op with KLock | KReacq => set_owner st o (Some t) | _ => st end) g = Some t.
