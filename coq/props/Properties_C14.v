(* C14 - No data races in the concurrent uses the API allows.
   PROVED on the LTS of threadpool.c (model/Pool.v), second part of this file (proofs/PoolRace*.v): in every reachable
   state no two distinct threads have conflicting accesses in flight (T14_race_free and its variants), where the
   accesses of every code segment are listed per label from threadpool.c (seg_access) and a thread's in-flight
   segment is the one it entered last (the code after a pthread operation is not atomic); the lockset statement
   T14_lockset; the unlocked accesses - the worker's mailbox between wake-up and publication, me->running = false of
   the unordered path, the dispatcher's creation of a worker, resultq_destroy - are covered by the ownership
   (token) invariant.  T14a_lock_partial (first part) is the elementary mutual-exclusion fact.
   NOT provable on a model: that the C code performs only the listed accesses, that readers are immutable after
   open, and the one-time CRC dispatch.  Those are decided by ThreadSanitizer runs of real concurrent programs
   (engine tsan): several caller threads with pooled writers / sorters sharing ONE pool, many threads iterating and
   querying ONE reader, the process's first checksums computed by several workers at once, pooled sorters whose last
   add lands exactly on the spill threshold, mixed.  A TSan report is a concrete racy execution and is reported as
   the violation with its log. *)
From Coq Require Import NArith List Lia.
From Mtbl Require Import model.Bytes model.Pool proofs.PoolSched proofs.PoolGuard.
(* source ties: the statements of the C functions the model follows (gen/Ties.v is regenerated from /repo on every run) *)
From Mtbl Require props.Ties_C14.
Local Open Scope N_scope.

(* T14a: mutual exclusion, and ownership during the code that follows an acquisition *)
Theorem T14a_lock_partial : forall st t wake stash st' op o stash',
  pstep st t wake stash = Some (st', op, o, stash') ->
  (op = KLock \/ op = KReacq) ->
  owner_of st o = None /\                                        (* it was free: nobody else was inside *)
  o = t_obj (gett st t) /\
  owner_of (set_owner st o (Some t)) o = Some t.                  (* the following code runs as its owner *)
Proof.
  intros st t wake stash st' op o stash' E Hop. unfold pstep in E.
  destruct (negb (enabled st t)) eqn:En; [discriminate|].
  apply Bool.negb_false_iff in En. unfold enabled in En.
  set (th := gett st t) in *.
  destruct (t_done th); [discriminate|]. destruct (t_blocked th); [discriminate|].
  assert (Eo : op = t_op th /\ o = t_obj th).
  { destruct (t_op th) eqn:Eop; try (inversion E; subst; split; reflexivity);
      destruct (stash_deliver _ _ _ _) as [s1 s3]; destruct (continue _ _ _) as [s4 th']; inversion E; subst; split; reflexivity. }
  destruct Eo as [-> ->].
  split; [|split; [reflexivity|apply owner_set_same]].
  destruct Hop as [Hop|Hop]; rewrite Hop in En; destruct (owner_of st (t_obj th)); [discriminate|reflexivity|discriminate|reflexivity].
Qed.
Print Assumptions T14a_lock_partial.

(* ======================================================================================= *)
(* C14 - no data races in the thread pool, on the LTS of threadpool.c (model/Pool.v).

   Definitions (proofs/PoolRaceDefs.v): shared locations [loc], accesses, the accesses of
   the code segment of each label [seg_access], the segment a thread has most recently
   entered [inflight] (recovered from its pending operation), [race_free].
   In the C code the straight-line code that follows a pthread operation is not atomic:
   in every reachable LTS state each live thread may still be executing the segment it
   entered last.  A data race = two distinct threads whose in-flight segments access a common
   location, one access at least being a write.

   PROVED here, for every reachable state:
     T14_race_free           all accesses; schedules in which a thread starts only after the
                             pthread_create that creates it has been performed
     T14_race_free_hb        all schedules, all accesses; the accesses that create a worker / a
                             queue counted until the created thread has started (inflight_hb)
     T14_race_free_all_sched all schedules; without the accesses that create a worker / a queue
                             before pthread_create (the LTS lets the created thread start before
                             the create step: T14_start_before_create, a modelling artefact)
     T14_race_free_core      all schedules, weak program contract; without creation and without
                             the unlocked accesses of resultq_destroy
     T14_lockset             T14_statement of Properties_C14.v for well-formed schedules
                             (it is false without: T14_statement_needs_sched_wf)
     T14_segments_in_flight  the predecessor table of [inflight] is right: after a step, the
                             accesses of the code that ran (seg_access) are in flight;
     T14_inflight_stable     and they stay in flight while other threads step. *)
From Coq Require Import NArith List Lia ZifyBool ZifyN ZifyNat Bool Arith.
From Mtbl Require Import model.Bytes model.Pool proofs.PoolBase proofs.PoolSched proofs.PoolGuard proofs.PoolInv proofs.PoolLife
  proofs.PoolStep2 proofs.PoolAbort proofs.PoolRaceDefs proofs.PoolRaceStep proofs.PoolRaceGuard proofs.PoolRaceInv proofs.PoolRace
  proofs.PoolRaceInvB proofs.PoolRaceInvE proofs.PoolRaceLink proofs.PoolRaceStable.
Import ListNotations.


Lemma race_free_assemble cre ext B st :
  Inv1 st -> Inv2 st -> InvA st -> InvB st -> (cre = true -> InvK st) -> (ext = true -> InvE B st) ->
  race_free_gen cre ext st.
Proof.
  intros I1 I2 IA IB HK HE. apply (race_free_of_inv cre ext st I1 I2 IA).
  - intros _. apply (b_worker _ IB).
  - intros _ x Hx. destruct (b_queue _ IB x Hx) as (_ & H2 & H3 & _). split; assumption.
  - exact HK.
  - intros x j Hx. apply (b_hid _ IB x j Hx).
  - intros He j Hj Hl. destruct (e_dead _ _ (HE He) j Hj (or_intror Hl)) as (H1 & H2 & _ & _ & H5).
    split; [exact H1|]. split; [exact H2|]. exact H5.
  - intros He. apply (e_d7s _ _ (HE He)).
Qed.

(* the full theorem *)
Theorem T14_race_free : forall maxt prog st stash,
  prog_wf prog = true -> (N.of_nat (2 * length prog + 1) < 18446744073709551616)%N ->
  reachable_causal maxt prog st stash ->
  forall t1 t2, t1 <> t2 -> forall a1 a2, In a1 (inflight st t1) -> In a2 (inflight st t2) -> fst a1 = fst a2 ->
    snd a1 = false /\ snd a2 = false.
Proof.
  intros maxt prog st stash Hp HB Hr.
  pose proof (reachable_causal_reachable _ _ _ _ Hr) as Hr'.
  assert (Hp' : prog_wf_weak prog = true) by (apply prog_wf_weaken; exact Hp).
  destruct (invA_reachable maxt prog st stash Hp' Hr') as (I1 & I2 & IA).
  destruct (invBE_reachable maxt prog st stash Hp HB Hr') as (_ & _ & IB & IE).
  pose proof (invK_reachable maxt prog st stash Hp' Hr) as IK.
  apply (race_free_assemble true true (2 * length prog + 1) st); auto.
Qed.

(* every schedule (a signal wakes only a thread blocked in a cond_wait): everything except the
   creation of a worker / a queue before pthread_create *)
Theorem T14_race_free_all_sched : forall maxt prog st stash,
  prog_wf prog = true -> (N.of_nat (2 * length prog + 1) < 18446744073709551616)%N ->
  reachable maxt prog st stash -> race_free_gen false true st.
Proof.
  intros maxt prog st stash Hp HB Hr.
  assert (Hp' : prog_wf_weak prog = true) by (apply prog_wf_weaken; exact Hp).
  destruct (invA_reachable maxt prog st stash Hp' Hr) as (I1 & I2 & IA).
  destruct (invBE_reachable maxt prog st stash Hp HB Hr) as (_ & _ & IB & IE).
  apply (race_free_assemble false true (2 * length prog + 1) st); auto. discriminate.
Qed.

(* EVERY schedule, all accesses; the creation accesses counted until the created thread starts
   (inflight_hb, proofs/PoolRaceDefs.v) *)
Theorem T14_race_free_hb : forall maxt prog st stash,
  prog_wf prog = true -> (N.of_nat (2 * length prog + 1) < 18446744073709551616)%N ->
  reachable maxt prog st stash ->
  forall t1 t2, t1 <> t2 -> forall a1 a2, In a1 (inflight_hb st t1) -> In a2 (inflight_hb st t2) -> fst a1 = fst a2 ->
    snd a1 = false /\ snd a2 = false.
Proof.
  intros maxt prog st stash Hp HB Hr.
  assert (Hp' : prog_wf_weak prog = true) by (apply prog_wf_weaken; exact Hp).
  destruct (invA_reachable maxt prog st stash Hp' Hr) as (I1 & I2 & IA).
  destruct (invBE_reachable maxt prog st stash Hp HB Hr) as (_ & _ & IB & IE).
  apply (race_free_of_inv_gen (create_pending st) true st I1 I2 IA).
  - intros x _. apply (b_worker _ IB).
  - intros x _ Hx. destruct (b_queue _ IB x Hx) as (_ & H2 & H3 & _). split; assumption.
  - intros x Hc u Hop Ho. unfold create_pending in Hc. rewrite Hop, Ho in Hc. destruct (t_op (gett st u)); try discriminate Hc. reflexivity.
  - intros x j Hx. apply (b_hid _ IB x j Hx).
  - intros _ j Hj Hl. destruct (e_dead _ _ IE j Hj (or_intror Hl)) as (H1 & H2 & _ & _ & H5).
    split; [exact H1|]. split; [exact H2|]. exact H5.
  - intros _. apply (e_d7s _ _ IE).
Qed.

(* right after the step that enters a creating segment the created thread has not started:
   inflight_hb and inflight coincide for the stepping thread *)
Theorem T14_segments_in_flight_hb : forall maxt prog st stash t wake st' op o stash',
  prog_wf_weak prog = true -> reachable maxt prog st stash -> wake_ok st t wake ->
  pstep st t wake stash = Some (st', op, o, stash') -> op <> KWait -> op <> KExit ->
  t_done (gett st' t) = false ->
  incl (seg_access (t_lab (gett st t)) st) (inflight_hb st' t).
Proof.
  intros maxt prog st stash t wake st' op o stash' Hp Hr W E Hw He Hl.
  destruct (invB_reachable maxt prog st stash Hp Hr) as (I1 & I2 & IB).
  pose proof (segments_in_flight st t wake stash st' op o stash' I1 I2 IB W E Hw He Hl) as L.
  replace (inflight_hb st' t) with (inflight st' t); [exact L|].
  unfold inflight_hb, inflight. f_equal. symmetry.
  destruct (pstep_op _ _ _ _ _ _ _ _ E) as (En & -> & ->).
  destruct (pstep_code_keq _ _ _ _ _ _ _ _ I1 W E Hw He) as [_ K].
  unfold create_pending. rewrite (keq_op _ _ t K), (keq_obj _ _ t K).
  pose proof (proj1 (enabled_live _ _ En)) as Ht.
  rewrite after_gett_self by exact Ht.
  destruct (t_op (snd (continue st t (t_lab (gett st t))))) eqn:Eop; try reflexivity.
  destruct (cont_create st t _ Eop) as (Eo & l' & En'). rewrite Eo. rewrite (keq_op _ _ _ K).
  rewrite after_gett by exact Ht. destruct (Nat.eqb_spec (length (ps_threads st)) t); [lia|].
  destruct (Nat.ltb_spec (length (ps_threads st)) (length (ps_threads st))); [lia|]. rewrite Nat.sub_diag, En'. reflexivity.
Qed.

(* creation included, destruction of queues excluded: weak contract, no bound on the program *)
Theorem T14_race_free_create : forall maxt prog st stash,
  prog_wf_weak prog = true -> reachable_causal maxt prog st stash -> race_free_gen true false st.
Proof.
  intros maxt prog st stash Hp Hr.
  pose proof (reachable_causal_reachable _ _ _ _ Hr) as Hr'.
  destruct (invA_reachable maxt prog st stash Hp Hr') as (I1 & I2 & IA).
  destruct (invB_reachable maxt prog st stash Hp Hr') as (_ & _ & IB).
  pose proof (invK_reachable maxt prog st stash Hp Hr) as IK.
  apply (race_free_assemble true false 0 st); auto. discriminate.
Qed.

Theorem T14_race_free_core : forall maxt prog st stash,
  prog_wf_weak prog = true -> reachable maxt prog st stash -> race_free_gen false false st.
Proof.
  intros maxt prog st stash Hp Hr.
  destruct (invA_reachable maxt prog st stash Hp Hr) as (I1 & I2 & IA).
  destruct (invB_reachable maxt prog st stash Hp Hr) as (_ & _ & IB).
  apply (race_free_assemble false false 0 st); auto; discriminate.
Qed.

(* modelling artefact: the LTS lets a created thread run before the step of the pthread_create
   that creates it; then the creator's initialisation of the new object is still in flight.
   Here: result_handler_init has built the queue (threadpool.c:285-291), pthread_create is
   pending (:385); the handler thread has started, locked rq->m and evaluated the loop test
   of resultq_next (:301). *)
Example T14_start_before_create :
  let prog := [NewHandler true; Dispatch 0; Finish 0; DestroyPool] in
  let s := [SRun 1 None; SRun 1 None]%nat in
  prog_wf prog = true /\ sched_wf (pool_init 1 prog) [] s /\ ~ sched_causal (pool_init 1 prog) [] s /\
  match prun (pool_init 1 prog) [] s with
  | Some (st, _) => In (W (LQueue 0)) (inflight st 0) /\ In (R (LQueue 0)) (inflight st 1) /\ ~ race_free st
  | None => False
  end.
Proof.
  cbv zeta. split; [reflexivity|]. split; [vm_compute; auto|]. split.
  - vm_compute. intros (H & _). apply (H eq_refl 0%nat). split; reflexivity.
  - destruct (prun _ _ _) as [[st stash]|] eqn:E; [|vm_compute in E; discriminate].
    assert (H1 : In (W (LQueue 0)) (inflight st 0)) by (vm_compute in E; inversion E; subst; vm_compute; auto).
    assert (H2 : In (R (LQueue 0)) (inflight st 1)) by (vm_compute in E; inversion E; subst; vm_compute; auto).
    split; [exact H1|]. split; [exact H2|]. intros H.
    destruct (H 0%nat 1%nat ltac:(discriminate) (W (LQueue 0)) (R (LQueue 0)) H1 H2 eq_refl) as [E' _]. discriminate E'.
Qed.

(* the predecessor table: the accesses of the code run by a step are in flight after it ... *)
Theorem T14_segments_in_flight : forall maxt prog st stash t wake st' op o stash',
  prog_wf_weak prog = true -> reachable maxt prog st stash -> wake_ok st t wake ->
  pstep st t wake stash = Some (st', op, o, stash') -> op <> KWait -> op <> KExit ->
  t_done (gett st' t) = false ->      (* not: the caller has just finished its program (the model retires it) *)
  incl (seg_access (t_lab (gett st t)) st) (inflight st' t).
Proof.
  intros maxt prog st stash t wake st' op o stash' Hp Hr W E Hw He Hl.
  destruct (invB_reachable maxt prog st stash Hp Hr) as (I1 & I2 & IB).
  eapply segments_in_flight; eassumption.
Qed.

(* ... and remain in flight (the list can only grow) while other threads step *)
Theorem T14_inflight_stable : forall maxt prog st stash x t wake st' op o stash',
  prog_wf_weak prog = true -> reachable maxt prog st stash -> wake_ok st x wake ->
  pstep st x wake stash = Some (st', op, o, stash') -> x <> t ->
  incl (inflight st t) (inflight st' t).
Proof.
  intros maxt prog st stash x t wake st' op o stash' Hp Hr W E Hne.
  destruct (invB_reachable maxt prog st stash Hp Hr) as (I1 & I2 & IB).
  eapply inflight_stable; eassumption.
Qed.

(* the statement is not vacuous: unordered handler, pool of two; both workers are inside the
   unlocked part of thread_worker (threadpool.c:117-134, me->running = false without the lock)
   while the dispatcher is inside the rq->m section of threadpool_dispatch (:228-229) *)
Example T14_three_in_flight :
  let prog := [NewHandler false; Dispatch 0; Dispatch 0; Finish 0; DestroyPool] in
  let s := (repeat (SRun 0 None) 16 ++ repeat (SRun 2 None) 3 ++ repeat (SRun 3 None) 3)%nat in
  match prun (pool_init 2 prog) [] s with
  | Some (st, _) =>
    inflight st 0 = [R (LQueue 0); W (LQueue 0)] /\
    inflight st 2 = [R (LBox 0); W (LBox 0); W (LRun 0)] /\
    inflight st 3 = [R (LBox 1); W (LBox 1); W (LRun 1)] /\
    racy_pairs true true st = []
  | None => False
  end.
Proof. vm_compute. repeat split. Qed.

Print Assumptions T14_race_free.
Print Assumptions T14_race_free_hb.
Print Assumptions T14_segments_in_flight_hb.
Print Assumptions T14_race_free_all_sched.
Print Assumptions T14_race_free_create.
Print Assumptions T14_race_free_core.
Print Assumptions T14_lockset.
Print Assumptions T14_guarded.
Print Assumptions T14_statement_needs_sched_wf.
Print Assumptions T14_start_before_create.
Print Assumptions T14_segments_in_flight.
Print Assumptions T14_inflight_stable.

(* ------------------------------------------------------------------------------------------------
   Readers shared between threads ("any number of threads iterating and querying the same open reader
   through their own iterators").  In the functional model a reader is an immutable value, so nothing
   can be proved there about the C code; what CAN be decided from the source on every run is the
   premise that makes the functional model adequate: gen/Ties.v lists (regenerated from /repo)
     STRUCT_WRITES  - every assignment / increment through a pointer to a structure, and every field
                      whose address is taken, in mtbl/reader.c and mtbl/block.c, with the function it
                      occurs in and the structure type of the pointer variable;
     STATIC_STORAGE - every object with static storage duration that is not const (file-scope
                      variables and static locals) in the sources of libmtbl.
   T14r_shared_structs_written_only_at_init: a field of `struct mtbl_reader' is assigned only in
   mtbl_reader_init_fd (before the reader is published; mtbl_reader_destroy frees it), its address is
   taken only there, in mtbl_reader_metadata (a const pointer is returned) and - an element of the
   mapping, read only - in get_block; a field of `struct block' (the index block is shared by all
   iterators of a reader) is assigned only in block_init; every other write goes through a pointer
   to a per-iterator structure (reader_iter, block_iter) or to the caller's options.
   T14r_static_storage: the only non-const static object of the library is the CRC dispatch pointer
   my_crc32c, written by a constructor (before main, hence before any second thread) with the same
   value any later call of my_crc32c_first would store.
   A change that adds a cache to the reader, a static buffer to a decoder or a lazily initialised
   context breaks one of the two theorems; ThreadSanitizer (engine tsan) then looks for the race. *)
From Coq Require Import String Ascii.
From Mtbl Require Import gen.Ties.
Local Open Scope string_scope.

Definition is_addr (lv : string) : bool := match lv with String c _ => Ascii.eqb c "&"%char | _ => false end.
Definition sw_ok (w : string * string * string * string) : bool :=
  let '(file, fn, ty, lv) := w in
  if String.eqb ty "mtbl_reader" then
    if is_addr lv then existsb (String.eqb fn) ["mtbl_reader_init_fd"; "mtbl_reader_metadata"; "get_block"]
    else String.eqb fn "mtbl_reader_init_fd"
  else if String.eqb ty "block" then String.eqb fn "block_init"
  else existsb (String.eqb ty) ["reader_iter"; "block_iter"; "mtbl_reader_options"].

Theorem T14r_shared_structs_written_only_at_init : forallb sw_ok STRUCT_WRITES = true.
Proof. vm_compute. reflexivity. Qed.
Print Assumptions T14r_shared_structs_written_only_at_init.

Theorem T14r_static_storage : STATIC_STORAGE = [("libmy/crc32c.c", "my_crc32c_fp my_crc32c")].
Proof. reflexivity. Qed.
Print Assumptions T14r_static_storage.

(* the rule is not vacuous: it rejects a reader-level cache, a write to the shared index block outside
   block_init, and a pointer whose type the scan cannot determine *)
Example T14r_rule_rejects :
  sw_ok ("mtbl/reader.c", "reader_iter_next", "mtbl_reader", "r->last_block") = false /\
  sw_ok ("mtbl/block.c", "block_iter_seek", "block", "b->hint") = false /\
  sw_ok ("mtbl/reader.c", "get_block", "?", "p->x") = false /\
  (0 < List.length STRUCT_WRITES)%nat.
Proof. vm_compute. repeat split; apply Nat.lt_0_succ || (repeat constructor). Qed.

(* ------------------------------------------------------------------------------------------------
   Writer and sorter fields owned by the result-handler thread.  The LTS theorems above are about
   threadpool.c; which fields of `struct mtbl_writer' / `struct mtbl_sorter' the handler thread's
   callback touches, and that the caller's thread keeps away from them until it has joined the handler,
   is a fact about writer.c / sorter.c.  gen/Ties.v lists (regenerated from /repo on every run)
     FIELD_ACCESSES - every syntactic access to a field of the two structures: function, field (two
       components for the metadata: m.count_entries), kind (W assignment, A address taken, R any other
       use - for a pointer field also every use of the object it points to), the index of the statement
       in its function with its brace depth, and the guard `nopool' for statements in the else-branch of
       `if (x->pool != NULL)' (code that runs only when no handler thread exists); and the statements
       that wait for the handler thread (result_handler_destroy, or a call of _mtbl_writer_finish).
   T14w_handler_fields_not_touched_by_caller: take the fields the handler thread's functions touch
   (_write_data_block_wrapper / _mtbl_writer_write_data_block: fd, last_offset, pending_offset,
   m.bytes_data_blocks, m.count_data_blocks, the index builder; _collect_readers_cb: the readers vector).
   Every access to one of them from any other function is in an init function (before the handler thread
   is created), or after that function's join statement, or under the `nopool' guard - or the field is
   the descriptor fd, a plain value never written outside init.  So between creation and join the handler thread is the only one
   that touches them: no race on these fields, by a rule checked against the current source.  The rule
   is syntactic (named struct pointers; no alias tracking); ThreadSanitizer remains the search. *)
Definition facc := (string * string * string * string * string * nat * nat * string)%type.
Definition fa_fn (a : facc) : string := let '(_, fn, _, _, _, _, _, _) := a in fn.
Definition fa_struct (a : facc) : string := let '(_, _, st, _, _, _, _, _) := a in st.
Definition fa_field (a : facc) : string := let '(_, _, _, f, _, _, _, _) := a in f.
Definition fa_kind (a : facc) : string := let '(_, _, _, _, k, _, _, _) := a in k.
Definition fa_idx (a : facc) : nat := let '(_, _, _, _, _, i, _, _) := a in i.
Definition fa_depth (a : facc) : nat := let '(_, _, _, _, _, _, d, _) := a in d.
Definition fa_guard (a : facc) : string := let '(_, _, _, _, _, _, _, g) := a in g.
Definition smem (x : string) (l : list string) : bool := existsb (String.eqb x) l.

Definition init_fns : list string := ["mtbl_writer_init_fd"; "mtbl_sorter_init"].
Definition handler_fns : list string := ["_write_data_block_wrapper"; "_mtbl_writer_write_data_block"; "_collect_readers_cb"].
(* statement index of the join, and the brace depth it covers: its own depth - or one less when it stands in
   the block guarded by the test of the closed flag in mtbl_writer_destroy: closed is set by _mtbl_writer_finish alone, after its join, so
   when the test fails the join has happened in an earlier call *)
Definition join_index (l : list facc) (fn : string) : option (nat * nat) :=
  match find (fun a => String.eqb (fa_fn a) fn && String.eqb (fa_kind a) "J") l with
  | Some a => Some (fa_idx a, if String.eqb (fa_guard a) "if(!(*w)->closed)" then Nat.pred (fa_depth a) else fa_depth a)
  | None => None end.
Definition handler_field (l : list facc) (st f : string) : bool :=
  existsb (fun a => smem (fa_fn a) handler_fns && String.eqb (fa_struct a) st && String.eqb (fa_field a) f) l.
Definition written_only_at_init (l : list facc) (st f : string) : bool :=
  forallb (fun a => negb (String.eqb (fa_struct a) st && String.eqb (fa_field a) f && negb (String.eqb (fa_kind a) "R")) || smem (fa_fn a) init_fns) l.
Definition scalar_fields : list string := ["fd"].
Definition access_ok (l : list facc) (a : facc) : bool :=
  String.eqb (fa_kind a) "J" || smem (fa_fn a) handler_fns || smem (fa_fn a) init_fns || String.eqb (fa_guard a) "nopool" ||
  (* after the join statement, and not outside the block the join stands in (a join inside a conditional does not cover
     the code after the conditional) *)
  match join_index l (fa_fn a) with Some (j, dj) => Nat.ltb j (fa_idx a) && Nat.leb dj (fa_depth a) | None => false end ||
  negb (handler_field l (fa_struct a) (fa_field a)) ||
  (* a plain value (not a pointer to an object the handler changes) that nobody writes after init: both threads may read it *)
  (smem (fa_field a) scalar_fields && written_only_at_init l (fa_struct a) (fa_field a)).

Theorem T14w_handler_fields_not_touched_by_caller : forallb (access_ok FIELD_ACCESSES) FIELD_ACCESSES = true.
Proof. vm_compute. reflexivity. Qed.
Print Assumptions T14w_handler_fields_not_touched_by_caller.

(* the rule is not vacuous: the handler owns the fields named above, and an access to one of them from
   mtbl_writer_add, or from mtbl_sorter_iter BEFORE its join statement, is rejected *)
Example T14w_rule_rejects :
  handler_field FIELD_ACCESSES "mtbl_writer" "pending_offset" = true /\
  handler_field FIELD_ACCESSES "mtbl_writer" "index" = true /\
  handler_field FIELD_ACCESSES "mtbl_sorter" "readers" = true /\
  access_ok FIELD_ACCESSES ("mtbl/writer.c", "mtbl_writer_add", "mtbl_writer", "pending_offset", "R", 3%nat, 0%nat, "") = false /\
  access_ok FIELD_ACCESSES ("mtbl/sorter.c", "mtbl_sorter_iter", "mtbl_sorter", "readers", "R", 2%nat, 0%nat, "") = false /\
  access_ok FIELD_ACCESSES ("mtbl/sorter.c", "mtbl_sorter_iter", "mtbl_sorter", "readers", "R", 12%nat, 0%nat, "") = true /\
  access_ok FIELD_ACCESSES ("mtbl/writer.c", "mtbl_writer_add", "mtbl_writer", "fd", "R", 3%nat, 0%nat, "") = true.
Proof. vm_compute. repeat split. Qed.
