(* C05 - Merger lookups and seeks behave like one table holding the merged content.
   FULL STATEMENT: C05_statement.  PROVED so far: the decision between the full
   re-seek and the forward-seek shortcut (T05_seek_decision_partial: every seek to a
   key <= the last key returned or sought, every seek on a fresh or exhausted iterator
   takes the full re-seek - this is what makes "seek to the key just returned" and
   "seek backwards after exhaustion" re-deliver), and concrete histories by vm_compute
   (T05_examples).  NOT yet proved: the refinement for all histories.  Engine mg
   runs next/seek histories and get/get_prefix/get_range on implementation, model
   and the cursor over the merged content. *)
From Coq Require Import NArith List Lia.
From Mtbl Require Import model.Bytes model.Order model.Heap model.Merger spec.MergeSpec proofs.OrderProofs.
Local Open Scope N_scope.

Inductive mop := MNext | MSeek (k : bytes).
Fixpoint mrun (mf : option (bytes -> bytes -> bytes -> option bytes)) (it : miter) (ops : list mop) : list (option entry) :=
  match ops with
  | [] => []
  | MNext :: tl => let '(it', e) := merger_next mf None it in e :: mrun mf it' tl
  | MSeek k :: tl => None :: mrun mf (merger_seek None it k) tl
  end.

(* specification: cursor over the (already merged) content *)
Fixpoint srun (content : list entry) (pos : option nat) (ops : list mop) : list (option entry) :=
  match ops with
  | [] => []
  | MNext :: tl =>
    match pos with
    | None => None :: srun content None tl
    | Some p => match nth_error content p with
                | Some e => Some e :: srun content (Some (S p)) tl
                | None => None :: srun content None tl
                end
    end
  | MSeek k :: tl => None :: srun content (Some (first_ge_from content k 0)) tl
  end.

Definition C05_statement : Prop :=
  forall (srcs : list (list entry)) (content : list entry) ops,
    (* content = the merged content of srcs (C04) with a total merge function *)
    match merger_iter_make None (map (fun es => mksc es 0 true BAll false) srcs) false with
    | Some it => map (option_map fst) (mrun (Some (fun _ a b => Some (a ++ [124] ++ b))) it ops)
                 = map (option_map fst) (srun content (Some 0%nat) ops)
    | None => True
    end.

(* T05: which path a seek takes *)
Theorem T05_seek_decision_partial : forall it key,
  (mi_heap it = [] \/ len (mi_cur_key it) = 0 \/ bcmp key (mi_cur_key it) <> Gt) ->
  merger_seek None it key =
    let '(srcs, heap) := reseek_all (mi_srcs it) (mi_entries it) key [] in
    mkmi srcs (heapify hent (mcmp None) dummy_he heap) (mi_entries it) (mi_cur_key it) (mi_cur_val it) false false.
Proof.
  intros it key H. unfold merger_seek.
  destruct (mi_heap it) as [|e h] eqn:Eh; [reflexivity|].
  destruct H as [H|[H|H]]; [discriminate| |].
  - rewrite H. reflexivity.
  - destruct (len (mi_cur_key it) =? 0); [reflexivity|]. cbn [orb].
    destruct (bcmp key (mi_cur_key it)); try reflexivity. congruence.
Qed.
Print Assumptions T05_seek_decision_partial.

Example T05_examples :
  let srcs := [mksc [([107; 48], [0]); ([107; 49], [1]); ([107; 50], [2]); ([107; 51], [3])] 0 true BAll false;
               mksc [([107; 49], [9]); ([122], [8])] 0 true BAll false] in
  match merger_iter_make None srcs false with
  | Some it =>
    (* next; next; seek to the key just returned; next -> that key again; seek past the end; next fails;
       seek backwards after exhaustion; next *)
    map (option_map fst) (mrun (Some (fun _ a b => Some (a ++ [124] ++ b))) it
        [MNext; MNext; MSeek [107; 49]; MNext; MSeek [122; 122]; MNext; MSeek [107; 48; 0]; MNext; MNext])
    = [Some [107; 48]; Some [107; 49]; None; Some [107; 49]; None; None; None; Some [107; 49]; Some [107; 50]]
  | None => False
  end.
Proof. vm_compute. reflexivity. Qed.
