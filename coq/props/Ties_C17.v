(* Source ties of C17: the statements of the C functions its model follows, as they were when the model
   was written and validated against them (tools/gen_ties.py --expected).  gen/Ties.v is regenerated from
   /repo on every run; a changed statement breaks the corresponding lemma below. *)
From Coq Require Import List String.
From Mtbl Require Import gen.Ties.
Import ListNotations.
Local Open Scope string_scope.

(* libmy/crc32c-slicing.c: my_crc32c_slicing *)
Lemma tie_crc_my_crc32c_slicing : TIE_crc_my_crc32c_slicing =
  [(0, "uint32_tcrc,next");
   (0, "size_tnqwords");
   (0, "constuint8_t*p");
   (0, "crc=0xffffffff");
   (0, "for(p=chunk;((uintptr_t)p&(sizeof(uint32_t)-1))!=0&&len>0;++p,--len)");
   (1, "#ifdefWORDS_BIGENDIAN");
   (1, "crc=g_crc_slicing[0][((crc>>24)^*p)&0xFF]^(crc<<8)");
   (1, "#else");
   (1, "crc=g_crc_slicing[0][(crc^*p)&0xFF]^(crc>>8)");
   (1, "#endif");
   (0, "for(nqwords=len/sizeof(uint64_t);nqwords;nqwords--)");
   (1, "crc^=*(uint32_t*)p");
   (1, "p+=sizeof(uint32_t)");
   (1, "next=*(uint32_t*)p");
   (1, "p+=sizeof(uint32_t)");
   (1, "crc=#ifdefWORDS_BIGENDIANg_crc_slicing[4][(crc)&0xFF]^g_crc_slicing[5][(crc>>8)&0xFF]^g_crc_slicing[6][(crc>>16)&0xFF]^g_crc_slicing[7][(crc>>24)]^g_crc_slicing[0][(next)&0xFF]^g_crc_slicing[1][(next>>8)&0xFF]^g_crc_slicing[2][(next>>16)&0xFF]^g_crc_slicing[3][(next>>24)]");
   (1, "#else");
   (1, "g_crc_slicing[7][(crc)&0xFF]^g_crc_slicing[6][(crc>>8)&0xFF]^g_crc_slicing[5][(crc>>16)&0xFF]^g_crc_slicing[4][(crc>>24)]^g_crc_slicing[3][(next)&0xFF]^g_crc_slicing[2][(next>>8)&0xFF]^g_crc_slicing[1][(next>>16)&0xFF]^g_crc_slicing[0][(next>>24)]");
   (1, "#endif");
   (0, "#ifdefWORDS_BIGENDIAN");
   (0, "for(len&=0x7;len>0;++p,len--)crc=g_crc_slicing[0][((crc>>24)^*p)&0xFF]^(crc<<8)");
   (0, "crc=((crc<<24)&0xFF000000)|((crc<<8)&0x00FF0000)|((crc>>8)&0x0000FF00)|((crc>>24)&0x000000FF)");
   (0, "#else");
   (0, "for(len&=0x7;len>0;++p,len--)crc=g_crc_slicing[0][(crc^*p)&0xFF]^(crc>>8)");
   (0, "#endif");
   (0, "return(~crc)")].
Proof. reflexivity. Qed.

(* libmy/crc32c-sse42.c: my_crc32c_sse42_supported *)
Lemma tie_crc_my_crc32c_sse42_supported : TIE_crc_my_crc32c_sse42_supported =
  [(0, "return(cpuid(CPUID_FEATURES)&SSE42_FEATURE_BIT)")].
Proof. reflexivity. Qed.

(* libmy/crc32c-sse42.c: my_asm_crc32_u64 *)
Lemma tie_crc_my_asm_crc32_u64 : TIE_crc_my_asm_crc32_u64 =
  [(0, "asm(""crc32q%[value],%[crc]\n"":[crc]""+r""(crc):[value]""rm""(value))");
   (0, "returncrc")].
Proof. reflexivity. Qed.

(* libmy/crc32c-sse42.c: my_asm_crc32_u32 *)
Lemma tie_crc_my_asm_crc32_u32 : TIE_crc_my_asm_crc32_u32 =
  [(0, "asm(""crc32l%[value],%[crc]\n"":[crc]""+r""(crc):[value]""rm""(value))");
   (0, "returncrc")].
Proof. reflexivity. Qed.

(* libmy/crc32c-sse42.c: my_asm_crc32_u16 *)
Lemma tie_crc_my_asm_crc32_u16 : TIE_crc_my_asm_crc32_u16 =
  [(0, "asm(""crc32w%[value],%[crc]\n"":[crc]""+r""(crc):[value]""rm""(value))");
   (0, "returncrc")].
Proof. reflexivity. Qed.

(* libmy/crc32c-sse42.c: my_asm_crc32_u8 *)
Lemma tie_crc_my_asm_crc32_u8 : TIE_crc_my_asm_crc32_u8 =
  [(0, "asm(""crc32b%[value],%[crc]\n"":[crc]""+r""(crc):[value]""rm""(value))");
   (0, "returncrc")].
Proof. reflexivity. Qed.

(* libmy/crc32c-sse42.c: my_crc32c_sse42 *)
Lemma tie_crc_my_crc32c_sse42 : TIE_crc_my_crc32c_sse42 =
  [(0, "constuint8_t*p=buf");
   (0, "uint64_tcrc64bit=0xFFFFFFFF");
   (0, "for(size_ti=0;i<len/sizeof(uint64_t);i++)");
   (1, "crc64bit=my_asm_crc32_u64(crc64bit,*(uint64_t*)p)");
   (1, "p+=sizeof(uint64_t)");
   (0, "uint32_tcrc32bit=(uint32_t)crc64bit");
   (0, "len&=sizeof(uint64_t)-1");
   (0, "switch(len)");
   (1, "case7:crc32bit=my_asm_crc32_u8(crc32bit,*p++)");
   (1, "case6:crc32bit=my_asm_crc32_u16(crc32bit,*(uint16_t*)p)");
   (1, "p+=2");
   (1, "case4:crc32bit=my_asm_crc32_u32(crc32bit,*(uint32_t*)p)");
   (1, "break");
   (1, "case3:crc32bit=my_asm_crc32_u8(crc32bit,*p++)");
   (1, "case2:crc32bit=my_asm_crc32_u16(crc32bit,*(uint16_t*)p)");
   (1, "break");
   (1, "case5:crc32bit=my_asm_crc32_u32(crc32bit,*(uint32_t*)p)");
   (1, "p+=4");
   (1, "case1:crc32bit=my_asm_crc32_u8(crc32bit,*p)");
   (1, "break");
   (1, "case0:break");
   (1, "default:break");
   (0, "return~crc32bit")].
Proof. reflexivity. Qed.

(* mtbl/crc32c_wrap.c: mtbl_crc32c *)
Lemma tie_crc_mtbl_crc32c : TIE_crc_mtbl_crc32c =
  [(0, "return(my_crc32c(buf,size))")].
Proof. reflexivity. Qed.

(* libmy/crc32c.c: whole file *)
Lemma tie_crc_dispatch_c : TIE_crc_dispatch_c =
  [(0, "#include<stdbool.h>");
   (0, "#include<stddef.h>");
   (0, "#include<stdint.h>");
   (0, "#include<stdio.h>");
   (0, "#include""crc32c.h""");
   (0, "staticuint32_tmy_crc32c_first(constuint8_t*buf,size_tlen)");
   (0, "my_crc32c_fpmy_crc32c=my_crc32c_first");
   (0, "uint32_tmy_crc32c_slicing(constuint8_t*,size_t)");
   (0, "#if__GNUC__>=3&&defined(__x86_64__)");
   (0, "boolmy_crc32c_sse42_supported(void)");
   (0, "uint32_tmy_crc32c_sse42(constuint8_t*,size_t)");
   (0, "#endif");
   (0, "#ifdefined(__GNUC__)");
   (0, "__attribute__((constructor))#endifstaticvoidmy_crc32c_runtime_detection(void)");
   (1, "#if__GNUC__>=3&&defined(__x86_64__)");
   (1, "if(my_crc32c_sse42_supported())");
   (2, "my_crc32c=my_crc32c_sse42");
   (1, "else");
   (2, "my_crc32c=my_crc32c_slicing");
   (1, "#else");
   (1, "my_crc32c=my_crc32c_slicing");
   (1, "#endif");
   (0, "staticuint32_tmy_crc32c_first(constuint8_t*buf,size_tlen)");
   (1, "my_crc32c_runtime_detection()");
   (1, "returnmy_crc32c(buf,len)")].
Proof. reflexivity. Qed.
