(* Source ties of C06: the statements of the C functions its model follows, as they were when the model
   was written and validated against them (tools/gen_ties.py --expected).  gen/Ties.v is regenerated from
   /repo on every run; a changed statement breaks the corresponding lemma below. *)
From Coq Require Import List String.
From Mtbl Require Import gen.Ties.
Import ListNotations.
Local Open Scope string_scope.

(* mtbl/sorter.c: mtbl_sorter_add *)
Lemma tie_sorter_add : TIE_sorter_add =
  [(0, "mtbl_resres=mtbl_res_success");
   (0, "if(s->iterating)return(mtbl_res_failure)");
   (0, "assert(len_key<=UINT_MAX)");
   (0, "assert(len_val<=UINT_MAX)");
   (0, "structentry*ent");
   (0, "size_tentry_bytes");
   (0, "entry_bytes=sizeof(*ent)+len_key+len_val");
   (0, "ent=my_malloc(entry_bytes)");
   (0, "ent->len_key=len_key");
   (0, "ent->len_val=len_val");
   (0, "memcpy(entry_key(ent),key,len_key)");
   (0, "memcpy(entry_val(ent),val,len_val)");
   (0, "entry_vec_append(s->vec,&ent,1)");
   (0, "s->entry_bytes+=entry_bytes");
   (0, "if(s->entry_bytes+entry_vec_bytes(s->vec)>=s->opt.max_memory)res=_mtbl_sorter_flush(s)");
   (0, "return(res)")].
Proof. reflexivity. Qed.

(* mtbl/sorter.c: mtbl_sorter_iter *)
Lemma tie_sorter_iter : TIE_sorter_iter =
  [(0, "structsorter_iter*it=my_calloc(1,sizeof(*it))");
   (0, "structmtbl_merger_options*mopt=mtbl_merger_options_init()");
   (0, "if(entry_vec_size(s->vec)>0)");
   (1, "mtbl_resres=_mtbl_sorter_flush(s)");
   (1, "if(res!=mtbl_res_success)");
   (2, "mtbl_merger_options_destroy(&mopt)");
   (2, "free(it)");
   (2, "return(NULL)");
   (0, "mtbl_merger_options_set_merge_func(mopt,s->opt.merge,s->opt.merge_clos)");
   (0, "it->m=mtbl_merger_init(mopt)");
   (0, "mtbl_merger_options_destroy(&mopt)");
   (0, "result_handler_destroy(&s->rhandler)");
   (0, "for(size_ti=0;i<reader_vec_size(s->readers);i++)");
   (1, "structmtbl_reader*r=reader_vec_value(s->readers,i)");
   (1, "mtbl_merger_add_source(it->m,mtbl_reader_source(r))");
   (0, "it->m_iter=mtbl_source_iter(mtbl_merger_source(it->m))");
   (0, "s->iterating=true");
   (0, "return(mtbl_iter_init(sorter_iter_seek,sorter_iter_next,sorter_iter_free,it))")].
Proof. reflexivity. Qed.

(* mtbl/sorter.c: mtbl_sorter_write *)
Lemma tie_sorter_write : TIE_sorter_write =
  [(0, "if(s->iterating)return(mtbl_res_failure)");
   (0, "structmtbl_iter*it=mtbl_sorter_iter(s)");
   (0, "constuint8_t*key,*val");
   (0, "size_tlen_key,len_val");
   (0, "mtbl_resres=mtbl_res_success");
   (0, "if(it==NULL)return(mtbl_res_failure)");
   (0, "while(mtbl_iter_next(it,&key,&len_key,&val,&len_val)==mtbl_res_success)");
   (1, "res=mtbl_writer_add(w,key,len_key,val,len_val)");
   (1, "if(res!=mtbl_res_success)break");
   (0, "mtbl_iter_destroy(&it)");
   (0, "return(res)")].
Proof. reflexivity. Qed.

(* mtbl/sorter.c: _mtbl_sorter_write_chunk *)
Lemma tie_sorter_write_chunk : TIE_sorter_write_chunk =
  [(0, "mtbl_resres");
   (0, "conststructmtbl_sorter*s=b->s");
   (0, "chartemplate[64]");
   (0, "sprintf(template,""/.mtbl.%ld.XXXXXX"",(long)getpid())");
   (0, "ubuf*tmp_fname=ubuf_init(strlen(s->opt.tmp_dname)+strlen(template)+1)");
   (0, "ubuf_append(tmp_fname,(uint8_t*)s->opt.tmp_dname,strlen(s->opt.tmp_dname))");
   (0, "ubuf_append(tmp_fname,(uint8_t*)template,strlen(template))");
   (0, "ubuf_append(tmp_fname,(constuint8_t*)""\x00"",1)");
   (0, "intfd=mkstemp((char*)ubuf_data(tmp_fname))");
   (0, "assert(fd>=0)");
   (0, "intunlink_ret=unlink((char*)ubuf_data(tmp_fname))");
   (0, "assert(unlink_ret==0)");
   (0, "ubuf_destroy(&tmp_fname)");
   (0, "structmtbl_writer_options*wopt=mtbl_writer_options_init()");
   (0, "mtbl_writer_options_set_compression(wopt,MTBL_COMPRESSION_SNAPPY)");
   (0, "structmtbl_writer*w=mtbl_writer_init_fd(fd,wopt)");
   (0, "mtbl_writer_options_destroy(&wopt)");
   (0, "structentry**entries=entry_vec_data(b->entries)");
   (0, "qsort(entries,entry_vec_size(b->entries),sizeof(void*),_mtbl_sorter_compare)");
   (0, "for(unsignedi=0;i<entry_vec_size(b->entries);i++)");
   (1, "structentry*ent=entry_vec_value(b->entries,i)");
   (1, "if(i+1<entry_vec_size(b->entries))");
   (2, "structentry*next_ent=entry_vec_value(b->entries,i+1)");
   (2, "structentry*merge_ent=NULL");
   (2, "if(_mtbl_sorter_compare(&ent,&next_ent)==0)");
   (3, "assert(s->opt.merge!=NULL)");
   (3, "uint8_t*merge_val=NULL");
   (3, "size_tlen_merge_val=0");
   (3, "s->opt.merge(s->opt.merge_clos,entry_key(ent),ent->len_key,entry_val(ent),ent->len_val,entry_val(next_ent),next_ent->len_val,&merge_val,&len_merge_val)");
   (3, "if(merge_val==NULL)");
   (4, "for(unsignedj=i;j<entry_vec_size(b->entries);j++)free(entry_vec_value(b->entries,j))");
   (4, "entry_vec_destroy(&b->entries)");
   (4, "free(b)");
   (4, "mtbl_writer_destroy(&w)");
   (4, "close(fd)");
   (4, "return(NULL)");
   (3, "size_tlen=sizeof(structentry)+ent->len_key+len_merge_val");
   (3, "merge_ent=my_malloc(len)");
   (3, "merge_ent->len_key=ent->len_key");
   (3, "merge_ent->len_val=len_merge_val");
   (3, "memcpy(entry_key(merge_ent),entry_key(ent),ent->len_key)");
   (3, "memcpy(entry_val(merge_ent),merge_val,len_merge_val)");
   (3, "free(merge_val)");
   (3, "free(ent)");
   (3, "free(next_ent)");
   (3, "entry_vec_data(b->entries)[i+1]=merge_ent");
   (3, "continue");
   (1, "res=mtbl_writer_add(w,entry_key(ent),ent->len_key,entry_val(ent),ent->len_val)");
   (1, "free(ent)");
   (1, "if(res!=mtbl_res_success)break");
   (0, "mtbl_writer_destroy(&w)");
   (0, "entry_vec_destroy(&b->entries)");
   (0, "free(b)");
   (0, "if(res!=mtbl_res_success)");
   (1, "close(fd)");
   (1, "return(NULL)");
   (0, "structmtbl_reader*r=mtbl_reader_init_fd(fd,NULL)");
   (0, "close(fd)");
   (0, "return(r)")].
Proof. reflexivity. Qed.

(* mtbl/sorter.c: _mtbl_sorter_flush *)
Lemma tie_sorter_flush : TIE_sorter_flush =
  [(0, "mtbl_resres=mtbl_res_success");
   (0, "structentry_batch*b");
   (0, "assert(!s->iterating)");
   (0, "b=_mtbl_sorter_get_entry_batch(s)");
   (0, "if(s->pool!=NULL)");
   (1, "threadpool_dispatch(s->pool,s->rhandler,false,_write_temp_file_wrapper,b)");
   (0, "else");
   (1, "structmtbl_reader*r=_mtbl_sorter_write_chunk(b)");
   (1, "reader_vec_add(s->readers,r)");
   (1, "if(r==NULL)res=mtbl_res_failure");
   (0, "return(res)")].
Proof. reflexivity. Qed.

(* mtbl/sorter.c: _mtbl_sorter_compare *)
Lemma tie_sorter_compare : TIE_sorter_compare =
  [(0, "conststructentry*a=*((conststructentry**)va)");
   (0, "conststructentry*b=*((conststructentry**)vb)");
   (0, "return(bytes_compare(entry_key(a),a->len_key,entry_key(b),b->len_key))")].
Proof. reflexivity. Qed.

(* mtbl/sorter.c: _collect_readers_cb *)
Lemma tie_sorter_collect_cb : TIE_sorter_collect_cb =
  [(0, "structmtbl_sorter*s=sorter");
   (0, "reader_vec_add(s->readers,reader)")].
Proof. reflexivity. Qed.

(* mtbl/sorter.c: mtbl_sorter_options_init *)
Lemma tie_srt_mtbl_sorter_options_init : TIE_srt_mtbl_sorter_options_init =
  [(0, "structmtbl_sorter_options*opt");
   (0, "opt=my_calloc(1,sizeof(*opt))");
   (0, "opt->max_memory=DEFAULT_SORTER_MEMORY");
   (0, "opt->pool=NULL");
   (0, "mtbl_sorter_options_set_temp_dir(opt,DEFAULT_SORTER_TEMP_DIR)");
   (0, "return(opt)")].
Proof. reflexivity. Qed.

(* mtbl/sorter.c: mtbl_sorter_options_destroy *)
Lemma tie_srt_mtbl_sorter_options_destroy : TIE_srt_mtbl_sorter_options_destroy =
  [(0, "if(*opt)");
   (1, "free((*opt)->tmp_dname)");
   (1, "my_free(*opt)")].
Proof. reflexivity. Qed.

(* mtbl/sorter.c: mtbl_sorter_options_set_merge_func *)
Lemma tie_srt_mtbl_sorter_options_set_merge_func : TIE_srt_mtbl_sorter_options_set_merge_func =
  [(0, "opt->merge=merge");
   (0, "opt->merge_clos=clos")].
Proof. reflexivity. Qed.

(* mtbl/sorter.c: mtbl_sorter_options_set_temp_dir *)
Lemma tie_srt_mtbl_sorter_options_set_temp_dir : TIE_srt_mtbl_sorter_options_set_temp_dir =
  [(0, "free(opt->tmp_dname)");
   (0, "opt->tmp_dname=strdup(temp_dir)")].
Proof. reflexivity. Qed.

(* mtbl/sorter.c: mtbl_sorter_options_set_max_memory *)
Lemma tie_srt_mtbl_sorter_options_set_max_memory : TIE_srt_mtbl_sorter_options_set_max_memory =
  [(0, "if(max_memory<MIN_SORTER_MEMORY)max_memory=MIN_SORTER_MEMORY");
   (0, "opt->max_memory=max_memory")].
Proof. reflexivity. Qed.

(* mtbl/sorter.c: mtbl_sorter_options_set_threadpool *)
Lemma tie_srt_mtbl_sorter_options_set_threadpool : TIE_srt_mtbl_sorter_options_set_threadpool =
  [(0, "opt->pool=pool")].
Proof. reflexivity. Qed.

(* mtbl/sorter.c: _mtbl_sorter_get_entry_batch *)
Lemma tie_srt_mtbl_sorter_get_entry_batch : TIE_srt_mtbl_sorter_get_entry_batch =
  [(0, "structentry_batch*b");
   (0, "assert(!s->iterating)");
   (0, "b=calloc(1,sizeof(*b))");
   (0, "b->s=s");
   (0, "b->entries=s->vec");
   (0, "s->vec=entry_vec_init(INITIAL_SORTER_VEC_SIZE)");
   (0, "s->entry_bytes=0");
   (0, "returnb")].
Proof. reflexivity. Qed.

(* mtbl/sorter.c: sorter_iter_seek *)
Lemma tie_srt_sorter_iter_seek : TIE_srt_sorter_iter_seek =
  [(0, "structsorter_iter*it=(structsorter_iter*)v");
   (0, "return(mtbl_iter_seek(it->m_iter,key,len_key))")].
Proof. reflexivity. Qed.

(* mtbl/sorter.c: sorter_iter_next *)
Lemma tie_srt_sorter_iter_next : TIE_srt_sorter_iter_next =
  [(0, "structsorter_iter*it=(structsorter_iter*)v");
   (0, "return(mtbl_iter_next(it->m_iter,key,len_key,val,len_val))")].
Proof. reflexivity. Qed.

(* libmy/vector.h: whole file *)
Lemma tie_vector_h : TIE_vector_h =
  [(0, "#include<assert.h>");
   (0, "#include""my_alloc.h""");
   (0, "#defineVECTOR_GENERATE(name,type)\");
   (0, "typedefstructname##__vector");
   (1, "\type*_v");
   (1, "\type*_p");
   (1, "\size_t_n,_n_alloced,_hint");
   (1, "\");
   (0, "name");
   (0, "\__attribute__((unused))\staticinlinename*\name##_init(unsignedhint)\");
   (1, "\name*vec");
   (1, "\vec=my_calloc(1,sizeof(name))");
   (1, "\if(hint==0)hint=1");
   (1, "\vec->_hint=vec->_n_alloced=hint");
   (1, "\vec->_v=my_malloc(vec->_n_alloced*sizeof(type))");
   (1, "\vec->_p=&(vec->_v[0])");
   (1, "\return(vec)");
   (1, "\");
   (0, "\__attribute__((unused))\staticinlinevoid\name##_reinit(unsignedhint,name*vec)\");
   (1, "\if(hint==0)hint=1");
   (1, "\vec->_hint=vec->_n_alloced=hint");
   (1, "\vec->_n=0");
   (1, "\vec->_v=my_malloc(vec->_n_alloced*sizeof(type))");
   (1, "\vec->_p=&(vec->_v[0])");
   (1, "\");
   (0, "\__attribute__((unused))\staticinlinevoid\name##_detach(name*vec,type**out,size_t*outsz)\");
   (1, "\*(out)=(vec)->_v");
   (1, "\*(outsz)=(vec)->_n");
   (1, "\(vec)->_n=0");
   (1, "\(vec)->_n_alloced=(vec)->_hint");
   (1, "\(vec)->_v=my_malloc((vec)->_n_alloced*sizeof(type))");
   (1, "\(vec)->_p=&(vec->_v[0])");
   (1, "\");
   (0, "\__attribute__((unused))\staticinlinevoid\name##_destroy(name**vec)\");
   (1, "\if(*vec)");
   (2, "\my_free((*vec)->_v)");
   (2, "\my_free((*vec))");
   (2, "\");
   (1, "\");
   (0, "\__attribute__((unused))\staticinlinevoid\name##_reserve(name*vec,size_tn_elems)\");
   (1, "\while((n_elems)>((vec)->_n_alloced-(vec)->_n))");
   (2, "\(vec)->_n_alloced*=2");
   (2, "\(vec)->_v=my_realloc((vec)->_v,(vec)->_n_alloced\*sizeof(type))");
   (2, "\(vec)->_p=&((vec)->_v[(vec)->_n])");
   (2, "\");
   (1, "\");
   (0, "\__attribute__((unused))\staticinlinevoid\name##_add(name*vec,typeelem)\");
   (1, "\while((vec)->_n+1>(vec)->_n_alloced)");
   (2, "\(vec)->_n_alloced*=2");
   (2, "\(vec)->_v=my_realloc((vec)->_v,(vec)->_n_alloced\*sizeof(type))");
   (2, "\(vec)->_p=&((vec)->_v[(vec)->_n])");
   (2, "\");
   (1, "\(vec)->_v[(vec)->_n]=elem");
   (1, "\(vec)->_n+=1");
   (1, "\(vec)->_p=&((vec)->_v[(vec)->_n])");
   (1, "\");
   (0, "\__attribute__((unused))\staticinlinevoid\name##_append(name*vec,typeconst*elems,size_tn_elems)\");
   (1, "\name##_reserve(vec,n_elems)");
   (1, "\memcpy((vec)->_v+(vec)->_n,elems,(n_elems)*sizeof(type))");
   (1, "\(vec)->_n+=(n_elems)");
   (1, "\(vec)->_p=&((vec)->_v[(vec)->_n])");
   (1, "\");
   (0, "\__attribute__((unused))\staticinlinevoid\name##_extend(name*vec0,name*vec1)\");
   (1, "\name##_append(vec0,(vec1)->_v,(vec1)->_n)");
   (1, "\");
   (0, "\__attribute__((unused))\staticinlinevoid\name##_reset(name*vec)\");
   (1, "\(vec)->_n=0");
   (1, "\if((vec)->_n_alloced>(vec)->_hint)");
   (2, "\(vec)->_n_alloced=(vec)->_hint");
   (2, "\(vec)->_v=my_realloc((vec)->_v,(vec)->_n_alloced\*sizeof(type))");
   (2, "\");
   (1, "\(vec)->_p=&(vec->_v[0])");
   (1, "\");
   (0, "\__attribute__((unused))\staticinlinevoid\name##_clip(name*vec,size_tn_elems)\");
   (1, "\if(n_elems<(vec)->_n)");
   (2, "\(vec)->_n=n_elems");
   (2, "\(vec)->_p=&((vec)->_v[(vec)->_n])");
   (2, "\");
   (1, "\");
   (0, "\__attribute__((unused))\staticinlinesize_t\name##_bytes(name*vec)\");
   (1, "\return((vec)->_n*sizeof(type))");
   (1, "\");
   (0, "\__attribute__((unused))\staticinlinesize_t\name##_size(name*vec)\");
   (1, "\return((vec)->_n)");
   (1, "\");
   (0, "\__attribute__((unused))\staticinlinetype\name##_value(name*vec,size_ti)\");
   (1, "\assert(i<(vec)->_n)");
   (1, "\return((vec)->_v[i])");
   (1, "\");
   (0, "\__attribute__((unused))\staticinlinetype*\name##_ptr(name*vec)\");
   (1, "\return((vec)->_p)");
   (1, "\");
   (0, "\__attribute__((unused))\staticinlinetype*\name##_data(name*vec)\");
   (1, "\return((vec)->_v)");
   (1, "\");
   (0, "\__attribute__((unused))\staticinlinevoid\name##_advance(name*vec,size_tx)\");
   (1, "\assert(x<=((vec)->_n_alloced-(vec)->_n))");
   (1, "\(vec)->_n+=x");
   (1, "\(vec)->_p=&((vec)->_v[(vec)->_n])");
   (1, "\")].
Proof. reflexivity. Qed.
