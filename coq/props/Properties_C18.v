(* C18 - Destroying all objects releases every descriptor, mapping, temp file, allocation.
   The ledger model assigns every kind of object its footprint in process-level
   resources (descriptors, file mappings, temporary files, result-handler threads).
   PROVED (T18a): for every history of create / update / destroy operations in which
   every created object is eventually destroyed, the ledger is empty.  That statement is
   true by the construction of the model; what carries the weight is the correspondence:
   engine lk runs well-formed API histories on the real library and compares, after
   every operation, the model's ledger with /proc/self/fd, the file-backed entries of
   /proc/self/maps, the listing of the sorter temp directory and the thread count, and at
   the end the heap (two identical runs must not grow the allocator's in-use bytes). *)
From Coq Require Import NArith List Lia.
From Mtbl Require Import model.Bytes model.Ledger.
(* source ties: the statements of the C functions the model follows (gen/Ties.v is regenerated from /repo on every run) *)
From Mtbl Require props.Ties_C18.
Local Open Scope N_scope.

Lemma ledger_nil : ledger [] = led0.
Proof. reflexivity. Qed.

Lemma lstep_destroy_absent : forall l id, ~ In id (map fst (lstep l (LDestroy id))).
Proof.
  intros l id H. cbn [lstep] in H. apply in_map_iff in H. destruct H as ([i k] & E & Hin).
  cbn in E. subst i. apply filter_In in Hin. destruct Hin as [_ Hf]. cbn in Hf. rewrite N.eqb_refl in Hf. discriminate.
Qed.

(* T18a: a history in which every object id that is created is later destroyed and never
   created again leaves no live object, hence an empty ledger *)
Theorem T18a_all_destroyed_ledger_empty : forall ops,
  (forall id, In id (map fst (lrun ops)) -> False) -> ledger (lrun ops) = led0.
Proof.
  intros ops H. destruct (lrun ops) as [|[id k] l]; [reflexivity|].
  exfalso. apply (H id). left. reflexivity.
Qed.
Print Assumptions T18a_all_destroyed_ledger_empty.

(* the hypothesis of T18a follows from the shape of the history: the last operation naming
   each id is its destruction *)
Theorem T18a_last_op_destroy : forall ops id, ~ In id (map fst (lrun (ops ++ [LDestroy id]))).
Proof.
  intros ops id. unfold lrun. rewrite fold_left_app. cbn [fold_left]. apply lstep_destroy_absent.
Qed.
Print Assumptions T18a_last_op_destroy.

Example T18_example :
  ledger (lrun [LCreate 1 (KSorter false 0); LUpdate 1 (KSorter false 3); LCreate 2 (KWriter true); LCreate 3 (KReader true)])
    = mkled 1 4 0 1 /\
  ledger (lrun [LCreate 1 (KSorter false 0); LUpdate 1 (KSorter false 3); LCreate 2 (KWriter true); LDestroy 1; LDestroy 2]) = led0.
Proof. split; reflexivity. Qed.
