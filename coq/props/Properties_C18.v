(* C18 - Destroying all objects releases every descriptor, mapping, temp file, allocation.
   Two models.
   (1) OPERATIONAL (model/ResCore.v, ResT1.v, ResSorter.v, ResFileset.v, Resources.v): every API entry point -
   writer, reader, iterators of every kind, merger, sorter with its spill (mkstemp, unlink, writer on the
   descriptor, sort + fold with a merge callback that may FAIL, reader_init_fd, close; pooled: the chunk job
   completes later), mtbl_sorter_iter / _write / _destroy at any point of the life cycle, fileset init / dup /
   reload / reload_now / iterators / destroy, thread pools and result handlers - is a function written by reading the
   C function top to bottom and recording every acquisition and release IN ORDER, with its failure branches and
   early returns; environment-dependent outcomes (the file is / is not a table, open fails, the merge callback
   fails, which setfile lines exist) are parameters of the operation.  Resources: descriptors, mappings, temporary
   files, threads, and heap objects by allocation site (39 kinds).
   PROVED: T18_all_destroyed_clean - for EVERY history of API operations, with every combination of outcomes,
     once every object is destroyed no resource of any kind remains (via the invariant: for every object and
     kind, the live count equals the footprint of the object's abstract state; each operation's event list is
     checked to change the live set exactly by the change of footprint - a forgotten close on one path makes
     that lemma false);
   T18_all_destroyed_obs - then descriptors, mappings, temp files, threads and live heap objects are all 0;
   T18_no_double_release - no history closes / frees / unmaps / joins something that is not live;
   T18_pinned_refuted - the sorter code as it was before the four repairs (descriptor of a chunk never closed;
     leak when the merge callback fails in a chunk; merger options leaked when the final flush fails; readers
     freed before the result handler is joined), run in the same model, violates the theorem - each with a
     concrete history.
   (2) FOOTPRINTS (model/Ledger.v): the static footprint per object kind that engine lk compares with
   /proc/self/fd, /proc/self/maps, the temp directory and the thread count after EVERY step of its scenarios on
   the real library, and with the allocator at the end (T18a_* below).
   Tie of (1) to the code: the statement-level source ties of the C functions it follows (props/Ties_C18.v); its
   footprints agree with (2) on the computed histories of proofs/ResourceExamples.v. *)
From Coq Require Import NArith List Lia.
From Mtbl Require Import model.Bytes model.Ledger model.ResCore model.ResT1 model.ResSorter model.ResFileset model.Resources model.ResFaults
  proofs.ResourceProofs proofs.ResourcePinned proofs.ResourceNoFault proofs.ResourceExamples.
(* source ties: the statements of the C functions the model follows (gen/Ties.v is regenerated from /repo on every run) *)
From Mtbl Require props.Ties_C18.
Local Open Scope N_scope.

Lemma ledger_nil : ledger [] = led0.
Proof. reflexivity. Qed.

Lemma lstep_destroy_absent : forall l id, ~ In id (map fst (lstep l (LDestroy id))).
Proof.
  intros l id H. cbn [lstep] in H. apply in_map_iff in H. destruct H as ([i k] & E & Hin).
  cbn in E. subst i. apply filter_In in Hin. destruct Hin as [_ Hf]. cbn in Hf. rewrite N.eqb_refl in Hf. discriminate.
Qed.

(* T18a: a history in which every object id that is created is later destroyed and never
   created again leaves no live object, hence an empty ledger *)
Theorem T18a_all_destroyed_ledger_empty : forall ops,
  (forall id, In id (map fst (lrun ops)) -> False) -> ledger (lrun ops) = led0.
Proof.
  intros ops H. destruct (lrun ops) as [|[id k] l]; [reflexivity|].
  exfalso. apply (H id). left. reflexivity.
Qed.
Print Assumptions T18a_all_destroyed_ledger_empty.

(* the hypothesis of T18a follows from the shape of the history: the last operation naming
   each id is its destruction *)
Theorem T18a_last_op_destroy : forall ops id, ~ In id (map fst (lrun (ops ++ [LDestroy id]))).
Proof.
  intros ops id. unfold lrun. rewrite fold_left_app. cbn [fold_left]. apply lstep_destroy_absent.
Qed.
Print Assumptions T18a_last_op_destroy.

Example T18_example :
  ledger (lrun [LCreate 1 (KSorter false 0); LUpdate 1 (KSorter false 3); LCreate 2 (KWriter true); LCreate 3 (KReader true)])
    = mkled 1 4 0 1 /\
  ledger (lrun [LCreate 1 (KSorter false 0); LUpdate 1 (KSorter false 3); LCreate 2 (KWriter true); LDestroy 1; LDestroy 2]) = led0.
Proof. split; reflexivity. Qed.

(* ---- the operational model ------------------------------------------------------------------------- *)
Theorem T18_all_destroyed_clean : forall ops,
  wf_history ops = true -> all_destroyed (rrun ops) -> live (rrun ops) = [].
Proof. exact all_destroyed_clean. Qed.
Print Assumptions T18_all_destroyed_clean.

Theorem T18_all_destroyed_obs : forall ops,
  wf_history ops = true -> all_destroyedb (rrun ops) = true ->
  obs (rrun ops) = (0, 0, 0, 0) /\ heap_live (rrun ops) = 0.
Proof. exact all_destroyed_obs. Qed.
Print Assumptions T18_all_destroyed_obs.

Theorem T18_no_double_release : forall ops, run_faults ops = 0.
Proof. exact no_release_of_dead_resource. Qed.
Print Assumptions T18_no_double_release.

(* the code before the repairs 7721227, 541a3d1, 650dd74, 6dca6c0, each switched off alone, and all together *)
Theorem T18_pinned_refuted :
  ~ clean_v (mkv false true true true) /\ ~ clean_v (mkv true false true true) /\
  ~ clean_v (mkv true true false true) /\ ~ clean_v (mkv true true true false) /\
  ~ clean_v (mkv false false false false) /\ clean_v v_current.
Proof.
  split; [exact spill_noclose_pinned_refuted|]. split; [exact spill_mergefail_pinned_refuted|].
  split; [exact sorter_iter_pinned_refuted|]. split; [exact sorter_destroy_pinned_refuted|].
  split; [exact pinned_tree_refuted|exact clean_current].
Qed.
Print Assumptions T18_pinned_refuted.
