(* C15 - Compression round trip for every algorithm, level and buffer.
   The four compression libraries are outside the model: they enter as a record of oracle
   functions (model/Compress.v, [libs]) with their documented contracts as hypotheses
   ([libs_sound]: what a compressor returns fits the capacity it was given and is inverted by
   the matching decompressor offered the original size; [libs_complete]: offered its documented
   bound and a legal level a compressor does not fail).  Everything that is mtbl's own code is
   modelled and PROVED for every algorithm, EVERY requested level and every input:
   T15a_roundtrip - whenever mtbl_compress_level / mtbl_compress succeed, mtbl_decompress
     returns exactly the input (INT_MAX gates, LZ4 length prefix, zstd content-size path,
     the zlib inflate grow loop reaching the needed capacity within its doublings);
   T15a_compress_succeeds / T15a_never_aborts - with the libraries' guarantees the compression
     wrappers neither fail nor abort: the capacity handed to each library is at least that
     library's bound and the clamped level is legal (the zlib clamp is what keeps deflateInit
     from failing its assert);
   T15a_levels - the level handed to each library lies in its legal range for every request;
   T15b_names - names round-trip through to_str/from_str; from_str is case-insensitive equality
     with a table name and refuses everything else (tables regenerated from the source).
   Domain: inputs below 2^64 bytes; for zstd, inputs whose ZSTD_compressBound is at most INT_MAX
   (observation O6: a larger incompressible input compresses to more than INT_MAX bytes, which
   mtbl_decompress refuses - about 2 GiB, outside the property's stated range).
   NOT provable here: that zlib/lz4/zstd/snappy meet their contracts.  Engine c15 exercises them
   in forked children (every length 0..64 x contents x 5 algorithms x levels -10000..100, random
   buffers), records at the library boundary the (level, capacity) each wrapper actually passes
   and checks the hypotheses of the theorems on them (capacity >= the real bound function, level
   legal, decompression capacity = original size), and compares the bound formulas written in
   the model with LZ4_compressBound / ZSTD_compressBound / snappy_max_compressed_length. *)
From Coq Require Import NArith ZArith List Lia String.
From Mtbl Require Import gen.Consts model.Bytes model.Codec model.Compress proofs.CompressProofs.
(* source ties: the statements of the C functions the model follows (gen/Ties.v is regenerated from /repo on every run) *)
From Mtbl Require props.Ties_C15.
Local Open Scope N_scope.

Theorem T15b_names : 
  (forall t, In t COMP_ALL -> exists s, compression_type_to_str t = Some s /\ compression_type_from_str s = Some t) /\
  (forall s t, compression_type_from_str s = Some t -> exists name, In (name, t) COMP_FROM_STR /\ lower s = lower name) /\
  (forall s, (forall name t, In (name, t) COMP_FROM_STR -> lower s <> lower name) -> compression_type_from_str s = None).
Proof.
  split; [|split; [exact from_str_sound|exact from_str_unknown]].
  intros t Hin. pose proof names_roundtrip as H. rewrite forallb_forall in H. specialize (H t Hin).
  destruct (compression_type_to_str t) as [s|]; [|discriminate]. exists s. split; [reflexivity|].
  destruct (compression_type_from_str s) as [t'|]; [|discriminate]. apply N.eqb_eq in H. subst. reflexivity.
Qed.
Print Assumptions T15b_names.

Theorem T15a_levels :
  (forall l, (-1 <= zlib_level l <= 9)%Z) /\ (forall l, (0 <= lz4hc_level l)%Z) /\
  (forall minl maxl l, (minl <= maxl)%Z -> (minl <= zstd_level minl maxl l <= maxl)%Z) /\
  (forall n body, n < 2 ^ 32 -> lz4_unwrap (lz4_wrap n body) = Some (n, body)).
Proof.
  split; [exact zlib_level_range|]. split; [exact lz4hc_level_range|].
  split; [exact zstd_level_range|exact lz4_prefix_roundtrip].
Qed.
Print Assumptions T15a_levels.

(* ---- the wrappers ---------------------------------------------------------------------- *)
Theorem T15a_roundtrip : forall (L : libs), libs_sound L -> forall alg level x s,
  len x < 2 ^ 64 -> (alg = COMP_ZSTD -> zstd_bound (len x) <= INT_MAX) ->
  (wrapper_compress_level L alg level x = COk s -> wrapper_decompress L alg s = COk x) /\
  (wrapper_compress L alg x = COk s -> wrapper_decompress L alg s = COk x).
Proof.
  intros L Hs alg level x s Hx Hz. split; [apply wrapper_roundtrip; assumption|].
  unfold wrapper_compress. apply wrapper_roundtrip; assumption.
Qed.
Print Assumptions T15a_roundtrip.

(* lossless: two inputs that one algorithm compresses (at any two levels) to the same bytes
   are the same input - no information is dropped by the wrappers around sound libraries *)
Theorem T15a_lossless : forall (L : libs), libs_sound L -> forall alg level level' x y s,
  len x < 2 ^ 64 -> len y < 2 ^ 64 ->
  (alg = COMP_ZSTD -> zstd_bound (len x) <= INT_MAX) -> (alg = COMP_ZSTD -> zstd_bound (len y) <= INT_MAX) ->
  wrapper_compress_level L alg level x = COk s -> wrapper_compress_level L alg level' y = COk s -> x = y.
Proof.
  intros L Hs alg level level' x y s Hx Hy Hzx Hzy Cx Cy.
  destruct (T15a_roundtrip L Hs alg level x s Hx Hzx) as [Rx _].
  destruct (T15a_roundtrip L Hs alg level' y s Hy Hzy) as [Ry _].
  specialize (Rx Cx). specialize (Ry Cy). congruence.
Qed.
Print Assumptions T15a_lossless.

Theorem T15a_compress_succeeds : forall (L : libs), libs_complete L -> forall alg level x,
  In alg [COMP_SNAPPY; COMP_ZLIB; COMP_LZ4; COMP_LZ4HC; COMP_ZSTD] -> len x <= LZ4_MAX_INPUT_SIZE ->
  exists s, wrapper_compress_level L alg level x = COk s.
Proof. exact wrapper_compress_succeeds. Qed.
Print Assumptions T15a_compress_succeeds.

Theorem T15a_never_aborts : forall (L : libs), libs_complete L -> forall alg level x,
  wrapper_compress_level L alg level x <> CAbort /\ wrapper_compress L alg x <> CAbort.
Proof.
  intros L Hc alg level x. split; [apply wrapper_compress_never_aborts; exact Hc|].
  unfold wrapper_compress. apply wrapper_compress_never_aborts; exact Hc.
Qed.
Print Assumptions T15a_never_aborts.

(* the capacity obligations behind the two theorems, as plain inequalities *)
Theorem T15a_capacities : forall n,
  lz4_bound n + 4 <= INT_MAX /\ zstd_bound n <= zstd_capacity n /\ 1024 <= inflate_cap0 n /\
  (zstd_bound n <= INT_MAX -> zstd_capacity n <= INT_MAX).
Proof. intros n. repeat split; [apply lz4_bound_le|apply zstd_capacity_ge|apply inflate_cap0_ge|apply zstd_capacity_le]. Qed.
Print Assumptions T15a_capacities.

(* the hypotheses are satisfiable (libraries that store their input), and the pinned tree's zlib
   sizing 2n was below the bound for every input shorter than 13 bytes (finding F4) *)
Example T15_contracts_satisfiable : libs_sound store_libs /\ libs_complete store_libs /\
  wrapper_compress_level store_libs COMP_LZ4HC (-7) [1; 2; 3] = COk [3; 0; 0; 0; 1; 2; 3] /\
  wrapper_decompress store_libs COMP_LZ4 [3; 0; 0; 0; 1; 2; 3] = COk [1; 2; 3] /\
  wrapper_compress store_libs COMP_NONE [1] = CFail /\
  (forall n, n < 13 -> 2 * n < n + 13).
Proof.
  split; [exact store_libs_sound|]. split; [exact store_libs_complete|].
  split; [vm_compute; reflexivity|]. split; [vm_compute; reflexivity|]. split; [vm_compute; reflexivity|exact zlib_2n_too_small].
Qed.
