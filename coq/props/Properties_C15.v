(* C15 - Compression round trip for every algorithm, level and buffer.
   The four compression libraries are outside the model (oracles).  PROVED: the
   wrapper logic that is mtbl's own - algorithm names round-trip through
   to_str/from_str, from_str is case-insensitive equality with a table name and refuses
   everything else (tables regenerated from the source), the level handed to each
   library lies in that library's legal range for EVERY requested level, the LZ4
   length prefix round-trips.  NOT provable here: that zlib/lz4/zstd/snappy invert
   themselves and never need more than the capacity offered (documented contracts;
   exercised by engine c15 in forked children over every length 0..64 x contents x
   5 algorithms x levels from -10000 to 100, plus random buffers). *)
From Coq Require Import NArith ZArith List Lia String.
From Mtbl Require Import gen.Consts model.Bytes model.Codec model.Compress proofs.CompressProofs.
Local Open Scope N_scope.

Theorem T15b_names : 
  (forall t, In t COMP_ALL -> exists s, compression_type_to_str t = Some s /\ compression_type_from_str s = Some t) /\
  (forall s t, compression_type_from_str s = Some t -> exists name, In (name, t) COMP_FROM_STR /\ lower s = lower name) /\
  (forall s, (forall name t, In (name, t) COMP_FROM_STR -> lower s <> lower name) -> compression_type_from_str s = None).
Proof.
  split; [|split; [exact from_str_sound|exact from_str_unknown]].
  intros t Hin. pose proof names_roundtrip as H. rewrite forallb_forall in H. specialize (H t Hin).
  destruct (compression_type_to_str t) as [s|]; [|discriminate]. exists s. split; [reflexivity|].
  destruct (compression_type_from_str s) as [t'|]; [|discriminate]. apply N.eqb_eq in H. subst. reflexivity.
Qed.
Print Assumptions T15b_names.

Theorem T15a_levels_partial :
  (forall l, (-1 <= zlib_level l <= 9)%Z) /\ (forall l, (0 <= lz4hc_level l)%Z) /\
  (forall minl maxl l, (minl <= maxl)%Z -> (minl <= zstd_level minl maxl l <= maxl)%Z) /\
  (forall n body, n < 2 ^ 32 -> lz4_unwrap (lz4_wrap n body) = Some (n, body)).
Proof.
  split; [exact zlib_level_range|]. split; [exact lz4hc_level_range|].
  split; [exact zstd_level_range|exact lz4_prefix_roundtrip].
Qed.
Print Assumptions T15a_levels_partial.
