(* C07 - Fileset view follows the setfile; open iterators pin their snapshot.
   PROVED:
   T07a_no_use_after_unload - for every initial world, reload interval and filters, and EVERY
     history of {rewrite the setfile, create / delete files, advance the clock, reload,
     reload_now, open an iterator, close an iterator, dup with other options, destroy} through
     any number of handles, no handle ever builds an iterator over a reader that a reload has
     unloaded.  (Invariant: loaded and unloaded readers are disjoint; a handle whose stamp equals
     the shared one has a merger over loaded readers only; stamps are past clock readings and
     every reading is later than the one before.)  Setfile lines are distinct names.
   T07c - no reload, through any handle, changes the set of loaded files while an iterator on
     the shared fileset is open (reload_now only records the request); with no iterator open a
     requested or due reload is performed at that very operation; interval NEVER reloads only on
     request.
   The view clause (an iterator sees the merge of the files named by the setfile as of the most
     recent reload, restricted by the handle's filters) is checked by engine fs on every
     generated history: views of the implementation = views of model/Fileset.v, with a
     driver-controlled monotonic clock; the ASan build runs the same histories. *)
From Coq Require Import NArith List Lia.
From Mtbl Require Import gen.Consts model.Bytes model.Fileset proofs.FilesetProofs.
Local Open Scope N_scope.

Theorem T07a_no_use_after_unload : forall w interval nf rf ops,
  NoDup (w_set_lines w) ->
  (forall lines, In (OpSetFile lines) ops -> NoDup lines) ->
  Forall (fun o => o <> OutUAF) (frun (fs_init w interval nf rf) ops).
Proof.
  intros w interval nf rf ops Hw Hops. apply no_use_after_unload; [apply finv_init, Hw|exact Hops].
Qed.
Print Assumptions T07a_no_use_after_unload.

(* T07c: what a reload may do, by the number of open iterators *)
Theorem T07c_never_while_iterators_open : forall w s h, 0 < sh_n_iters s ->
  (let '(w', s', _) := fileset_reload w s h in
     w' = w /\ sh_entries s' = sh_entries s /\ sh_dead s' = sh_dead s /\ sh_reload_needed s' = sh_reload_needed s) /\
  (let '(w', s', _) := fileset_reload_now w s h in
     w' = w /\ sh_entries s' = sh_entries s /\ sh_dead s' = sh_dead s /\ sh_reload_needed s' = true).
Proof.
  intros w s h Hn. assert (E : (0 <? sh_n_iters s) = true) by (apply N.ltb_lt; exact Hn). split.
  - unfold fileset_reload. destruct (negb (sh_reload_needed s) && _); [repeat split|].
    rewrite E. repeat split.
  - unfold fileset_reload_now. rewrite E. repeat split.
Qed.
Print Assumptions T07c_never_while_iterators_open.

Theorem T07c_reload_when_due : forall w s h, sh_n_iters s = 0 ->
  (* reload_now: always *)
  fileset_reload_now w s h = (let w1 := tick w in let '(s', h') := do_reload w1 s (sync_handle s h) in (w1, s', h')) /\
  (* reload: when requested, or when more than the interval (in whole seconds) has elapsed *)
  ((sh_reload_needed s = true \/
    (h_interval (sync_handle s h) <> FILESET_RELOAD_INTERVAL_NEVER /\ h_interval (sync_handle s h) < w_sec (tick w) - sh_last_sec s)) ->
   fileset_reload w s h = (let w1 := tick w in let '(s', h') := do_reload w1 s (sync_handle s h) in (w1, s', h'))) /\
  (* interval NEVER and nothing requested: nothing happens *)
  (sh_reload_needed s = false -> h_interval (sync_handle s h) = FILESET_RELOAD_INTERVAL_NEVER ->
   fileset_reload w s h = (w, s, sync_handle s h)).
Proof.
  intros w s h Hn. split; [|split].
  - unfold fileset_reload_now. rewrite Hn. reflexivity.
  - intros H. unfold fileset_reload. rewrite Hn. change (0 <? 0) with false.
    destruct H as [H|[H1 H2]].
    + rewrite H. cbn [negb andb orb]. reflexivity.
    + rewrite (proj2 (N.eqb_neq _ _) H1), Bool.andb_false_r.
      rewrite (proj2 (N.ltb_lt _ _) H2), Bool.orb_true_r. reflexivity.
  - intros H1 H2. unfold fileset_reload. rewrite H1, H2. rewrite N.eqb_refl. reflexivity.
Qed.
Print Assumptions T07c_reload_when_due.

(* the history that crashed the pinned tree (dup; both used; setfile drops a file; reload_now
   through A, then through B; iterate B): no UAF, and B sees the new view *)
Example T07_example :
  let w0 := mkworld 1 1 [] [] 1000 0 in
  let ops := [OpCreate 1 (FTable 1); OpCreate 2 (FTable 2); OpSetFile [1; 2]; OpDup 0 0 None None; OpOpen 0; OpClose 0;
              OpOpen 1; OpClose 1; OpSetFile [2]; OpAdvance 1 5; OpReloadNow 0; OpReloadNow 1; OpOpen 1; OpClose 2] in
  let outs := frun (fs_init w0 0 None None) ops in
  Forall (fun o => o <> OutUAF) outs /\ nth 12 outs OutNone = OutView [2] /\ nth 4 outs OutNone = OutView [1; 2].
Proof. vm_compute. split; [repeat constructor; discriminate|split; reflexivity]. Qed.
