(* C07 - Fileset view follows the setfile; open iterators pin their snapshot.
   PROVED:
   T07a_no_use_after_unload - for every initial world, reload interval and filters, and EVERY
     history of {rewrite the setfile, create / delete files, advance the clock, reload,
     reload_now, open an iterator, close an iterator, dup with other options, destroy} through
     any number of handles, no handle ever builds an iterator over a reader that a reload has
     unloaded.  (Invariant: loaded and unloaded readers are disjoint; a handle whose stamp equals
     the shared one has a merger over loaded readers only; stamps are past clock readings and
     every reading is later than the one before.)  Setfile lines are distinct names.
   T07c - no reload, through any handle, changes the set of loaded files while an iterator on
     the shared fileset is open (reload_now only records the request); with no iterator open a
     requested or due reload is performed at that very operation; interval NEVER reloads only on
     request.
   The view clause (an iterator sees the merge of the files named by the setfile as of the most
     recent reload, restricted by the handle's filters) is checked by engine fs on every
     generated history: views of the implementation = views of model/Fileset.v, with a
     driver-controlled monotonic clock; the ASan build runs the same histories. *)
From Coq Require Import NArith Arith List Lia Bool.
From Mtbl Require Import gen.Consts model.Bytes model.Fileset proofs.FilesetProofs proofs.FilesetView.
(* source ties: the statements of the C functions the model follows (gen/Ties.v is regenerated from /repo on every run) *)
From Mtbl Require props.Ties_C07.
Import ListNotations.
Local Open Scope N_scope.

Theorem T07a_no_use_after_unload : forall w interval nf rf ops,
  NoDup (w_set_lines w) ->
  (forall lines, In (OpSetFile lines) ops -> NoDup lines) ->
  Forall (fun o => o <> OutUAF) (frun (fs_init w interval nf rf) ops).
Proof.
  intros w interval nf rf ops Hw Hops. apply no_use_after_unload; [apply finv_init, Hw|exact Hops].
Qed.
Print Assumptions T07a_no_use_after_unload.

(* T07c: what a reload may do, by the number of open iterators *)
Theorem T07c_never_while_iterators_open : forall w s h, 0 < sh_n_iters s ->
  (let '(w', s', _) := fileset_reload w s h in
     w' = w /\ sh_entries s' = sh_entries s /\ sh_dead s' = sh_dead s /\ sh_reload_needed s' = sh_reload_needed s) /\
  (let '(w', s', _) := fileset_reload_now w s h in
     w' = w /\ sh_entries s' = sh_entries s /\ sh_dead s' = sh_dead s /\ sh_reload_needed s' = true).
Proof.
  intros w s h Hn. assert (E : (0 <? sh_n_iters s) = true) by (apply N.ltb_lt; exact Hn). split.
  - unfold fileset_reload. destruct (negb (sh_reload_needed s) && _); [repeat split|].
    rewrite E. repeat split.
  - unfold fileset_reload_now. rewrite E. repeat split.
Qed.
Print Assumptions T07c_never_while_iterators_open.

Theorem T07c_reload_when_due : forall w s h, sh_n_iters s = 0 ->
  (* reload_now: always *)
  fileset_reload_now w s h = (let w1 := tick w in let '(s', h') := do_reload w1 s (sync_handle s h) in (w1, s', h')) /\
  (* reload: when requested, or when more than the interval (in whole seconds) has elapsed *)
  ((sh_reload_needed s = true \/
    (h_interval (sync_handle s h) <> FILESET_RELOAD_INTERVAL_NEVER /\ h_interval (sync_handle s h) < w_sec (tick w) - sh_last_sec s)) ->
   fileset_reload w s h = (let w1 := tick w in let '(s', h') := do_reload w1 s (sync_handle s h) in (w1, s', h'))) /\
  (* interval NEVER and nothing requested: nothing happens *)
  (sh_reload_needed s = false -> h_interval (sync_handle s h) = FILESET_RELOAD_INTERVAL_NEVER ->
   fileset_reload w s h = (w, s, sync_handle s h)).
Proof.
  intros w s h Hn. split; [|split].
  - unfold fileset_reload_now. rewrite Hn. reflexivity.
  - intros H. unfold fileset_reload. rewrite Hn. change (0 <? 0) with false.
    destruct H as [H|[H1 H2]].
    + rewrite H. cbn [negb andb orb]. reflexivity.
    + rewrite (proj2 (N.eqb_neq _ _) H1), Bool.andb_false_r.
      rewrite (proj2 (N.ltb_lt _ _) H2), Bool.orb_true_r. reflexivity.
  - intros H1 H2. unfold fileset_reload. rewrite H1, H2. rewrite N.eqb_refl. reflexivity.
Qed.
Print Assumptions T07c_reload_when_due.

(* the history that crashed the pinned tree (dup; both used; setfile drops a file; reload_now
   through A, then through B; iterate B): no UAF, and B sees the new view *)
Example T07_example :
  let w0 := mkworld 1 1 [] [] 1000 0 in
  let ops := [OpCreate 1 (FTable 1); OpCreate 2 (FTable 2); OpSetFile [1; 2]; OpDup 0 0 None None; OpOpen 0; OpClose 0;
              OpOpen 1; OpClose 1; OpSetFile [2]; OpAdvance 1 5; OpReloadNow 0; OpReloadNow 1; OpOpen 1; OpClose 2] in
  let outs := frun (fs_init w0 0 None None) ops in
  Forall (fun o => o <> OutUAF) outs /\ nth 12 outs OutNone = OutView [2] /\ nth 4 outs OutNone = OutView [1; 2].
Proof. vm_compute. split; [repeat constructor; discriminate|split; reflexivity]. Qed.


(* ======================================================================================= *)
(* C07, the view and pinning clauses, on model/Fileset.v, for every history from fs_init.
   Hypotheses on histories (all executable, see wf_op / wf_hist in proofs/FilesetView.v):
     H-lines  the lines of the initial setfile and of every OpSetFile are distinct names
              (lines_ok; used by every theorem);
     H-live   the handle of the OpOpen whose view is described exists and is not destroyed
              (live_handle; used by T07b_view* only, and only for that one operation).
   The other clauses of wf_op (operations name live handles, OpClose names an open iterator,
   OpDestroy only without open iterators) are NOT needed by any theorem below.
   PROVED (each closed under the global context)
   T07b_view_filtered_loaded_set  a new iterator of a live handle is over exactly the loaded entries
       that have a reader and pass the handle's filename and reader filters, in name order, and is
       recorded with these sources as its snapshot                                   (tiers 1, 4)
   T07b_my_fileset_reload         one call of my_fileset_reload: unchanged stamp - nothing changes;
       changed stamp - the new loaded set, the fresh readers, the unloaded readers      (tier 2)
   T07b_loaded_set                in every reachable state the loaded entries are the lines of the
       setfile whose path exists, as of the most recent step that re-read the setfile, sorted by
       name; kept names keep reader and table, new names get fresh readers              (tier 2)
   T07b_most_recent_reload, T07b_reread_iff   what the ghost of T07b_loaded_set refers to
   T07b_view, T07b_view_at, T07b_view_wf      tiers 1 + 2: the output of every OpOpen
   T07b_handle_filters, T07b_created_filters, T07b_dup_filters   handles keep their filters
   T07d_iter_count                n_iters = number of open iterators
   T07d_open_iterators_loaded     (a) readers of open iterators are loaded and not unloaded
   T07d_snapshot_fixed            (b) handle and snapshot of an iterator never change
   T07d_no_reload_while_open, T07d_no_reload_step   (c) nothing loaded / unloaded while open
   T07d_open_iterator_is_current_view   an open iterator is still the current filtered view
   T07e_reload_now_deferred, T07e_request_pending, T07e_request_performed,
   T07e_close_last_iterator, T07e_deferred_reload   a reload requested while an iterator is open
       runs at the first reload call made with the iterator count at 0
   Examples: a computed history; three caveats on "files named in the setfile as of the most
       recent reload" (end of file).
   Model hypotheses inherited from model/Fileset.v: every clock reading is strictly later than the
   previous one (tick); every rewrite of the setfile changes its (ino, mtime) (OpSetFile). *)
Lemma live_handle_spec st hi : live_handle st hi = true ->
  (hi < length (fs_handles st))%nat /\ h_alive (nth hi (fs_handles st) dummy_handle) = true.
Proof.
  unfold live_handle. intros H. apply Bool.andb_true_iff in H. destruct H as [H1 H2]. apply Nat.ltb_lt in H1. split; assumption.
Qed.

Lemma frun_single st op : frun st [op] = [snd (fstep st op)].
Proof. cbn [frun]. destruct (fstep st op). reflexivity. Qed.

(* ---- tiers 1 and 4 ------------------------------------------------------------------------------------------ *)
Theorem T07b_view_filtered_loaded_set : forall w interval nf rf ops hi,
  NoDup (w_set_lines w) -> lines_ok ops ->
  let st0 := fs_init w interval nf rf in
  let st := fexec st0 ops in
  live_handle st hi = true ->
  let h := nth hi (fs_handles st) dummy_handle in
  let st' := fexec st0 (ops ++ [OpOpen hi]) in
  let h' := nth hi (fs_handles st') dummy_handle in
  (* the output of the open *)
  last (frun st0 (ops ++ [OpOpen hi])) OutNone = OutView (map snd (reinit_merger (fs_shared st') h')) /\
  (* ... is the tables of the loaded entries that have a reader and pass the handle's filters *)
  map snd (reinit_merger (fs_shared st') h') = map fe_table (filter (passes h) (sh_entries (fs_shared st'))) /\
  (* the iterator is recorded with these sources as its snapshot *)
  fs_iters st' = fs_iters st ++ [(hi, map source_of (filter (passes h) (sh_entries (fs_shared st'))), true)].
Proof.
  intros w interval nf rf ops hi Hw Hl st0 st Hlive h st' h'.
  destruct (live_handle_spec st hi Hlive) as [Hhi Hal].
  assert (Hv : vinv st) by (apply vinv_exec; [apply vinv_init, Hw|exact Hl]).
  assert (Est : st' = fst (fstep st (OpOpen hi))) by (unfold st', st; rewrite fexec_app; reflexivity).
  rewrite frun_app, frun_single, last_last. fold st.
  subst h'. clearbody st'. subst st'.
  destruct (open_view st hi Hv Hhi Hal) as (O1 & O2 & O3 & O4 & O5).
  set (h' := nth hi (fs_handles (fst (fstep st (OpOpen hi)))) dummy_handle) in *.
  assert (Hopts : same_opts h h') by (pose proof (handle_opts_step st (OpOpen hi) hi Hhi) as [_ H]; exact H).
  assert (Ef : reinit_merger (fs_shared (fst (fstep st (OpOpen hi)))) h' = map source_of (filter (passes h) (sh_entries (fs_shared (fst (fstep st (OpOpen hi))))))).
  { rewrite reinit_merger_filter, (passes_opts h h' Hopts). reflexivity. }
  splits.
  - exact O1.
  - rewrite Ef, map_map. reflexivity.
  - rewrite <- Ef. exact O2.
Qed.
Print Assumptions T07b_view_filtered_loaded_set.

(* ---- tier 2 -------------------------------------------------------------------------------------------------- *)
(* last_reread st0 ops None is the ghost: None when no step of the history re-read the setfile,
   else the world (setfile lines, existing paths), the loaded set and the reader counter just
   before the most recent step that re-read it (last_reread_split).  A step re-reads the setfile iff
   do_reload ran with a setfile whose (ino, mtime) differs from the recorded one (reread_spec). *)
Theorem T07b_loaded_set : forall w interval nf rf ops,
  NoDup (w_set_lines w) -> lines_ok ops ->
  let st0 := fs_init w interval nf rf in
  let ents := sh_entries (fs_shared (fexec st0 ops)) in
  ents = expected_entries (last_reread st0 ops None) /\
  match last_reread st0 ops None with
  | None => ents = []
  | Some g =>
    (* sorted ascending by name *)
    sorted ents /\
    (* the names are the lines of the setfile, as of that reload, whose path existed then *)
    (forall n, In n (names_of ents) <-> In n (w_set_lines (g_world g)) /\ lookup_file (g_world g) n <> None) /\
    (* a name that was loaded keeps reader and table; a new one gets a fresh reader and the table in the file *)
    (forall e, In e ents -> entry_ok (g_world g) (g_old g) (g_next g)
                                     (g_next g + count (is_new_table (g_world g) (g_old g)) (w_set_lines (g_world g))) e)
  end.
Proof.
  intros w interval nf rf ops Hw Hl st0 ents.
  destruct (loaded_set_gen ops st0 None (vinv_init w interval nf rf Hw) Hl I eq_refl) as [E Hg].
  fold ents in E. split; [exact E|]. destruct (last_reread st0 ops None) as [g|]; [|exact E].
  cbn [expected_entries ghost_ok] in *. rewrite E. apply setfile_view_spec, Hg.
Qed.
Print Assumptions T07b_loaded_set.

(* which step the ghost refers to *)
Theorem T07b_most_recent_reload : forall w interval nf rf ops g,
  let st0 := fs_init w interval nf rf in
  last_reread st0 ops None = Some g ->
  exists pre op post, ops = pre ++ op :: post /\
    reread (fexec st0 pre) op = true /\                       (* this step re-read the setfile *)
    no_reread (fexec st0 (pre ++ [op])) post /\               (* no later step did *)
    g = mkghost (fs_world (fexec st0 pre)) (sh_entries (fs_shared (fexec st0 pre))) (sh_next_reader (fs_shared (fexec st0 pre))).
Proof.
  intros w interval nf rf ops g st0 E. destruct (last_reread_split ops st0 None g E) as [[_ H]|(pre & op & post & H1 & H2 & H3 & H4)]; [discriminate|].
  exists pre, op, post. splits; assumption.
Qed.
Print Assumptions T07b_most_recent_reload.

(* a step re-reads the setfile exactly when a reload runs (no iterator open) and finds a changed stamp *)
Theorem T07b_reread_iff : forall st op, reachable st -> (forall lines, op = OpSetFile lines -> NoDup lines) ->
  (reread st op = true <->
   reloaded st (fst (fstep st op)) /\ stamp_same (tick (fs_world st)) (fs_shared st) = false).
Proof. intros st op Hr Hop. exact (proj1 (reread_spec st op (reachable_vinv st Hr) Hop)). Qed.
Print Assumptions T07b_reread_iff.

(* one call of my_fileset_reload *)
Theorem T07b_my_fileset_reload : forall w s, sinv s -> NoDup (w_set_lines w) ->
  let '(s1, loaded, unloaded) := my_fileset_reload w s in
  if stamp_same w s
  then (* the setfile has the recorded (ino, mtime): nothing changes *)
       s1 = s /\ loaded = 0 /\ unloaded = 0
  else
    let ents := sh_entries s1 in
    sorted ents /\
    (forall n, In n (names_of ents) <-> In n (w_set_lines w) /\ lookup_file w n <> None) /\
    (forall e, In e ents -> entry_ok w (sh_entries s) (sh_next_reader s) (sh_next_reader s1) e) /\
    (* readers handed out before are below the counter, so the new ones are fresh *)
    (forall r, In r (live s) \/ In r (sh_dead s) -> r < sh_next_reader s) /\
    (* unloaded: the readers of the loaded names that are no longer a line of the setfile with an existing path *)
    (forall r, In r (sh_dead s1) <->
       In r (sh_dead s) \/
       exists e, In e (sh_entries s) /\ fe_reader e = Some r /\ ~ (In (fe_name e) (w_set_lines w) /\ lookup_file w (fe_name e) <> None)) /\
    sh_last_ino s1 = w_set_ino w /\ sh_last_mtime s1 = w_set_mtime w /\
    loaded = count (is_new w (sh_entries s)) (w_set_lines w) /\
    unloaded = N.of_nat (length (dropped_of w (sh_entries s))).
Proof.
  intros w s Hs Hnd. rewrite my_fileset_reload_spec. destruct (stamp_same w s); [splits; reflexivity|].
  cbv zeta. cbn [sh_entries sh_next_reader sh_dead sh_last_ino sh_last_mtime].
  destruct (setfile_view_spec w (sh_entries s) (sh_next_reader s) Hnd) as (S1 & S2 & S3).
  splits; try assumption; try reflexivity.
  - intros r [Hr|Hr]; [exact (si_live_lt s Hs r Hr)|exact (si_dead_lt s Hs r Hr)].
  - intros r. apply in_dead_after. exact (si_names s Hs).
Qed.
Print Assumptions T07b_my_fileset_reload.

(* ---- tiers 1 + 2 ---------------------------------------------------------------------------------------------- *)
Theorem T07b_view : forall w interval nf rf ops hi,
  NoDup (w_set_lines w) -> lines_ok ops ->
  let st0 := fs_init w interval nf rf in
  live_handle (fexec st0 ops) hi = true ->
  let h := nth hi (fs_handles (fexec st0 ops)) dummy_handle in
  last (frun st0 (ops ++ [OpOpen hi])) OutNone =
  OutView (map fe_table (filter (passes h) (expected_entries (last_reread st0 (ops ++ [OpOpen hi]) None)))).
Proof.
  intros w interval nf rf ops hi Hw Hl st0 Hlive h.
  destruct (T07b_view_filtered_loaded_set w interval nf rf ops hi Hw Hl Hlive) as (V1 & V2 & _).
  assert (Hl' : lines_ok (ops ++ [OpOpen hi])).
  { intros lines Hin. apply in_app_or in Hin. destruct Hin as [Hin|[Hin|[]]]; [apply Hl, Hin|discriminate]. }
  destruct (T07b_loaded_set w interval nf rf (ops ++ [OpOpen hi]) Hw Hl') as [E _].
  fold st0 in V1, V2, E. fold h in V2. rewrite V1, V2, E. reflexivity.
Qed.
Print Assumptions T07b_view.

(* every OpOpen of a history, by its position *)
Lemma frun_length : forall ops st, length (frun st ops) = length ops.
Proof.
  induction ops as [|op ops IH]; intros st; [reflexivity|]. cbn [frun]. destruct (fstep st op) as [st' o]. cbn [length]. f_equal. apply IH.
Qed.

Corollary T07b_view_at : forall w interval nf rf pre hi post,
  NoDup (w_set_lines w) -> lines_ok (pre ++ OpOpen hi :: post) ->
  let st0 := fs_init w interval nf rf in
  live_handle (fexec st0 pre) hi = true ->
  let h := nth hi (fs_handles (fexec st0 pre)) dummy_handle in
  nth (length pre) (frun st0 (pre ++ OpOpen hi :: post)) OutNone =
  OutView (map fe_table (filter (passes h) (expected_entries (last_reread st0 (pre ++ [OpOpen hi]) None)))).
Proof.
  intros w interval nf rf pre hi post Hw Hl st0 Hlive h.
  assert (Hl1 : lines_ok pre) by (intros lines Hin; apply Hl, in_or_app; left; exact Hin).
  pose proof (T07b_view w interval nf rf pre hi Hw Hl1 Hlive) as Hv. fold st0 h in Hv. rewrite <- Hv.
  change (pre ++ OpOpen hi :: post) with (pre ++ [OpOpen hi] ++ post). rewrite app_assoc, (frun_app (pre ++ [OpOpen hi])).
  rewrite app_nth1 by (rewrite frun_length, app_length; cbn [length]; lia).
  rewrite frun_app, frun_single. rewrite app_nth2 by (rewrite frun_length; lia). rewrite frun_length, Nat.sub_diag. cbn [nth].
  rewrite last_last. reflexivity.
Qed.
Print Assumptions T07b_view_at.

(* the same under the executable well-formedness check *)
Corollary T07b_view_wf : forall w interval nf rf ops hi,
  nodupb (w_set_lines w) = true ->
  let st0 := fs_init w interval nf rf in
  wf_hist st0 (ops ++ [OpOpen hi]) = true ->
  let h := nth hi (fs_handles (fexec st0 ops)) dummy_handle in
  last (frun st0 (ops ++ [OpOpen hi])) OutNone =
  OutView (map fe_table (filter (passes h) (expected_entries (last_reread st0 (ops ++ [OpOpen hi]) None)))).
Proof.
  intros w interval nf rf ops hi Hw st0 Hwf h. rewrite wf_hist_app in Hwf. apply Bool.andb_true_iff in Hwf. destruct Hwf as [H1 H2].
  cbn [wf_hist wf_op] in H2. rewrite Bool.andb_true_r in H2.
  apply T07b_view; [apply nodupb_NoDup, Hw|exact (wf_hist_lines_ok _ _ H1)|exact H2].
Qed.
Print Assumptions T07b_view_wf.

(* a handle keeps the filters it was created with *)
Theorem T07b_handle_filters : forall st ops hi, (hi < length (fs_handles st))%nat ->
  (hi < length (fs_handles (fexec st ops)))%nat /\
  same_opts (nth hi (fs_handles st) dummy_handle) (nth hi (fs_handles (fexec st ops)) dummy_handle).
Proof. intros. apply handle_opts_exec. assumption. Qed.
Print Assumptions T07b_handle_filters.

(* ... which are those given to fs_init (handle 0) or to dup (handle number = the number of handles before) *)
Theorem T07b_created_filters : forall w interval nf rf ops,
  let h := nth 0 (fs_handles (fexec (fs_init w interval nf rf) ops)) dummy_handle in
  h_name_filter h = nf /\ h_reader_filter h = rf /\ h_interval h = interval.
Proof.
  intros w interval nf rf ops. cbv zeta.
  destruct (handle_opts_exec ops (fs_init w interval nf rf) 0%nat ltac:(cbn; lia)) as [_ (E1 & E2 & E3)].
  rewrite E1, E2, E3. splits; reflexivity.
Qed.
Print Assumptions T07b_created_filters.

Theorem T07b_dup_filters : forall st hi interval nf rf ops,
  let k := length (fs_handles st) in
  let h := nth k (fs_handles (fexec st (OpDup hi interval nf rf :: ops))) dummy_handle in
  h_name_filter h = nf /\ h_reader_filter h = rf /\ h_interval h = interval.
Proof.
  intros st hi interval nf rf ops. cbv zeta. cbn [fexec fold_left].
  destruct (dup_handle st hi interval nf rf) as (D1 & D2 & D3 & D4 & _).
  destruct (handle_opts_exec ops (fst (fstep st (OpDup hi interval nf rf))) (length (fs_handles st)) ltac:(rewrite D1; lia)) as [_ (E1 & E2 & E3)].
  unfold fexec in *. rewrite E1, E2, E3. splits; assumption.
Qed.
Print Assumptions T07b_dup_filters.

(* ---- tier 3: pinning --------------------------------------------------------------------------------------- *)
(* the iterator count is the number of open iterators *)
Theorem T07d_iter_count : forall st, reachable st -> sh_n_iters (fs_shared st) = N.of_nat (nopen (fs_iters st)).
Proof. intros st Hr. destruct (reachable_vinv st Hr) as (_ & _ & _ & _ & H & _). exact H. Qed.
Print Assumptions T07d_iter_count.

(* (a) the readers an open iterator was created over are loaded, and none of them has been unloaded *)
Theorem T07d_open_iterators_loaded : forall st ii hi snap, reachable st ->
  nth_error (fs_iters st) ii = Some (hi, snap, true) ->
  forall p, In p snap -> In (fst p) (live (fs_shared st)) /\ ~ In (fst p) (sh_dead (fs_shared st)).
Proof.
  intros st ii hi snap Hr E p Hp. destruct (reachable_vinv st Hr) as ((Hs & _) & _ & _ & _ & _ & Hpin).
  pose proof (Hpin hi snap (nth_error_In _ _ E) p Hp) as Hlive. split; [exact Hlive|exact (si_disj _ Hs _ Hlive)].
Qed.
Print Assumptions T07d_open_iterators_loaded.

(* (b) the handle and the snapshot of an iterator never change; a closed iterator stays closed *)
Theorem T07d_snapshot_fixed : forall st ops ii hi snap b, nth_error (fs_iters st) ii = Some (hi, snap, b) ->
  exists b', nth_error (fs_iters (fexec st ops)) ii = Some (hi, snap, b') /\ (b' = true -> b = true).
Proof. intros. apply iter_exec. assumption. Qed.
Print Assumptions T07d_snapshot_fixed.

(* (c) from a state in which an iterator is open to any later state in which it is still open,
       nothing is loaded or unloaded and the reload stamps do not move *)
Theorem T07d_no_reload_while_open : forall st ops ii hi snap, reachable st -> lines_ok ops ->
  nth_error (fs_iters st) ii = Some (hi, snap, true) ->
  nth_error (fs_iters (fexec st ops)) ii = Some (hi, snap, true) ->
  let s := fs_shared st in let s' := fs_shared (fexec st ops) in
  sh_entries s' = sh_entries s /\ sh_dead s' = sh_dead s /\ sh_next_reader s' = sh_next_reader s /\
  sh_last_ino s' = sh_last_ino s /\ sh_last_mtime s' = sh_last_mtime s /\
  sh_last_sec s' = sh_last_sec s /\ sh_last_nsec s' = sh_last_nsec s.
Proof.
  intros st ops ii hi snap Hr Hl E E'. destruct (pinned_exec ops st ii hi snap (reachable_vinv st Hr) Hl E E') as (A1 & A2 & A3 & A4 & A5 & A6 & A7).
  cbv zeta. splits; assumption.
Qed.
Print Assumptions T07d_no_reload_while_open.

(* so an iterator created by a live handle, while it is open, is still over exactly the loaded
   entries that pass the handle's filters *)
Theorem T07d_open_iterator_is_current_view : forall w interval nf rf ops hi ops2,
  NoDup (w_set_lines w) -> lines_ok ops -> lines_ok ops2 ->
  let st0 := fs_init w interval nf rf in
  let st := fexec st0 ops in
  live_handle st hi = true ->
  let h := nth hi (fs_handles st) dummy_handle in
  let ii := length (fs_iters st) in
  let st2 := fexec st0 ((ops ++ [OpOpen hi]) ++ ops2) in
  forall snap, nth_error (fs_iters st2) ii = Some (hi, snap, true) ->
  snap = map source_of (filter (passes h) (sh_entries (fs_shared st2))).
Proof.
  intros w interval nf rf ops hi ops2 Hw Hl Hl2 st0 st Hlive h ii st2 snap E2.
  destruct (T07b_view_filtered_loaded_set w interval nf rf ops hi Hw Hl Hlive) as (_ & _ & V3).
  fold st0 st h in V3. set (st1 := fexec st0 (ops ++ [OpOpen hi])) in *.
  assert (E1 : nth_error (fs_iters st1) ii = Some (hi, map source_of (filter (passes h) (sh_entries (fs_shared st1))), true)).
  { rewrite V3. unfold ii. rewrite nth_error_app2, Nat.sub_diag by lia. reflexivity. }
  assert (Est2 : st2 = fexec st1 ops2) by (unfold st2, st1; apply fexec_app).
  destruct (iter_exec ops2 st1 ii _ _ _ E1) as (b' & E2' & _). rewrite <- Est2, E2 in E2'. inversion E2' as [[Hs Hb]]. subst b'.
  assert (Hl1 : lines_ok (ops ++ [OpOpen hi])).
  { intros lines Hin. apply in_app_or in Hin. destruct Hin as [Hin|[Hin|[]]]; [apply Hl, Hin|discriminate]. }
  assert (Hv1 : vinv st1) by (apply vinv_exec; [apply vinv_init, Hw|exact Hl1]).
  rewrite Hs in E2. rewrite Est2 in E2.
  destruct (pinned_exec ops2 st1 ii _ _ Hv1 Hl2 E1 E2) as (_ & _ & _ & _ & A5 & _). rewrite Est2, A5. reflexivity.
Qed.
Print Assumptions T07d_open_iterator_is_current_view.

(* (c') a reload_now while an iterator is open only records the request ... *)
Theorem T07e_reload_now_deferred : forall st hi, 0 < sh_n_iters (fs_shared st) ->
  let st' := fst (fstep st (OpReloadNow hi)) in
  unchanged st st' /\ sh_reload_needed (fs_shared st') = true /\ fs_world st' = fs_world st /\ fs_iters st' = fs_iters st.
Proof. intros. apply reload_now_deferred. assumption. Qed.
Print Assumptions T07e_reload_now_deferred.

(* ... the request stays recorded, and nothing is loaded or unloaded, over every step that does not
   run the reload; such a step makes no reload call with the iterator count at 0 ... *)
Theorem T07e_request_pending : forall st op, reachable st -> (forall lines, op = OpSetFile lines -> NoDup lines) ->
  sh_reload_needed (fs_shared st) = true ->
  let st' := fst (fstep st op) in
  (unchanged st st' /\ sh_reload_needed (fs_shared st') = true /\
   forall c, reload_call st op = Some c -> 0 < sh_n_iters (snd (fst c))) \/
  reloaded st st'.
Proof. intros st op Hr Hop Hn. exact (pending_step st op (reachable_vinv st Hr) Hop Hn). Qed.
Print Assumptions T07e_request_pending.

(* ... and the reload runs at the first reload call (OpReload, OpReloadNow, OpOpen, or the OpClose of
   an open iterator, after its decrement) made with the iterator count at 0 *)
Theorem T07e_request_performed : forall st op c, reachable st ->
  reload_call st op = Some c -> sh_n_iters (snd (fst c)) = 0 ->
  sh_reload_needed (fs_shared st) = true ->
  reloaded st (fst (fstep st op)).
Proof. intros st op c Hr. apply pending_performed, reachable_vinv, Hr. Qed.
Print Assumptions T07e_request_performed.

(* in particular: closing the last open iterator with a request pending runs the reload at that step *)
Corollary T07e_close_last_iterator : forall st ii hi snap, reachable st ->
  nth_error (fs_iters st) ii = Some (hi, snap, true) -> nopen (fs_iters st) = 1%nat ->
  sh_reload_needed (fs_shared st) = true ->
  let st' := fst (fstep st (OpClose ii)) in
  reloaded st st' /\ sh_reload_needed (fs_shared st') = false /\ nopen (fs_iters st') = 0%nat.
Proof.
  intros st ii hi snap Hr E Hone Hn. cbv zeta. pose proof (T07d_iter_count st Hr) as Hc.
  assert (Hrel : reloaded st (fst (fstep st (OpClose ii)))).
  { eapply T07e_request_performed; [exact Hr| | |exact Hn].
    - cbn [reload_call]. rewrite E. reflexivity.
    - cbn [fst snd]. unfold set_iters. cbn [sh_n_iters]. lia. }
  split; [exact Hrel|]. split; [exact (proj1 (proj2 (proj2 (proj2 (proj2 (proj2 (proj2 (proj2 (proj2 Hrel)))))))))|].
  pose proof (nopen_close (fs_iters st) ii hi snap E) as Hcl.
  destruct st as [w s hs its]. cbn [fstep fs_world fs_shared fs_handles fs_iters] in *. rewrite E.
  destruct (fileset_reload w (set_iters s (sh_n_iters s - 1)) (nth hi hs dummy_handle)) as [[w' s'] h']. cbn [fst fs_iters]. lia.
Qed.
Print Assumptions T07e_close_last_iterator.

(* (c) per step: with an iterator open before the step and an iterator open after it, the step loads
       and unloads nothing (the only steps that can: the open of the first iterator, the close of the last) *)
Theorem T07d_no_reload_step : forall st op, reachable st -> (forall lines, op = OpSetFile lines -> NoDup lines) ->
  (0 < nopen (fs_iters st))%nat -> (0 < nopen (fs_iters (fst (fstep st op))))%nat ->
  unchanged st (fst (fstep st op)).
Proof. intros st op Hr. apply open_step_unchanged, reachable_vinv, Hr. Qed.
Print Assumptions T07d_no_reload_step.

(* the deferred reload over a history: after a reload_now made while an iterator is open, for every
   continuation, either no reload call has yet been made with the iterator count at 0 - then nothing
   has been loaded or unloaded and the request is still recorded - or the reload ran at the first
   such call *)
Theorem T07e_deferred_reload : forall st hi ops, reachable st -> lines_ok ops ->
  0 < sh_n_iters (fs_shared st) ->
  let st1 := fst (fstep st (OpReloadNow hi)) in
  (shared_same (fs_shared st) (fs_shared (fexec st1 ops)) /\ sh_reload_needed (fs_shared (fexec st1 ops)) = true /\ calls_blocked st1 ops) \/
  (exists pre op post c, ops = pre ++ op :: post /\
     shared_same (fs_shared st) (fs_shared (fexec st1 pre)) /\ calls_blocked st1 pre /\
     reload_call (fexec st1 pre) op = Some c /\ sh_n_iters (snd (fst c)) = 0 /\
     reloaded (fexec st1 pre) (fexec st1 (pre ++ [op]))).
Proof.
  intros st hi ops Hr Hl Hpos. cbv zeta. destruct (reload_now_deferred st hi Hpos) as ([Hsame _] & Hn & _).
  assert (Hv1 : vinv (fst (fstep st (OpReloadNow hi)))) by (apply vinv_step; [apply reachable_vinv, Hr|intros; discriminate]).
  destruct (pending_exec ops _ Hv1 Hl Hn) as [(I1 & I2 & I3)|(pre & op & post & c & E & I1 & I2 & I3 & I4 & I5 & I6)].
  - left. splits; try assumption. eapply shared_same_trans; eassumption.
  - right. exists pre, op, post, c. splits; try assumption. eapply shared_same_trans; eassumption.
Qed.
Print Assumptions T07e_deferred_reload.

(* ---- a history, computed ------------------------------------------------------------------------------------ *)
(* handle 1 keeps tables with an even id.  The setfile is rewritten while an iterator of handle 0 is
   open: reload_now is deferred, the iterator keeps its snapshot, and the close runs the reload *)
Example T07b_example :
  let w0 := mkworld 1 1 [3; 1; 2; 9] [(1, FTable 11); (2, FTable 12); (3, FNotTable)] 1000 0 in
  let st0 := fs_init w0 0 None None in
  let ops := [OpDup 0 0 None (Some 0); OpOpen 0; OpCreate 4 (FTable 14); OpSetFile [4; 2]; OpAdvance 5 0; OpReloadNow 1;
              OpOpen 1; OpClose 1; OpClose 0; OpOpen 1; OpOpen 0] in
  frun st0 ops = [OutNone; OutView [11; 12]; OutNone; OutNone; OutNone; OutNone;
                  OutView [12]; OutNone; OutNone; OutView [12; 14]; OutView [12; 14]] /\
  wf_hist st0 ops = true /\
  names_of (expected_entries (last_reread st0 (firstn 8 ops) None)) = [1; 2; 3] /\
  names_of (expected_entries (last_reread st0 ops None)) = [2; 4] /\
  sh_dead (fs_shared (fexec st0 ops)) = [1].
Proof. vm_compute. repeat split. Qed.

(* CAVEATS of "the files named in the setfile as of the most recent reload" (true of the model and
   of my_fileset.c:186-197): a name that stays in the setfile is not opened again.
   (1) the path was replaced by another table between two reloads: the view keeps the old table *)
Example T07b_caveat_replaced_file :
  let w0 := mkworld 1 1 [1] [(1, FTable 11)] 1000 0 in
  let ops := [OpOpen 0; OpClose 0; OpDelete 1; OpCreate 1 (FTable 99); OpSetFile [1]; OpAdvance 5 0; OpReloadNow 0; OpOpen 0] in
  frun (fs_init w0 0 None None) ops = [OutView [11]; OutNone; OutNone; OutNone; OutNone; OutNone; OutNone; OutView [11]] /\
  reread (fexec (fs_init w0 0 None None) (firstn 6 ops)) (OpReloadNow 0) = true.
Proof. vm_compute. split; reflexivity. Qed.

(* (2) the path was not a table when first loaded (mtbl_reader_init returned NULL): it stays without a
   reader after it has been replaced by a table *)
Example T07b_caveat_failed_load_is_kept :
  let w0 := mkworld 1 1 [1] [(1, FNotTable)] 1000 0 in
  let ops := [OpOpen 0; OpClose 0; OpCreate 1 (FTable 7); OpSetFile [1]; OpAdvance 5 0; OpReloadNow 0; OpOpen 0] in
  frun (fs_init w0 0 None None) ops = [OutView []; OutNone; OutNone; OutNone; OutNone; OutNone; OutView []].
Proof. vm_compute. reflexivity. Qed.

(* (3) "most recent reload" is the most recent reload that found the (ino, mtime) of the setfile changed
   (my_fileset.c:166, 74): with the setfile untouched, a path it names that appears later is not loaded,
   and one that disappears stays loaded, whatever the number of reloads *)
Example T07b_caveat_unchanged_setfile :
  let w0 := mkworld 1 1 [1; 2] [(1, FTable 11)] 1000 0 in
  let ops := [OpOpen 0; OpClose 0; OpCreate 2 (FTable 12); OpDelete 1; OpAdvance 5 0; OpReloadNow 0; OpOpen 0] in
  frun (fs_init w0 0 None None) ops = [OutView [11]; OutNone; OutNone; OutNone; OutNone; OutNone; OutView [11]].
Proof. vm_compute. reflexivity. Qed.

(* ------------------------------------------------------------------------------------------------
   T07f - mtbl_fileset_partition (model/FilesetPart.v, following the C function statement by
   statement): after the reload that mtbl_fileset_partition performs first, the two mergers it builds
   hold, between them, every loaded reader exactly once (a permutation of all of them), the first the
   readers whose file NAME the caller's predicate accepts, the second the others - the handle's own
   filename and reader filters are not consulted.  It returns normally exactly when every loaded
   entry has a reader: a setfile line naming an existing file that is not a table leaves an entry
   without reader, and there the C code calls mtbl_reader_source(NULL), whose assertion stops the
   process (observation O8; no listed property speaks about it; the model says PAbort and engine fs
   sees the real abort on exactly those histories). *)
From Mtbl Require Import model.FilesetPart proofs.FilesetPartProofs.
From Coq Require Import Permutation.

Theorem T07f_partition : forall st hi cb,
  let '(w', s', _) := fileset_reload (fs_world st) (fs_shared st) (nth hi (fs_handles st) dummy_handle) in
  let ents := sh_entries s' in
  match snd (fileset_partition st hi cb) with
  | PAbort => exists e, In e ents /\ fe_reader e = None
  | POk m1 m2 =>
      (forall e, In e ents -> fe_reader e <> None) /\
      Permutation (m1 ++ m2) (all_sources ents) /\
      (forall x, In x m1 <-> exists e, In e ents /\ cb (fe_name e) = true /\ entry_source e = Some x) /\
      (forall x, In x m2 <-> exists e, In e ents /\ cb (fe_name e) = false /\ entry_source e = Some x)
  end.
Proof.
  intros st hi cb. unfold fileset_partition.
  destruct (fileset_reload _ _ _) as [[w' s'] h'] eqn:E. cbn [snd]. exact (partition_spec cb (sh_entries s')).
Qed.
Print Assumptions T07f_partition.

(* non-vacuity: three tables and a dup whose own filters would hide two of them; a non-table in the setfile *)
Example T07f_example :
  let w0 := mkworld 1 1 [1; 2; 3] [(1, FTable 11); (2, FTable 12); (3, FTable 13)] 1000 0 in
  snd (fileset_partition (fstate_after (fs_init w0 0 (Some 0) (Some 0)) [OpOpen 0; OpClose 0]) 0 (parity_cb 1))
  = POk [(1, 11); (3, 13)] [(2, 12)] /\
  let w1 := mkworld 1 1 [1; 2] [(1, FTable 11); (2, FNotTable)] 1000 0 in
  snd (fileset_partition (fs_init w1 0 None None) 0 (parity_cb 0)) = PAbort.
Proof. vm_compute. split; reflexivity. Qed.

(* ---- the text of the setfile (model/Setfile.v: getline, strlen, ONE trailing newline stripped, the directory of the
   setfile in front of a relative name - the statements of the read loop of my_fileset_reload, tied through tie_my_fileset_reload).
   The theorems above take the lines of the setfile as a list of names; T07g says which list a text is: one name per line,
   and the newline after the LAST name is optional - a setfile written without it names the same files.  (Added after the
   seeded change C07-15, which lost the last character of an unterminated last line.) *)
From Mtbl Require Import model.Setfile proofs.SetfileProofs.

Theorem T07g_setfile_text : forall setdir names, ~ In 0%N setdir -> Forall wf_name names ->
  setfile_names setdir (text_of names) = map (full_name setdir) names.
Proof. exact setfile_names_text. Qed.
Print Assumptions T07g_setfile_text.

Theorem T07g_last_newline_optional : forall setdir names last, ~ In 0%N setdir -> Forall wf_name names -> wf_name last ->
  setfile_names setdir (text_of names ++ last) = map (full_name setdir) (names ++ [last]) /\
  setfile_names setdir (text_of names ++ last) = setfile_names setdir (text_of (names ++ [last])).
Proof.
  intros setdir names last Hd Hn Hl. split; [exact (setfile_names_text_no_final_newline setdir names last Hd Hn Hl)|].
  rewrite (setfile_names_text_no_final_newline setdir names last Hd Hn Hl).
  symmetry. apply setfile_names_text; [exact Hd|]. apply Forall_app. split; [exact Hn|constructor; [exact Hl|constructor]].
Qed.
Print Assumptions T07g_last_newline_optional.

(* the entries my_fileset_reload keeps, for ANY text: strictly ascending paths (so each path once: the distinctness the
   theorems above assume of the setfile's lines is a property of the reading, not of the text - the repair F12), and
   exactly the names of the text whose path exists *)
Theorem T07g_loaded_entries : forall path_exists setdir text,
  Sorting.Sorted.StronglySorted (fun a b => Order.bcmp a b = Lt) (loaded_names path_exists setdir text) /\
  NoDup (loaded_names path_exists setdir text) /\
  (forall p, In p (loaded_names path_exists setdir text) <-> In p (setfile_names setdir text) /\ path_exists p = true).
Proof. exact loaded_names_spec. Qed.
Print Assumptions T07g_loaded_entries.

(* the hypothesis "the lines of the setfile are distinct names" (NoDup, in T07a..T07f) read at the byte level: the names a
   text lists, each taken once (sort_uniq - what engine fs hands to the model for a setfile that repeats a line), are
   distinct, and they are the names of the text *)
Theorem T07g_lines_distinct : forall setdir text,
  NoDup (sort_uniq (setfile_names setdir text)) /\
  (forall p, In p (sort_uniq (setfile_names setdir text)) <-> In p (setfile_names setdir text)).
Proof.
  intros setdir text. split; [apply sorted_nodup, sort_uniq_sorted|]. intros p. apply sort_uniq_in.
Qed.
Print Assumptions T07g_lines_distinct.

Example T07g_example :
  (* /d/set names a.mtbl (relative), /x/b (absolute), ./c (relative with a directory part); no newline after the last *)
  setfile_names [47; 100] ([97; 10] ++ [47; 120; 47; 98; 10] ++ [46; 47; 99]) = [[47; 100; 47; 97]; [47; 120; 47; 98]; [47; 100; 47; 46; 47; 99]] /\
  (* an empty line names the directory of the setfile; a NUL cuts the line *)
  setfile_names [47; 100] [10; 97; 0; 98; 10] = [[47; 100; 47]; [47; 100; 47; 97]].
Proof. vm_compute. split; reflexivity. Qed.
