(* Source ties of C02: the statements of the C functions its model follows, as they were when the model
   was written and validated against them (tools/gen_ties.py --expected).  gen/Ties.v is regenerated from
   /repo on every run; a changed statement breaks the corresponding lemma below. *)
From Coq Require Import List String.
From Mtbl Require Import gen.Ties.
Import ListNotations.
Local Open Scope string_scope.

(* mtbl/reader.c: reader_iter_next *)
Lemma tie_reader_iter_next : TIE_reader_iter_next =
  [(0, "structreader_iter*it=(structreader_iter*)v");
   (0, "if(!it->valid)return(mtbl_res_failure)");
   (0, "if(!it->first)block_iter_next(it->bi)");
   (0, "it->first=false");
   (0, "it->valid=block_iter_get(it->bi,key,len_key,val,len_val)");
   (0, "if(!it->valid)");
   (1, "block_destroy(&it->b)");
   (1, "block_iter_destroy(&it->bi)");
   (1, "if(!block_iter_next(it->index_iter))return(mtbl_res_failure)");
   (1, "it->b=get_block_at_index(it->r,it->index_iter,&it->block_offset)");
   (1, "it->bi=block_iter_init(it->b)");
   (1, "block_iter_seek_to_first(it->bi)");
   (1, "it->valid=block_iter_get(it->bi,key,len_key,val,len_val)");
   (1, "if(!it->valid)return(mtbl_res_failure)");
   (0, "switch(it->it_type)");
   (1, "caseREADER_ITER_TYPE_ITER:break");
   (1, "caseREADER_ITER_TYPE_GET:if(bytes_compare(*key,*len_key,ubuf_data(it->k),ubuf_size(it->k))!=0)it->valid=false");
   (1, "break");
   (1, "caseREADER_ITER_TYPE_GET_PREFIX:if(!(ubuf_size(it->k)<=*len_key&&memcmp(ubuf_data(it->k),*key,ubuf_size(it->k))==0))");
   (2, "it->valid=false");
   (1, "break");
   (1, "caseREADER_ITER_TYPE_GET_RANGE:if(bytes_compare(*key,*len_key,ubuf_data(it->k),ubuf_size(it->k))>0)it->valid=false");
   (1, "break");
   (1, "default:assert(0)");
   (0, "if(it->valid)return(mtbl_res_success)");
   (0, "return(mtbl_res_failure)")].
Proof. reflexivity. Qed.

(* mtbl/reader.c: reader_iter_init *)
Lemma tie_reader_iter_init : TIE_reader_iter_init =
  [(0, "structreader_iter*it=my_calloc(1,sizeof(*it))");
   (0, "it->r=r");
   (0, "it->index_iter=block_iter_init(r->index)");
   (0, "block_iter_seek(it->index_iter,key,len_key)");
   (0, "it->b=get_block_at_index(r,it->index_iter,&it->block_offset)");
   (0, "if(it->b==NULL)");
   (1, "block_iter_destroy(&it->index_iter)");
   (1, "block_destroy(&it->b)");
   (1, "free(it)");
   (1, "return(NULL)");
   (0, "it->bi=block_iter_init(it->b)");
   (0, "block_iter_seek(it->bi,key,len_key)");
   (0, "it->first=true");
   (0, "it->valid=true");
   (0, "return(it)")].
Proof. reflexivity. Qed.

(* mtbl/bytes.h: bytes_shortest_separator *)
Lemma tie_bytes_separator : TIE_bytes_separator =
  [(0, "size_tmin_length=ubuf_size(start)<len_limit?ubuf_size(start):len_limit");
   (0, "size_tdiff_index=0");
   (0, "while((diff_index<min_length)&&(ubuf_data(start)[diff_index]==limit[diff_index]))");
   (1, "diff_index++");
   (0, "if(diff_index>=min_length)return");
   (0, "uint8_tdiff_byte=ubuf_data(start)[diff_index]");
   (0, "if(diff_byte<0xFF&&diff_byte+1<limit[diff_index])");
   (1, "ubuf_data(start)[diff_index]++");
   (1, "ubuf_clip(start,diff_index+1)");
   (0, "elseif(diff_index+sizeof(uint16_t)<min_length)");
   (1, "uint16_tu_start,u_limit,u_between");
   (1, "memcpy(&u_start,&ubuf_data(start)[diff_index],sizeof(u_start))");
   (1, "memcpy(&u_limit,&limit[diff_index],sizeof(u_limit))");
   (1, "u_start=be16toh(u_start)");
   (1, "u_limit=be16toh(u_limit)");
   (1, "u_between=u_start+1");
   (1, "if(u_start<=u_between&&u_between<=u_limit)");
   (2, "u_between=htobe16(u_between)");
   (2, "memcpy(&ubuf_data(start)[diff_index],&u_between,sizeof(u_between))");
   (2, "ubuf_clip(start,diff_index+sizeof(uint16_t))");
   (0, "assert(bytes_compare(ubuf_data(start),ubuf_size(start),limit,len_limit)<0)")].
Proof. reflexivity. Qed.

(* mtbl/mtbl-private.h: bytes_compare *)
Lemma tie_bytes_compare : TIE_bytes_compare =
  [(0, "size_tlen=len_a>len_b?len_b:len_a");
   (0, "intret=memcmp(a,b,len)");
   (0, "if(ret==0)");
   (1, "if(len_a<len_b)");
   (2, "return(-1)");
   (1, "elseif(len_a==len_b)");
   (2, "return(0)");
   (1, "elseif(len_a>len_b)");
   (2, "return(1)");
   (0, "return(ret)")].
Proof. reflexivity. Qed.

(* mtbl/source.c: mtbl_source_init *)
Lemma tie_source_init : TIE_source_init =
  [(0, "assert(source_iter!=NULL)");
   (0, "assert(source_get!=NULL)");
   (0, "assert(source_get_prefix!=NULL)");
   (0, "assert(source_get_range!=NULL)");
   (0, "structmtbl_source*s=my_calloc(1,sizeof(*s))");
   (0, "s->source_iter=source_iter");
   (0, "s->source_get=source_get");
   (0, "s->source_get_prefix=source_get_prefix");
   (0, "s->source_get_range=source_get_range");
   (0, "s->source_free=source_free");
   (0, "s->clos=clos");
   (0, "return(s)")].
Proof. reflexivity. Qed.

(* mtbl/source.c: mtbl_source_get *)
Lemma tie_source_get : TIE_source_get =
  [(0, "return(s->source_get(s->clos,key,len_key))")].
Proof. reflexivity. Qed.

(* mtbl/source.c: mtbl_source_get_prefix *)
Lemma tie_source_get_prefix : TIE_source_get_prefix =
  [(0, "return(s->source_get_prefix(s->clos,key,len_key))")].
Proof. reflexivity. Qed.

(* mtbl/source.c: mtbl_source_get_range *)
Lemma tie_source_get_range : TIE_source_get_range =
  [(0, "return(s->source_get_range(s->clos,key0,len_key0,key1,len_key1))")].
Proof. reflexivity. Qed.

(* mtbl/reader.c: mtbl_reader_options_init *)
Lemma tie_rdr_mtbl_reader_options_init : TIE_rdr_mtbl_reader_options_init =
  [(0, "return(my_calloc(1,sizeof(structmtbl_reader_options)))")].
Proof. reflexivity. Qed.

(* mtbl/reader.c: mtbl_reader_options_destroy *)
Lemma tie_rdr_mtbl_reader_options_destroy : TIE_rdr_mtbl_reader_options_destroy =
  [(0, "if(*opt)");
   (1, "free(*opt)");
   (1, "*opt=NULL")].
Proof. reflexivity. Qed.

(* mtbl/reader.c: mtbl_reader_options_set_madvise_random *)
Lemma tie_rdr_mtbl_reader_options_set_madvise_random : TIE_rdr_mtbl_reader_options_set_madvise_random =
  [(0, "opt->madvise_random=madvise_random")].
Proof. reflexivity. Qed.

(* mtbl/reader.c: mtbl_reader_options_set_verify_checksums *)
Lemma tie_rdr_mtbl_reader_options_set_verify_checksums : TIE_rdr_mtbl_reader_options_set_verify_checksums =
  [(0, "opt->verify_checksums=verify_checksums")].
Proof. reflexivity. Qed.

(* mtbl/reader.c: mtbl_reader_metadata *)
Lemma tie_rdr_mtbl_reader_metadata : TIE_rdr_mtbl_reader_metadata =
  [(0, "return&r->m")].
Proof. reflexivity. Qed.

(* mtbl/reader.c: mtbl_reader_source *)
Lemma tie_rdr_mtbl_reader_source : TIE_rdr_mtbl_reader_source =
  [(0, "assert(r!=NULL)");
   (0, "return(r->source)")].
Proof. reflexivity. Qed.

(* mtbl/reader.c: get_block_at_index *)
Lemma tie_rdr_get_block_at_index : TIE_rdr_get_block_at_index =
  [(0, "constuint8_t*ikey,*ival");
   (0, "size_tlen_ikey,len_ival");
   (0, "if(block_iter_get(index_iter,&ikey,&len_ikey,&ival,&len_ival))");
   (1, "structblock*b");
   (1, "uint64_toffset");
   (1, "mtbl_varint_decode64(ival,&offset)");
   (1, "b=get_block(r,offset)");
   (1, "*block_offset=offset");
   (1, "return(b)");
   (0, "return(NULL)")].
Proof. reflexivity. Qed.

(* mtbl/reader.c: reader_iter *)
Lemma tie_rdr_reader_iter : TIE_rdr_reader_iter =
  [(0, "structmtbl_reader*r=(structmtbl_reader*)clos");
   (0, "structreader_iter*it=my_calloc(1,sizeof(*it))");
   (0, "it->r=r");
   (0, "it->index_iter=block_iter_init(r->index)");
   (0, "block_iter_seek_to_first(it->index_iter)");
   (0, "it->b=get_block_at_index(r,it->index_iter,&it->block_offset)");
   (0, "if(it->b==NULL)");
   (1, "block_iter_destroy(&it->index_iter)");
   (1, "block_destroy(&it->b)");
   (1, "free(it)");
   (1, "return(NULL)");
   (0, "it->bi=block_iter_init(it->b)");
   (0, "block_iter_seek_to_first(it->bi)");
   (0, "it->first=true");
   (0, "it->valid=true");
   (0, "it->it_type=READER_ITER_TYPE_ITER");
   (0, "return(mtbl_iter_init(reader_iter_seek,reader_iter_next,reader_iter_free,it))")].
Proof. reflexivity. Qed.

(* mtbl/reader.c: reader_get *)
Lemma tie_rdr_reader_get : TIE_rdr_reader_get =
  [(0, "structmtbl_reader*r=(structmtbl_reader*)clos");
   (0, "structreader_iter*it=reader_iter_init(r,key,len_key)");
   (0, "if(it==NULL)return(NULL)");
   (0, "it->k=ubuf_init(len_key)");
   (0, "ubuf_append(it->k,key,len_key)");
   (0, "it->it_type=READER_ITER_TYPE_GET");
   (0, "return(mtbl_iter_init(reader_iter_seek,reader_iter_next,reader_iter_free,it))")].
Proof. reflexivity. Qed.

(* mtbl/reader.c: reader_get_prefix *)
Lemma tie_rdr_reader_get_prefix : TIE_rdr_reader_get_prefix =
  [(0, "structmtbl_reader*r=(structmtbl_reader*)clos");
   (0, "structreader_iter*it=reader_iter_init(r,key,len_key)");
   (0, "if(it==NULL)return(NULL)");
   (0, "it->k=ubuf_init(len_key)");
   (0, "ubuf_append(it->k,key,len_key)");
   (0, "it->it_type=READER_ITER_TYPE_GET_PREFIX");
   (0, "return(mtbl_iter_init(reader_iter_seek,reader_iter_next,reader_iter_free,it))")].
Proof. reflexivity. Qed.

(* mtbl/reader.c: reader_get_range *)
Lemma tie_rdr_reader_get_range : TIE_rdr_reader_get_range =
  [(0, "structmtbl_reader*r=(structmtbl_reader*)clos");
   (0, "structreader_iter*it=reader_iter_init(r,key0,len_key0)");
   (0, "if(it==NULL)return(NULL)");
   (0, "it->k=ubuf_init(len_key1)");
   (0, "ubuf_append(it->k,key1,len_key1)");
   (0, "it->it_type=READER_ITER_TYPE_GET_RANGE");
   (0, "return(mtbl_iter_init(reader_iter_seek,reader_iter_next,reader_iter_free,it))")].
Proof. reflexivity. Qed.

(* mtbl/source.c: mtbl_source_destroy *)
Lemma tie_src_mtbl_source_destroy : TIE_src_mtbl_source_destroy =
  [(0, "if(*s)");
   (1, "if((*s)->source_free!=NULL)(*s)->source_free((*s)->clos)");
   (1, "free(*s)");
   (1, "*s=NULL")].
Proof. reflexivity. Qed.

(* mtbl/source.c: mtbl_source_iter *)
Lemma tie_src_mtbl_source_iter : TIE_src_mtbl_source_iter =
  [(0, "return(s->source_iter(s->clos))")].
Proof. reflexivity. Qed.
