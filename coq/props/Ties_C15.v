(* Source ties of C15: the statements of the C functions its model follows, as they were when the model
   was written and validated against them (tools/gen_ties.py --expected).  gen/Ties.v is regenerated from
   /repo on every run; a changed statement breaks the corresponding lemma below. *)
From Coq Require Import List String.
From Mtbl Require Import gen.Ties.
Import ListNotations.
Local Open Scope string_scope.

(* mtbl/compression.c: _mtbl_compress_zlib *)
Lemma tie_comp_zlib : TIE_comp_zlib =
  [(0, "intzret");
   (0, "z_streamzs=");
   (1, ".opaque=Z_NULL,.zalloc=Z_NULL,.zfree=Z_NULL,");
   (0, "if(compression_level<Z_DEFAULT_COMPRESSION)");
   (1, "compression_level=Z_NO_COMPRESSION");
   (0, "elseif(compression_level>Z_BEST_COMPRESSION)");
   (1, "compression_level=Z_BEST_COMPRESSION");
   (0, "zret=deflateInit(&zs,compression_level)");
   (0, "assert(zret==Z_OK)");
   (0, "*output_size=deflateBound(&zs,input_size)");
   (0, "*output=my_malloc(*output_size)");
   (0, "zs.avail_in=input_size");
   (0, "zs.next_in=(uint8_t*)input");
   (0, "zs.avail_out=*output_size");
   (0, "zs.next_out=*output");
   (0, "zret=deflate(&zs,Z_FINISH)");
   (0, "assert(zret==Z_STREAM_END)");
   (0, "assert(zs.avail_in==0)");
   (0, "*output_size=zs.total_out");
   (0, "zret=deflateEnd(&zs)");
   (0, "if(zret!=Z_OK)");
   (1, "free(*output)");
   (1, "return(mtbl_res_failure)");
   (0, "return(mtbl_res_success)")].
Proof. reflexivity. Qed.

(* mtbl/compression.c: _mtbl_compress_lz4 *)
Lemma tie_comp_lz4 : TIE_comp_lz4 =
  [(0, "intlz4_size");
   (0, "char*lz4_bytes");
   (0, "if(input_size>INT_MAX)return(mtbl_res_failure)");
   (0, "lz4_size=LZ4_compressBound(input_size)");
   (0, "*output_size=lz4_size+sizeof(uint32_t)");
   (0, "*output=my_malloc(*output_size)");
   (0, "lz4_bytes=(char*)(*output)+sizeof(uint32_t)");
   (0, "lz4_size=LZ4_compress_default((constchar*)input,lz4_bytes,(int)input_size,lz4_size)");
   (0, "if(lz4_size==0)");
   (1, "free(*output)");
   (1, "return(mtbl_res_failure)");
   (0, "*output_size=lz4_size+sizeof(uint32_t)");
   (0, "mtbl_fixed_encode32(*output,(uint32_t)input_size)");
   (0, "return(mtbl_res_success)")].
Proof. reflexivity. Qed.

(* mtbl/compression.c: _mtbl_compress_lz4hc *)
Lemma tie_comp_lz4hc : TIE_comp_lz4hc =
  [(0, "intlz4_size");
   (0, "char*lz4_bytes");
   (0, "if(input_size>INT_MAX)return(mtbl_res_failure)");
   (0, "if(compression_level<0)compression_level=0");
   (0, "lz4_size=LZ4_compressBound(input_size)");
   (0, "*output_size=lz4_size+sizeof(uint32_t)");
   (0, "*output=my_malloc(*output_size)");
   (0, "lz4_bytes=(char*)(*output)+sizeof(uint32_t)");
   (0, "lz4_size=LZ4_compress_HC((constchar*)input,lz4_bytes,(int)input_size,lz4_size,compression_level)");
   (0, "if(lz4_size==0)");
   (1, "free(*output)");
   (1, "return(mtbl_res_failure)");
   (0, "*output_size=lz4_size+sizeof(uint32_t)");
   (0, "mtbl_fixed_encode32(*output,(uint32_t)input_size)");
   (0, "return(mtbl_res_success)")].
Proof. reflexivity. Qed.

(* mtbl/compression.c: _mtbl_compress_zstd *)
Lemma tie_comp_zstd : TIE_comp_zstd =
  [(0, "size_tzstd_size");
   (0, "char*zstd_bytes");
   (0, "intminlevel");
   (0, "#ifZSTD_VERSION_NUMBER>=10400");
   (0, "minlevel=ZSTD_minCLevel()");
   (0, "#else");
   (0, "minlevel=1");
   (0, "#endif");
   (0, "if(input_size>INT_MAX)return(mtbl_res_failure)");
   (0, "if(compression_level<minlevel)compression_level=minlevel");
   (0, "elseif(compression_level>ZSTD_maxCLevel())compression_level=ZSTD_maxCLevel()");
   (0, "zstd_size=ZSTD_compressBound(input_size)");
   (0, "if(zstd_size<INT_MAX/2)");
   (1, "zstd_size*=2");
   (0, "*output_size=zstd_size");
   (0, "*output=my_malloc(*output_size)");
   (0, "zstd_bytes=(char*)(*output)");
   (0, "zstd_size=ZSTD_compress(zstd_bytes,zstd_size,input,input_size,compression_level)");
   (0, "if(ZSTD_isError(zstd_size))");
   (1, "free(*output)");
   (1, "return(mtbl_res_failure)");
   (0, "*output_size=zstd_size");
   (0, "return(mtbl_res_success)")].
Proof. reflexivity. Qed.

(* mtbl/compression.c: _mtbl_compress_snappy *)
Lemma tie_comp_snappy : TIE_comp_snappy =
  [(0, "snappy_statusres");
   (0, "*output_size=snappy_max_compressed_length(input_size)");
   (0, "*output=my_malloc(*output_size)");
   (0, "res=snappy_compress((constchar*)input,input_size,(char*)(*output),output_size)");
   (0, "if(res!=SNAPPY_OK)");
   (1, "free(*output)");
   (1, "return(mtbl_res_failure)");
   (0, "return(mtbl_res_success)")].
Proof. reflexivity. Qed.

(* mtbl/compression.c: _mtbl_decompress_zlib *)
Lemma tie_decomp_zlib : TIE_decomp_zlib =
  [(0, "intzret");
   (0, "z_streamzs=");
   (1, ".avail_in=0,.next_in=Z_NULL,.opaque=Z_NULL,.zalloc=Z_NULL,.zfree=Z_NULL,");
   (0, "*output_size=4*input_size");
   (0, "*output_size-=((*output_size)%1024)");
   (0, "*output_size+=1024");
   (0, "*output=my_malloc(*output_size)");
   (0, "zret=inflateInit(&zs)");
   (0, "assert(zret==Z_OK)");
   (0, "zs.avail_in=input_size");
   (0, "zs.next_in=(uint8_t*)input");
   (0, "zs.avail_out=*output_size");
   (0, "zs.next_out=*output");
   (0, "do");
   (1, "zret=inflate(&zs,Z_FINISH)");
   (1, "assert(zret==Z_STREAM_END||zret==Z_BUF_ERROR)");
   (1, "if(zret!=Z_STREAM_END)");
   (2, "*output=my_realloc(*output,*output_size*2)");
   (2, "zs.next_out=*output+*output_size");
   (2, "zs.avail_out=*output_size");
   (2, "*output_size*=2");
   (0, "while(zret!=Z_STREAM_END)");
   (0, "*output_size=zs.total_out");
   (0, "inflateEnd(&zs)");
   (0, "return(mtbl_res_success)")].
Proof. reflexivity. Qed.

(* mtbl/compression.c: _mtbl_decompress_lz4 *)
Lemma tie_decomp_lz4 : TIE_decomp_lz4 =
  [(0, "intret=0");
   (0, "if(input_size>INT_MAX||input_size<sizeof(uint32_t))return(mtbl_res_failure)");
   (0, "*output_size=mtbl_fixed_decode32(input)");
   (0, "*output=my_malloc(*output_size)");
   (0, "ret=LZ4_decompress_safe((char*)input+sizeof(uint32_t),(char*)(*output),input_size-sizeof(uint32_t),*output_size)");
   (0, "if(ret<0)");
   (1, "free(*output)");
   (1, "return(mtbl_res_failure)");
   (0, "return(mtbl_res_success)")].
Proof. reflexivity. Qed.

(* mtbl/compression.c: _mtbl_decompress_zstd *)
Lemma tie_decomp_zstd : TIE_decomp_zstd =
  [(0, "size_tret=0");
   (0, "unsignedlonglongcontent_size");
   (0, "if(input_size>INT_MAX)return(mtbl_res_failure)");
   (0, "content_size=ZSTD_getFrameContentSize(input,input_size)");
   (0, "if(content_size==ZSTD_CONTENTSIZE_ERROR||content_size==ZSTD_CONTENTSIZE_UNKNOWN)return(mtbl_res_failure)");
   (0, "*output_size=(size_t)content_size");
   (0, "*output=my_malloc(*output_size)");
   (0, "ret=ZSTD_decompress(*output,*output_size,input,input_size)");
   (0, "if(ZSTD_isError(ret))");
   (1, "free(*output)");
   (1, "return(mtbl_res_failure)");
   (0, "return(mtbl_res_success)")].
Proof. reflexivity. Qed.

(* mtbl/compression.c: _mtbl_decompress_snappy *)
Lemma tie_decomp_snappy : TIE_decomp_snappy =
  [(0, "snappy_statusres");
   (0, "res=snappy_uncompressed_length((constchar*)input,input_size,output_size)");
   (0, "if(res!=SNAPPY_OK)return(mtbl_res_failure)");
   (0, "*output=my_malloc(*output_size)");
   (0, "res=snappy_uncompress((constchar*)input,input_size,(char*)(*output),output_size)");
   (0, "if(res!=SNAPPY_OK)");
   (1, "free(*output)");
   (1, "return(mtbl_res_failure)");
   (0, "return(mtbl_res_success)")].
Proof. reflexivity. Qed.

(* mtbl/compression.c: mtbl_compress *)
Lemma tie_comp_dispatch : TIE_comp_dispatch =
  [(0, "switch(compression_type)");
   (1, "caseMTBL_COMPRESSION_NONE:returnmtbl_res_failure");
   (1, "caseMTBL_COMPRESSION_SNAPPY:return_mtbl_compress_snappy(input,input_size,output,output_size)");
   (1, "caseMTBL_COMPRESSION_ZLIB:return_mtbl_compress_zlib(input,input_size,output,output_size,Z_DEFAULT_COMPRESSION)");
   (1, "caseMTBL_COMPRESSION_LZ4:return_mtbl_compress_lz4(input,input_size,output,output_size)");
   (1, "caseMTBL_COMPRESSION_LZ4HC:return_mtbl_compress_lz4hc(input,input_size,output,output_size,9)");
   (1, "caseMTBL_COMPRESSION_ZSTD:return_mtbl_compress_zstd(input,input_size,output,output_size,9)");
   (1, "default:returnmtbl_res_failure")].
Proof. reflexivity. Qed.

(* mtbl/compression.c: mtbl_compress_level *)
Lemma tie_comp_level_dispatch : TIE_comp_level_dispatch =
  [(0, "switch(compression_type)");
   (1, "caseMTBL_COMPRESSION_NONE:returnmtbl_res_failure");
   (1, "caseMTBL_COMPRESSION_SNAPPY:return_mtbl_compress_snappy(input,input_size,output,output_size)");
   (1, "caseMTBL_COMPRESSION_ZLIB:return_mtbl_compress_zlib(input,input_size,output,output_size,compression_level)");
   (1, "caseMTBL_COMPRESSION_LZ4:return_mtbl_compress_lz4(input,input_size,output,output_size)");
   (1, "caseMTBL_COMPRESSION_LZ4HC:return_mtbl_compress_lz4hc(input,input_size,output,output_size,compression_level)");
   (1, "caseMTBL_COMPRESSION_ZSTD:return_mtbl_compress_zstd(input,input_size,output,output_size,compression_level)");
   (1, "default:returnmtbl_res_failure")].
Proof. reflexivity. Qed.

(* mtbl/compression.c: mtbl_decompress *)
Lemma tie_decomp_dispatch : TIE_decomp_dispatch =
  [(0, "switch(compression_type)");
   (1, "caseMTBL_COMPRESSION_NONE:returnmtbl_res_failure");
   (1, "caseMTBL_COMPRESSION_SNAPPY:return_mtbl_decompress_snappy(input,input_size,output,output_size)");
   (1, "caseMTBL_COMPRESSION_ZLIB:return_mtbl_decompress_zlib(input,input_size,output,output_size)");
   (1, "caseMTBL_COMPRESSION_LZ4:caseMTBL_COMPRESSION_LZ4HC:return_mtbl_decompress_lz4(input,input_size,output,output_size)");
   (1, "caseMTBL_COMPRESSION_ZSTD:return_mtbl_decompress_zstd(input,input_size,output,output_size)");
   (1, "default:returnmtbl_res_failure")].
Proof. reflexivity. Qed.

(* mtbl/compression.c: mtbl_compression_type_to_str *)
Lemma tie_comp_mtbl_compression_type_to_str : TIE_comp_mtbl_compression_type_to_str =
  [(0, "switch(compression_type)");
   (1, "caseMTBL_COMPRESSION_NONE:return""none""");
   (1, "caseMTBL_COMPRESSION_SNAPPY:return""snappy""");
   (1, "caseMTBL_COMPRESSION_ZLIB:return""zlib""");
   (1, "caseMTBL_COMPRESSION_LZ4:return""lz4""");
   (1, "caseMTBL_COMPRESSION_LZ4HC:return""lz4hc""");
   (1, "caseMTBL_COMPRESSION_ZSTD:return""zstd""");
   (1, "default:returnNULL")].
Proof. reflexivity. Qed.

(* mtbl/compression.c: mtbl_compression_type_from_str *)
Lemma tie_comp_mtbl_compression_type_from_str : TIE_comp_mtbl_compression_type_from_str =
  [(0, "if(strcasecmp(s,""none"")==0)");
   (1, "*t=MTBL_COMPRESSION_NONE");
   (1, "returnmtbl_res_success");
   (0, "elseif(strcasecmp(s,""snappy"")==0)");
   (1, "*t=MTBL_COMPRESSION_SNAPPY");
   (1, "returnmtbl_res_success");
   (0, "elseif(strcasecmp(s,""zlib"")==0)");
   (1, "*t=MTBL_COMPRESSION_ZLIB");
   (1, "returnmtbl_res_success");
   (0, "elseif(strcasecmp(s,""lz4"")==0)");
   (1, "*t=MTBL_COMPRESSION_LZ4");
   (1, "returnmtbl_res_success");
   (0, "elseif(strcasecmp(s,""lz4hc"")==0)");
   (1, "*t=MTBL_COMPRESSION_LZ4HC");
   (1, "returnmtbl_res_success");
   (0, "elseif(strcasecmp(s,""zstd"")==0)");
   (1, "*t=MTBL_COMPRESSION_ZSTD");
   (1, "returnmtbl_res_success");
   (0, "returnmtbl_res_failure")].
Proof. reflexivity. Qed.
