(* Source ties of C04: the statements of the C functions its model follows, as they were when the model
   was written and validated against them (tools/gen_ties.py --expected).  gen/Ties.v is regenerated from
   /repo on every run; a changed statement breaks the corresponding lemma below. *)
From Coq Require Import List String.
From Mtbl Require Import gen.Ties.
Import ListNotations.
Local Open Scope string_scope.

(* mtbl/merger.c: merger_iter_next *)
Lemma tie_merger_next : TIE_merger_next =
  [(0, "structmerger_iter*it=(structmerger_iter*)v");
   (0, "structentry*e");
   (0, "mtbl_resres");
   (0, "if(it->finished)return(mtbl_res_failure)");
   (0, "ubuf_clip(it->cur_key,0)");
   (0, "ubuf_clip(it->cur_val,0)");
   (0, "it->pending=false");
   (0, "for(;;)");
   (1, "for(;;)");
   (2, "e=heap_peek(it->h)");
   (2, "if(e==NULL)");
   (3, "it->finished=true");
   (3, "break");
   (2, "if(e->finished)heap_pop(it->h)");
   (2, "elsebreak");
   (1, "if(it->finished)break");
   (1, "if(!it->pending)");
   (2, "ubuf_clip(it->cur_val,0)");
   (2, "ubuf_append(it->cur_key,e->key,e->len_key)");
   (2, "ubuf_append(it->cur_val,e->val,e->len_val)");
   (2, "it->pending=true");
   (2, "res=entry_fill(e)");
   (2, "if(res==mtbl_res_success)heap_replace(it->h,e)");
   (2, "continue");
   (1, "if(it->m->opt.merge==NULL)break");
   (1, "if(bytes_compare(ubuf_data(it->cur_key),ubuf_size(it->cur_key),e->key,e->len_key)==0)");
   (2, "uint8_t*merged_val=NULL");
   (2, "size_tlen_merged_val=0");
   (2, "it->m->opt.merge(it->m->opt.merge_clos,ubuf_data(it->cur_key),ubuf_size(it->cur_key),ubuf_data(it->cur_val),ubuf_size(it->cur_val),e->val,e->len_val,&merged_val,&len_merged_val)");
   (2, "if(merged_val==NULL)return(mtbl_res_failure)");
   (2, "ubuf_clip(it->cur_val,0)");
   (2, "ubuf_append(it->cur_val,merged_val,len_merged_val)");
   (2, "free(merged_val)");
   (2, "res=entry_fill(e)");
   (2, "if(res==mtbl_res_success)heap_replace(it->h,e)");
   (1, "else");
   (2, "break");
   (0, "if(it->pending)");
   (1, "it->pending=false");
   (1, "*out_key=ubuf_data(it->cur_key)");
   (1, "*out_val=ubuf_data(it->cur_val)");
   (1, "*out_len_key=ubuf_size(it->cur_key)");
   (1, "*out_len_val=ubuf_size(it->cur_val)");
   (1, "return(mtbl_res_success)");
   (0, "else");
   (1, "return(mtbl_res_failure)")].
Proof. reflexivity. Qed.

(* mtbl/merger.c: _mtbl_merger_compare *)
Lemma tie_merger_compare : TIE_merger_compare =
  [(0, "conststructentry*a=(conststructentry*)va");
   (0, "conststructentry*b=(conststructentry*)vb");
   (0, "conststructmtbl_merger*m=(conststructmtbl_merger*)clos");
   (0, "intres");
   (0, "if(a->key==NULL&&b->key==NULL)return(0)");
   (0, "if(a->key==NULL)return(1)");
   (0, "if(b->key==NULL)return(-1)");
   (0, "res=bytes_compare(a->key,a->len_key,b->key,b->len_key)");
   (0, "if((res==0)&&(m->opt.dupsort!=NULL))res=m->opt.dupsort(m->opt.dupsort_clos,a->key,a->len_key,a->val,a->len_val,b->val,b->len_val)");
   (0, "returnres")].
Proof. reflexivity. Qed.

(* mtbl/merger.c: entry_fill *)
Lemma tie_merger_entry_fill : TIE_merger_entry_fill =
  [(0, "mtbl_resres");
   (0, "res=mtbl_iter_next(ent->it,&ent->key,&ent->len_key,&ent->val,&ent->len_val)");
   (0, "ent->finished=(res!=mtbl_res_success)");
   (0, "return(res)")].
Proof. reflexivity. Qed.

(* mtbl/merger.c: merger_iter_init *)
Lemma tie_merger_iter_init : TIE_merger_iter_init =
  [(0, "structmerger_iter*it=my_calloc(1,sizeof(*it))");
   (0, "it->m=m");
   (0, "it->h=heap_init(_mtbl_merger_compare,m)");
   (0, "it->entries=entry_vec_init(source_vec_size(m->sources))");
   (0, "it->iters=iter_vec_init(source_vec_size(m->sources))");
   (0, "it->cur_key=ubuf_init(256)");
   (0, "it->cur_val=ubuf_init(256)");
   (0, "return(it)")].
Proof. reflexivity. Qed.

(* libmy/heap.c: siftup *)
Lemma tie_heap_siftup : TIE_heap_siftup =
  [(0, "size_tpos=ptrvec_size(h->vec)-1");
   (0, "void*newitem=ptrvec_value(h->vec,pos)");
   (0, "while(pos>0)");
   (1, "size_tparentpos=(pos-1)>>1");
   (1, "void*parent=ptrvec_value(h->vec,parentpos)");
   (1, "if(h->cmp(parent,newitem,h->clos)<=0)break");
   (1, "ptrvec_data(h->vec)[pos]=parent");
   (1, "pos=parentpos");
   (0, "ptrvec_data(h->vec)[pos]=newitem")].
Proof. reflexivity. Qed.

(* libmy/heap.c: siftdown *)
Lemma tie_heap_siftdown : TIE_heap_siftdown =
  [(0, "assert(pos<ptrvec_size(h->vec))");
   (0, "void*newitem=ptrvec_value(h->vec,pos)");
   (0, "size_tendpos=ptrvec_size(h->vec)");
   (0, "size_tchildpos=2*pos+1");
   (0, "while(childpos<endpos)");
   (1, "size_trightpos=childpos+1");
   (1, "void*childval=ptrvec_value(h->vec,childpos)");
   (1, "if(rightpos<endpos)");
   (2, "void*rightval=ptrvec_value(h->vec,rightpos)");
   (2, "if(h->cmp(rightval,childval,h->clos)<=0)");
   (3, "childpos=rightpos");
   (3, "childval=rightval");
   (1, "if(h->cmp(newitem,childval,h->clos)<=0)break");
   (1, "ptrvec_data(h->vec)[pos]=childval");
   (1, "pos=childpos");
   (1, "childpos=2*pos+1");
   (0, "ptrvec_data(h->vec)[pos]=newitem")].
Proof. reflexivity. Qed.

(* libmy/heap.c: heap_pop *)
Lemma tie_heap_pop : TIE_heap_pop =
  [(0, "if(ptrvec_size(h->vec)<1)return(NULL)");
   (0, "void*returnitem");
   (0, "void*lastelt=ptrvec_value(h->vec,ptrvec_size(h->vec)-1)");
   (0, "ptrvec_clip(h->vec,ptrvec_size(h->vec)-1)");
   (0, "if(ptrvec_size(h->vec)>0)");
   (1, "returnitem=ptrvec_value(h->vec,0)");
   (1, "ptrvec_data(h->vec)[0]=lastelt");
   (1, "siftdown(h,0)");
   (0, "else");
   (1, "returnitem=lastelt");
   (0, "return(returnitem)")].
Proof. reflexivity. Qed.

(* libmy/heap.c: heap_replace *)
Lemma tie_heap_replace : TIE_heap_replace =
  [(0, "if(ptrvec_size(h->vec)<1)return(NULL)");
   (0, "void*returnitem=ptrvec_value(h->vec,0)");
   (0, "ptrvec_data(h->vec)[0]=item");
   (0, "siftdown(h,0)");
   (0, "return(returnitem)")].
Proof. reflexivity. Qed.

(* src/mtbl_merge.c: init_dso *)
Lemma tie_merge_tool_init_dso : TIE_merge_tool_init_dso =
  [(0, "merge_dso_path=getenv(""MTBL_MERGE_DSO"")");
   (0, "merge_dso_prefix=getenv(""MTBL_MERGE_FUNC_PREFIX"")");
   (0, "if(merge_dso_path==NULL)");
   (1, "fprintf(stderr,""Error:MTBL_MERGE_DSOenvironmentvariablenotset.\n\n"")");
   (1, "usage()");
   (0, "if(merge_dso_prefix==NULL)");
   (1, "fprintf(stderr,""Error:MTBL_MERGE_FUNC_PREFIXenvironmentvariablenotset.\n\n"")");
   (1, "usage()");
   (0, "dlerror()");
   (0, "void*handle=dlopen(merge_dso_path,RTLD_NOW)");
   (0, "if(handle==NULL)");
   (1, "fprintf(stderr,""Error:dlopen()failed:%s\n"",dlerror())");
   (1, "exit(EXIT_FAILURE)");
   (0, "ubuf*func_name=ubuf_init(0)");
   (0, "ubuf_append(func_name,(constuint8_t*)merge_dso_prefix,strlen(merge_dso_prefix))");
   (0, "ubuf_append(func_name,(constuint8_t*)""_func"",sizeof(""_func""))");
   (0, "user_func_merge=dlsym(handle,(constchar*)ubuf_data(func_name))");
   (0, "if(user_func_merge==NULL)");
   (1, "fprintf(stderr,""Error:usermergefunctionrequiredbutnotfoundinDSO.\n\n"")");
   (1, "usage()");
   (0, "ubuf_clip(func_name,0)");
   (0, "ubuf_append(func_name,(constuint8_t*)merge_dso_prefix,strlen(merge_dso_prefix))");
   (0, "ubuf_append(func_name,(constuint8_t*)""_init_func"",sizeof(""_init_func""))");
   (0, "user_func_init=dlsym(handle,(constchar*)ubuf_data(func_name))");
   (0, "if(user_func_init!=NULL)user_clos=user_func_init()");
   (0, "ubuf_clip(func_name,0)");
   (0, "ubuf_append(func_name,(constuint8_t*)merge_dso_prefix,strlen(merge_dso_prefix))");
   (0, "ubuf_append(func_name,(constuint8_t*)""_free_func"",sizeof(""_free_func""))");
   (0, "user_func_free=dlsym(handle,(constchar*)ubuf_data(func_name))");
   (0, "ubuf_destroy(&func_name)")].
Proof. reflexivity. Qed.

(* src/mtbl_merge.c: init_mtbl *)
Lemma tie_merge_tool_init_mtbl : TIE_merge_tool_init_mtbl =
  [(0, "structmtbl_merger_options*mopt");
   (0, "structmtbl_writer_options*wopt");
   (0, "mopt=mtbl_merger_options_init()");
   (0, "wopt=mtbl_writer_options_init()");
   (0, "mtbl_merger_options_set_merge_func(mopt,merge_func,user_clos)");
   (0, "mtbl_writer_options_set_compression(wopt,opt_compression_type)");
   (0, "if(opt_compression_level!=DEFAULT_COMPRESS_LEVEL)mtbl_writer_options_set_compression_level(wopt,opt_compression_level)");
   (0, "mtbl_writer_options_set_threadpool(wopt,opt_threadpool)");
   (0, "mtbl_writer_options_set_block_size(wopt,opt_block_size)");
   (0, "merger=mtbl_merger_init(mopt)");
   (0, "assert(merger!=NULL)");
   (0, "fprintf(stderr,""%s:openingoutputfile%s\n"",program_name,mtbl_output_fname)");
   (0, "writer=mtbl_writer_init(mtbl_output_fname,wopt)");
   (0, "if(writer==NULL)");
   (1, "fprintf(stderr,""Error:mtbl_writer_init()failed.\n\n"")");
   (1, "usage()");
   (0, "mtbl_merger_options_destroy(&mopt)");
   (0, "mtbl_writer_options_destroy(&wopt)")].
Proof. reflexivity. Qed.

(* src/mtbl_merge.c: merge *)
Lemma tie_merge_tool_merge : TIE_merge_tool_merge =
  [(0, "constuint8_t*key,*val");
   (0, "size_tlen_key,len_val");
   (0, "structmtbl_iter*it");
   (0, "it=mtbl_source_iter(mtbl_merger_source(merger))");
   (0, "assert(it!=NULL)");
   (0, "while(mtbl_iter_next(it,&key,&len_key,&val,&len_val)==mtbl_res_success)");
   (1, "mtbl_resres=mtbl_writer_add(writer,key,len_key,val,len_val)");
   (1, "assert(res==mtbl_res_success)");
   (1, "if((++count%STATS_INTERVAL)==0)print_stats()");
   (0, "mtbl_iter_destroy(&it)");
   (0, "mtbl_merger_destroy(&merger)");
   (0, "mtbl_writer_destroy(&writer)")].
Proof. reflexivity. Qed.

(* src/mtbl_merge.c: main *)
Lemma tie_merge_tool_main : TIE_merge_tool_main =
  [(0, "setlocale(LC_ALL,"""")");
   (0, "program_name=argv[0]");
   (0, "opt_block_size=get_block_size()");
   (0, "intc");
   (0, "while((c=getopt(argc,argv,""b:c:l:t:""))!=-1)");
   (1, "switch(c)");
   (2, "case'b':if(!parse_arg_block_size(optarg))usage()");
   (2, "break");
   (2, "case'c':if(!parse_arg_compression(optarg))usage()");
   (2, "break");
   (2, "case'l':if(!parse_arg_compression_level(optarg))usage()");
   (2, "break");
   (2, "case't':if(!parse_arg_thread_count(optarg))usage()");
   (2, "break");
   (2, "default:usage()");
   (0, "if(argc-optind<2)usage()");
   (0, "mtbl_output_fname=argv[argc-1]");
   (0, "init_dso()");
   (0, "init_mtbl()");
   (0, "constsize_tn_readers=argc-1-optind");
   (0, "structmtbl_reader*readers[n_readers]");
   (0, "for(size_ti=0;i<n_readers;i++)");
   (1, "constchar*fname=argv[i+optind]");
   (1, "fprintf(stderr,""%s:openinginputfile%s\n"",program_name,fname)");
   (1, "readers[i]=mtbl_reader_init(fname,NULL)");
   (1, "if(readers[i]==NULL)");
   (2, "fprintf(stderr,""Error:mtbl_reader_init()failed.\n\n"")");
   (2, "usage()");
   (1, "mtbl_merger_add_source(merger,mtbl_reader_source(readers[i]))");
   (0, "my_timespec_get(&start_time)");
   (0, "merge()");
   (0, "for(size_ti=0;i<n_readers;i++)mtbl_reader_destroy(&readers[i])");
   (0, "if(user_func_free!=NULL)user_func_free(user_clos)");
   (0, "mtbl_threadpool_destroy(&opt_threadpool)");
   (0, "print_stats()");
   (0, "return(EXIT_SUCCESS)")].
Proof. reflexivity. Qed.

(* mtbl/merger.c: mtbl_merger_options_init *)
Lemma tie_mg_mtbl_merger_options_init : TIE_mg_mtbl_merger_options_init =
  [(0, "return(my_calloc(1,sizeof(structmtbl_merger_options)))")].
Proof. reflexivity. Qed.

(* mtbl/merger.c: mtbl_merger_options_destroy *)
Lemma tie_mg_mtbl_merger_options_destroy : TIE_mg_mtbl_merger_options_destroy =
  [(0, "if(*opt)");
   (1, "free(*opt)");
   (1, "*opt=NULL")].
Proof. reflexivity. Qed.

(* mtbl/merger.c: mtbl_merger_options_set_merge_func *)
Lemma tie_mg_mtbl_merger_options_set_merge_func : TIE_mg_mtbl_merger_options_set_merge_func =
  [(0, "opt->merge=merge");
   (0, "opt->merge_clos=clos")].
Proof. reflexivity. Qed.

(* mtbl/merger.c: mtbl_merger_options_set_dupsort_func *)
Lemma tie_mg_mtbl_merger_options_set_dupsort_func : TIE_mg_mtbl_merger_options_set_dupsort_func =
  [(0, "opt->dupsort=dupsort");
   (0, "opt->dupsort_clos=clos")].
Proof. reflexivity. Qed.

(* mtbl/merger.c: mtbl_merger_init *)
Lemma tie_mg_mtbl_merger_init : TIE_mg_mtbl_merger_init =
  [(0, "structmtbl_merger*m");
   (0, "m=my_calloc(1,sizeof(*m))");
   (0, "m->sources=source_vec_init(0)");
   (0, "assert(opt!=NULL)");
   (0, "memcpy(&m->opt,opt,sizeof(*opt))");
   (0, "m->source=mtbl_source_init(merger_iter,merger_get,merger_get_prefix,merger_get_range,NULL,m)");
   (0, "return(m)")].
Proof. reflexivity. Qed.

(* mtbl/merger.c: mtbl_merger_source *)
Lemma tie_mg_mtbl_merger_source : TIE_mg_mtbl_merger_source =
  [(0, "return(m->source)")].
Proof. reflexivity. Qed.

(* mtbl/merger.c: mtbl_merger_add_source *)
Lemma tie_mg_mtbl_merger_add_source : TIE_mg_mtbl_merger_add_source =
  [(0, "source_vec_add(m->sources,s)")].
Proof. reflexivity. Qed.

(* mtbl/merger.c: merger_iter_add_entry *)
Lemma tie_mg_merger_iter_add_entry : TIE_mg_merger_iter_add_entry =
  [(0, "structentry*ent=my_calloc(1,sizeof(*ent))");
   (0, "ent->it=ent_it");
   (0, "ent->finished=false");
   (0, "mtbl_resres=entry_fill(ent)");
   (0, "if(res!=mtbl_res_success)");
   (1, "free(ent)");
   (0, "else");
   (1, "heap_push(it->h,ent)");
   (1, "entry_vec_add(it->entries,ent)")].
Proof. reflexivity. Qed.

(* mtbl/merger.c: merger_iter *)
Lemma tie_mg_merger_iter : TIE_mg_merger_iter =
  [(0, "structmtbl_merger*m=(structmtbl_merger*)clos");
   (0, "structmerger_iter*it=merger_iter_init(m)");
   (0, "for(size_ti=0;i<source_vec_size(m->sources);i++)");
   (1, "conststructmtbl_source*s=source_vec_value(m->sources,i)");
   (1, "structmtbl_iter*s_it=mtbl_source_iter(s)");
   (1, "iter_vec_add(it->iters,s_it)");
   (1, "merger_iter_add_entry(it,s_it)");
   (0, "return(mtbl_iter_init(merger_iter_seek,merger_iter_next,merger_iter_free,it))")].
Proof. reflexivity. Qed.

(* mtbl/merger.c: merger_get *)
Lemma tie_mg_merger_get : TIE_mg_merger_get =
  [(0, "structmtbl_merger*m=(structmtbl_merger*)clos");
   (0, "structmerger_iter*it=merger_iter_init(m)");
   (0, "for(size_ti=0;i<source_vec_size(m->sources);i++)");
   (1, "conststructmtbl_source*s=source_vec_value(m->sources,i)");
   (1, "structmtbl_iter*s_it=mtbl_source_get_range(s,key,len_key,key,len_key)");
   (1, "if(s_it!=NULL)");
   (2, "iter_vec_add(it->iters,s_it)");
   (2, "merger_iter_add_entry(it,s_it)");
   (0, "if(entry_vec_size(it->entries)==0)");
   (1, "merger_iter_free(it)");
   (1, "return(NULL)");
   (0, "return(mtbl_iter_init(merger_iter_seek,merger_iter_next,merger_iter_free,it))")].
Proof. reflexivity. Qed.

(* mtbl/merger.c: merger_get_range *)
Lemma tie_mg_merger_get_range : TIE_mg_merger_get_range =
  [(0, "structmtbl_merger*m=(structmtbl_merger*)clos");
   (0, "structmerger_iter*it=merger_iter_init(m)");
   (0, "for(size_ti=0;i<source_vec_size(m->sources);i++)");
   (1, "conststructmtbl_source*s=source_vec_value(m->sources,i)");
   (1, "structmtbl_iter*s_it=mtbl_source_get_range(s,key0,len_key0,key1,len_key1)");
   (1, "if(s_it!=NULL)");
   (2, "iter_vec_add(it->iters,s_it)");
   (2, "merger_iter_add_entry(it,s_it)");
   (0, "if(entry_vec_size(it->entries)==0)");
   (1, "merger_iter_free(it)");
   (1, "return(NULL)");
   (0, "return(mtbl_iter_init(merger_iter_seek,merger_iter_next,merger_iter_free,it))")].
Proof. reflexivity. Qed.

(* mtbl/merger.c: merger_get_prefix *)
Lemma tie_mg_merger_get_prefix : TIE_mg_merger_get_prefix =
  [(0, "structmtbl_merger*m=(structmtbl_merger*)clos");
   (0, "structmerger_iter*it=merger_iter_init(m)");
   (0, "for(size_ti=0;i<source_vec_size(m->sources);i++)");
   (1, "conststructmtbl_source*s=source_vec_value(m->sources,i)");
   (1, "structmtbl_iter*s_it=mtbl_source_get_prefix(s,key,len_key)");
   (1, "if(s_it!=NULL)");
   (2, "iter_vec_add(it->iters,s_it)");
   (2, "merger_iter_add_entry(it,s_it)");
   (0, "if(entry_vec_size(it->entries)==0)");
   (1, "merger_iter_free(it)");
   (1, "return(NULL)");
   (0, "return(mtbl_iter_init(merger_iter_seek,merger_iter_next,merger_iter_free,it))")].
Proof. reflexivity. Qed.

(* libmy/heap.c: heap_init *)
Lemma tie_hp_heap_init : TIE_hp_heap_init =
  [(0, "structheap*h=my_calloc(1,sizeof(*h))");
   (0, "h->cmp=cmp");
   (0, "h->clos=clos");
   (0, "h->vec=ptrvec_init(1)");
   (0, "return(h)")].
Proof. reflexivity. Qed.

(* libmy/heap.c: heap_destroy *)
Lemma tie_hp_heap_destroy : TIE_hp_heap_destroy =
  [(0, "if(*h!=NULL)");
   (1, "ptrvec_destroy(&(*h)->vec)");
   (1, "free(*h)");
   (1, "*h=NULL")].
Proof. reflexivity. Qed.

(* libmy/heap.c: heap_clip *)
Lemma tie_hp_heap_clip : TIE_hp_heap_clip =
  [(0, "ptrvec_clip(h->vec,n_elems)")].
Proof. reflexivity. Qed.

(* libmy/heap.c: heap_add *)
Lemma tie_hp_heap_add : TIE_hp_heap_add =
  [(0, "ptrvec_add(h->vec,item)")].
Proof. reflexivity. Qed.

(* libmy/heap.c: heap_push *)
Lemma tie_hp_heap_push : TIE_hp_heap_push =
  [(0, "ptrvec_add(h->vec,item)");
   (0, "siftup(h)")].
Proof. reflexivity. Qed.

(* libmy/heap.c: heap_peek *)
Lemma tie_hp_heap_peek : TIE_hp_heap_peek =
  [(0, "if(ptrvec_size(h->vec)<1)return(NULL)");
   (0, "returnptrvec_data(h->vec)[0]")].
Proof. reflexivity. Qed.

(* libmy/vector.h: whole file *)
Lemma tie_vector_h : TIE_vector_h =
  [(0, "#include<assert.h>");
   (0, "#include""my_alloc.h""");
   (0, "#defineVECTOR_GENERATE(name,type)\");
   (0, "typedefstructname##__vector");
   (1, "\type*_v");
   (1, "\type*_p");
   (1, "\size_t_n,_n_alloced,_hint");
   (1, "\");
   (0, "name");
   (0, "\__attribute__((unused))\staticinlinename*\name##_init(unsignedhint)\");
   (1, "\name*vec");
   (1, "\vec=my_calloc(1,sizeof(name))");
   (1, "\if(hint==0)hint=1");
   (1, "\vec->_hint=vec->_n_alloced=hint");
   (1, "\vec->_v=my_malloc(vec->_n_alloced*sizeof(type))");
   (1, "\vec->_p=&(vec->_v[0])");
   (1, "\return(vec)");
   (1, "\");
   (0, "\__attribute__((unused))\staticinlinevoid\name##_reinit(unsignedhint,name*vec)\");
   (1, "\if(hint==0)hint=1");
   (1, "\vec->_hint=vec->_n_alloced=hint");
   (1, "\vec->_n=0");
   (1, "\vec->_v=my_malloc(vec->_n_alloced*sizeof(type))");
   (1, "\vec->_p=&(vec->_v[0])");
   (1, "\");
   (0, "\__attribute__((unused))\staticinlinevoid\name##_detach(name*vec,type**out,size_t*outsz)\");
   (1, "\*(out)=(vec)->_v");
   (1, "\*(outsz)=(vec)->_n");
   (1, "\(vec)->_n=0");
   (1, "\(vec)->_n_alloced=(vec)->_hint");
   (1, "\(vec)->_v=my_malloc((vec)->_n_alloced*sizeof(type))");
   (1, "\(vec)->_p=&(vec->_v[0])");
   (1, "\");
   (0, "\__attribute__((unused))\staticinlinevoid\name##_destroy(name**vec)\");
   (1, "\if(*vec)");
   (2, "\my_free((*vec)->_v)");
   (2, "\my_free((*vec))");
   (2, "\");
   (1, "\");
   (0, "\__attribute__((unused))\staticinlinevoid\name##_reserve(name*vec,size_tn_elems)\");
   (1, "\while((n_elems)>((vec)->_n_alloced-(vec)->_n))");
   (2, "\(vec)->_n_alloced*=2");
   (2, "\(vec)->_v=my_realloc((vec)->_v,(vec)->_n_alloced\*sizeof(type))");
   (2, "\(vec)->_p=&((vec)->_v[(vec)->_n])");
   (2, "\");
   (1, "\");
   (0, "\__attribute__((unused))\staticinlinevoid\name##_add(name*vec,typeelem)\");
   (1, "\while((vec)->_n+1>(vec)->_n_alloced)");
   (2, "\(vec)->_n_alloced*=2");
   (2, "\(vec)->_v=my_realloc((vec)->_v,(vec)->_n_alloced\*sizeof(type))");
   (2, "\(vec)->_p=&((vec)->_v[(vec)->_n])");
   (2, "\");
   (1, "\(vec)->_v[(vec)->_n]=elem");
   (1, "\(vec)->_n+=1");
   (1, "\(vec)->_p=&((vec)->_v[(vec)->_n])");
   (1, "\");
   (0, "\__attribute__((unused))\staticinlinevoid\name##_append(name*vec,typeconst*elems,size_tn_elems)\");
   (1, "\name##_reserve(vec,n_elems)");
   (1, "\memcpy((vec)->_v+(vec)->_n,elems,(n_elems)*sizeof(type))");
   (1, "\(vec)->_n+=(n_elems)");
   (1, "\(vec)->_p=&((vec)->_v[(vec)->_n])");
   (1, "\");
   (0, "\__attribute__((unused))\staticinlinevoid\name##_extend(name*vec0,name*vec1)\");
   (1, "\name##_append(vec0,(vec1)->_v,(vec1)->_n)");
   (1, "\");
   (0, "\__attribute__((unused))\staticinlinevoid\name##_reset(name*vec)\");
   (1, "\(vec)->_n=0");
   (1, "\if((vec)->_n_alloced>(vec)->_hint)");
   (2, "\(vec)->_n_alloced=(vec)->_hint");
   (2, "\(vec)->_v=my_realloc((vec)->_v,(vec)->_n_alloced\*sizeof(type))");
   (2, "\");
   (1, "\(vec)->_p=&(vec->_v[0])");
   (1, "\");
   (0, "\__attribute__((unused))\staticinlinevoid\name##_clip(name*vec,size_tn_elems)\");
   (1, "\if(n_elems<(vec)->_n)");
   (2, "\(vec)->_n=n_elems");
   (2, "\(vec)->_p=&((vec)->_v[(vec)->_n])");
   (2, "\");
   (1, "\");
   (0, "\__attribute__((unused))\staticinlinesize_t\name##_bytes(name*vec)\");
   (1, "\return((vec)->_n*sizeof(type))");
   (1, "\");
   (0, "\__attribute__((unused))\staticinlinesize_t\name##_size(name*vec)\");
   (1, "\return((vec)->_n)");
   (1, "\");
   (0, "\__attribute__((unused))\staticinlinetype\name##_value(name*vec,size_ti)\");
   (1, "\assert(i<(vec)->_n)");
   (1, "\return((vec)->_v[i])");
   (1, "\");
   (0, "\__attribute__((unused))\staticinlinetype*\name##_ptr(name*vec)\");
   (1, "\return((vec)->_p)");
   (1, "\");
   (0, "\__attribute__((unused))\staticinlinetype*\name##_data(name*vec)\");
   (1, "\return((vec)->_v)");
   (1, "\");
   (0, "\__attribute__((unused))\staticinlinevoid\name##_advance(name*vec,size_tx)\");
   (1, "\assert(x<=((vec)->_n_alloced-(vec)->_n))");
   (1, "\(vec)->_n+=x");
   (1, "\(vec)->_p=&((vec)->_v[(vec)->_n])");
   (1, "\")].
Proof. reflexivity. Qed.

(* libmy/ubuf.h: whole file *)
Lemma tie_ubuf_h : TIE_ubuf_h =
  [(0, "#ifndefMY_UBUF_H");
   (0, "#defineMY_UBUF_H");
   (0, "#include<stdarg.h>");
   (0, "#include<stdbool.h>");
   (0, "#include<stdint.h>");
   (0, "#include<stdio.h>");
   (0, "#include<stdlib.h>");
   (0, "#include<string.h>");
   (0, "#include""vector.h""");
   (0, "VECTOR_GENERATE(ubuf,uint8_t)");
   (0, "staticinlineubuf*ubuf_new(void)");
   (1, "return(ubuf_init(64))");
   (0, "staticinlineubuf*ubuf_dup_cstr(constchar*s)");
   (1, "size_tlen=strlen(s)");
   (1, "ubuf*u=ubuf_init(len+1)");
   (1, "ubuf_append(u,(constuint8_t*)s,len)");
   (1, "return(u)");
   (0, "staticinlinevoidubuf_add_cstr(ubuf*u,constchar*s)");
   (1, "if(ubuf_size(u)>0&&ubuf_value(u,ubuf_size(u)-1)=='\x00')ubuf_clip(u,ubuf_size(u)-1)");
   (1, "ubuf_append(u,(constuint8_t*)s,strlen(s))");
   (0, "staticinlinevoidubuf_cterm(ubuf*u)");
   (1, "if(ubuf_size(u)==0||(ubuf_size(u)>0&&ubuf_value(u,ubuf_size(u)-1)!='\x00'))");
   (2, "ubuf_append(u,(constuint8_t*)""\x00"",1)");
   (0, "staticinlinechar*ubuf_cstr(ubuf*u)");
   (1, "ubuf_cterm(u)");
   (1, "return((char*)ubuf_data(u))");
   (0, "staticinlinevoidubuf_add_fmt(ubuf*u,constchar*fmt,...)");
   (1, "va_listargs,args_copy");
   (1, "intstatus,needed");
   (1, "if(ubuf_size(u)>0&&ubuf_value(u,ubuf_size(u)-1)=='\x00')ubuf_clip(u,ubuf_size(u)-1)");
   (1, "va_start(args,fmt)");
   (1, "va_copy(args_copy,args)");
   (1, "needed=vsnprintf(NULL,0,fmt,args_copy)");
   (1, "assert(needed>=0)");
   (1, "va_end(args_copy)");
   (1, "ubuf_reserve(u,ubuf_size(u)+needed+1)");
   (1, "status=vsnprintf((char*)ubuf_ptr(u),needed+1,fmt,args)");
   (1, "assert(status>=0)");
   (1, "ubuf_advance(u,needed)");
   (1, "va_end(args)");
   (0, "staticinlinevoidubuf_rstrip(ubuf*u,chars)");
   (1, "if(ubuf_size(u)>0&&ubuf_value(u,ubuf_size(u)-1)==((uint8_t)s))");
   (2, "ubuf_clip(u,ubuf_size(u)-1)");
   (0, "#endif")].
Proof. reflexivity. Qed.
