(* C04 (and C01) for the command-line tool: "the output of mtbl_merge is a table holding exactly the merge
   of its inputs".  A companion of Properties_C04.v (its proofs build on the theorems of Properties_C04,
   Properties_C08 and Properties_C01, so it cannot be part of any of them).
   model/ToolsMerge.v follows src/mtbl_merge.c: the inputs' reader sources are added to a merger with the
   user's merge function, merge() iterates the merger from the start and hands every entry to
   mtbl_writer_add - asserting success - and the destroy calls finish the writer.
   T04t_no_assertion_fails - for strictly sorted inputs and a total merge function the iterator is not
     NULL, every add succeeds (the merger's keys ascend strictly: T04 + the acceptance rule T08), the
     writer never aborts; the loop with its assertions (merge_tool_run) ends with the same finished writer
     as the composition merge_tool_model.
   T04t_end_to_end - the output file opens with the reader and reading it from the start returns, in
     strictly ascending order, exactly the distinct keys of the inputs, each with a value that is a fold of
     the merge function over all the values the inputs hold for it (size hypotheses of C01 on the OUTPUT:
     merged values can be longer than any input value).
   T04t_inputs_as_files / T04t_file_to_file - the inputs given as files written by the writer model (any
     options each, the empty table included): the reader's iterator over such a file has, for every
     sequence of next / seek calls, the history of the ideal cursor the merger model is given; hence the
     output file reads back as the merge of the CONTENTS of the input files.
   Engine mg runs the real mtbl_merge (closure-dependent merge DSO, options -b / -c / -l / -t) and compares
   its output file with the specification; the functions of src/mtbl_merge.c are source-tied (Ties_C04). *)
From Coq Require Import NArith ZArith List Lia Permutation Sorting.Sorted.
From Mtbl Require Import gen.Consts model.Bytes model.Order model.Heap model.Merger spec.MergeSpec
  model.Block model.Writer model.Reader model.ToolsMerge proofs.MergerProofs proofs.MergeTool.
From Mtbl Require props.Properties_C01.
Import ListNotations.
Local Open Scope N_scope.

Theorem T04t_no_assertion_fails :
  forall (compress_default : N -> bytes -> res bytes) (compress_level : N -> Z -> bytes -> res bytes),
  (forall a raw, exists c, compress_default a raw = Ok c) -> (forall a l raw, exists c, compress_level a l raw = Ok c) ->
  forall (mf : bytes -> bytes -> bytes -> option bytes) (o : wopts) (srcs : list (list entry)),
  1 <= wo_interval o ->
  Forall ssorted srcs -> (forall k a b, mf k a b <> None) ->
  Forall (fun e => wf_bytes (fst e)) (concat srcs) ->
  exists w,
    merge_tool_model compress_default compress_level mf o srcs = Ok (w, map (fun _ => true) (merge_output mf srcs)) /\
    merge_tool_run compress_default compress_level mf o srcs = Ok w.
Proof. exact MT1. Qed.
Print Assumptions T04t_no_assertion_fails.

Theorem T04t_end_to_end :
  forall (compress_default : N -> bytes -> res bytes) (compress_level : N -> Z -> bytes -> res bytes)
         (decompress : N -> bytes -> res bytes),
  (forall a raw c, compress_default a raw = Ok c -> decompress a c = Ok raw) ->
  (forall a l raw c, compress_level a l raw = Ok c -> decompress a c = Ok raw) ->
  forall (mf : bytes -> bytes -> bytes -> option bytes) (o : wopts) (srcs : list (list entry)),
  (forall a raw, exists c, compress_default a raw = Ok c) -> (forall a l raw, exists c, compress_level a l raw = Ok c) ->
  1 <= wo_interval o ->
  Forall ssorted srcs -> (forall k a b, mf k a b <> None) ->
  Forall (fun e => wf_bytes (fst e)) (concat srcs) ->
  exists w, merge_tool_run compress_default compress_level mf o srcs = Ok w /\
    (Properties_C01.fits o [] (merge_output mf srcs) w ->
     (exists r, fst (reader_open (writer_bytes w) false) = Ok (Some r)) /\
     exists out, is_merge_of mf srcs out /\
       forall fuel, (length (all_keys srcs) < fuel)%nat -> read_all decompress fuel (writer_bytes w) = Ok out).
Proof. exact MT2_total. Qed.
Print Assumptions T04t_end_to_end.

Theorem T04t_inputs_as_files :
  forall (compress_default : N -> bytes -> res bytes) (compress_level : N -> Z -> bytes -> res bytes)
         (decompress : N -> bytes -> res bytes),
  (forall a raw c, compress_default a raw = Ok c -> decompress a c = Ok raw) ->
  (forall a l raw c, compress_level a l raw = Ok c -> decompress a c = Ok raw) ->
  forall o es f, written_input compress_default compress_level o es f -> input_is_cursor decompress es f.
Proof. exact MT3_input. Qed.
Print Assumptions T04t_inputs_as_files.

Theorem T04t_file_to_file :
  forall (compress_default : N -> bytes -> res bytes) (compress_level : N -> Z -> bytes -> res bytes)
         (decompress : N -> bytes -> res bytes),
  (forall a raw c, compress_default a raw = Ok c -> decompress a c = Ok raw) ->
  (forall a l raw c, compress_level a l raw = Ok c -> decompress a c = Ok raw) ->
  forall (mf : bytes -> bytes -> bytes -> option bytes) (o : wopts)
    (ins : list (wopts * list entry)) (files : list bytes) w rs,
  Forall2 (fun i f => written_input compress_default compress_level (fst i) (snd i) f) ins files ->
  1 <= wo_interval o -> (forall k a b, mf k a b <> None) ->
  merge_tool_model compress_default compress_level mf o (map snd ins) = Ok (w, rs) ->
  Properties_C01.fits o [] (merge_output mf (map snd ins)) w ->
  Forall2 (fun i f => input_is_cursor decompress (snd i) f) ins files /\
  Forall (fun b => b = true) rs /\
  (exists r, fst (reader_open (writer_bytes w) false) = Ok (Some r)) /\
  exists out, is_merge_of mf (map snd ins) out /\
    forall fuel, (length (all_keys (map snd ins)) < fuel)%nat -> read_all decompress fuel (writer_bytes w) = Ok out.
Proof. exact MT3. Qed.
Print Assumptions T04t_file_to_file.
