(* Source ties of C11: the statements of the C functions its model follows, as they were when the model
   was written and validated against them (tools/gen_ties.py --expected).  gen/Ties.v is regenerated from
   /repo on every run; a changed statement breaks the corresponding lemma below. *)
From Coq Require Import List String.
From Mtbl Require Import gen.Ties.
Import ListNotations.
Local Open Scope string_scope.

(* mtbl/reader.c: get_block *)
Lemma tie_reader_get_block : TIE_reader_get_block =
  [(0, "boolneeds_free=false");
   (0, "uint8_t*block_contents=NULL,*raw_contents=NULL");
   (0, "size_tblock_contents_size=0,raw_contents_size=0");
   (0, "size_traw_contents_size_len");
   (0, "mtbl_resres");
   (0, "assert(offset<r->len_data)");
   (0, "if(r->m.file_version==MTBL_FORMAT_V1)");
   (1, "raw_contents_size_len=sizeof(uint32_t)");
   (1, "raw_contents_size=mtbl_fixed_decode32(&r->data[offset+0])");
   (0, "else");
   (1, "uint64_ttmp");
   (1, "raw_contents_size_len=mtbl_varint_decode64(&r->data[offset+0],&tmp)");
   (1, "raw_contents_size=tmp");
   (1, "assert((uint64_t)raw_contents_size==tmp)");
   (0, "raw_contents=&r->data[offset+raw_contents_size_len+sizeof(uint32_t)]");
   (0, "if(r->opt.verify_checksums)");
   (1, "uint32_tblock_crc,calc_crc");
   (1, "block_crc=mtbl_fixed_decode32(&r->data[offset+raw_contents_size_len])");
   (1, "calc_crc=mtbl_crc32c(raw_contents,raw_contents_size)");
   (1, "assert(block_crc==calc_crc)");
   (0, "if(r->m.compression_algorithm==MTBL_COMPRESSION_NONE)");
   (1, "block_contents=raw_contents");
   (1, "block_contents_size=raw_contents_size");
   (0, "else");
   (1, "needs_free=true");
   (1, "res=mtbl_decompress(r->m.compression_algorithm,raw_contents,raw_contents_size,&block_contents,&block_contents_size)");
   (1, "assert(res==mtbl_res_success)");
   (0, "return(block_init(block_contents,block_contents_size,needs_free))")].
Proof. reflexivity. Qed.

(* mtbl/block.c: block_init *)
Lemma tie_block_init : TIE_block_init =
  [(0, "structblock*b=my_calloc(1,sizeof(*b))");
   (0, "b->data=data");
   (0, "b->size=size");
   (0, "if(size<sizeof(uint32_t))");
   (1, "b->size=0");
   (0, "else");
   (1, "b->restart_offset=size-(1+num_restarts(b))*sizeof(uint32_t)");
   (0, "if(b->restart_offset>UINT32_MAX)");
   (1, "b->restart_offset=size-(sizeof(uint32_t)+num_restarts(b)*sizeof(uint64_t))");
   (1, "if(b->restart_offset<=UINT32_MAX)b->size=0");
   (0, "if(b->restart_offset>size-sizeof(uint32_t))");
   (1, "b->size=0");
   (0, "b->needs_free=needs_free");
   (0, "return(b)")].
Proof. reflexivity. Qed.

(* mtbl/block.c: get_restart_point *)
Lemma tie_block_get_restart_point : TIE_block_get_restart_point =
  [(0, "assert(idx<bi->num_restarts)");
   (0, "if(bi->restarts>UINT32_MAX)return(mtbl_fixed_decode64(bi->data+bi->restarts+idx*sizeof(uint64_t)))");
   (0, "return(mtbl_fixed_decode32(bi->data+bi->restarts+idx*sizeof(uint32_t)))")].
Proof. reflexivity. Qed.

(* mtbl/block.c: parse_next_key *)
Lemma tie_block_parse_next_key : TIE_block_parse_next_key =
  [(0, "bi->current=next_entry_offset(bi)");
   (0, "uint8_t*p=bi->data+bi->current");
   (0, "uint8_t*limit=bi->data+bi->restarts");
   (0, "if(p>=limit)");
   (1, "bi->current=bi->restarts");
   (1, "bi->restart_index=bi->num_restarts");
   (1, "return(false)");
   (0, "uint32_tshared,non_shared,value_length");
   (0, "p=decode_entry(p,limit,&shared,&non_shared,&value_length)");
   (0, "assert(!(p==NULL||ubuf_size(bi->key)<shared))");
   (0, "ubuf_clip(bi->key,shared)");
   (0, "ubuf_append(bi->key,p,non_shared)");
   (0, "bi->next=p+non_shared+value_length");
   (0, "bi->val=p+non_shared");
   (0, "bi->val_len=value_length");
   (0, "while(bi->restart_index+1<bi->num_restarts&&get_restart_point(bi,bi->restart_index+1)<bi->current)");
   (1, "bi->restart_index+=1");
   (0, "return(true)")].
Proof. reflexivity. Qed.

(* mtbl/block.c: decode_entry *)
Lemma tie_block_decode_entry : TIE_block_decode_entry =
  [(0, "if(limit-p<3)return(NULL)");
   (0, "*shared=p[0]");
   (0, "*non_shared=p[1]");
   (0, "*value_length=p[2]");
   (0, "if((*shared|*non_shared|*value_length)<128)");
   (1, "p+=3");
   (0, "else");
   (1, "p+=mtbl_varint_decode32(p,shared)");
   (1, "p+=mtbl_varint_decode32(p,non_shared)");
   (1, "p+=mtbl_varint_decode32(p,value_length)");
   (1, "assert(p<=limit)");
   (0, "assert(!((limit-p)<(*non_shared+*value_length)))");
   (0, "return(p)")].
Proof. reflexivity. Qed.

(* mtbl/block.c: num_restarts *)
Lemma tie_blk_num_restarts : TIE_blk_num_restarts =
  [(0, "assert(b->size>=2*sizeof(uint32_t))");
   (0, "return(mtbl_fixed_decode32(b->data+b->size-sizeof(uint32_t)))")].
Proof. reflexivity. Qed.

(* mtbl/block.c: block_iter_init *)
Lemma tie_blk_block_iter_init : TIE_blk_block_iter_init =
  [(0, "assert(b->size>=2*sizeof(uint32_t))");
   (0, "structblock_iter*bi=my_calloc(1,sizeof(*bi))");
   (0, "bi->block=b");
   (0, "bi->data=b->data");
   (0, "bi->restarts=b->restart_offset");
   (0, "bi->num_restarts=num_restarts(b)");
   (0, "bi->current=bi->restarts");
   (0, "bi->restart_index=bi->num_restarts");
   (0, "assert(bi->num_restarts>0)");
   (0, "bi->key=ubuf_init(64)");
   (0, "return(bi)")].
Proof. reflexivity. Qed.

(* mtbl/block.c: next_entry_offset *)
Lemma tie_blk_next_entry_offset : TIE_blk_next_entry_offset =
  [(0, "return(bi->next-bi->data)")].
Proof. reflexivity. Qed.

(* mtbl/block.c: seek_to_restart_point *)
Lemma tie_blk_seek_to_restart_point : TIE_blk_seek_to_restart_point =
  [(0, "ubuf_reset(bi->key)");
   (0, "bi->restart_index=idx");
   (0, "uint64_toffset=get_restart_point(bi,idx)");
   (0, "bi->next=bi->data+offset")].
Proof. reflexivity. Qed.

(* mtbl/block.c: block_iter_valid *)
Lemma tie_blk_block_iter_valid : TIE_blk_block_iter_valid =
  [(0, "return(bi->current<bi->restarts)")].
Proof. reflexivity. Qed.

(* mtbl/block.c: block_iter_seek_to_first *)
Lemma tie_blk_block_iter_seek_to_first : TIE_blk_block_iter_seek_to_first =
  [(0, "seek_to_restart_point(bi,0)");
   (0, "parse_next_key(bi)")].
Proof. reflexivity. Qed.

(* mtbl/block.c: compare_restart_point *)
Lemma tie_blk_compare_restart_point : TIE_blk_compare_restart_point =
  [(0, "uint32_tshared,non_shared,value_length");
   (0, "uint64_tregion_offset=get_restart_point(bi,i)");
   (0, "constuint8_t*key_ptr=decode_entry(bi->data+region_offset,bi->data+bi->restarts,&shared,&non_shared,&value_length)");
   (0, "assert(key_ptr!=NULL&&shared==0)");
   (0, "returnbytes_compare(key_ptr,non_shared,target,target_len)")].
Proof. reflexivity. Qed.

(* mtbl/block.c: block_iter_next *)
Lemma tie_blk_block_iter_next : TIE_blk_block_iter_next =
  [(0, "if(!block_iter_valid(bi))return(false)");
   (0, "parse_next_key(bi)");
   (0, "return(block_iter_valid(bi))")].
Proof. reflexivity. Qed.

(* mtbl/block.c: block_iter_get *)
Lemma tie_blk_block_iter_get : TIE_blk_block_iter_get =
  [(0, "if(!block_iter_valid(bi))return(false)");
   (0, "if(key)");
   (1, "*key=ubuf_data(bi->key)");
   (1, "*key_len=ubuf_size(bi->key)");
   (0, "if(val)");
   (1, "*val=bi->val");
   (1, "*val_len=bi->val_len");
   (0, "return(true)")].
Proof. reflexivity. Qed.
