(* C13 - Pooled writers and sorters: same result under every interleaving, no hangs.
   Model: model/Pool.v, a labelled transition system of threadpool.c at the granularity of
   single pthread operations (lock, unlock, the release half of cond_wait, re-acquisition
   after a wake-up, signal with the woken waiter chosen arbitrarily, create, join, thread
   start/exit, spurious wake-ups), for any pool size, any caller program over any number
   of ordered / unordered result handlers sharing the pool.
   PROVED, for EVERY schedule (spurious wake-ups and arbitrary choices of the woken waiter
   included), every pool size and every caller program that respects the API contract
   (prog_wf, executable: handlers exist before they are used, no dispatch after finish, each
   handler finished once, the pool destroyed last), under the schedule condition sched_wf
   (a signal wakes only a thread that is blocked on a condition variable):
   T13a - never more worker threads than the configured maximum;
   T13_locks - the mutexes a thread holds are a function of its program point, no mutex has
     two owners, unlock / cond_wait are performed by the owner, nobody locks what it holds;
   T13_no_abort - no assertion of threadpool.c can fail (idle workers carry no callback, no
     result and are not running; no dispatch on a finished queue; a result queue is destroyed
     empty, finished and with its counter at zero) - via the worker life-cycle invariant;
   T13b - nothing is delivered twice and an ordered handler delivers in dispatch order;
   T13_exactly_once - when every thread has finished, each handler has delivered exactly the
     jobs dispatched to it (a permutation of them; with T13b: the dispatch sequence itself
     for an ordered handler).
   REFUTED as first stated: T13d_statement (no hang) is false when a signal may wake nobody
   although a waiter exists (T13d_refuted: a lost wake-up schedule, maxt = 1) - pthread's
   guarantee "signal wakes at least one waiter" must be a hypothesis; T13_without_sched_wf /
   T13_without_prog_wf show that the other two hypotheses are needed as well.  The no-hang
   clause with that hypothesis added is NOT proved (partial: in a terminal state of a
   reachable run every live thread waits in cond_wait or join, or for the pool mutex held by
   the destroyer; proofs/PoolLive.v when present); engine pl reports any deadlock of the real
   threadpool.c on every explored schedule.
   Engine pl runs the real threadpool.c under a schedule-controlling pthread shim - the
   default schedule, EVERY single preemption of it, seeded random schedules with random
   signal targets and spurious wake-ups, pairs of preemptions (thorough) - and replays each
   trace on the LTS comparing, after every step, the operation performed and the set of
   enabled threads; it also checks the hypotheses sched_wf and prog_wf on every trace.
   Byte-identity of pooled writer output and equality of pooled sorter output are checked by
   engines wr and so with real threads (pools 0..8). *)
From Coq Require Import NArith List Lia Permutation.
From Mtbl Require Import model.Bytes model.Pool proofs.PoolProofs proofs.PoolSched proofs.PoolBase proofs.PoolInv proofs.PoolLife proofs.PoolStep2
  proofs.PoolAbort proofs.PoolDelivery proofs.PoolExact proofs.PoolCex.
(* source ties: the statements of the C functions the model follows (gen/Ties.v is regenerated from /repo on every run) *)
From Mtbl Require props.Ties_C13.
Local Open Scope N_scope.

Lemma pool_init_cinv maxt prog : cinv (pool_init maxt prog) /\ ps_max (pool_init maxt prog) = maxt.
Proof.
  unfold pool_init.
  set (st0 := mkp [dummy_t] [] [] 0 maxt [] [] prog 0 [] false).
  assert (H0 : cinv st0) by (unfold cinv; cbn; lia).
  pose proof (caller_next_cinv st0 H0) as [H1 H2].
  destruct (caller_next st0) as [st1 th]. cbn [fst] in H1, H2. unfold cinv, set_thread in *. cbn. split; [exact H1|exact H2].
Qed.

Lemma pspurious_cinv st t st' : cinv st -> pspurious st t = Some st' -> cinv st' /\ ps_max st' = ps_max st.
Proof.
  intros H E. unfold pspurious in E. destruct (t_blocked (gett st t)); [|discriminate].
  inversion E; subst. unfold cinv, set_thread in *. cbn. split; [exact H|reflexivity].
Qed.

(* T13a *)
Theorem T13a_never_more_workers_than_max : forall maxt prog s st stash,
  prun (pool_init maxt prog) [] s = Some (st, stash) -> ps_count st <= maxt.
Proof.
  intros maxt prog s.
  destruct (pool_init_cinv maxt prog) as [H0 Hm0].
  generalize dependent (pool_init maxt prog). generalize (@nil (nat * N)).
  induction s as [|[t w|t] s IH]; intros stash0 st0 H0 Hm0 st stash E; cbn [prun] in E.
  - inversion E; subst. unfold cinv in H0. lia.
  - destruct (pstep st0 t w stash0) as [[[[st1 op] o] stash1]|] eqn:Es; [|discriminate].
    destruct (pstep_cinv _ _ _ _ _ _ _ _ H0 Es) as [H1 Hm1].
    eapply IH; [exact H1| |exact E]. congruence.
  - destruct (pspurious st0 t) as [st1|] eqn:Es; [|discriminate].
    destruct (pspurious_cinv _ _ _ H0 Es) as [H1 Hm1].
    eapply IH; [exact H1| |exact E]. congruence.
Qed.
Print Assumptions T13a_never_more_workers_than_max.

(* a concrete schedule evaluated in the model: one ordered handler, two jobs, pool of one
   thread; the run reaches a state where the caller waits for the single worker *)
Example T13_example :
  let st0 := pool_init 1 [NewHandler true; Dispatch 0; Dispatch 0; Finish 0; DestroyPool] in
  enabled_set st0 = [0; 1]%nat /\
  match prun st0 [] [SRun 0 None; SRun 0 None; SRun 0 None; SRun 0 None] with
  | Some (st, _) => ps_count st = 1 /\ length (ps_threads st) = 3%nat /\ enabled_set st = [0; 1; 2]%nat
  | None => False
  end.
Proof. vm_compute. repeat split. Qed.

(* ---- the invariants of proofs/PoolInv.v, PoolAbort.v, PoolDelivery.v, PoolExact.v ------------- *)
Theorem T13_locks : forall maxt prog st stash, reachable maxt prog st stash ->
  NoDup (map fst (ps_owner st)) /\
  (forall m t, owner_of st m = Some t <-> In m (holds (gett st t))) /\
  (forall t, t_op (gett st t) = KUnlock -> owner_of st (t_obj (gett st t)) = Some t) /\
  (forall t, t_op (gett st t) = KWait -> owner_of st (wait_mutex (t_lab (gett st t))) = Some t) /\
  (forall t, t_op (gett st t) = KLock \/ t_op (gett st t) = KReacq -> owner_of st (t_obj (gett st t)) <> Some t).
Proof.
  intros maxt prog st stash R. pose proof (T13_locks_consistent maxt prog st stash R) as I.
  split; [exact (i1_nodup _ I)|]. split; [exact (i1_own _ I)|].
  split; [intros t; apply unlock_by_owner; exact I|]. split; [intros t; apply wait_by_owner; exact I|intros t; apply lock_not_self; exact I].
Qed.
Print Assumptions T13_locks.

Theorem T13_no_abort : forall maxt prog s st stash, prog_wf prog = true ->
  sched_wf (pool_init maxt prog) [] s ->
  prun (pool_init maxt prog) [] s = Some (st, stash) -> ps_abort st = false.
Proof. exact PoolAbort.T13_no_abort. Qed.
Print Assumptions T13_no_abort.

Theorem T13b : forall maxt prog s st stash, prog_wf prog = true ->
  sched_wf (pool_init maxt prog) [] s ->
  prun (pool_init maxt prog) [] s = Some (st, stash) ->
  NoDup (ps_delivered st) /\
  forall h, q_ordered (getq st h) = true ->
    increasing (map snd (filter (fun p => Nat.eqb (fst p) h) (ps_delivered st))).
Proof. exact PoolDelivery.T13b. Qed.
Print Assumptions T13b.

Theorem T13_exactly_once : forall maxt prog s st stash, prog_wf prog = true ->
  sched_wf (pool_init maxt prog) [] s ->
  prun (pool_init maxt prog) [] s = Some (st, stash) ->
  all_done st ->
  forall h, Permutation (map snd (filter (fun p => Nat.eqb (fst p) h) (ps_delivered st))) (dispatched prog 0 h).
Proof. exact PoolExact.T13_exactly_once. Qed.
Print Assumptions T13_exactly_once.

(* the no-hang statement as first written is false: a signal that wakes nobody although a waiter exists *)
Theorem T13d_refuted : ~ T13d_statement.
Proof. exact T13d_statement_false. Qed.
Print Assumptions T13d_refuted.

(* the hypotheses are needed and satisfiable: a schedule that wakes a thread which is not blocked breaks the lock
   discipline of the MODEL (an artefact excluded by sched_wf); a program that dispatches after finish trips the assert;
   a complete run of a well-formed program under a well-formed schedule ends with every thread done *)
Example T13_hypotheses :
  ~ sched_wf (pool_init 1 [NewHandler true; Dispatch 0]) [] cex_wake_sched /\
  (sched_wf (pool_init 1 cex_d_prog) [] cex_d_sched /\ prog_wf cex_d_prog = true) /\
  sched_wf (pool_init 2 full_prog) [] full_sched.
Proof. split; [exact cex_rogue_wake_not_wf|]. split; [exact cex_d_sched_wf|exact full_sched_wf]. Qed.
