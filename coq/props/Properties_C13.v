(* C13 - Pooled writers and sorters: same result under every interleaving, no hangs.
   Model: model/Pool.v, a labelled transition system of threadpool.c at the granularity of
   single pthread operations (lock, unlock, the release half of cond_wait, re-acquisition
   after a wake-up, signal with the woken waiter chosen arbitrarily, create, join, thread
   start/exit, spurious wake-ups), for any pool size, any caller program over any number
   of ordered / unordered result handlers sharing the pool.
   PROVED, for EVERY schedule (spurious wake-ups and arbitrary choices of the woken waiter
   included), every pool size and every caller program that respects the API contract
   (prog_wf, executable: handlers exist before they are used, no dispatch after finish, each
   handler finished once, the pool destroyed last), under the schedule condition sched_wf
   (a signal wakes only a thread that is blocked on a condition variable):
   T13a - never more worker threads than the configured maximum;
   T13_locks - the mutexes a thread holds are a function of its program point, no mutex has
     two owners, unlock / cond_wait are performed by the owner, nobody locks what it holds;
   T13_no_abort - no assertion of threadpool.c can fail (idle workers carry no callback, no
     result and are not running; no dispatch on a finished queue; a result queue is destroyed
     empty, finished and with its counter at zero) - via the worker life-cycle invariant;
   T13b - nothing is delivered twice and an ordered handler delivers in dispatch order;
   T13_exactly_once - when every thread has finished, each handler has delivered exactly the
     jobs dispatched to it (a permutation of them; with T13b: the dispatch sequence itself
     for an ordered handler).
   T13_ordered_sequence / T13_ordered_prefix - for an ordered handler the delivered jobs are, at
     the end, exactly the dispatch sequence, and at EVERY reachable state a prefix of it (so the
     pooled writer's handler sees its blocks in the order the caller cut them - the reason the
     output file is byte-identical to the one written without a pool);
   T13d_fair - NO HANG: for a program that respects the API contract and ends with the pool's
     destruction, a pool of 1 <= maxt < 2^64 threads, and every schedule in which a signal wakes
     a waiter of that condition variable whenever one exists (pthread_cond_signal's guarantee;
     spurious wake-ups and the choice of the woken waiter stay arbitrary): a state in which no
     thread can run is a state in which every thread has exited, and no assertion failed.  So
     every finish / destroy call returns.  Proof: invariant Inv5 (no lost wake-up: each blocked
     waiter is served by a pending signal or its condition is false; thread accounting modulo
     2^64; handler exit implies its queue is drained) + T13_no_mutex_cycle (in a terminal state
     every live thread is in cond_wait, in join, or waits for the pool mutex held by a joiner).
   REFUTED as first stated: T13d_statement (no hang for EVERY schedule) is false when a signal
   may wake nobody although a waiter exists (T13d_refuted: a lost wake-up schedule, maxt = 1) -
   hence the hypothesis sched_fair of T13d_fair; T13_hypotheses shows the other hypotheses are
   needed and that a complete concrete run meets all of them (proofs/PoolFairEx.v).
   Engine pl runs the real threadpool.c under a schedule-controlling pthread shim - the
   default schedule, EVERY single preemption of it, seeded random schedules with random
   signal targets and spurious wake-ups, pairs of preemptions (thorough) - and replays each
   trace on the LTS comparing, after every step, the operation performed and the set of
   enabled threads; it also checks the hypotheses sched_wf, sched_fair (extracted checker
   sched_fairb, proved sound) and prog_wf on every trace, and that a trace ending in a state
   with no enabled thread ends with every thread exited.
   THE WRITER AND SORTER CLAUSES (second part of this file; proofs/WriterPooled.v,
   WriterPooledIds.v, SorterPooled.v):
   T13w_any_interleaving - the pooled writer of writer.c as a deferred writer (flush = snapshot of
     options, last key and raw block + dispatch; worker = the pure compress step; ordered handler =
     _mtbl_writer_write_data_block; finish waits for every job): for EVERY interleaving of the
     caller's adds with the handler's callbacks (each callback at any point where a job is
     outstanding) the outcome equals the sequential writer's - the same writer value, hence the
     same file bytes and metadata, and the same result of every add; an assertion fails in the one
     iff it fails in the other.
   T13w_handler_order - in every complete run of the pool LTS on the writer's pool calls the
     ordered handler receives the jobs 0, 1, ..., n-1 in this order (a prefix at every reachable
     state): any pool size, any schedule.
   T13w_pooled_writer_same_file / T13w_callbacks_anywhere - the composition: the handler applied
     to the jobs in the order the LTS delivered their ids, callbacks at arbitrary positions
     between the adds, then the finish = the sequential session (bytes, metadata, add results).
   T13s_every_chunk_once / T13s_pooled_sorter / T13s_pooled_sorter_same_entries - the unordered
     handler of the sorter collects every chunk exactly once in SOME order (a permutation); the
     sorter iterating over its chunks in that order yields strictly ascending distinct keys, each
     value a fold of the merge function over exactly the values added for the key (associative
     merge functions); and with a commutative merge function the drained output EQUALS the one
     without a pool (commutativity machine-checked necessary: T13s_needs_commutativity).
   Engines wr and so additionally compare pooled and unpooled output with real threads (pools 0..8). *)
From Coq Require Import NArith List Lia Permutation.
From Mtbl Require Import model.Bytes model.Pool proofs.PoolProofs proofs.PoolSched proofs.PoolBase proofs.PoolInv proofs.PoolLife proofs.PoolStep2
  proofs.PoolAbort proofs.PoolDelivery proofs.PoolExact proofs.PoolCex proofs.PoolOrdered
  proofs.PoolLive proofs.PoolLive1 proofs.PoolLive4 proofs.PoolFairEx.
(* source ties: the statements of the C functions the model follows (gen/Ties.v is regenerated from /repo on every run) *)
From Mtbl Require props.Ties_C13.
Local Open Scope N_scope.

(* T13a *)
Theorem T13a_never_more_workers_than_max : forall maxt prog s st stash,
  prun (pool_init maxt prog) [] s = Some (st, stash) -> ps_count st <= maxt.
Proof.
  intros maxt prog s.
  destruct (pool_init_cinv maxt prog) as [H0 Hm0].
  generalize dependent (pool_init maxt prog). generalize (@nil (nat * N)).
  induction s as [|[t w|t] s IH]; intros stash0 st0 H0 Hm0 st stash E; cbn [prun] in E.
  - inversion E; subst. unfold cinv in H0. lia.
  - destruct (pstep st0 t w stash0) as [[[[st1 op] o] stash1]|] eqn:Es; [|discriminate].
    destruct (pstep_cinv _ _ _ _ _ _ _ _ H0 Es) as [H1 Hm1].
    eapply IH; [exact H1| |exact E]. congruence.
  - destruct (pspurious st0 t) as [st1|] eqn:Es; [|discriminate].
    destruct (pspurious_cinv _ _ _ H0 Es) as [H1 Hm1].
    eapply IH; [exact H1| |exact E]. congruence.
Qed.
Print Assumptions T13a_never_more_workers_than_max.

(* a concrete schedule evaluated in the model: one ordered handler, two jobs, pool of one
   thread; the run reaches a state where the caller waits for the single worker *)
Example T13_example :
  let st0 := pool_init 1 [NewHandler true; Dispatch 0; Dispatch 0; Finish 0; DestroyPool] in
  enabled_set st0 = [0; 1]%nat /\
  match prun st0 [] [SRun 0 None; SRun 0 None; SRun 0 None; SRun 0 None] with
  | Some (st, _) => ps_count st = 1 /\ length (ps_threads st) = 3%nat /\ enabled_set st = [0; 1; 2]%nat
  | None => False
  end.
Proof. vm_compute. repeat split. Qed.

(* ---- the invariants of proofs/PoolInv.v, PoolAbort.v, PoolDelivery.v, PoolExact.v ------------- *)
Theorem T13_locks : forall maxt prog st stash, reachable maxt prog st stash ->
  NoDup (map fst (ps_owner st)) /\
  (forall m t, owner_of st m = Some t <-> In m (holds (gett st t))) /\
  (forall t, t_op (gett st t) = KUnlock -> owner_of st (t_obj (gett st t)) = Some t) /\
  (forall t, t_op (gett st t) = KWait -> owner_of st (wait_mutex (t_lab (gett st t))) = Some t) /\
  (forall t, t_op (gett st t) = KLock \/ t_op (gett st t) = KReacq -> owner_of st (t_obj (gett st t)) <> Some t).
Proof.
  intros maxt prog st stash R. pose proof (T13_locks_consistent maxt prog st stash R) as I.
  split; [exact (i1_nodup _ I)|]. split; [exact (i1_own _ I)|].
  split; [intros t; apply unlock_by_owner; exact I|]. split; [intros t; apply wait_by_owner; exact I|intros t; apply lock_not_self; exact I].
Qed.
Print Assumptions T13_locks.

Theorem T13_no_abort : forall maxt prog s st stash, prog_wf prog = true ->
  sched_wf (pool_init maxt prog) [] s ->
  prun (pool_init maxt prog) [] s = Some (st, stash) -> ps_abort st = false.
Proof. exact PoolAbort.T13_no_abort. Qed.
Print Assumptions T13_no_abort.

Theorem T13b : forall maxt prog s st stash, prog_wf prog = true ->
  sched_wf (pool_init maxt prog) [] s ->
  prun (pool_init maxt prog) [] s = Some (st, stash) ->
  NoDup (ps_delivered st) /\
  forall h, q_ordered (getq st h) = true ->
    increasing (map snd (filter (fun p => Nat.eqb (fst p) h) (ps_delivered st))).
Proof. exact PoolDelivery.T13b. Qed.
Print Assumptions T13b.

Theorem T13_exactly_once : forall maxt prog s st stash, prog_wf prog = true ->
  sched_wf (pool_init maxt prog) [] s ->
  prun (pool_init maxt prog) [] s = Some (st, stash) ->
  all_done st ->
  forall h, Permutation (map snd (filter (fun p => Nat.eqb (fst p) h) (ps_delivered st))) (dispatched prog 0 h).
Proof. exact PoolExact.T13_exactly_once. Qed.
Print Assumptions T13_exactly_once.

(* an ordered handler: at the end the delivered jobs ARE the dispatch sequence ... *)
Theorem T13_ordered_sequence : forall maxt prog s st stash, prog_wf prog = true ->
  sched_wf (pool_init maxt prog) [] s ->
  prun (pool_init maxt prog) [] s = Some (st, stash) ->
  all_done st ->
  forall h, q_ordered (getq st h) = true ->
    map snd (filter (fun p => Nat.eqb (fst p) h) (ps_delivered st)) = dispatched prog 0 h.
Proof. exact PoolOrdered.T13_ordered_sequence. Qed.
Print Assumptions T13_ordered_sequence.

(* ... and at every reachable state a prefix of it *)
Theorem T13_ordered_prefix : forall maxt prog s st stash, prog_wf prog = true ->
  sched_wf (pool_init maxt prog) [] s ->
  prun (pool_init maxt prog) [] s = Some (st, stash) ->
  forall h, q_ordered (getq st h) = true ->
    exists rest, dispatched prog 0 h = map snd (filter (fun p => Nat.eqb (fst p) h) (ps_delivered st)) ++ rest.
Proof. exact PoolOrdered.T13_ordered_prefix. Qed.
Print Assumptions T13_ordered_prefix.

(* no hang, under pthread_cond_signal's guarantee (sched_fair): nothing enabled => everything has exited *)
Theorem T13d_fair : forall maxt prog s st stash,
  (1 <= maxt)%N -> (maxt < two64)%N -> prog_wf prog = true -> has_destroy prog = true ->
  sched_fair (pool_init maxt prog) [] s ->
  prun (pool_init maxt prog) [] s = Some (st, stash) ->
  terminal st -> all_done st /\ ps_abort st = false.
Proof. exact PoolLive4.T13d_fair. Qed.
Print Assumptions T13d_fair.

(* the executable schedule condition the engine evaluates implies the hypothesis of T13d_fair *)
Theorem T13d_fair_checker_sound : forall s st stash, sched_fairb st stash s = true -> sched_fair st stash s.
Proof. exact sched_fairb_sound. Qed.
Print Assumptions T13d_fair_checker_sound.

(* the no-hang statement as first written is false: a signal that wakes nobody although a waiter exists *)
Theorem T13d_refuted : ~ T13d_statement.
Proof. exact T13d_statement_false. Qed.
Print Assumptions T13d_refuted.

(* the hypotheses are needed and satisfiable: a schedule that wakes a thread which is not blocked breaks the lock
   discipline of the MODEL (an artefact excluded by sched_wf); a program that dispatches after finish trips the assert;
   a complete run of a well-formed program under a well-formed schedule ends with every thread done *)
Example T13_hypotheses :
  ~ sched_wf (pool_init 1 [NewHandler true; Dispatch 0]) [] cex_wake_sched /\
  (sched_wf (pool_init 1 cex_d_prog) [] cex_d_sched /\ prog_wf cex_d_prog = true) /\
  sched_wf (pool_init 2 full_prog) [] full_sched /\
  ((1 <= 2)%N /\ (2 < two64)%N /\ prog_wf full_prog = true /\ has_destroy full_prog = true /\
   sched_fair (pool_init 2 full_prog) [] full_sched /\
   match prun (pool_init 2 full_prog) [] full_sched with
   | Some (st, _) => terminalb st = true /\ forallb t_done (ps_threads st) = true /\ ps_abort st = false
   | None => False
   end).
Proof.
  split; [exact cex_rogue_wake_not_wf|]. split; [exact cex_d_sched_wf|]. split; [exact full_sched_wf|exact T13d_fair_hypotheses_met].
Qed.


(* ================================================================================================ *)
(* The writer and sorter clauses of C13: composition of the pool theorems with the writer / sorter   *)
(* models (proofs/WriterPooled.v, WriterPooledIds.v, SorterPooled.v)                                 *)
(* ================================================================================================ *)
From Coq Require Import ZArith Sorting.Sorted.
From Mtbl Require Import gen.Consts model.Order model.Block model.Writer model.Heap model.Merger model.Sorter spec.MergeSpec
  proofs.SorterProofs proofs.MergerProofs proofs.SorterFull proofs.SorterMore proofs.WriterPooled proofs.WriterPooledIds proofs.SorterPooled.
Import ListNotations.

Section C13_writer.
Variable compress_default : N -> bytes -> res bytes.
Variable compress_level : N -> Z -> bytes -> res bytes.

(* every interleaving of adds and (enabled) callbacks, then the finish = the sequential session *)
Theorem T13w_any_interleaving : forall o off evs,
  no_finish evs = true -> delivers_enabled compress_default compress_level (dinit o off) evs = true ->
  prun_events compress_default compress_level o off (evs ++ [EFinish]) =
    match writer_session compress_default compress_level o off (erase evs) with
    | Ok (w, rs) => Ok (w, [], rs)
    | _ => Abort
    end.
Proof. exact (WP1 compress_default compress_level). Qed.

(* the composition with the LTS: handler calls in the order the pool delivered the job ids *)
Theorem T13w_pooled_writer_same_file : forall o off ops wc jobs rs w rs',
  caller_session compress_default compress_level o off ops = Ok (wc, jobs, rs) ->
  writer_session compress_default compress_level o off ops = Ok (w, rs') ->
  forall maxt s st stash,
  sched_wf (pool_init maxt (writer_prog (length jobs))) [] s ->
  prun (pool_init maxt (writer_prog (length jobs))) [] s = Some (st, stash) ->
  all_done st ->
  exists w', handler_session compress_default compress_level wc jobs (delivered_ids st 0) = Ok w' /\
             writer_bytes w' = writer_bytes w /\ w_m w' = w_m w /\ rs' = rs.
Proof. exact (WP3_bytes compress_default compress_level). Qed.

(* ... both outcomes: Ok with the same writer, or an assertion fails in both *)
Theorem T13w_pooled_writer_same_outcome : forall o off ops wc jobs rs,
  caller_session compress_default compress_level o off ops = Ok (wc, jobs, rs) ->
  forall maxt s st stash,
  sched_wf (pool_init maxt (writer_prog (length jobs))) [] s ->
  prun (pool_init maxt (writer_prog (length jobs))) [] s = Some (st, stash) ->
  all_done st ->
  match writer_session compress_default compress_level o off ops with
  | Ok (w, rs') => handler_session compress_default compress_level wc jobs (delivered_ids st 0) = Ok w /\ rs' = rs
  | _ => handler_session compress_default compress_level wc jobs (delivered_ids st 0) = Abort
  end.
Proof. exact (WP3 compress_default compress_level). Qed.

(* callbacks at arbitrary positions between the adds, ids from a complete run of the LTS *)
Theorem T13w_callbacks_anywhere : forall o off ievs rest n,
  dispatched_total compress_default compress_level o off ievs n ->
  irun compress_default compress_level (writer_init o off, []) ievs <> Fail ->
  forall maxt s st stash,
  sched_wf (pool_init maxt (writer_prog n)) [] s ->
  prun (pool_init maxt (writer_prog n)) [] s = Some (st, stash) ->
  all_done st ->
  calls ievs ++ rest = delivered_ids st 0 ->
  isession compress_default compress_level o off ievs rest =
    match writer_session compress_default compress_level o off (iadds ievs) with
    | Ok (w, rs) => Ok (w, rs)
    | _ => Abort
    end.
Proof. exact (WP3i compress_default compress_level). Qed.
End C13_writer.
Print Assumptions T13w_any_interleaving.
Print Assumptions T13w_pooled_writer_same_file.
Print Assumptions T13w_pooled_writer_same_outcome.
Print Assumptions T13w_callbacks_anywhere.

(* what the ordered handler of the writer receives: 0, 1, ..., n-1; a prefix at every reachable state *)
Theorem T13w_handler_order : forall maxt n s st stash,
  sched_wf (pool_init maxt (writer_prog n)) [] s ->
  prun (pool_init maxt (writer_prog n)) [] s = Some (st, stash) ->
  (all_done st -> delivered_ids st 0 = job_ids n) /\
  exists m, (m <= n)%nat /\ delivered_ids st 0 = job_ids m.
Proof.
  intros maxt n s st stash W E. split; [intros A; exact (WP2 maxt n s st stash W E A)|exact (WP2_prefix maxt n s st stash W E)].
Qed.
Print Assumptions T13w_handler_order.

(* the sorter's unordered handler: every chunk job exactly once, in some order *)
Theorem T13s_every_chunk_once : forall maxt n s st stash,
  sched_wf (pool_init maxt (sorter_prog n)) [] s ->
  prun (pool_init maxt (sorter_prog n)) [] s = Some (st, stash) ->
  all_done st ->
  Permutation (delivered_ids st 0) (job_ids n).
Proof. exact SP1. Qed.
Print Assumptions T13s_every_chunk_once.

(* the pooled sorter, associative merge function: the conclusion of T06e for the collection order of the pool *)
Theorem T13s_pooled_sorter :
  forall (f : bytes -> bytes -> bytes -> bytes) (sort : list entry -> list entry),
  (forall k a b c, f k (f k a b) c = f k a (f k b c)) ->
  (forall l, Permutation (sort l) l) -> (forall l, keys_le (sort l)) ->
  forall max_memory ops,
  exists s, SorterFull.adds f sort (sorter_init max_memory) ops = Ok s /\
  exists s1, final_flush (Some (mf f)) sort s = Ok (s1, true) /\
    forall maxt sc st stash,
    sched_wf (pool_init maxt (sorter_prog (length (so_chunks s1)))) [] sc ->
    prun (pool_init maxt (sorter_prog (length (so_chunks s1)))) [] sc = Some (st, stash) ->
    all_done st ->
    let cs := collected (so_chunks s1) (delivered_ids st 0) in
    Permutation cs (so_chunks s1) /\
    exists s' it, sorter_iter (Some (mf f)) sort (with_chunks s1 cs) = Ok (s', Some it) /\ so_iterating s' = true /\
      forall n, (length ops <= n)%nat ->
      let out := mdrain (mf f) (S n) it in
      StronglySorted (fun a b => bcmp (fst a) (fst b) = Lt) out /\
      map fst out = all_keys [ops] /\
      Forall (fun e => exists first rest, Permutation (first :: rest) (vals (fst e) ops) /\
                                          fold_left (f (fst e)) rest first = snd e) out.
Proof. exact SP2. Qed.
Print Assumptions T13s_pooled_sorter.

(* commutative as well: the pooled sorter yields the same entries as the sorter without a pool *)
Theorem T13s_pooled_sorter_same_entries :
  forall (f : bytes -> bytes -> bytes -> bytes) (sort : list entry -> list entry),
  (forall k a b c, f k (f k a b) c = f k a (f k b c)) -> (forall k a b, f k a b = f k b a) ->
  (forall l, Permutation (sort l) l) -> (forall l, keys_le (sort l)) ->
  forall max_memory ops,
  exists s, SorterFull.adds f sort (sorter_init max_memory) ops = Ok s /\
  exists s1, final_flush (Some (mf f)) sort s = Ok (s1, true) /\
  exists s0 it0, sorter_iter (Some (mf f)) sort s = Ok (s0, Some it0) /\
    forall maxt sc st stash,
    sched_wf (pool_init maxt (sorter_prog (length (so_chunks s1)))) [] sc ->
    prun (pool_init maxt (sorter_prog (length (so_chunks s1)))) [] sc = Some (st, stash) ->
    all_done st ->
    exists s' it, sorter_iter (Some (mf f)) sort (with_chunks s1 (collected (so_chunks s1) (delivered_ids st 0))) = Ok (s', Some it) /\
      forall n, (length ops <= n)%nat ->
        mdrain (mf f) (S n) it = mdrain (mf f) (S n) it0 /\ mdrain (mf f) (S n) it = canonical f ops.
Proof. exact SP3. Qed.
Print Assumptions T13s_pooled_sorter_same_entries.

(* commutativity is needed for "the same entries as without a pool": a complete run of the LTS (pool of 2, three
   chunks) that delivers the chunks in the order 0, 2, 1, and a non-commutative merge function (concatenation) *)
Example T13s_needs_commutativity :
  let s1 := Properties_C06.ex_state Properties_C06.fcat in
  match prun (pool_init 2 (sorter_prog (length (so_chunks s1)))) [] ex_sorter_sched with
  | Some (st, _) =>
      let cs := collected (so_chunks s1) (delivered_ids st 0) in
      Properties_C06.ex_out Properties_C06.fcat (with_chunks s1 cs) <> Properties_C06.ex_out Properties_C06.fcat s1
  | None => False
  end.
Proof. pose proof SP3_needs_commutativity as H. cbv zeta in H |- *. destruct (prun _ _ _) as [[st ?]|]; [exact (proj2 H)|exact H]. Qed.
