(* C13 - Pooled writers and sorters: same result under every interleaving, no hangs.
   Model: model/Pool.v, a labelled transition system of threadpool.c at the granularity of
   single pthread operations (lock, unlock, the release half of cond_wait, re-acquisition
   after a wake-up, signal with the woken waiter chosen arbitrarily, create, join, thread
   start/exit, spurious wake-ups), for any pool size, any caller program over any number
   of ordered / unordered result handlers sharing the pool.
   PROVED (T13a): in every state reachable under EVERY schedule the pool's worker count
   is at most the configured maximum (the count bounds the number of live worker threads).
   STATED, not yet proved (validated by engine pl on every explored schedule): delivery
   exactly once / in dispatch order (T13b_statement), absence of deadlock
   (T13d_statement), no failing assertion.  Engine pl runs the real threadpool.c under
   a schedule-controlling pthread shim - the default schedule, EVERY single preemption of
   it, seeded random schedules with random signal targets and spurious wake-ups, pairs of
   preemptions (thorough) - and replays each trace on the LTS comparing, after every step,
   the operation performed and the set of enabled threads.  Byte-identity of pooled writer
   output and equality of pooled sorter output are checked by engines wr and so with real
   threads (pools 0..8). *)
From Coq Require Import NArith List Lia.
From Mtbl Require Import model.Bytes model.Pool proofs.PoolProofs.
(* source ties: the statements of the C functions the model follows (gen/Ties.v is regenerated from /repo on every run) *)
From Mtbl Require props.Ties_C13.
Local Open Scope N_scope.

(* a schedule: at each step, the thread that runs; for a signal the waiter woken (if any);
   or a spurious wake-up of a blocked thread *)
Inductive sched_step := SRun (t : nat) (wake : option nat) | SSpurious (t : nat).

Fixpoint prun (st : pstate) (stash : list (nat * N)) (s : list sched_step) : option (pstate * list (nat * N)) :=
  match s with
  | [] => Some (st, stash)
  | SRun t w :: tl => match pstep st t w stash with
                      | Some (st', _, _, stash') => prun st' stash' tl
                      | None => None
                      end
  | SSpurious t :: tl => match pspurious st t with Some st' => prun st' stash tl | None => None end
  end.

Lemma pool_init_cinv maxt prog : cinv (pool_init maxt prog) /\ ps_max (pool_init maxt prog) = maxt.
Proof.
  unfold pool_init.
  set (st0 := mkp [dummy_t] [] [] 0 maxt [] [] prog 0 [] false).
  assert (H0 : cinv st0) by (unfold cinv; cbn; lia).
  pose proof (caller_next_cinv st0 H0) as [H1 H2].
  destruct (caller_next st0) as [st1 th]. cbn [fst] in H1, H2. unfold cinv, set_thread in *. cbn. split; [exact H1|exact H2].
Qed.

Lemma pspurious_cinv st t st' : cinv st -> pspurious st t = Some st' -> cinv st' /\ ps_max st' = ps_max st.
Proof.
  intros H E. unfold pspurious in E. destruct (t_blocked (gett st t)); [|discriminate].
  inversion E; subst. unfold cinv, set_thread in *. cbn. split; [exact H|reflexivity].
Qed.

(* T13a *)
Theorem T13a_never_more_workers_than_max : forall maxt prog s st stash,
  prun (pool_init maxt prog) [] s = Some (st, stash) -> ps_count st <= maxt.
Proof.
  intros maxt prog s.
  destruct (pool_init_cinv maxt prog) as [H0 Hm0].
  generalize dependent (pool_init maxt prog). generalize (@nil (nat * N)).
  induction s as [|[t w|t] s IH]; intros stash0 st0 H0 Hm0 st stash E; cbn [prun] in E.
  - inversion E; subst. unfold cinv in H0. lia.
  - destruct (pstep st0 t w stash0) as [[[[st1 op] o] stash1]|] eqn:Es; [|discriminate].
    destruct (pstep_cinv _ _ _ _ _ _ _ _ H0 Es) as [H1 Hm1].
    eapply IH; [exact H1| |exact E]. congruence.
  - destruct (pspurious st0 t) as [st1|] eqn:Es; [|discriminate].
    destruct (pspurious_cinv _ _ _ H0 Es) as [H1 Hm1].
    eapply IH; [exact H1| |exact E]. congruence.
Qed.
Print Assumptions T13a_never_more_workers_than_max.

(* the clauses not yet proved *)
Definition terminal (st : pstate) : Prop := forall t, enabled st t = false.
Definition all_done (st : pstate) : Prop := Forall (fun th => t_done th = true) (ps_threads st).
Definition T13d_statement : Prop :=   (* no hang: without spurious wake-ups, a state where nothing can run has finished *)
  forall maxt prog s st stash, 1 <= maxt ->
    prun (pool_init maxt prog) [] s = Some (st, stash) -> terminal st -> all_done st /\ ps_abort st = false.
Fixpoint increasing (l : list N) : Prop :=
  match l with a :: ((b :: _) as tl) => a < b /\ increasing tl | _ => True end.
Definition T13b_statement : Prop :=   (* job ids grow with dispatch order: ordered handlers deliver in that order, nobody delivers twice *)
  forall maxt prog s st stash, prun (pool_init maxt prog) [] s = Some (st, stash) ->
    NoDup (ps_delivered st) /\
    forall h, q_ordered (getq st h) = true ->
      increasing (map snd (filter (fun p => Nat.eqb (fst p) h) (ps_delivered st))).

(* a concrete schedule evaluated in the model: one ordered handler, two jobs, pool of one
   thread; the run reaches a state where the caller waits for the single worker *)
Example T13_example :
  let st0 := pool_init 1 [NewHandler true; Dispatch 0; Dispatch 0; Finish 0; DestroyPool] in
  enabled_set st0 = [0; 1]%nat /\
  match prun st0 [] [SRun 0 None; SRun 0 None; SRun 0 None; SRun 0 None] with
  | Some (st, _) => ps_count st = 1 /\ length (ps_threads st) = 3%nat /\ enabled_set st = [0; 1; 2]%nat
  | None => False
  end.
Proof. vm_compute. repeat split. Qed.
