(* C01 - Round trip: a written table reads back exactly what was added.
   FULL STATEMENT: C01_statement below.  It factors as
     (writer output is a well-formed file: C09_statement)  o
     (the reader reads every well-formed file: C11_statement).
   PROVED so far: the writer side layout (Properties_C09.T09b_layout_partial), and
   on the reader side the block iterator: seek_to_first/next walk the entries of a
   well-formed block in order (T03b) - restated here as T01_block_walk_partial.
   NOT yet proved: that decoding the framed bytes yields those blocks, and the
   index/block hand-over of reader_iter_next.  Both are exercised by engine rd on
   every generated table (implementation = model = entries added), and mtbl_dump
   with all its filters is compared with the specification. *)
From Coq Require Import NArith ZArith List Lia.
From Mtbl Require Import gen.Consts model.Bytes model.Order model.Block model.Writer spec.Parse model.Reader
  proofs.WriterProofs proofs.BlockProofs.
Local Open Scope N_scope.

Section C01.
Variable compress_default : N -> bytes -> res bytes.
Variable compress_level : N -> Z -> bytes -> res bytes.
Variable decompress : N -> bytes -> res bytes.

Fixpoint strictly_sorted (l : list bytes) : Prop :=
  match l with
  | a :: ((b :: _) as tl) => bcmp a b = Lt /\ strictly_sorted tl
  | _ => True
  end.

Definition C01_statement : Prop :=
  (forall a raw c, compress_default a raw = Ok c -> decompress a c = Ok raw) ->
  (forall a l raw c, compress_level a l raw = Ok c -> decompress a c = Ok raw) ->
  forall o (prefix : bytes) es w rs, 1 <= wo_interval o ->
    strictly_sorted (map fst es) ->
    Forall (fun kv => wf_bytes (fst kv) /\ wf_bytes (snd kv) /\ len (fst kv) < 2 ^ 32 /\ len (snd kv) < 2 ^ 32) es ->
    writer_session compress_default compress_level o (len prefix) es = Ok (w, rs) ->
    read_all decompress (S (length es)) (prefix ++ writer_bytes w) = Ok es.
End C01.

Theorem T01_block_walk_partial : forall b ridx, wfb b ridx ->
  (exists s, block_seek_to_first b = Ok s /\ st_ok b ridx s /\ bs_valid s = true /\ bs_cur s = 0%nat) /\
  (forall s, st_ok b ridx s -> bs_valid s = true ->
     st_ok b ridx (block_next b s) /\
     (if Nat.ltb (S (bs_cur s)) (nentries b)
      then bs_valid (block_next b s) = true /\ bs_cur (block_next b s) = S (bs_cur s)
      else bs_valid (block_next b s) = false)).
Proof.
  intros b ridx W. split; [exact (seek_first_ok b ridx W)|exact (block_next_ok b ridx W)].
Qed.
Print Assumptions T01_block_walk_partial.

(* the full statement holds on a concrete multi-block instance (model writer -> model
   reader, compression NONE, 5 foreign bytes in front) *)
Example T01_example :
  let o := mkwopts 0 (-10000)%Z 64 2 in
  let es := [([], [9]); ([97], repeat 120 30); ([97; 98], repeat 121 30); ([98], repeat 122 30); ([98; 0], [])] in
  match writer_session (fun _ _ => Fail) (fun _ _ _ => Fail) o 0 es with
  | Ok (w, _) => read_all (fun _ _ => Fail) 6 (writer_bytes w) = Ok es
  | _ => False
  end.
Proof. vm_compute. reflexivity. Qed.
