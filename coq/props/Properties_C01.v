(* C01 - Round trip: a written table reads back exactly what was added.
   PROVED (T01_roundtrip): for every writer configuration (compression algorithm and
   level: any compress / decompress pair that round-trips, block size, restart interval
   >= 1), every byte string already in the file before the table, and every strictly
   increasing sequence of (key, value) pairs, opening the finished file with the model
   reader and iterating from the start returns exactly that sequence.
   T01_any_input is the general form: for ANY sequence of adds (sorted or not) the table
   holds exactly the entries whose add returned success, in order.
   T01_written_table_ok: the written file satisfies table_ok, so lookups (T02) and
   every next/seek history (T03c) on a written table are those of the sorted list of the
   accepted entries as well.
   Domain of the theorems (sizes that fit the format's integer widths): keys and values
   shorter than 4 GiB, block_size + |key| + |value| + 32 < 2^32 for every entry (no data
   block reaches 4 GiB, so restart arrays are 32-bit), index block < 4 GiB, file shorter
   than 2^64 bytes and statistics below 2^64.  Blocks above 4 GiB (64-bit restart arrays)
   are not covered by proof; engine rd executes that branch on a sparse block.
   The proof is about the Gallina model of writer.c / block_builder.c / block.c /
   reader.c / metadata.c / varint.c / fixed.c; the tie to the C code is engine wr (writer
   model = real writer, byte for byte, over the configuration space) and engine rd (reader
   model = real reader on every operation; mtbl_dump and its filters against the
   specification).  The thread pool and madvise options do not exist in the model: they
   are exercised by engines wr/rd as configurations whose output must be byte-identical. *)
From Coq Require Import NArith ZArith List Lia.
From Mtbl Require Import gen.Consts model.Bytes model.Order model.Block model.Writer spec.Parse model.Reader
  proofs.WriterProofs proofs.MetaProofs proofs.BlockProofs proofs.LookupProofs proofs.ReaderProofs proofs.BlockRT proofs.TableRT
  model.Tools proofs.ToolsProofs.
(* source ties: the statements of the C functions the model follows (gen/Ties.v is regenerated from /repo on every run) *)
From Mtbl Require props.Ties_C01.
Local Open Scope N_scope.

Section C01.
Variable compress_default : N -> bytes -> res bytes.
Variable compress_level : N -> Z -> bytes -> res bytes.
Variable decompress : N -> bytes -> res bytes.
Hypothesis decompress_compress_default : forall a raw c, compress_default a raw = Ok c -> decompress a c = Ok raw.
Hypothesis decompress_compress_level : forall a l raw c, compress_level a l raw = Ok c -> decompress a c = Ok raw.

(* sizes fit the integer widths of the format *)
Definition fits (o : wopts) (prefix : bytes) (ops : list entry) (w' : writer) : Prop :=
  Forall (fun kv => wf_bytes (fst kv) /\ len (fst kv) < 2 ^ 32 /\ len (snd kv) < 2 ^ 32 /\
                    wo_block_size o + len (fst kv) + len (snd kv) + 32 < 2 ^ 32) ops /\
  meta_small (w_m w') /\ m_bytes_index_block (w_m w') < 2 ^ 32 /\ len (prefix ++ writer_bytes w') < 2 ^ 64.

Theorem T01_any_input : forall o prefix ops w' rs,
  1 <= wo_interval o ->
  writer_session compress_default compress_level o (len prefix) ops = Ok (w', rs) ->
  fits o prefix ops w' ->
  forall fuel, (length (kept ops rs) < fuel)%nat ->
  read_all decompress fuel (prefix ++ writer_bytes w') = Ok (kept ops rs).
Proof.
  intros o prefix ops w' rs Hi Hs (Hf & Hm & Hx & Hl).
  exact (roundtrip_read_all compress_default compress_level decompress decompress_compress_default decompress_compress_level
           o prefix ops w' rs Hi Hf Hs Hm Hx Hl).
Qed.

Theorem T01_roundtrip : forall o prefix es w' rs,
  1 <= wo_interval o -> strictly_sorted (map fst es) ->
  writer_session compress_default compress_level o (len prefix) es = Ok (w', rs) ->
  fits o prefix es w' ->
  read_all decompress (S (length es)) (prefix ++ writer_bytes w') = Ok es.
Proof.
  intros o prefix es w' rs Hi Hsorted Hs Hfits. pose proof Hfits as (Hf & _).
  pose proof (roundtrip_sorted compress_default compress_level o prefix es w' rs Hi Hf Hsorted Hs) as Hk.
  pose proof (T01_any_input o prefix es w' rs Hi Hs Hfits (S (length es))) as H. rewrite Hk in H. apply H. apply Nat.lt_succ_diag_r.
Qed.

Theorem T01_written_table_ok : forall o prefix ops w' rs,
  1 <= wo_interval o ->
  writer_session compress_default compress_level o (len prefix) ops = Ok (w', rs) ->
  fits o prefix ops w' ->
  exists r, fst (reader_open (prefix ++ writer_bytes w') false) = Ok (Some r) /\
    ((kept ops rs = [] /\ exists ib r0, r_index r = Some ib /\ ab_entries ib = [] /\ ab_restarts ib = [r0]) \/
     (exists ib iridx ds, table_ok decompress r ib iridx (length ds) (Bof ds) (Rof ds) /\
                          table_entries_of (length ds) (Bof ds) = kept ops rs)).
Proof.
  intros o prefix ops w' rs Hi Hs (Hf & Hm & Hx & Hl).
  exact (written_table_ok compress_default compress_level decompress decompress_compress_default decompress_compress_level
           o prefix ops w' rs Hi Hf Hs Hm Hx Hl).
Qed.

(* mtbl_dump -x on the finished file prints exactly the accepted entries that pass its filters, in order, each as
   %08x-length ':' hex bytes joined by '-', key, a blank, value (model/Tools.v follows src/mtbl_dump.c: dump());
   without options, every accepted entry *)
Theorem T01_dump : forall o prefix ops w' rs (d : dump_opts),
  1 <= wo_interval o ->
  writer_session compress_default compress_level o (len prefix) ops = Ok (w', rs) ->
  fits o prefix ops w' ->
  forall fuel, (length (kept ops rs) < fuel)%nat ->
  dump_hex decompress d fuel (prefix ++ writer_bytes w') = Some (map dump_line_hex (filter (dump_keep d) (kept ops rs))) /\
  dump_hex decompress (mkdo None None 0 0) fuel (prefix ++ writer_bytes w') = Some (map dump_line_hex (kept ops rs)) /\
  (* text mode (no -x): every byte printable in the C locale as itself, the double quote escaped, anything else as backslash x NN *)
  dump_text decompress d fuel (prefix ++ writer_bytes w') = Some (map dump_line_text (filter (dump_keep d) (kept ops rs))).
Proof.
  intros o prefix ops w' rs d Hi Hs Hf fuel Hfuel.
  pose proof (T01_any_input o prefix ops w' rs Hi Hs Hf fuel Hfuel) as H.
  split; [apply dump_hex_of_read_all; exact H|]. split; [|apply dump_text_of_read_all; exact H].
  rewrite (dump_hex_of_read_all decompress _ fuel _ _ H), filter_keep_all. reflexivity.
Qed.
(* the file determines the content: two writer sessions - whatever their options, foreign
   prefixes and inputs - that end in the same bytes were given the same accepted entries.
   (No two different tables share a file; a consequence of the round trip, stated because
   it is what "returns exactly the entries written" means read from the file's side.) *)
Theorem T01_file_determines_entries : forall o o' prefix prefix' ops ops' w w' rs rs',
  1 <= wo_interval o -> 1 <= wo_interval o' ->
  writer_session compress_default compress_level o (len prefix) ops = Ok (w, rs) ->
  writer_session compress_default compress_level o' (len prefix') ops' = Ok (w', rs') ->
  fits o prefix ops w -> fits o' prefix' ops' w' ->
  prefix ++ writer_bytes w = prefix' ++ writer_bytes w' ->
  kept ops rs = kept ops' rs'.
Proof.
  intros o o' prefix prefix' ops ops' w w' rs rs' Hi Hi' Hs Hs' Hf Hf' E.
  set (fuel := S (Nat.max (length (kept ops rs)) (length (kept ops' rs')))).
  pose proof (T01_any_input o prefix ops w rs Hi Hs Hf fuel ltac:(unfold fuel; lia)) as R.
  pose proof (T01_any_input o' prefix' ops' w' rs' Hi' Hs' Hf' fuel ltac:(unfold fuel; lia)) as R'.
  rewrite E in R. congruence.
Qed.
End C01.
Print Assumptions T01_file_determines_entries.
Print Assumptions T01_any_input.
Print Assumptions T01_roundtrip.
Print Assumptions T01_written_table_ok.
Print Assumptions T01_dump.

(* the filter of mtbl_dump: -k / -v keep entries whose key / value BEGINS WITH the given bytes, -K / -V those whose
   key / value has at least the given length *)
Theorem T01_dump_filter : forall o e,
  dump_keep o e = true <->
  (forall p, do_key_prefix o = Some p -> is_prefix p (fst e) = true) /\
  (forall p, do_val_prefix o = Some p -> is_prefix p (snd e) = true) /\
  do_key_min o <= len (fst e) /\ do_val_min o <= len (snd e).
Proof. exact dump_keep_spec. Qed.
Print Assumptions T01_dump_filter.

(* non-vacuity: a concrete multi-block instance meets every hypothesis (model writer,
   compression NONE, 5 foreign bytes in front), and the conclusion computes *)
Example T01_example :
  let o := mkwopts 0 (-10000)%Z 64 2 in
  let prefix := [1; 2; 3; 4; 5] in
  let es := [([], [9]); ([97], repeat 120 30); ([97; 98], repeat 121 30); ([98], repeat 122 30); ([98; 0], [])] in
  match writer_session (fun _ _ => Fail) (fun _ _ _ => Fail) o (len prefix) es with
  | Ok (w, rs) => rs = [true; true; true; true; true] /\
                  m_count_data_blocks (w_m w) = 3 /\
                  read_all (fun _ _ => Fail) 6 (prefix ++ writer_bytes w) = Ok es
  | _ => False
  end.
Proof. vm_compute. repeat split. Qed.
