(* Source ties of C16: the statements of the C functions its model follows, as they were when the model
   was written and validated against them (tools/gen_ties.py --expected).  gen/Ties.v is regenerated from
   /repo on every run; a changed statement breaks the corresponding lemma below. *)
From Coq Require Import List String.
From Mtbl Require Import gen.Ties.
Import ListNotations.
Local Open Scope string_scope.

(* mtbl/fixed.c: mtbl_fixed_encode32 *)
Lemma tie_fixed_mtbl_fixed_encode32 : TIE_fixed_mtbl_fixed_encode32 =
  [(0, "value=htole32(value)");
   (0, "memcpy(dst,&value,sizeof(value))");
   (0, "return(sizeof(uint32_t))")].
Proof. reflexivity. Qed.

(* mtbl/fixed.c: mtbl_fixed_encode64 *)
Lemma tie_fixed_mtbl_fixed_encode64 : TIE_fixed_mtbl_fixed_encode64 =
  [(0, "value=htole64(value)");
   (0, "memcpy(dst,&value,sizeof(value))");
   (0, "return(sizeof(uint64_t))")].
Proof. reflexivity. Qed.

(* mtbl/fixed.c: mtbl_fixed_decode32 *)
Lemma tie_fixed_mtbl_fixed_decode32 : TIE_fixed_mtbl_fixed_decode32 =
  [(0, "uint32_tresult");
   (0, "memcpy(&result,ptr,sizeof(result))");
   (0, "return(le32toh(result))")].
Proof. reflexivity. Qed.

(* mtbl/fixed.c: mtbl_fixed_decode64 *)
Lemma tie_fixed_mtbl_fixed_decode64 : TIE_fixed_mtbl_fixed_decode64 =
  [(0, "uint64_tresult");
   (0, "memcpy(&result,ptr,sizeof(result))");
   (0, "return(le64toh(result))")].
Proof. reflexivity. Qed.

(* mtbl/varint.c: mtbl_varint_length *)
Lemma tie_vi_mtbl_varint_length : TIE_vi_mtbl_varint_length =
  [(0, "unsignedlen=1");
   (0, "while(v>=128)");
   (1, "v>>=7");
   (1, "len++");
   (0, "return(len)")].
Proof. reflexivity. Qed.

(* mtbl/varint.c: mtbl_varint_length_packed *)
Lemma tie_vi_mtbl_varint_length_packed : TIE_vi_mtbl_varint_length_packed =
  [(0, "unsignedi=0");
   (0, "size_tlen=len_data");
   (0, "while(len--)");
   (1, "if((data[i]&0x80)==0)break");
   (1, "i++");
   (0, "if(i==len_data)return(0)");
   (0, "return(i+1)")].
Proof. reflexivity. Qed.

(* mtbl/varint.c: mtbl_varint_encode32 *)
Lemma tie_vi_mtbl_varint_encode32 : TIE_vi_mtbl_varint_encode32 =
  [(0, "staticconstunsignedB=128");
   (0, "uint8_t*ptr=src_ptr");
   (0, "if(v<(1<<7))");
   (1, "*(ptr++)=v");
   (0, "elseif(v<(1<<14))");
   (1, "*(ptr++)=v|B");
   (1, "*(ptr++)=v>>7");
   (0, "elseif(v<(1<<21))");
   (1, "*(ptr++)=v|B");
   (1, "*(ptr++)=(v>>7)|B");
   (1, "*(ptr++)=v>>14");
   (0, "elseif(v<(1<<28))");
   (1, "*(ptr++)=v|B");
   (1, "*(ptr++)=(v>>7)|B");
   (1, "*(ptr++)=(v>>14)|B");
   (1, "*(ptr++)=v>>21");
   (0, "else");
   (1, "*(ptr++)=v|B");
   (1, "*(ptr++)=(v>>7)|B");
   (1, "*(ptr++)=(v>>14)|B");
   (1, "*(ptr++)=(v>>21)|B");
   (1, "*(ptr++)=v>>28");
   (0, "return((size_t)(ptr-src_ptr))")].
Proof. reflexivity. Qed.

(* mtbl/varint.c: mtbl_varint_encode64 *)
Lemma tie_vi_mtbl_varint_encode64 : TIE_vi_mtbl_varint_encode64 =
  [(0, "staticconstunsignedB=128");
   (0, "uint8_t*ptr=src_ptr");
   (0, "while(v>=B)");
   (1, "*(ptr++)=(v&(B-1))|B");
   (1, "v>>=7");
   (0, "*(ptr++)=(uint8_t)v");
   (0, "return((size_t)(ptr-src_ptr))")].
Proof. reflexivity. Qed.

(* mtbl/varint.c: _varint_decode *)
Lemma tie_vi_varint_decode : TIE_vi_varint_decode =
  [(0, "size_tlen=0");
   (0, "uint64_tshift,val=0");
   (0, "for(shift=0;shift<max_shift;shift+=7)");
   (1, "val|=(uint64_t)(data[len]&0x7f)<<shift");
   (1, "if((data[len++]&0x80)==0)");
   (2, "*value=val");
   (2, "returnlen");
   (0, "*value=0");
   (0, "return0")].
Proof. reflexivity. Qed.

(* mtbl/varint.c: mtbl_varint_decode32 *)
Lemma tie_vi_mtbl_varint_decode32 : TIE_vi_mtbl_varint_decode32 =
  [(0, "uint64_ttmpv");
   (0, "size_tret");
   (0, "ret=_varint_decode(data,&tmpv,32)");
   (0, "*value=(uint32_t)tmpv");
   (0, "returnret")].
Proof. reflexivity. Qed.

(* mtbl/varint.c: mtbl_varint_decode64 *)
Lemma tie_vi_mtbl_varint_decode64 : TIE_vi_mtbl_varint_decode64 =
  [(0, "return_varint_decode(data,value,64)")].
Proof. reflexivity. Qed.
