(* Source ties of C01: the statements of the C functions its model follows, as they were when the model
   was written and validated against them (tools/gen_ties.py --expected).  gen/Ties.v is regenerated from
   /repo on every run; a changed statement breaks the corresponding lemma below. *)
From Coq Require Import List String.
From Mtbl Require Import gen.Ties.
Import ListNotations.
Local Open Scope string_scope.

(* src/mtbl_dump.c: dump *)
Lemma tie_dump_dump : TIE_dump_dump =
  [(0, "constuint8_t*key,*val");
   (0, "size_tkey_len,val_len");
   (0, "structmtbl_reader*r");
   (0, "structmtbl_iter*it");
   (0, "r=mtbl_reader_init(fname,NULL)");
   (0, "if(r==NULL)");
   (1, "fprintf(stderr,""Error:mtbl_reader_init()on%sfailed\n"",fname)");
   (1, "return(false)");
   (0, "it=mtbl_source_iter(mtbl_reader_source(r))");
   (0, "while(mtbl_iter_next(it,&key,&key_len,&val,&val_len))");
   (1, "if(key_prefix!=0&&(key_len<key_prefix_len||0!=bcmp(key,key_prefix,key_prefix_len)))continue");
   (1, "if(val_prefix!=0&&(val_len<val_prefix_len||0!=bcmp(val,val_prefix,val_prefix_len)))continue");
   (1, "if(key_len<key_min_len||val_len<val_min_len)continue");
   (1, "if(silent)continue");
   (1, "if(hex)");
   (2, "print_hex_string(key,key_len,stdout)");
   (2, "fputc('',stdout)");
   (2, "print_hex_string(val,val_len,stdout)");
   (2, "fputc('\n',stdout)");
   (1, "else");
   (2, "print_string(key,key_len,stdout)");
   (2, "fputc('',stdout)");
   (2, "print_string(val,val_len,stdout)");
   (2, "fputc('\n',stdout)");
   (0, "mtbl_iter_destroy(&it)");
   (0, "mtbl_reader_destroy(&r)");
   (0, "return(true)")].
Proof. reflexivity. Qed.

(* src/mtbl_dump.c: main *)
Lemma tie_dump_main : TIE_dump_main =
  [(0, "char*fname");
   (0, "boolsilent=false");
   (0, "boolhex=false");
   (0, "uint8_t*key_prefix=NULL");
   (0, "size_tkey_prefix_len=0");
   (0, "uint8_t*val_prefix=NULL");
   (0, "size_tval_prefix_len=0");
   (0, "size_tkey_min_len=0");
   (0, "size_tval_min_len=0");
   (0, "intc");
   (0, "while((c=getopt(argc,argv,""sxk:v:K:V:""))!=-1)");
   (1, "switch(c)");
   (2, "case's':silent=true");
   (2, "break");
   (2, "case'x':hex=true");
   (2, "break");
   (2, "case'k':if(strlen(optarg)==0)");
   (3, "fprintf(stderr,""Needanon-emptyargumentto-k\n"")");
   (3, "return(EXIT_FAILURE)");
   (2, "if(hex_decode(optarg,&key_prefix,&key_prefix_len)==false)");
   (3, "fprintf(stderr,""hexdecodingof%sfailed\n"",optarg)");
   (3, "return(EXIT_FAILURE)");
   (2, "break");
   (2, "case'v':if(strlen(optarg)==0)");
   (3, "fprintf(stderr,""Needanon-emptyargumentto-v\n"")");
   (3, "return(EXIT_FAILURE)");
   (2, "if(hex_decode(optarg,&val_prefix,&val_prefix_len)==false)");
   (3, "fprintf(stderr,""hexdecodingof%sfailed\n"",optarg)");
   (3, "return(EXIT_FAILURE)");
   (2, "break");
   (2, "case'K':if(strlen(optarg)==0)");
   (3, "fprintf(stderr,""Needanon-emptyargumentto-K\n"")");
   (3, "return(EXIT_FAILURE)");
   (2, "key_min_len=atoi(optarg)");
   (2, "if(key_min_len<1)");
   (3, "fprintf(stderr,""Badvalueofminimumkeylength:%s\n"",optarg)");
   (3, "return(EXIT_FAILURE)");
   (2, "break");
   (2, "case'V':if(strlen(optarg)==0)");
   (3, "fprintf(stderr,""Needanon-emptyargumentto-K\n"")");
   (3, "return(EXIT_FAILURE)");
   (2, "val_min_len=atoi(optarg)");
   (2, "if(val_min_len<1)");
   (3, "fprintf(stderr,""Badvalueofminimumvallength:%s\n"",optarg)");
   (3, "return(EXIT_FAILURE)");
   (2, "break");
   (2, "default:usage()");
   (0, "if(optind>=argc)usage()");
   (0, "fname=argv[optind]");
   (0, "if(!dump(fname,silent,hex,key_prefix,key_prefix_len,val_prefix,val_prefix_len,key_min_len,val_min_len))return(EXIT_FAILURE)");
   (0, "return(EXIT_SUCCESS)")].
Proof. reflexivity. Qed.

(* src/mtbl_dump.c: print_hex_string *)
Lemma tie_dump_print_hex : TIE_dump_print_hex =
  [(0, "uint8_t*str=(uint8_t*)data");
   (0, "assert(len<4294967295)");
   (0, "fprintf(out,""%08x:"",(unsignedint)len)");
   (0, "while(len--!=0)");
   (1, "unsignedc=*(str++)");
   (1, "fprintf(out,""%02x"",c)");
   (1, "if(len>0)fputc('-',stdout)")].
Proof. reflexivity. Qed.

(* libmy/print_string.h: print_string *)
Lemma tie_dump_print_string : TIE_dump_print_string =
  [(0, "uint8_t*str=(uint8_t*)data");
   (0, "fputc('""',out)");
   (0, "while(len--!=0)");
   (1, "unsignedc=*(str++)");
   (1, "if(isprint(c))");
   (2, "if(c=='""')fputs(""\\\"""",out)");
   (2, "elsefputc(c,out)");
   (1, "else");
   (2, "fprintf(out,""\\x%02x"",c)");
   (0, "fputc('""',out)")].
Proof. reflexivity. Qed.

(* mtbl/writer.c: mtbl_writer_options_init *)
Lemma tie_wr_mtbl_writer_options_init : TIE_wr_mtbl_writer_options_init =
  [(0, "structmtbl_writer_options*opt");
   (0, "opt=my_calloc(1,sizeof(*opt))");
   (0, "opt->compression_type=DEFAULT_COMPRESSION_TYPE");
   (0, "opt->compression_level=DEFAULT_COMPRESSION_LEVEL");
   (0, "opt->block_size=DEFAULT_BLOCK_SIZE");
   (0, "opt->block_restart_interval=DEFAULT_BLOCK_RESTART_INTERVAL");
   (0, "opt->pool=NULL");
   (0, "return(opt)")].
Proof. reflexivity. Qed.

(* mtbl/writer.c: mtbl_writer_options_destroy *)
Lemma tie_wr_mtbl_writer_options_destroy : TIE_wr_mtbl_writer_options_destroy =
  [(0, "if(*opt)my_free(*opt)")].
Proof. reflexivity. Qed.

(* mtbl/writer.c: mtbl_writer_options_set_compression *)
Lemma tie_wr_mtbl_writer_options_set_compression : TIE_wr_mtbl_writer_options_set_compression =
  [(0, "switch(compression_type)");
   (1, "caseMTBL_COMPRESSION_NONE:caseMTBL_COMPRESSION_SNAPPY:caseMTBL_COMPRESSION_ZLIB:caseMTBL_COMPRESSION_LZ4:caseMTBL_COMPRESSION_LZ4HC:caseMTBL_COMPRESSION_ZSTD:break");
   (1, "default:assert(0)");
   (0, "opt->compression_type=compression_type")].
Proof. reflexivity. Qed.

(* mtbl/writer.c: mtbl_writer_options_set_compression_level *)
Lemma tie_wr_mtbl_writer_options_set_compression_level : TIE_wr_mtbl_writer_options_set_compression_level =
  [(0, "opt->compression_level=compression_level")].
Proof. reflexivity. Qed.

(* mtbl/writer.c: mtbl_writer_options_set_block_restart_interval *)
Lemma tie_wr_mtbl_writer_options_set_block_restart_interval : TIE_wr_mtbl_writer_options_set_block_restart_interval =
  [(0, "if(block_restart_interval<MIN_BLOCK_RESTART_INTERVAL)block_restart_interval=MIN_BLOCK_RESTART_INTERVAL");
   (0, "opt->block_restart_interval=block_restart_interval")].
Proof. reflexivity. Qed.

(* mtbl/writer.c: mtbl_writer_options_set_threadpool *)
Lemma tie_wr_mtbl_writer_options_set_threadpool : TIE_wr_mtbl_writer_options_set_threadpool =
  [(0, "opt->pool=pool")].
Proof. reflexivity. Qed.
