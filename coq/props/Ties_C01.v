(* Source ties of C01: the statements of the C functions its model follows, as they were when the model
   was written and validated against them (tools/gen_ties.py --expected).  gen/Ties.v is regenerated from
   /repo on every run; a changed statement breaks the corresponding lemma below. *)
From Coq Require Import List String.
From Mtbl Require Import gen.Ties.
Import ListNotations.
Local Open Scope string_scope.

(* src/mtbl_dump.c: dump *)
Lemma tie_dump_dump : TIE_dump_dump =
  [(0, "constuint8_t*key,*val");
   (0, "size_tkey_len,val_len");
   (0, "structmtbl_reader*r");
   (0, "structmtbl_iter*it");
   (0, "r=mtbl_reader_init(fname,NULL)");
   (0, "if(r==NULL)");
   (1, "fprintf(stderr,""Error:mtbl_reader_init()on%sfailed\n"",fname)");
   (1, "return(false)");
   (0, "it=mtbl_source_iter(mtbl_reader_source(r))");
   (0, "while(mtbl_iter_next(it,&key,&key_len,&val,&val_len))");
   (1, "if(key_prefix!=0&&(key_len<key_prefix_len||0!=bcmp(key,key_prefix,key_prefix_len)))continue");
   (1, "if(val_prefix!=0&&(val_len<val_prefix_len||0!=bcmp(val,val_prefix,val_prefix_len)))continue");
   (1, "if(key_len<key_min_len||val_len<val_min_len)continue");
   (1, "if(silent)continue");
   (1, "if(hex)");
   (2, "print_hex_string(key,key_len,stdout)");
   (2, "fputc('',stdout)");
   (2, "print_hex_string(val,val_len,stdout)");
   (2, "fputc('\n',stdout)");
   (1, "else");
   (2, "print_string(key,key_len,stdout)");
   (2, "fputc('',stdout)");
   (2, "print_string(val,val_len,stdout)");
   (2, "fputc('\n',stdout)");
   (0, "mtbl_iter_destroy(&it)");
   (0, "mtbl_reader_destroy(&r)");
   (0, "return(true)")].
Proof. reflexivity. Qed.
