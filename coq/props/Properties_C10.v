(* C10 - Trailer statistics equal the truth about the file *)
From Coq Require Import NArith ZArith List Lia String.
From Mtbl Require Import gen.Consts model.Bytes model.Codec model.Order model.Block model.Crc model.Writer
  proofs.BytesLemmas proofs.OrderProofs proofs.WriterProofs proofs.MetaProofs model.Tools.
(* source ties: the statements of the C functions the model follows (gen/Ties.v is regenerated from /repo on every run) *)
From Mtbl Require props.Ties_C10.
Local Open Scope N_scope.

Section C10.
Variable compress_default : N -> bytes -> res bytes.
Variable compress_level : N -> Z -> bytes -> res bytes.
Hypothesis compress_default_total : forall a raw, exists c, compress_default a raw = Ok c.
Hypothesis compress_level_total : forall a l raw, exists c, compress_level a l raw = Ok c.

(* T10a: for every configuration (interval >= 1), initial offset and add sequence
   (refused adds included) the finished file is
       data frames ++ index frame ++ trailer
   and the trailer's nine fields are exactly: the number / key bytes / value bytes of
   the ACCEPTED entries, the number of data frames, their total size, the offset
   of the index frame (initial offset + that size), the size of the index frame,
   the configured block size and compression algorithm. *)
Theorem T10a_statistics : forall o off0 ops, 1 <= wo_interval o ->
  Forall (fun kv => wf_bytes (fst kv)) ops ->
  exists w sl idx,
    writer_session compress_default compress_level o off0 ops = Ok (w, accept_spec None ops) /\
    writer_bytes w = concat (map frame sl) ++ frame idx ++ metadata_write (w_m w) /\
    m_count_entries (w_m w) = N.of_nat (length (accepted None ops)) /\
    m_bytes_keys (w_m w) = fold_right (fun kv s => len (fst kv) + s) 0 (accepted None ops) /\
    m_bytes_values (w_m w) = fold_right (fun kv s => len (snd kv) + s) 0 (accepted None ops) /\
    m_count_data_blocks (w_m w) = N.of_nat (length sl) /\
    m_bytes_data_blocks (w_m w) = len (concat (map frame sl)) /\
    m_index_block_offset (w_m w) = off0 + len (concat (map frame sl)) /\
    m_bytes_index_block (w_m w) = len (frame idx) /\
    m_data_block_size (w_m w) = wo_block_size o /\
    m_compression_algorithm (w_m w) = wo_comp o.
Proof.
  intros o off0 ops Hi Hwf.
  destruct (writer_adds_spec compress_default compress_level compress_default_total compress_level_total
              ops (writer_init o off0) (writer_init_inv compress_default compress_level compress_default_total compress_level_total o off0 Hi) Hwf)
    as (w1 & H1 & Hw1 & _ & Hc & Hk & Hv & _).
  change (wlast (writer_init o off0)) with (@None bytes) in *.
  destruct (writer_adds_out compress_default compress_level ops off0 o _ [] _ _ (wout_init compress_default compress_level o off0) H1) as [sl1 Ho1].
  destruct (writer_finish_ok compress_default compress_level compress_default_total compress_level_total w1 Hw1) as (w2 & H2).
  destruct (writer_finish_out compress_default compress_level off0 o w1 sl1 w2 Ho1 H2)
    as (sl & idx & Hb & Hcd & Hbd & Hio & Hbi & Hbs & Halg & (wf & Hfl & Hce & Hbk & Hbv)).
  destruct Hw1 as [Hcl Hd Hix _ _].
  destruct (writer_flush_ok compress_default compress_level compress_default_total compress_level_total w1 Hcl Hd Hix)
    as (wf' & Hfl' & _ & _ & _ & _ & _ & Hm1 & Hm2 & Hm3).
  rewrite Hfl in Hfl'. inversion Hfl'; subst wf'.
  exists w2, sl, idx. unfold writer_session. rewrite H1, H2.
  cbn [writer_init w_m m_count_entries m_bytes_keys m_bytes_values] in Hc, Hk, Hv.
  repeat match goal with |- _ /\ _ => split end; try assumption; try reflexivity.
  - rewrite Hce, Hm1, Hc. lia.
  - rewrite Hbk, Hm2, Hk. lia.
  - rewrite Hbv, Hm3, Hv. lia.
Qed.


(* T10d: what mtbl_info prints (model/Tools.v follows print_info in the C locale): every statistics line is its label
   followed by the decimal rendering of the TRUE value of T10a *)
Theorem T10d_mtbl_info : forall o off0 ops, 1 <= wo_interval o ->
  Forall (fun kv => wf_bytes (fst kv)) ops ->
  exists w sl idx,
    writer_session compress_default compress_level o off0 ops = Ok (w, accept_spec None ops) /\
    writer_bytes w = concat (map frame sl) ++ frame idx ++ metadata_write (w_m w) /\
    info_model (w_m w) =
      mkinfo (info_line "index block offset:    " (off0 + len (concat (map frame sl))))
             (info_line "index bytes:           " (len (frame idx)))
             (info_line "data block bytes       " (len (concat (map frame sl))))
             (info_line "data block size:       " (wo_block_size o))
             (info_line "data block count       " (N.of_nat (length sl)))
             (info_line "entry count:           " (N.of_nat (length (accepted None ops))))
             (info_line "key bytes:             " (fold_right (fun kv s => len (fst kv) + s) 0 (accepted None ops)))
             (info_line "value bytes:           " (fold_right (fun kv s => len (snd kv) + s) 0 (accepted None ops)))
             (chars "compression algorithm: " ++ match Compress.compression_type_to_str (wo_comp o) with
                                                 | Some s => chars s
                                                 | None => decimal (wo_comp o)
                                                 end).
Proof.
  intros o off0 ops Hi Hwf.
  destruct (T10a_statistics o off0 ops Hi Hwf) as (w & sl & idx & H1 & H2 & E1 & E2 & E3 & E4 & E5 & E6 & E7 & E8 & E9).
  exists w, sl, idx. split; [exact H1|]. split; [exact H2|].
  unfold info_model. rewrite E1, E2, E3, E4, E5, E6, E7, E8, E9. reflexivity.
Qed.
End C10.
Print Assumptions T10a_statistics.
Print Assumptions T10d_mtbl_info.

(* T10b: the trailer block decodes to exactly the stored statistics, is 512 bytes
   long; field orders of metadata_write and metadata_read (both scraped from the
   source) agree *)
Theorem T10b_trailer_roundtrip : forall m, meta_small m ->
  metadata_read (metadata_write m) = Some (FORMAT_V2, m) /\ len (metadata_write m) = MTBL_METADATA_SIZE.
Proof. exact metadata_roundtrip. Qed.
Print Assumptions T10b_trailer_roundtrip.

Theorem T10c_orders_agree : META_WRITE_ORDER = META_READ_ORDER /\ META_WRITE_MAGIC = MTBL_MAGIC.
Proof. split; reflexivity. Qed.
Print Assumptions T10c_orders_agree.

(* T10e: the trailer determines the statistics: two records of statistics with the same
   512 bytes are the same record (so whatever mtbl_info prints is a function of the
   truth, and a damaged counter cannot hide behind another record's bytes); the length is
   512 for every record, in range or not *)
Theorem T10e_trailer_injective : forall m m', meta_small m -> meta_small m' ->
  metadata_write m = metadata_write m' -> m = m'.
Proof.
  intros m m' H H' E. destruct (T10b_trailer_roundtrip m H) as [D _].
  rewrite E in D. destruct (T10b_trailer_roundtrip m' H') as [D' _]. congruence.
Qed.
Print Assumptions T10e_trailer_injective.

Theorem T10e_trailer_length : forall m, len (metadata_write m) = MTBL_METADATA_SIZE.
Proof. exact metadata_write_len. Qed.
Print Assumptions T10e_trailer_length.
