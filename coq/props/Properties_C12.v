(* C12 - Checksums: intact files verify, damaged blocks are never accepted.
   PROVED:
   T12b - which bytes the checks cover and what they decide: a verify_checksums reader stops
     before decoding a block whose checksum field differs from the CRC-32C of its stored bytes;
     mtbl_verify says OK exactly when every field matches.
   T12c_bursts - every error pattern confined to 32 consecutive bit positions of (stored
     bytes ++ little-endian checksum field) - in the bytes, in the field, or straddling both -
     turns a consistent pair into an inconsistent one: all bursts <= 32 bits, hence also every
     double flip whose two bits are at most 31 positions apart.  (Bit-serial view of the
     register, GF(2)-linearity, injectivity of the shift on 32-bit states.)
   T12d - every error flipping an ODD number of bits (all single and triple flips) is detected.
   NOT proved: double flips more than 31 bit positions apart (that needs the multiplicative
   order of x modulo the generator, about 2^31); they are sampled by engine c12 on real files,
   which also runs mtbl_verify and a verify_checksums reader on every intact writer-made file
   and on files damaged in data blocks and in the index block (payload and checksum field). *)
From Coq Require Import NArith List Lia Bool.
From Mtbl Require Import gen.Consts model.Bytes model.Codec model.Crc model.Writer spec.Leb128 spec.Parse
  model.Reader model.Verify proofs.VerifyProofs proofs.CrcDetect proofs.CrcBurst.
Local Open Scope N_scope.

(* T12b (reader): whatever operation makes a verify_checksums reader load the block at
   an offset, a checksum field different from the CRC-32C of the stored bytes stops it
   on the assertion before anything of the block is decoded *)
Theorem T12b_reader_never_accepts_mismatch : forall decompress r pre c stored post,
  r_verify r = true -> r_version r = FORMAT_V2 -> r_file r = pre ++ fr c stored ++ post ->
  len stored < 2 ^ 64 -> c < 2 ^ 32 -> c <> crc32c_ref stored ->
  get_block decompress r (len pre) = Abort.
Proof. exact get_block_crc_mismatch. Qed.
Print Assumptions T12b_reader_never_accepts_mismatch.

(* T12b (mtbl_verify): over any run of frames with arbitrary checksum fields - every data
   block, the last one included - the block loop reports OK exactly when every field
   equals the CRC-32C of its stored bytes *)
Theorem T12b_verify_ok_iff_all_match : forall items pre post consumed bdb fuel,
  Forall (fun it => fst it < 2 ^ 32 /\ len (snd it) < 2 ^ 64) items ->
  consumed + len (frames items) <= bdb -> (length items < fuel)%nat ->
  verify_blocks fuel FORMAT_V2 (pre ++ frames items ++ post) (len pre) consumed bdb (N.of_nat (length items))
  = if all_match items then VOk else VFailed.
Proof. exact verify_blocks_frames. Qed.
Print Assumptions T12b_verify_ok_iff_all_match.

(* T12d: odd-weight errors (1 or 3 flipped bits, anywhere in stored bytes and field) *)
Theorem T12d_odd_weight_errors_detected : forall s s' f', length s = length s' ->
  xorb (bytes_par (diff s s')) (npar (N.lxor (crc32c_ref s) f')) = true ->
  f' <> crc32c_ref s'.
Proof. exact odd_errors_detected. Qed.
Print Assumptions T12d_odd_weight_errors_detected.

(* T12c: bursts.  [framed s f] = the stored bytes followed by the four little-endian bytes of the
   field; the hypothesis says that, read as one little-endian number, the intact and the damaged
   frame differ only at bit positions inside [lo, lo + 32) *)
Theorem T12c_bursts : forall s s' f' lo, wf_bytes s -> wf_bytes s' -> f' < 2 ^ 32 -> length s = length s' ->
  (s, crc32c_ref s) <> (s', f') ->
  (forall i, (i < N.of_nat lo \/ N.of_nat lo + 32 <= i) ->
     N.testbit (N.lxor (le_value (framed s (crc32c_ref s))) (le_value (framed s' f'))) i = false) ->
  f' <> crc32c_ref s'.
Proof. exact burst_detected. Qed.
Print Assumptions T12c_bursts.

(* non-vacuity: a 2-bit error straddling a byte boundary and one straddling the payload / field boundary *)
Example T12c_example :
  let s := [1; 2; 3] in
  crc32c_ref [1; 130; 2] <> crc32c_ref s /\
  (forall i, (i < 15 \/ 15 + 32 <= i) ->
     N.testbit (N.lxor (le_value (framed s (crc32c_ref s))) (le_value (framed [1; 130; 2] (crc32c_ref s)))) i = false).
Proof.
  split; [vm_compute; discriminate|]. intros i Hi. vm_compute (N.lxor _ _).
  destruct Hi as [Hi|Hi].
  - assert (Hc : i < 16) by lia.
    assert (H16 : forallb (fun j => negb (N.testbit 98304 j) || (15 <=? j)) (map N.of_nat (seq 0 16)) = true) by (vm_compute; reflexivity).
    rewrite forallb_forall in H16. specialize (H16 i ltac:(apply in_map_iff; exists (N.to_nat i); split; [lia|apply in_seq; lia])).
    destruct (N.testbit 98304 i); [cbn in H16; lia|reflexivity].
  - apply N.bits_above_log2. vm_compute (N.log2 _). lia.
Qed.

Example T12_example :
  T12d_odd_weight_errors_detected = T12d_odd_weight_errors_detected /\
  crc32c_ref [1; 2; 3] <> crc32c_ref [1; 2; 2] /\
  verify_blocks 3 FORMAT_V2 (frames [(crc32c_ref [7], [7]); (5, [8; 9])]) 0 0 100 2 = VFailed.
Proof. split; [reflexivity|]. split; [vm_compute; discriminate|vm_compute; reflexivity]. Qed.
