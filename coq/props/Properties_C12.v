(* C12 - Checksums: intact files verify, damaged blocks are never accepted.
   PROVED: which bytes the checks cover and what they decide (T12b), and that every
   error flipping an ODD number of bits in a block's stored bytes + checksum field is
   detected by CRC-32C (T12d: covers all single and triple bit flips).
   NOT proved (stated, validated by engine c12 on real files): detection of double
   flips and of bursts <= 32 bits (T12c_statement: needs the invertibility of the
   shift register on bit windows); that a writer-made file verifies (T12a) is covered
   by the construction frame = length ++ CRC of the stored bytes (Properties_C09
   layout theorem) together with T12b's "OK iff every field matches". *)
From Coq Require Import NArith List Lia Bool.
From Mtbl Require Import gen.Consts model.Bytes model.Codec model.Crc model.Writer spec.Leb128 spec.Parse
  model.Reader model.Verify proofs.VerifyProofs proofs.CrcDetect.
Local Open Scope N_scope.

(* T12b (reader): whatever operation makes a verify_checksums reader load the block at
   an offset, a checksum field different from the CRC-32C of the stored bytes stops it
   on the assertion before anything of the block is decoded *)
Theorem T12b_reader_never_accepts_mismatch : forall decompress r pre c stored post,
  r_verify r = true -> r_version r = FORMAT_V2 -> r_file r = pre ++ fr c stored ++ post ->
  len stored < 2 ^ 64 -> c < 2 ^ 32 -> c <> crc32c_ref stored ->
  get_block decompress r (len pre) = Abort.
Proof. exact get_block_crc_mismatch. Qed.
Print Assumptions T12b_reader_never_accepts_mismatch.

(* T12b (mtbl_verify): over any run of frames with arbitrary checksum fields - every data
   block, the last one included - the block loop reports OK exactly when every field
   equals the CRC-32C of its stored bytes *)
Theorem T12b_verify_ok_iff_all_match : forall items pre post consumed bdb fuel,
  Forall (fun it => fst it < 2 ^ 32 /\ len (snd it) < 2 ^ 64) items ->
  consumed + len (frames items) <= bdb -> (length items < fuel)%nat ->
  verify_blocks fuel FORMAT_V2 (pre ++ frames items ++ post) (len pre) consumed bdb (N.of_nat (length items))
  = if all_match items then VOk else VFailed.
Proof. exact verify_blocks_frames. Qed.
Print Assumptions T12b_verify_ok_iff_all_match.

(* T12d: odd-weight errors (1 or 3 flipped bits, anywhere in stored bytes and field) *)
Theorem T12d_odd_weight_errors_detected : forall s s' f', length s = length s' ->
  xorb (bytes_par (diff s s')) (npar (N.lxor (crc32c_ref s) f')) = true ->
  f' <> crc32c_ref s'.
Proof. exact odd_errors_detected. Qed.
Print Assumptions T12d_odd_weight_errors_detected.

(* the part that is stated but not proved *)
Definition T12c_statement : Prop :=
  forall s s' f', length s = length s' -> (s, crc32c_ref s) <> (s', f') ->
    (* all differing bits of (s ++ le32 field) lie within 32 consecutive bit positions *)
    (exists lo, forall i, (i < lo \/ lo + 32 <= i) ->
        N.testbit (le_value (diff (s ++ fixed_encode32 (crc32c_ref s)) (s' ++ fixed_encode32 f'))) i = false) ->
    f' <> crc32c_ref s'.

Example T12_example :
  T12d_odd_weight_errors_detected = T12d_odd_weight_errors_detected /\
  crc32c_ref [1; 2; 3] <> crc32c_ref [1; 2; 2] /\
  verify_blocks 3 FORMAT_V2 (frames [(crc32c_ref [7], [7]); (5, [8; 9])]) 0 0 100 2 = VFailed.
Proof. split; [reflexivity|]. split; [vm_compute; discriminate|vm_compute; reflexivity]. Qed.
