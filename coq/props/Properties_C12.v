(* C12 - Checksums: intact files verify, damaged blocks are never accepted.
   PROVED:
   T12b - which bytes the checks cover and what they decide: a verify_checksums reader stops
     before decoding a block whose checksum field differs from the CRC-32C of its stored bytes;
     mtbl_verify says OK exactly when every field matches.
   T12c_bursts - every error pattern confined to 32 consecutive bit positions of (stored
     bytes ++ little-endian checksum field) - in the bytes, in the field, or straddling both -
     turns a consistent pair into an inconsistent one: all bursts <= 32 bits, hence also every
     double flip whose two bits are at most 31 positions apart.  (Bit-serial view of the
     register, GF(2)-linearity, injectivity of the shift on 32-bit states.)
   T12d - every error flipping an ODD number of bits (all single and triple flips) is detected.
   The FILE-LEVEL theorems (written files verify and read back under verify_checksums; a damaged
   block of a written file is rejected by mtbl_verify and stops a verifying reader at the first
   operation that loads it) are T12a_* / T12b_file_* in the second part of this file.
   T12e_double_flips - ANY two flipped bits, however far apart, in a frame (stored bytes ++ field)
     of at most 2^31 - 1 bits (a block below 256 MiB) are detected: 2^31 - 1 is prime (trial
     division inside Coq), x^(2^31-1) = 1 modulo the generator (repeated squaring, vm_compute) and
     x <> 1, so x has order exactly 2^31 - 1 and x^a + x^b is never 0 for a <> b in that range
     (proofs/CrcPrime.v, CrcOrder.v, CrcDouble.v).  With T12c (bursts) and T12d (1 and 3 flips)
     this is the property's whole damage clause: one to three bits or a burst of up to 32 bits.
   The FILE-LEVEL theorems carry all of them to mtbl_verify and to the verifying reader.
   Engine c12 runs mtbl_verify and a verify_checksums reader on every intact writer-made file
   and on files damaged in data blocks and in the index block (payload and checksum field). *)
From Coq Require Import NArith ZArith List Lia Bool.
From Mtbl Require Import gen.Consts model.Bytes model.Codec model.Crc model.Writer spec.Leb128 spec.Parse
  model.Reader model.Verify model.Order model.Block proofs.BytesLemmas proofs.CodecProofs proofs.WriterProofs proofs.MetaProofs proofs.BlockProofs proofs.ReaderProofs
  proofs.BlockRT proofs.VerifyProofs proofs.TableRT proofs.VerifyFile proofs.VerifyIter proofs.VerifyDamaged proofs.VerifyShape proofs.CrcDetect proofs.CrcBurst proofs.CrcPrime proofs.CrcOrder proofs.CrcDouble.
(* source ties: the statements of the C functions the model follows (gen/Ties.v is regenerated from /repo on every run) *)
From Mtbl Require props.Ties_C12.
Local Open Scope N_scope.

(* T12b (reader): whatever operation makes a verify_checksums reader load the block at
   an offset, a checksum field different from the CRC-32C of the stored bytes stops it
   on the assertion before anything of the block is decoded *)
Theorem T12b_reader_never_accepts_mismatch : forall decompress r pre c stored post,
  r_verify r = true -> r_version r = FORMAT_V2 -> r_file r = pre ++ fr c stored ++ post ->
  len stored < 2 ^ 64 -> c < 2 ^ 32 -> c <> crc32c_ref stored ->
  get_block decompress r (len pre) = Abort.
Proof. exact get_block_crc_mismatch. Qed.
Print Assumptions T12b_reader_never_accepts_mismatch.

(* T12b (mtbl_verify): over any run of frames with arbitrary checksum fields - every data
   block, the last one included - the block loop reports OK exactly when every field
   equals the CRC-32C of its stored bytes *)
Theorem T12b_verify_ok_iff_all_match : forall items pre post consumed bdb fuel,
  Forall (fun it => fst it < 2 ^ 32 /\ len (snd it) < 2 ^ 64) items ->
  consumed + len (frames items) <= bdb -> (length items < fuel)%nat ->
  verify_blocks fuel FORMAT_V2 (pre ++ frames items ++ post) (len pre) consumed bdb (N.of_nat (length items))
  = if all_match items then VOk else VFailed.
Proof. exact verify_blocks_frames. Qed.
Print Assumptions T12b_verify_ok_iff_all_match.

(* T12d: odd-weight errors (1 or 3 flipped bits, anywhere in stored bytes and field) *)
Theorem T12d_odd_weight_errors_detected : forall s s' f', length s = length s' ->
  xorb (bytes_par (diff s s')) (npar (N.lxor (crc32c_ref s) f')) = true ->
  f' <> crc32c_ref s'.
Proof. exact odd_errors_detected. Qed.
Print Assumptions T12d_odd_weight_errors_detected.

(* T12c: bursts.  [framed s f] = the stored bytes followed by the four little-endian bytes of the
   field; the hypothesis says that, read as one little-endian number, the intact and the damaged
   frame differ only at bit positions inside [lo, lo + 32) *)
Theorem T12c_bursts : forall s s' f' lo, wf_bytes s -> wf_bytes s' -> f' < 2 ^ 32 -> length s = length s' ->
  (s, crc32c_ref s) <> (s', f') ->
  (forall i, (i < N.of_nat lo \/ N.of_nat lo + 32 <= i) ->
     N.testbit (N.lxor (le_value (framed s (crc32c_ref s))) (le_value (framed s' f'))) i = false) ->
  f' <> crc32c_ref s'.
Proof. exact burst_detected. Qed.
Print Assumptions T12c_bursts.

(* non-vacuity: a 2-bit error straddling a byte boundary and one straddling the payload / field boundary *)
Example T12c_example :
  let s := [1; 2; 3] in
  crc32c_ref [1; 130; 2] <> crc32c_ref s /\
  (forall i, (i < 15 \/ 15 + 32 <= i) ->
     N.testbit (N.lxor (le_value (framed s (crc32c_ref s))) (le_value (framed [1; 130; 2] (crc32c_ref s)))) i = false).
Proof.
  split; [vm_compute; discriminate|]. intros i Hi. vm_compute (N.lxor _ _).
  destruct Hi as [Hi|Hi].
  - assert (Hc : i < 16) by lia.
    assert (H16 : forallb (fun j => negb (N.testbit 98304 j) || (15 <=? j)) (map N.of_nat (seq 0 16)) = true) by (vm_compute; reflexivity).
    rewrite forallb_forall in H16. specialize (H16 i ltac:(apply in_map_iff; exists (N.to_nat i); split; [lia|apply in_seq; lia])).
    destruct (N.testbit 98304 i); [cbn in H16; lia|reflexivity].
  - apply N.bits_above_log2. vm_compute (N.log2 _). lia.
Qed.

(* T12e: double flips at ANY distance.  The hypothesis says that the intact and the damaged frame, read as one
   little-endian number, differ exactly at the two bit positions i < j; the frame has at most 2^31 - 1 bits *)
Theorem T12e_double_flips : forall s s' f' i j, wf_bytes s -> wf_bytes s' -> f' < 2 ^ 32 -> length s = length s' ->
  (i < j)%nat -> N.of_nat (8 * (length s + 4)) <= 2147483647 ->
  N.lxor (le_value (framed s (crc32c_ref s))) (le_value (framed s' f')) = N.lxor (2 ^ N.of_nat i) (2 ^ N.of_nat j) ->
  f' <> crc32c_ref s'.
Proof. exact double_flip_detected. Qed.
Print Assumptions T12e_double_flips.

(* the arithmetic behind it: the Mersenne number is prime and is the order of x modulo the generator *)
Theorem T12e_order_of_x : (forall d, 1 < d < 2147483647 -> 2147483647 mod d <> 0) /\
  ppow 2147483647 = U /\ (forall k, (0 < k)%nat -> N.of_nat k < 2147483647 -> Sn k U <> U).
Proof. split; [exact M31_prime|]. split; [exact ppow_M31|exact order_U]. Qed.
Print Assumptions T12e_order_of_x.

(* non-vacuity: two flips 40 bits apart (outside every 32-bit burst), one in the payload and one in the field *)
Example T12e_example :
  let s := [1; 2; 3; 4; 5; 6] in
  N.lxor (le_value (framed s (crc32c_ref s))) (le_value (framed [1; 2; 7; 4; 5; 6] (N.lxor (crc32c_ref s) (2 ^ 10))))
  = N.lxor (2 ^ N.of_nat 18) (2 ^ N.of_nat 58) /\ N.lxor (crc32c_ref s) (2 ^ 10) <> crc32c_ref [1; 2; 7; 4; 5; 6].
Proof. split; [vm_compute; reflexivity|vm_compute; discriminate]. Qed.

Example T12_example :
  T12d_odd_weight_errors_detected = T12d_odd_weight_errors_detected /\
  crc32c_ref [1; 2; 3] <> crc32c_ref [1; 2; 2] /\
  verify_blocks 3 FORMAT_V2 (frames [(crc32c_ref [7], [7]); (5, [8; 9])]) 0 0 100 2 = VFailed.
Proof. split; [reflexivity|]. split; [vm_compute; discriminate|vm_compute; reflexivity]. Qed.


(* ======================================================================================= *)
(* C12, file level - Checksums on whole written files.
   "A file produced by the writer always passes mtbl_verify and can be read completely with
    verify_checksums enabled.  If bits are changed inside a block's stored bytes or its checksum field
    so that the CRC no longer matches, mtbl_verify reports failure and a verifying reader stops on that
    block (at open for the index block, at the first operation that loads it for a data block) before
    any entry of it is returned."
   PROVED (models: Writer.v, Reader.v, Verify.v = src/mtbl_verify.c):
   T12a_verify - for every configuration, every foreign prefix already in the file and every add sequence
     in T01's domain, verify_file (prefix ++ written bytes) = VOk.
   T12a_reader / T12a_reader_table - the round trip of C01 with verify_checksums = true (indeed for either
     setting): open succeeds, iteration from the start returns exactly the accepted entries, never Abort;
     the opened reader satisfies table_ok, so lookups (T02) and all next/seek histories (T03c) apply.
   T12b_file_data - the written file is  pre ++ frame_i ++ post  for each data block i (any block, the
     last one included), frame_i = leb128(length) ++ 4-byte field ++ stored bytes, pre ending at the
     block's offset.  Replace the field by any c < 2^32 and the stored bytes by any s' of the same length
     with c <> CRC-32C(s') - every file that differs from the written one only inside the field / stored
     bytes of that frame and whose field no longer matches is of this form (VerifyShape.damage_shape; the
     statement in that extensional form is T12b_file_data_ext):
       . verify_file = VFailed;
       . reader_open with verify_checksums succeeds; get_block at that block's offset = Abort; every
         other data block still loads;
       . iteration from the start delivers exactly the entries of the blocks before block i and then
         stops with Abort (block 0: reader_iter itself stops); read_all with verify_checksums = Abort;
       . T12b_file_ops: EVERY reader operation (reader_iter, get / get_prefix / get_range, iterator seek,
         iterator next) on the damaged file either returns what it returns on the intact file or is
         Abort, and it is Abort exactly when the operation has to load block i (the offset an operation
         loads is a function of the index block and the iterator state: iter_loads / init_loads /
         seek_loads / next_loads).
   T12b_file_data_flips / T12b_file_index_flips - T12c / T12d carried to the file level: an odd number of
     flipped bits (every single and triple flip) or any burst within 32 consecutive bit positions of
     (stored bytes ++ field) of one frame of a written file gives VFailed / Abort as above.
   T12b_file_index - same for the index frame: reader_open with verify_checksums = Abort, and
     verify_file = VAbort (mtbl_verify opens the file through a verify_checksums reader, so the process
     dies on the assertion instead of printing FAILED).
   Domain: T01's (entry_fits, meta_small, index block < 4 GiB, file < 2^64) plus: values are byte strings
   and the compressors return byte strings (every list element < 256).  The last two are needed because
   a "byte" >= 256 is representable in the model and crc32c_ref of such a list can exceed 32 bits, which
   no real file can exhibit (counterexample in the model: a value [2^120], compression none, gives
   verify_file = VFailed on the intact model file - T12_model_artifact below).
   NOT covered: damage to a frame's length prefix or to the trailer (not protected by any CRC: a flip in
   the trailer's padding leaves verify_file = VOk - T12_example_trailer); whether a given bit pattern
   changes the CRC is the subject of T12c/T12d (Properties_C12.v). *)
Section C12_File.
Variable compress_default : N -> bytes -> res bytes.
Variable compress_level : N -> Z -> bytes -> res bytes.
Variable decompress : N -> bytes -> res bytes.
Hypothesis decompress_compress_default : forall a raw c, compress_default a raw = Ok c -> decompress a c = Ok raw.
Hypothesis decompress_compress_level : forall a l raw c, compress_level a l raw = Ok c -> decompress a c = Ok raw.
Hypothesis compress_default_bytes : forall a raw c, compress_default a raw = Ok c -> wf_bytes c.
Hypothesis compress_level_bytes : forall a l raw c, compress_level a l raw = Ok c -> wf_bytes c.

(* the domain: T01's [fits] plus "values are byte strings"
     ops_ok o ops = Forall (entry_fits o) ops /\ Forall (fun kv => wf_bytes (snd kv)) ops
     fits_v o prefix ops w' = ops_ok o ops /\ meta_small (w_m w') /\ m_bytes_index_block (w_m w') < 2^32 /\
                              len (prefix ++ writer_bytes w') < 2^64 *)

(* ---- T12a ------------------------------------------------------------------------------------------ *)
Theorem T12a_verify : forall o prefix ops w' rs,
  1 <= wo_interval o ->
  writer_session compress_default compress_level o (len prefix) ops = Ok (w', rs) ->
  ops_ok o ops -> meta_small (w_m w') -> len (prefix ++ writer_bytes w') < 2 ^ 64 ->
  verify_file (prefix ++ writer_bytes w') = VOk.
Proof.
  intros o prefix ops w' rs Hi Hs Hops Hm Hl.
  exact (written_verify_ok compress_default compress_level compress_default_bytes compress_level_bytes o prefix ops w' rs Hi Hops Hs Hm Hl).
Qed.

Theorem T12a_reader : forall o prefix ops w' rs,
  1 <= wo_interval o ->
  writer_session compress_default compress_level o (len prefix) ops = Ok (w', rs) ->
  fits_v o prefix ops w' ->
  forall fuel, (length (kept ops rs) < fuel)%nat ->
  read_all_v decompress true fuel (prefix ++ writer_bytes w') = Ok (kept ops rs).
Proof.
  intros o prefix ops w' rs Hi Hs Hf.
  exact (written_read_back compress_default compress_level decompress decompress_compress_default decompress_compress_level
           compress_default_bytes compress_level_bytes true o prefix ops w' rs Hi Hs Hf).
Qed.

(* strictly increasing input: the table read back with verify_checksums is the input *)
Theorem T12a_reader_sorted : forall o prefix es w' rs,
  1 <= wo_interval o -> strictly_sorted (map fst es) ->
  writer_session compress_default compress_level o (len prefix) es = Ok (w', rs) ->
  fits_v o prefix es w' ->
  read_all_v decompress true (S (length es)) (prefix ++ writer_bytes w') = Ok es.
Proof.
  intros o prefix es w' rs Hi Hsorted Hs Hf. pose proof Hf as ((Hfit & _) & _).
  pose proof (roundtrip_sorted compress_default compress_level o prefix es w' rs Hi Hfit Hsorted Hs) as Hk.
  pose proof (T12a_reader o prefix es w' rs Hi Hs Hf (S (length es))) as H. rewrite Hk in H. apply H. apply Nat.lt_succ_diag_r.
Qed.

Theorem T12a_reader_table : forall o prefix ops w' rs,
  1 <= wo_interval o ->
  writer_session compress_default compress_level o (len prefix) ops = Ok (w', rs) ->
  fits_v o prefix ops w' ->
  exists r, fst (reader_open (prefix ++ writer_bytes w') true) = Ok (Some r) /\ r_verify r = true /\
    ((kept ops rs = [] /\ exists ib r0, r_index r = Some ib /\ ab_entries ib = [] /\ ab_restarts ib = [r0]) \/
     (exists ib iridx ds, table_ok decompress r ib iridx (length ds) (Bof ds) (Rof ds) /\
                          table_entries_of (length ds) (Bof ds) = kept ops rs)).
Proof.
  intros o prefix ops w' rs Hi Hs Hf.
  exact (written_table_ok_v compress_default compress_level decompress decompress_compress_default decompress_compress_level
           compress_default_bytes compress_level_bytes true o prefix ops w' rs Hi Hs Hf).
Qed.

(* ---- T12b, data blocks -------------------------------------------------------------------------------- *)
(* [ds]: the data blocks of the file in order (d_off: offset of the frame, d_stored: stored bytes, d_ps:
   entries, d_ab: the decoded block); the record [layout] ties them to the bytes of the file, to the
   trailer and to the accepted entries (all_entries ds [] = kept ops rs). *)
Theorem T12b_file_data : forall o prefix ops w' rs,
  1 <= wo_interval o ->
  writer_session compress_default compress_level o (len prefix) ops = Ok (w', rs) ->
  fits_v o prefix ops w' ->
  exists ds ib ips iridx,
    layout compress_default compress_level o prefix ops w' rs ds ib ips iridx /\
    forall i, (i < length ds)%nat ->
      let f := prefix ++ writer_bytes w' in
      let pre := pre_of prefix ds i in
      let post := post_of w' ds ib i in
      let s := d_stored (nth i ds dummy_d) in
      let before := all_entries (firstn i ds) [] in
      (* block i's frame inside the intact file, and the entries delivered before it *)
      f = pre ++ fr (crc32c_ref s) s ++ post /\ len pre = d_off (nth i ds dummy_d) /\
      kept ops rs = before ++ all_entries (skipn i ds) [] /\
      (* any damage confined to the field and the stored bytes that breaks the checksum *)
      forall c s', len s' = len s -> c < 2 ^ 32 -> c <> crc32c_ref s' ->
        let f' := pre ++ fr c s' ++ post in
        len f' = len f /\
        verify_file f' = VFailed /\
        exists r', fst (reader_open f' true) = Ok (Some r') /\ r_verify r' = true /\
          get_block decompress r' (len pre) = Abort /\
          (forall j, (j < length ds)%nat -> j <> i ->
             get_block decompress r' (d_off (nth j ds dummy_d)) = Ok (d_ab (nth j ds dummy_d))) /\
          (i = 0%nat -> reader_iter decompress r' = Abort) /\
          ((0 < i)%nat -> exists it, reader_iter decompress r' = Ok (Some it) /\
             forall fuel, (length before < fuel)%nat -> drain_log decompress fuel r' it = (before, Abort)) /\
          (forall fuel, (length before < fuel)%nat -> read_all_v decompress true fuel f' = Abort).
Proof.
  intros o prefix ops w' rs Hint Hsess (Hops & Hm & Hidxsz & Hlen).
  destruct (written_layout compress_default compress_level compress_default_bytes compress_level_bytes o prefix ops w' rs Hint Hops Hsess Hlen)
    as (ds & ib & ips & iridx & L).
  exists ds, ib, ips, iridx. split; [exact L|]. intros i Hi f pre post s before.
  split; [exact (intact_split compress_default compress_level o prefix ops w' rs ds ib ips iridx L i Hi)|].
  split; [exact (pre_of_len compress_default compress_level o prefix ops w' rs ds ib ips iridx L i Hi)|].
  split.
  { rewrite <- (ly_ent _ _ _ _ _ _ _ _ _ _ _ L). unfold before, all_entries. cbn [map]. rewrite !app_nil_r, <- concat_app, <- map_app, firstn_skipn. reflexivity. }
  intros c s' Hs Hc Hne.
  destruct (damaged_facts compress_default compress_level decompress decompress_compress_default decompress_compress_level
              o prefix ops w' rs ds ib ips iridx L Hm Hidxsz Hlen i c s' Hi Hs Hc Hne) as (H1 & H2 & H3 & _ & _).
  destruct (damaged_data compress_default compress_level decompress decompress_compress_default decompress_compress_level
              o prefix ops w' rs ds ib ips iridx L Hm Hlen i c s' Hi Hs Hc Hne) as (_ & _ & _ & H4 & H5).
  destruct (damaged_iteration compress_default compress_level decompress decompress_compress_default decompress_compress_level
              o prefix ops w' rs ds ib ips iridx L Hm Hidxsz Hlen i c s' Hi Hs Hc Hne) as (H6 & H7 & H8).
  split; [exact H1|]. split; [exact H2|].
  eexists. split; [exact H3|]. split; [reflexivity|]. split.
  { unfold pre. rewrite (pre_of_len compress_default compress_level o prefix ops w' rs ds ib ips iridx L i Hi). exact H4. }
  split; [exact H5|]. split; [exact H6|]. split; [exact H7|exact H8].
Qed.


(* the extensional form: ANY byte string f' of the same length that agrees with the written file outside
   the checksum field and the stored bytes of data block i is  pre ++ fr c s' ++ post  (c: the value of the
   field in f', s': the stored bytes in f'); if that field is not the CRC-32C of those bytes, mtbl_verify
   fails and the verifying reader stops on block i *)
Theorem T12b_file_data_ext : forall o prefix ops w' rs,
  1 <= wo_interval o ->
  writer_session compress_default compress_level o (len prefix) ops = Ok (w', rs) ->
  fits_v o prefix ops w' ->
  exists ds ib ips iridx,
    layout compress_default compress_level o prefix ops w' rs ds ib ips iridx /\
    forall i, (i < length ds)%nat ->
      let f := prefix ++ writer_bytes w' in
      let off := d_off (nth i ds dummy_d) in                     (* where block i's frame starts *)
      let s := d_stored (nth i ds dummy_d) in
      let lo := (N.to_nat off + length (leb128 (len s)))%nat in   (* first byte of the checksum field *)
      let hi := (lo + 4 + length s)%nat in                        (* one past the last stored byte *)
      forall f', wf_bytes f' -> length f' = length f ->
        (forall k, (k < lo \/ hi <= k)%nat -> nth k f' 0 = nth k f 0) ->
        exists c s', c < 2 ^ 32 /\ len s' = len s /\
          f' = pre_of prefix ds i ++ fr c s' ++ post_of w' ds ib i /\
          (c <> crc32c_ref s' ->
             verify_file f' = VFailed /\
             exists r', fst (reader_open f' true) = Ok (Some r') /\ get_block decompress r' off = Abort /\
               forall fuel, (length (all_entries (firstn i ds) []) < fuel)%nat -> read_all_v decompress true fuel f' = Abort).
Proof.
  intros o prefix ops w' rs Hint Hsess Hfits.
  destruct (T12b_file_data o prefix ops w' rs Hint Hsess Hfits) as (ds & ib & ips & iridx & L & H).
  exists ds, ib, ips, iridx. split; [exact L|]. intros i Hi f off s lo hi f' Hw Hlen Hag.
  destruct (H i Hi) as (Hf & Hpre & _ & Hdam). cbv zeta in Hf, Hpre, Hdam. fold s in Hf, Hdam.
  assert (Hlo : lo = (length (pre_of prefix ds i) + length (leb128 (len s)))%nat).
  { unfold lo, off. rewrite <- Hpre. unfold len. rewrite Nat2N.id. reflexivity. }
  destruct (damage_shape (pre_of prefix ds i) s (post_of w' ds ib i) f' (crc32c_ref s) Hw) as (c & s' & Hc & Hs & Hf').
  - unfold f in Hlen. rewrite Hf in Hlen. exact Hlen.
  - intros k Hk. unfold f in Hag. rewrite Hf in Hag. apply Hag. unfold hi. rewrite Hlo. exact Hk.
  - exists c, s'. split; [exact Hc|]. split; [exact Hs|]. split; [exact Hf'|]. intros Hne.
    destruct (Hdam c s' Hs Hc Hne) as (_ & Hv & r' & Ho & _ & Hg & _ & _ & _ & Hr).
    rewrite Hf'. split; [exact Hv|]. exists r'. split; [exact Ho|]. split; [|exact Hr].
    unfold off. rewrite <- Hpre. exact Hg.
Qed.


(* ---- which damage is guaranteed to break the checksum (T12c / T12d at the file level) ---------------- *)
(* [s]: the stored bytes in the written file (their field holds crc32c_ref s); [c], [s']: field and
   stored bytes in the damaged file.
   odd_damage: an odd number of bits differ - every single and every triple bit flip, wherever the bits are
   (stored bytes, field, or both).
   burst_damage: the bits that differ lie within 32 consecutive bit positions of (stored bytes followed
   by the little-endian field) - in the bytes, in the field or across the boundary. *)
Definition odd_damage (s : bytes) (c : N) (s' : bytes) : Prop :=
  length s = length s' /\ xorb (bytes_par (diff s s')) (npar (N.lxor (crc32c_ref s) c)) = true.
Definition burst_damage (s : bytes) (c : N) (s' : bytes) : Prop :=
  wf_bytes s' /\ length s = length s' /\ (s, crc32c_ref s) <> (s', c) /\
  exists lo : nat, forall i, (i < N.of_nat lo \/ N.of_nat lo + 32 <= i) ->
    N.testbit (N.lxor (le_value (framed s (crc32c_ref s))) (le_value (framed s' c))) i = false.

(* double_damage: exactly two bits differ, at any distance, in a frame of at most 2^31 - 1 bits *)
Definition double_damage (s : bytes) (c : N) (s' : bytes) : Prop :=
  wf_bytes s' /\ length s = length s' /\ N.of_nat (8 * (length s + 4)) <= 2147483647 /\
  exists i j : nat, (i < j)%nat /\
    N.lxor (le_value (framed s (crc32c_ref s))) (le_value (framed s' c)) = N.lxor (2 ^ N.of_nat i) (2 ^ N.of_nat j).
Definition detected_damage (s : bytes) (c : N) (s' : bytes) : Prop :=
  odd_damage s c s' \/ burst_damage s c s' \/ double_damage s c s'.

Lemma damage_detected s c s' : wf_bytes s -> c < 2 ^ 32 -> detected_damage s c s' -> c <> crc32c_ref s'.
Proof.
  intros Hw Hc [[Hl Hp]|[(Hw' & Hl & Hne & lo & Hb)|(Hw' & Hl & Hsz & i & j & Hij & Hx)]].
  - exact (odd_errors_detected s s' c Hl Hp).
  - exact (burst_detected s s' c lo Hw Hw' Hc Hl Hne Hb).
  - exact (double_flip_detected s s' c i j Hw Hw' Hc Hl Hij Hsz Hx).
Qed.

(* a data block hit by an odd number of bit flips or by a burst of at most 32 bits: mtbl_verify fails and
   the verifying reader stops before returning any entry of the block *)
Theorem T12b_file_data_flips : forall o prefix ops w' rs,
  1 <= wo_interval o ->
  writer_session compress_default compress_level o (len prefix) ops = Ok (w', rs) ->
  fits_v o prefix ops w' ->
  exists ds ib ips iridx,
    layout compress_default compress_level o prefix ops w' rs ds ib ips iridx /\
    forall i c s', (i < length ds)%nat ->
      let s := d_stored (nth i ds dummy_d) in
      len s' = len s -> c < 2 ^ 32 -> detected_damage s c s' ->
      let f' := pre_of prefix ds i ++ fr c s' ++ post_of w' ds ib i in
      verify_file f' = VFailed /\
      forall fuel, (length (all_entries (firstn i ds) []) < fuel)%nat -> read_all_v decompress true fuel f' = Abort.
Proof.
  intros o prefix ops w' rs Hint Hsess Hfits.
  destruct (T12b_file_data o prefix ops w' rs Hint Hsess Hfits) as (ds & ib & ips & iridx & L & H).
  exists ds, ib, ips, iridx. split; [exact L|]. intros i c s' Hi s Hs Hc Hd f'.
  destruct (H i Hi) as (_ & _ & _ & Hdam). cbv zeta in Hdam.
  assert (Hw : wf_bytes s).
  { pose proof (ly_wf _ _ _ _ _ _ _ _ _ _ _ L) as Hwf. rewrite Forall_forall in Hwf. apply (Hwf (nth i ds dummy_d)), nth_In, Hi. }
  destruct (Hdam c s' Hs Hc (damage_detected s c s' Hw Hc Hd)) as (_ & Hv & r' & _ & _ & _ & _ & _ & _ & Hr).
  split; [exact Hv|exact Hr].
Qed.

(* the same for the index block *)
Theorem T12b_file_index_flips : forall o prefix ops w' rs,
  1 <= wo_interval o ->
  writer_session compress_default compress_level o (len prefix) ops = Ok (w', rs) ->
  ops_ok o ops -> meta_small (w_m w') -> len (prefix ++ writer_bytes w') < 2 ^ 64 ->
  exists pre idx,
    prefix ++ writer_bytes w' = pre ++ fr (crc32c_ref idx) idx ++ metadata_write (w_m w') /\
    forall c idx', len idx' = len idx -> c < 2 ^ 32 -> detected_damage idx c idx' ->
      let f' := pre ++ fr c idx' ++ metadata_write (w_m w') in
      fst (reader_open f' true) = Abort /\ verify_file f' = VAbort.
Proof.
  intros o prefix ops w' rs Hint Hsess Hops Hm Hlen.
  destruct (written_layout compress_default compress_level compress_default_bytes compress_level_bytes o prefix ops w' rs Hint Hops Hsess Hlen)
    as (ds & ib & ips & iridx & L).
  exists (pre_index prefix ds), (bb_finish ib).
  split; [exact (intact_index_split compress_default compress_level o prefix ops w' rs ds ib ips iridx L)|].
  intros c idx' Hl Hc Hd.
  destruct (damaged_index compress_default compress_level o prefix ops w' rs ds ib ips iridx L Hm Hlen c idx' Hl Hc
              (damage_detected _ c idx' (ly_idx_wf _ _ _ _ _ _ _ _ _ _ _ L) Hc Hd)) as (_ & H1 & H2).
  split; assumption.
Qed.

(* every operation of the verify_checksums reader on the damaged file *)
Theorem T12b_file_ops : forall o prefix ops w' rs ds ib ips iridx,
  layout compress_default compress_level o prefix ops w' rs ds ib ips iridx ->
  meta_small (w_m w') -> m_bytes_index_block (w_m w') < 2 ^ 32 -> len (prefix ++ writer_bytes w') < 2 ^ 64 ->
  forall i c s', (i < length ds)%nat -> len s' = len (d_stored (nth i ds dummy_d)) -> c < 2 ^ 32 -> c <> crc32c_ref s' ->
  let idx := block_init (bb_finish ib) in
  let iab := iab_of ib ips iridx in
  let r := mkreader (prefix ++ writer_bytes w') FORMAT_V2 (wo_comp o) true idx (w_m w') in
  let r' := mkreader (pre_of prefix ds i ++ fr c s' ++ post_of w' ds ib i) FORMAT_V2 (wo_comp o) true idx (w_m w') in
  (* r and r' are what reader_open returns, r satisfies table_ok with index block iab *)
  fst (reader_open (prefix ++ writer_bytes w') true) = Ok (Some r) /\
  fst (reader_open (pre_of prefix ds i ++ fr c s' ++ post_of w' ds ib i) true) = Ok (Some r') /\
  table_ok decompress r iab iridx (length ds) (Bof ds) (Rof ds) /\
  ioff iab i = d_off (nth i ds dummy_d) /\
  (* outcome loads res' res0: loads <> Some (offset of block i) and res' = res0, or
                              loads = Some (offset of block i) and res' = Abort *)
  outcome iab i (iter_loads iab) (reader_iter decompress r') (reader_iter decompress r) /\
  (forall kind key bound, outcome iab i (init_loads iab key) (reader_iter_init decompress r' kind key bound)
                                                            (reader_iter_init decompress r kind key bound)) /\
  (forall it key, it_ok iab iridx (length ds) (Bof ds) (Rof ds) it ->
     outcome iab i (seek_loads iab it key) (reader_iter_seek decompress r' it key) (reader_iter_seek decompress r it key)) /\
  (forall it, it_ok iab iridx (length ds) (Bof ds) (Rof ds) it ->
     outcome iab i (next_loads iab it) (reader_iter_next decompress r' it) (reader_iter_next decompress r it)).
Proof.
  intros o prefix ops w' rs ds ib ips iridx L Hm Hidxsz Hlen i c s' Hi Hs Hc Hne idx iab r r'.
  destruct (intact_table compress_default compress_level decompress decompress_compress_default decompress_compress_level
              o prefix ops w' rs ds ib ips iridx L Hm Hidxsz Hlen i c s' Hi Hs Hc Hne) as (Ho & T & _).
  destruct (damaged_facts compress_default compress_level decompress decompress_compress_default decompress_compress_level
              o prefix ops w' rs ds ib ips iridx L Hm Hidxsz Hlen i c s' Hi Hs Hc Hne) as (_ & _ & Ho' & _ & _).
  destruct (damaged_ops compress_default compress_level decompress decompress_compress_default decompress_compress_level
              o prefix ops w' rs ds ib ips iridx L Hm Hidxsz Hlen i c s' Hi Hs Hc Hne) as (O1 & O2 & O3 & O4).
  split; [exact Ho|]. split; [exact Ho'|]. split; [exact T|].
  split; [exact (ioff_block compress_default compress_level o prefix ops w' rs ds ib ips iridx L Hlen i Hi)|].
  split; [exact O1|]. split; [exact O2|]. split; [exact O3|exact O4].
Qed.

(* ---- T12b, index block ---------------------------------------------------------------------------------- *)
Theorem T12b_file_index : forall o prefix ops w' rs,
  1 <= wo_interval o ->
  writer_session compress_default compress_level o (len prefix) ops = Ok (w', rs) ->
  ops_ok o ops -> meta_small (w_m w') -> len (prefix ++ writer_bytes w') < 2 ^ 64 ->
  exists pre idx,
    let f := prefix ++ writer_bytes w' in
    f = pre ++ fr (crc32c_ref idx) idx ++ metadata_write (w_m w') /\ len pre = m_index_block_offset (w_m w') /\
    forall c idx', len idx' = len idx -> c < 2 ^ 32 -> c <> crc32c_ref idx' ->
      let f' := pre ++ fr c idx' ++ metadata_write (w_m w') in
      len f' = len f /\
      fst (reader_open f' true) = Abort /\
      verify_file f' = VAbort.
Proof.
  intros o prefix ops w' rs Hint Hsess Hops Hm Hlen.
  destruct (written_layout compress_default compress_level compress_default_bytes compress_level_bytes o prefix ops w' rs Hint Hops Hsess Hlen)
    as (ds & ib & ips & iridx & L).
  exists (pre_index prefix ds), (bb_finish ib). cbv zeta.
  split; [exact (intact_index_split compress_default compress_level o prefix ops w' rs ds ib ips iridx L)|].
  split; [exact (pre_index_len compress_default compress_level o prefix ops w' rs ds ib ips iridx L)|].
  intros c idx' Hl Hc Hne.
  exact (damaged_index compress_default compress_level o prefix ops w' rs ds ib ips iridx L Hm Hlen c idx' Hl Hc Hne).
Qed.
End C12_File.

Print Assumptions T12a_verify.
Print Assumptions T12a_reader.
Print Assumptions T12a_reader_sorted.
Print Assumptions T12a_reader_table.
Print Assumptions T12b_file_data.
Print Assumptions T12b_file_data_ext.
Print Assumptions T12b_file_data_flips.
Print Assumptions T12b_file_index_flips.
Print Assumptions T12b_file_ops.
Print Assumptions T12b_file_index.

(* ---- non-vacuity: a concrete multi-block model file (model writer, compression NONE, 5 foreign bytes in
   front, 3 data blocks at offsets 5 / 56 / 104, index block at 155, trailer at 188) --------------------- *)
Definition ex_o : wopts := mkwopts 0 (-10000)%Z 64 2.
Definition ex_prefix : bytes := [1; 2; 3; 4; 5].
Definition ex_es : list entry :=
  [([], [9]); ([97], repeat 120 30); ([97; 98], repeat 121 30); ([98], repeat 122 30); ([98; 0], [])].
Definition no_comp : N -> bytes -> res bytes := fun _ _ => Fail.
Definition no_comp_level : N -> Z -> bytes -> res bytes := fun _ _ _ => Fail.
Definition ex_file : bytes :=
  match writer_session no_comp no_comp_level ex_o (len ex_prefix) ex_es with Ok (w, _) => ex_prefix ++ writer_bytes w | _ => [] end.
(* flip the lowest bit of the byte at position k *)
Definition flip (k : nat) (f : bytes) : bytes := firstn k f ++ N.lxor (nth k f 0) 1 :: skipn (S k) f.

(* the hypotheses of the theorems hold for this instance
   (fits_v o prefix ops w = ops_ok o ops /\ meta_small (w_m w) /\ m_bytes_index_block (w_m w) < 2^32 /\ len file < 2^64) *)
Example T12_example_domain :
  1 <= wo_interval ex_o /\
  (forall a raw c, no_comp a raw = Ok c -> wf_bytes c) /\ (forall a l raw c, no_comp_level a l raw = Ok c -> wf_bytes c) /\
  ops_ok ex_o ex_es /\
  match writer_session no_comp no_comp_level ex_o (len ex_prefix) ex_es with
  | Ok (w, rs) => meta_small (w_m w) /\ m_bytes_index_block (w_m w) < 2 ^ 32 /\ len (ex_prefix ++ writer_bytes w) < 2 ^ 64 /\
                  rs = [true; true; true; true; true] /\
                  m_count_data_blocks (w_m w) = 3 /\ m_index_block_offset (w_m w) = 155
  | _ => False
  end.
Proof.
  split; [vm_compute; discriminate|]. split; [discriminate|]. split; [discriminate|]. split.
  - split.
    + unfold ex_es. repeat (apply Forall_cons; [unfold entry_fits; cbn [fst snd]; repeat split; [repeat constructor|vm_compute; reflexivity ..]|]). apply Forall_nil.
    + vm_compute. repeat constructor.
  - vm_compute. repeat split.
Qed.

(* intact: mtbl_verify OK, complete read with verify_checksums *)
Example T12_example_intact :
  verify_file ex_file = VOk /\ read_all_v no_comp true 6 ex_file = Ok ex_es.
Proof. vm_compute. split; reflexivity. Qed.

(* one bit flipped in the stored bytes of data block 1 (position 70) or in its checksum field (position 58):
   mtbl_verify FAILED; the verifying reader opens, delivers the two entries of block 0 and stops *)
Example T12_example_data_block :
  verify_file (flip 70 ex_file) = VFailed /\ verify_file (flip 58 ex_file) = VFailed /\
  read_all_v no_comp true 6 (flip 70 ex_file) = Abort /\ read_all_v no_comp true 6 (flip 58 ex_file) = Abort /\
  match fst (reader_open (flip 70 ex_file) true) with
  | Ok (Some r') => get_block no_comp r' 56 = Abort /\
                    match reader_iter no_comp r' with
                    | Ok (Some it) => drain_log no_comp 6 r' it = ([([], [9]); ([97], repeat 120 30)], Abort)
                    | _ => False
                    end
  | _ => False
  end /\
  (* without verify_checksums the damaged value is returned *)
  match read_all no_comp 6 (flip 70 ex_file) with Ok l => l <> ex_es /\ length l = 5%nat | _ => False end.
Proof. vm_compute. repeat split; discriminate. Qed.

(* the last data block (position 120), and block 0 (position 20: reader_iter itself stops) *)
Example T12_example_last_and_first :
  verify_file (flip 120 ex_file) = VFailed /\ read_all_v no_comp true 6 (flip 120 ex_file) = Abort /\
  verify_file (flip 20 ex_file) = VFailed /\
  match fst (reader_open (flip 20 ex_file) true) with
  | Ok (Some r') => reader_iter no_comp r' = Abort
  | _ => False
  end.
Proof. vm_compute. repeat split. Qed.

(* the index block: stored bytes (position 170) or checksum field (position 157) *)
Example T12_example_index_block :
  fst (reader_open (flip 170 ex_file) true) = Abort /\ verify_file (flip 170 ex_file) = VAbort /\
  fst (reader_open (flip 157 ex_file) true) = Abort /\ verify_file (flip 157 ex_file) = VAbort.
Proof. vm_compute. repeat split. Qed.

(* outside the claim: the trailer is not covered by any checksum - a flipped padding bit goes unnoticed *)
Example T12_example_trailer :
  verify_file (flip 300 ex_file) = VOk /\ flip 300 ex_file <> ex_file.
Proof. vm_compute. split; [reflexivity|discriminate]. Qed.

(* why "values are byte strings" is a hypothesis: a list element >= 256 is not a byte; the model's
   crc32c_ref of such a list may not fit 32 bits, and the intact model file then fails its own check *)
Example T12_model_artifact :
  match writer_session no_comp no_comp_level ex_o 0 [([1], [2 ^ 120])] with
  | Ok (w, _) => verify_file (writer_bytes w) = VFailed
  | _ => False
  end.
Proof. vm_compute. reflexivity. Qed.
