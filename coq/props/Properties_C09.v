(* C09 - Written files are well-formed MTBL v2 as judged by an independent decoder.
   PROVED:
   T09b_layout_partial - the file is data frames ++ index frame ++ 512-byte trailer, a frame
     being the canonical varint of the stored length, the CRC-32C of the stored bytes and
     the stored bytes; the trailer ends with the magic.
   T09c_separator - a <= sep a b < b and |sep a b| <= |a|.
   T09d_file_structure (from the ghost-state invariant of proofs/TableRT.v) - for every
     configuration and add sequence the file decomposes into blocks such that
       . block i starts at initial offset + the sizes of the frames before it, and the stored
         bytes are the compression of the block's raw bytes;
       . the raw bytes are: the entries, each encoded as varint32(shared) varint32(unshared)
         varint32(|value|) key-suffix value, then the 32-bit offsets of the restart entries,
         then their count; restart points are exactly the entries 0, I, 2I, ... (I = restart
         interval), an entry at a restart point shares nothing and every other entry elides
         the longest common prefix with its predecessor; keys strictly increase;
       . a block with more than one entry is smaller than block_size, and a block is followed
         by another only if that one's first entry (15 bytes allowed for its header) would
         have brought it to block_size;
       . the index block is built the same way and holds, per data block, the key
         last-key-of-block <= k < first-key-of-next-block and the canonical varint64 of the
         block's start offset;
       . the entries of the blocks, in order, are the entries whose add succeeded.
   The FULL STATEMENT through the independent decoder (C09_statement: spec/Parse.v accepts
   the file and wf_validate passes) is not proved as a theorem; the extracted decoder and
   validator judge every file the REAL writer produces (engine wr), which is also where the
   model is tied to writer.c / block_builder.c byte for byte.  Blocks of 4 GiB and more
   (64-bit restart arrays) are outside T09d (hypothesis entry_fits). *)
From Coq Require Import NArith ZArith List Lia.
From Mtbl Require Import gen.Consts model.Bytes model.Codec model.Order model.Block model.Crc model.Writer
  spec.Leb128 spec.Parse model.Reader proofs.BytesLemmas proofs.CodecProofs proofs.OrderProofs proofs.WriterProofs proofs.MetaProofs
  proofs.BlockRT proofs.TableRT.
Local Open Scope N_scope.

Section C09.
Variable compress_default : N -> bytes -> res bytes.
Variable compress_level : N -> Z -> bytes -> res bytes.
Variable decompress : N -> bytes -> res bytes.
Hypothesis compress_default_total : forall a raw, exists c, compress_default a raw = Ok c.
Hypothesis compress_level_total : forall a l raw, exists c, compress_level a l raw = Ok c.

(* the full property, as a statement about the model writer and the independent decoder *)
Definition C09_statement : Prop :=
  forall o off0 ops w rs, 1 <= wo_interval o ->
    Forall (fun kv => wf_bytes (fst kv) /\ wf_bytes (snd kv) /\ len (fst kv) < 2 ^ 32 /\ len (snd kv) < 2 ^ 32) ops ->
    writer_session compress_default compress_level o off0 ops = Ok (w, rs) ->
    exists t, parse_table decompress off0 (writer_bytes w) = inr t /\
      wf_validate off0 (mkexpect (wo_block_size o) (wo_interval o) (wo_comp o)) t = 0 /\
      table_entries t = accepted None ops.

(* T09b_layout_partial: layout of the finished file *)
Theorem T09b_layout_partial : forall o off0 ops, 1 <= wo_interval o ->
  Forall (fun kv => wf_bytes (fst kv)) ops ->
  exists w sl idx,
    writer_session compress_default compress_level o off0 ops = Ok (w, accept_spec None ops) /\
    writer_bytes w = concat (map frame sl) ++ frame idx ++ metadata_write (w_m w) /\
    (forall stored, frame stored = varint_encode64 (len stored) ++ fixed_encode32 (crc32c_ref stored) ++ stored) /\
    (forall stored, len stored < 2 ^ 64 -> varint_encode64 (len stored) = leb128 (len stored)) /\
    m_index_block_offset (w_m w) = off0 + len (concat (map frame sl)) /\
    len (metadata_write (w_m w)) = 512 /\
    (exists body, metadata_write (w_m w) = body ++ fixed_encode32 MTBL_MAGIC).
Proof.
  intros o off0 ops Hi Hwf.
  destruct (writer_adds_spec compress_default compress_level compress_default_total compress_level_total
              ops (writer_init o off0)
              (writer_init_inv compress_default compress_level compress_default_total compress_level_total o off0 Hi) Hwf)
    as (w1 & H1 & Hw1 & _).
  change (wlast (writer_init o off0)) with (@None bytes) in *.
  destruct (writer_adds_out compress_default compress_level ops off0 o _ [] _ _ (wout_init compress_default compress_level o off0) H1) as [sl1 Ho1].
  destruct (writer_finish_ok compress_default compress_level compress_default_total compress_level_total w1 Hw1) as (w2 & H2).
  destruct (writer_finish_out compress_default compress_level off0 o w1 sl1 w2 Ho1 H2)
    as (sl & idx & Hb & _ & _ & Hio & _).
  exists w2, sl, idx. unfold writer_session. rewrite H1, H2.
  repeat match goal with |- _ /\ _ => split end; try assumption; try reflexivity; try apply metadata_write_len.
  - intros stored Hs. apply varint_encode64_spec, Hs.
  - unfold metadata_write, META_WRITE_MAGIC. eexists. rewrite app_assoc. reflexivity.
Qed.
End C09.
Print Assumptions T09b_layout_partial.

(* T09c: the index key chosen for a cut block: a <= sep a b < b and it is no longer than a *)
Theorem T09c_separator : forall a b, wf_bytes a -> wf_bytes b -> bcmp a b = Lt ->
  bcmp a (sep a b) <> Gt /\ bcmp (sep a b) b = Lt /\ len (sep a b) <= len a.
Proof. exact sep_between. Qed.
Print Assumptions T09c_separator.

(* T09d: the structure of every written file *)
Definition block_format (I : N) (ps : list pentry) (ridx : list nat) (raw : bytes) : Prop :=
  raw = enc_all ps ++ concat (map fixed_encode32 (map (offset_of ps) ridx)) ++ fixed_encode32 (N.of_nat (length ridx)) /\
  (forall j, (j < length ps)%nat -> pe_off (nth j ps dummy_pe) = offset_of ps j) /\
  (forall i, (i < length ridx)%nat -> nth i ridx 0%nat = (i * N.to_nat I)%nat) /\
  (forall j, (j < length ps)%nat ->
     pe_shared (nth j ps dummy_pe) =
     if (j mod N.to_nat I =? 0)%nat then 0
     else lcp (pe_key (nth (j - 1) ps dummy_pe)) (pe_key (nth j ps dummy_pe))).

Lemma bbinv_block_format b ps ridx : bbinv b ps ridx -> len (bb_finish b) < 2 ^ 32 ->
  block_format (bb_interval b) ps ridx (bb_finish b).
Proof.
  intros Hb Hsz. split; [apply bb_finish_bytes; assumption|]. split; [|split].
  - intros j Hj. rewrite (legal_off ps 0 [] j (bi_legal _ _ _ Hb) Hj). apply N.add_0_l.
  - exact (bi_cad_ridx _ _ _ Hb).
  - exact (bi_share _ _ _ Hb).
Qed.

Section C09d.
Variable compress_default : N -> bytes -> res bytes.
Variable compress_level : N -> Z -> bytes -> res bytes.

Theorem T09d_file_structure : forall o off0 ops w' rs,
  1 <= wo_interval o -> Forall (entry_fits o) ops ->
  writer_session compress_default compress_level o off0 ops = Ok (w', rs) ->
  m_bytes_index_block (w_m w') < 2 ^ 32 ->
  exists (ds : list dblk) (idx_ps : list pentry) (idx_ridx : list nat) (idx_raw : bytes),
    (* framing *)
    writer_bytes w' = concat (map frame (map d_stored ds)) ++ frame idx_raw ++ metadata_write (w_m w') /\
    offs_ok off0 ds /\ m_index_block_offset (w_m w') = off0 + len (concat (map frame (map d_stored ds))) /\
    (* every data block *)
    Forall (fun d => d_ps d <> [] /\ sorted_ps (d_ps d) /\
                     compress_block compress_default compress_level o (d_raw d) = Ok (d_stored d) /\
                     block_format (wo_interval o) (d_ps d) (d_ridx d) (d_raw d) /\
                     ((2 <= length (d_ps d))%nat -> len (d_raw d) < wo_block_size o) /\
                     bcmp (lastkey (d_ps d)) (d_sep d) <> Gt) ds /\
    (* consecutive blocks: separator below the next first key; the cut rule *)
    fences_ok (wo_block_size o) ds None /\
    (* the index block *)
    block_format (wo_interval o) idx_ps idx_ridx idx_raw /\
    Forall2 (fun p d => pe_key p = d_sep d /\ pe_val p = varint_encode64 (d_off d)) idx_ps ds /\
    (* content *)
    all_entries ds [] = kept ops rs.
Proof.
  intros o off0 ops w' rs Hi Hfit Hsess Hidx.
  destruct (written_structure compress_default compress_level o off0 ops w' rs Hi Hfit Hsess)
    as (ds & ib & ips & iridx & Hbytes & Hblocks & Hoffs & Hfences & Hib & Hibi & Hrel & Hibo & Hibytes & Hent).
  exists ds, ips, iridx, (bb_finish ib). repeat match goal with |- _ /\ _ => split end; try assumption.
  - eapply Forall_impl; [|exact Hblocks]. intros d (H1 & H2 & _ & _ & H5 & H6 & (b & Hb & Hraw & Hbi) & Hsz & Hs1).
    repeat match goal with |- _ /\ _ => split end; try assumption.
    rewrite Hraw, <- Hbi. apply bbinv_block_format; [exact Hb|rewrite <- Hraw; exact Hsz].
  - rewrite <- Hibi. apply bbinv_block_format; [exact Hib|].
    rewrite Hibytes in Hidx. unfold frame in Hidx. rewrite !len_app in Hidx. lia.
Qed.
End C09d.
Print Assumptions T09d_file_structure.

(* the decoder and the validator do accept a concrete multi-block model file (non-vacuity
   of C09_statement's conclusion; evaluated on the model writer with compression NONE) *)
Example T09_example :
  let o := mkwopts 0 (-10000)%Z 64 2 in
  let ops := [([97], repeat 120 30); ([97; 98], repeat 121 30); ([98], repeat 122 30); ([98; 0], [])] in
  match writer_session (fun _ _ => Fail) (fun _ _ _ => Fail) o 7 ops with
  | Ok (w, _) => match parse_table (fun _ _ => Fail) 7 (writer_bytes w) with
                 | inr t => wf_validate 7 (mkexpect 64 2 0) t = 0 /\ table_entries t = ops /\ length (at_blocks t) = 3%nat
                 | inl _ => False
                 end
  | _ => False
  end.
Proof. vm_compute. repeat split. Qed.
