(* C09 - Written files are well-formed MTBL v2 as judged by an independent decoder.
   FULL STATEMENT (C09_statement below): the extracted independent decoder
   spec/Parse.v accepts every file of the model writer and validates every clause.
   PROVED so far: the file layout (contiguous frames from the initial offset, each
   = canonical varint length ++ CRC32C of the stored bytes ++ stored bytes; index
   frame; 512-byte zero-padded trailer ending in the magic) and the separator law.
   NOT yet proved (validated on every implementation file by running the extracted
   decoder and wf_validate): the block-internal clauses (restart cadence, maximal
   prefix elision), the index entries, the size policy. *)
From Coq Require Import NArith ZArith List Lia.
From Mtbl Require Import gen.Consts model.Bytes model.Codec model.Order model.Block model.Crc model.Writer
  spec.Leb128 spec.Parse proofs.BytesLemmas proofs.CodecProofs proofs.OrderProofs proofs.WriterProofs proofs.MetaProofs.
Local Open Scope N_scope.

Section C09.
Variable compress_default : N -> bytes -> res bytes.
Variable compress_level : N -> Z -> bytes -> res bytes.
Variable decompress : N -> bytes -> res bytes.
Hypothesis compress_default_total : forall a raw, exists c, compress_default a raw = Ok c.
Hypothesis compress_level_total : forall a l raw, exists c, compress_level a l raw = Ok c.

(* the full property, as a statement about the model writer and the independent decoder *)
Definition C09_statement : Prop :=
  forall o off0 ops w rs, 1 <= wo_interval o ->
    Forall (fun kv => wf_bytes (fst kv) /\ wf_bytes (snd kv) /\ len (fst kv) < 2 ^ 32 /\ len (snd kv) < 2 ^ 32) ops ->
    writer_session compress_default compress_level o off0 ops = Ok (w, rs) ->
    exists t, parse_table decompress off0 (writer_bytes w) = inr t /\
      wf_validate off0 (mkexpect (wo_block_size o) (wo_interval o) (wo_comp o)) t = 0 /\
      table_entries t = accepted None ops.

(* T09b_layout_partial: layout of the finished file *)
Theorem T09b_layout_partial : forall o off0 ops, 1 <= wo_interval o ->
  Forall (fun kv => wf_bytes (fst kv)) ops ->
  exists w sl idx,
    writer_session compress_default compress_level o off0 ops = Ok (w, accept_spec None ops) /\
    writer_bytes w = concat (map frame sl) ++ frame idx ++ metadata_write (w_m w) /\
    (forall stored, frame stored = varint_encode64 (len stored) ++ fixed_encode32 (crc32c_ref stored) ++ stored) /\
    (forall stored, len stored < 2 ^ 64 -> varint_encode64 (len stored) = leb128 (len stored)) /\
    m_index_block_offset (w_m w) = off0 + len (concat (map frame sl)) /\
    len (metadata_write (w_m w)) = 512 /\
    (exists body, metadata_write (w_m w) = body ++ fixed_encode32 MTBL_MAGIC).
Proof.
  intros o off0 ops Hi Hwf.
  destruct (writer_adds_spec compress_default compress_level compress_default_total compress_level_total
              ops (writer_init o off0)
              (writer_init_inv compress_default compress_level compress_default_total compress_level_total o off0 Hi) Hwf)
    as (w1 & H1 & Hw1 & _).
  change (wlast (writer_init o off0)) with (@None bytes) in *.
  destruct (writer_adds_out compress_default compress_level ops off0 o _ [] _ _ (wout_init compress_default compress_level o off0) H1) as [sl1 Ho1].
  destruct (writer_finish_ok compress_default compress_level compress_default_total compress_level_total w1 Hw1) as (w2 & H2).
  destruct (writer_finish_out compress_default compress_level off0 o w1 sl1 w2 Ho1 H2)
    as (sl & idx & Hb & _ & _ & Hio & _).
  exists w2, sl, idx. unfold writer_session. rewrite H1, H2.
  repeat match goal with |- _ /\ _ => split end; try assumption; try reflexivity; try apply metadata_write_len.
  - intros stored Hs. apply varint_encode64_spec, Hs.
  - unfold metadata_write, META_WRITE_MAGIC. eexists. rewrite app_assoc. reflexivity.
Qed.
End C09.
Print Assumptions T09b_layout_partial.

(* T09c: the index key chosen for a cut block: a <= sep a b < b and it is no longer than a *)
Theorem T09c_separator : forall a b, wf_bytes a -> wf_bytes b -> bcmp a b = Lt ->
  bcmp a (sep a b) <> Gt /\ bcmp (sep a b) b = Lt /\ len (sep a b) <= len a.
Proof. exact sep_between. Qed.
Print Assumptions T09c_separator.

(* the decoder and the validator do accept a concrete multi-block model file (non-vacuity
   of C09_statement's conclusion; evaluated on the model writer with compression NONE) *)
Example T09_example :
  let o := mkwopts 0 (-10000)%Z 64 2 in
  let ops := [([97], repeat 120 30); ([97; 98], repeat 121 30); ([98], repeat 122 30); ([98; 0], [])] in
  match writer_session (fun _ _ => Fail) (fun _ _ _ => Fail) o 7 ops with
  | Ok (w, _) => match parse_table (fun _ _ => Fail) 7 (writer_bytes w) with
                 | inr t => wf_validate 7 (mkexpect 64 2 0) t = 0 /\ table_entries t = ops /\ length (at_blocks t) = 3%nat
                 | inl _ => False
                 end
  | _ => False
  end.
Proof. vm_compute. repeat split. Qed.
