(* C09 - Written files are well-formed MTBL v2 as judged by an independent decoder.
   PROVED:
   T09b_layout_partial - the file is data frames ++ index frame ++ 512-byte trailer, a frame
     being the canonical varint of the stored length, the CRC-32C of the stored bytes and
     the stored bytes; the trailer ends with the magic.
   T09c_separator - a <= sep a b < b and |sep a b| <= |a|.
   T09d_file_structure (from the ghost-state invariant of proofs/TableRT.v) - for every
     configuration and add sequence the file decomposes into blocks such that
       . block i starts at initial offset + the sizes of the frames before it, and the stored
         bytes are the compression of the block's raw bytes;
       . the raw bytes are: the entries, each encoded as varint32(shared) varint32(unshared)
         varint32(|value|) key-suffix value, then the 32-bit offsets of the restart entries,
         then their count; restart points are exactly the entries 0, I, 2I, ... (I = restart
         interval), an entry at a restart point shares nothing and every other entry elides
         the longest common prefix with its predecessor; keys strictly increase;
       . a block with more than one entry is smaller than block_size, and a block is followed
         by another only if that one's first entry (15 bytes allowed for its header) would
         have brought it to block_size;
       . the index block is built the same way and holds, per data block, the key
         last-key-of-block <= k < first-key-of-next-block and the canonical varint64 of the
         block's start offset;
       . the entries of the blocks, in order, are the entries whose add succeeded.
   The FULL STATEMENT through the independent decoder (spec/Parse.v accepts the file,
   wf_validate passes every clause, the decoded entries are the accepted ones) is T09_full in
   the second part of this file, with T09e / T09f and the refutation of the statement without
   its size hypotheses (T09_unrestricted_refuted: the 4 GiB restart-width switch, observation O1).
   The extracted decoder and validator also judge every file the REAL writer produces (engine
   wr), which is where the model is tied to writer.c / block_builder.c byte for byte.  Blocks of
   4 GiB and more (64-bit restart arrays) are outside T09d / T09_full (hypothesis entry_fits). *)
From Coq Require Import NArith ZArith List Lia.
From Mtbl Require Import gen.Consts model.Bytes model.Codec model.Order model.Block model.Crc model.Writer
  spec.Leb128 spec.Parse model.Reader proofs.BytesLemmas proofs.CodecProofs proofs.OrderProofs proofs.WriterProofs proofs.MetaProofs
  proofs.BlockRT proofs.TableRT proofs.ParseProofs proofs.ParseTable proofs.ParseSwitch.
(* source ties: the statements of the C functions the model follows (gen/Ties.v is regenerated from /repo on every run) *)
From Mtbl Require props.Ties_C09.
Local Open Scope N_scope.

Section C09.
Variable compress_default : N -> bytes -> res bytes.
Variable compress_level : N -> Z -> bytes -> res bytes.
Variable decompress : N -> bytes -> res bytes.
Hypothesis compress_default_total : forall a raw, exists c, compress_default a raw = Ok c.
Hypothesis compress_level_total : forall a l raw, exists c, compress_level a l raw = Ok c.

(* T09b_layout_partial: layout of the finished file *)
Theorem T09b_layout_partial : forall o off0 ops, 1 <= wo_interval o ->
  Forall (fun kv => wf_bytes (fst kv)) ops ->
  exists w sl idx,
    writer_session compress_default compress_level o off0 ops = Ok (w, accept_spec None ops) /\
    writer_bytes w = concat (map frame sl) ++ frame idx ++ metadata_write (w_m w) /\
    (forall stored, frame stored = varint_encode64 (len stored) ++ fixed_encode32 (crc32c_ref stored) ++ stored) /\
    (forall stored, len stored < 2 ^ 64 -> varint_encode64 (len stored) = leb128 (len stored)) /\
    m_index_block_offset (w_m w) = off0 + len (concat (map frame sl)) /\
    len (metadata_write (w_m w)) = 512 /\
    (exists body, metadata_write (w_m w) = body ++ fixed_encode32 MTBL_MAGIC).
Proof.
  intros o off0 ops Hi Hwf.
  destruct (writer_adds_spec compress_default compress_level compress_default_total compress_level_total
              ops (writer_init o off0)
              (writer_init_inv compress_default compress_level compress_default_total compress_level_total o off0 Hi) Hwf)
    as (w1 & H1 & Hw1 & _).
  change (wlast (writer_init o off0)) with (@None bytes) in *.
  destruct (writer_adds_out compress_default compress_level ops off0 o _ [] _ _ (wout_init compress_default compress_level o off0) H1) as [sl1 Ho1].
  destruct (writer_finish_ok compress_default compress_level compress_default_total compress_level_total w1 Hw1) as (w2 & H2).
  destruct (writer_finish_out compress_default compress_level off0 o w1 sl1 w2 Ho1 H2)
    as (sl & idx & Hb & _ & _ & Hio & _).
  exists w2, sl, idx. unfold writer_session. rewrite H1, H2.
  repeat match goal with |- _ /\ _ => split end; try assumption; try reflexivity; try apply metadata_write_len.
  - intros stored Hs. apply varint_encode64_spec, Hs.
  - unfold metadata_write, META_WRITE_MAGIC. eexists. rewrite app_assoc. reflexivity.
Qed.
End C09.
Print Assumptions T09b_layout_partial.

(* T09c: the index key chosen for a cut block: a <= sep a b < b and it is no longer than a *)
Theorem T09c_separator : forall a b, wf_bytes a -> wf_bytes b -> bcmp a b = Lt ->
  bcmp a (sep a b) <> Gt /\ bcmp (sep a b) b = Lt /\ len (sep a b) <= len a.
Proof. exact sep_between. Qed.
Print Assumptions T09c_separator.

(* T09d: the structure of every written file *)
Definition block_format (I : N) (ps : list pentry) (ridx : list nat) (raw : bytes) : Prop :=
  raw = enc_all ps ++ concat (map fixed_encode32 (map (offset_of ps) ridx)) ++ fixed_encode32 (N.of_nat (length ridx)) /\
  (forall j, (j < length ps)%nat -> pe_off (nth j ps dummy_pe) = offset_of ps j) /\
  (forall i, (i < length ridx)%nat -> nth i ridx 0%nat = (i * N.to_nat I)%nat) /\
  (forall j, (j < length ps)%nat ->
     pe_shared (nth j ps dummy_pe) =
     if (j mod N.to_nat I =? 0)%nat then 0
     else lcp (pe_key (nth (j - 1) ps dummy_pe)) (pe_key (nth j ps dummy_pe))).

Lemma bbinv_block_format b ps ridx : bbinv b ps ridx -> len (bb_finish b) < 2 ^ 32 ->
  block_format (bb_interval b) ps ridx (bb_finish b).
Proof.
  intros Hb Hsz. split; [apply bb_finish_bytes; assumption|]. split; [|split].
  - intros j Hj. rewrite (legal_off ps 0 [] j (bi_legal _ _ _ Hb) Hj). apply N.add_0_l.
  - exact (bi_cad_ridx _ _ _ Hb).
  - exact (bi_share _ _ _ Hb).
Qed.

Section C09d.
Variable compress_default : N -> bytes -> res bytes.
Variable compress_level : N -> Z -> bytes -> res bytes.

Theorem T09d_file_structure : forall o off0 ops w' rs,
  1 <= wo_interval o -> Forall (entry_fits o) ops ->
  writer_session compress_default compress_level o off0 ops = Ok (w', rs) ->
  m_bytes_index_block (w_m w') < 2 ^ 32 ->
  exists (ds : list dblk) (idx_ps : list pentry) (idx_ridx : list nat) (idx_raw : bytes),
    (* framing *)
    writer_bytes w' = concat (map frame (map d_stored ds)) ++ frame idx_raw ++ metadata_write (w_m w') /\
    offs_ok off0 ds /\ m_index_block_offset (w_m w') = off0 + len (concat (map frame (map d_stored ds))) /\
    (* every data block *)
    Forall (fun d => d_ps d <> [] /\ sorted_ps (d_ps d) /\
                     compress_block compress_default compress_level o (d_raw d) = Ok (d_stored d) /\
                     block_format (wo_interval o) (d_ps d) (d_ridx d) (d_raw d) /\
                     ((2 <= length (d_ps d))%nat -> len (d_raw d) < wo_block_size o) /\
                     bcmp (lastkey (d_ps d)) (d_sep d) <> Gt) ds /\
    (* consecutive blocks: separator below the next first key; the cut rule *)
    fences_ok (wo_block_size o) ds None /\
    (* the index block *)
    block_format (wo_interval o) idx_ps idx_ridx idx_raw /\
    Forall2 (fun p d => pe_key p = d_sep d /\ pe_val p = varint_encode64 (d_off d)) idx_ps ds /\
    (* content *)
    all_entries ds [] = kept ops rs.
Proof.
  intros o off0 ops w' rs Hi Hfit Hsess Hidx.
  destruct (written_structure compress_default compress_level o off0 ops w' rs Hi Hfit Hsess)
    as (ds & ib & ips & iridx & Hbytes & Hblocks & Hoffs & Hfences & Hib & Hibi & Hrel & Hibo & Hibytes & Hent).
  exists ds, ips, iridx, (bb_finish ib). repeat match goal with |- _ /\ _ => split end; try assumption.
  - eapply Forall_impl; [|exact Hblocks]. intros d (H1 & H2 & _ & _ & H5 & H6 & (b & Hb & Hraw & Hbi) & Hsz & Hs1).
    repeat match goal with |- _ /\ _ => split end; try assumption.
    rewrite Hraw, <- Hbi. apply bbinv_block_format; [exact Hb|rewrite <- Hraw; exact Hsz].
  - rewrite <- Hibi. apply bbinv_block_format; [exact Hib|].
    rewrite Hibytes in Hidx. unfold frame in Hidx. rewrite !len_app in Hidx. lia.
Qed.
End C09d.
Print Assumptions T09d_file_structure.

(* the decoder and the validator do accept a concrete multi-block model file (non-vacuity
   of C09_statement's conclusion; evaluated on the model writer with compression NONE) *)
Example T09_example :
  let o := mkwopts 0 (-10000)%Z 64 2 in
  let ops := [([97], repeat 120 30); ([97; 98], repeat 121 30); ([98], repeat 122 30); ([98; 0], [])] in
  match writer_session (fun _ _ => Fail) (fun _ _ _ => Fail) o 7 ops with
  | Ok (w, _) => match parse_table (fun _ _ => Fail) 7 (writer_bytes w) with
                 | inr t => wf_validate 7 (mkexpect 64 2 0) t = 0 /\ table_entries t = ops /\ length (at_blocks t) = 3%nat
                 | inl _ => False
                 end
  | _ => False
  end.
Proof. vm_compute. repeat split. Qed.


(* ======================================================================================= *)
(* C09, full statement - Written files are well-formed MTBL v2 as judged by the independent
   decoder and validator of spec/Parse.v.
   PROVED (T09_full, from proofs/ParseProofs.v + proofs/ParseTable.v): for every configuration
   (restart interval >= 1; any compression algorithm/level whose compressor round-trips through
   [decompress] and returns strings of bytes), initial offset and sequence of adds (refused adds
   included), if the session succeeds then
     1. parse_table accepts the file, and the table it returns is the ghost structure of
        T09d_file_structure: one decoded block per written block (its entries, restart array,
        raw size), at its start offset and with its framed size, the index block, and the
        trailer = the writer's nine statistics (T09e_decoder_finds_structure);
     2. its entries are exactly the accepted entries ([accepted None ops] = [kept ops rs]);
     3. wf_validate returns 0: version; per data block canonical varints, restart cadence
        0,I,2I,..., nothing shared at a restart point and the longest common prefix elsewhere,
        restart array = offsets of the restart entries; the same for the index block (or the
        single restart 0 of the empty index); strictly increasing keys; per data block an index
        entry last-key <= k < next-first-key holding the canonical varint64 of the block's
        offset; the size policy and the cut rule; all nine trailer statistics.
   Domain (hypothesis fits09; the sizes that fit the integer widths of the format, as in
   T01 / T09d): keys and values are strings of bytes shorter than 4 GiB,
   block_size + |key| + |value| + 32 < 2^32 for every add, index block (framed) < 4 GiB,
   the nine statistics < 2^64.  Nothing else is assumed about sizes: block offsets and stored
   lengths < 2^64 follow from the statistics.
   The statement of Properties_C09.C09_statement itself (only |key|,|value| < 2^32) is FALSE:
     - C09_needs_roundtrip: [decompress] unrelated to the compressor;
     - C09_needs_bytes: a huge "byte" (2^110) in a value makes the model CRC exceed 32 bits
       (an artefact of bytes being N in the model - hence wf_bytes on values and on the
       compressor's output);
     - statistics >= 2^64 wrap in the trailer but not in the validator (meta_small);
     - the 4 GiB restart-width switch, proofs/ParseSwitch.v (C09_statement_false, proved for
       every compressor/decompressor by a run of the model writer symbolic in a 4 GiB value): with
       block_size = 2^32+49 and interval 1, a 9-entry block whose entry region grows from
       2^32-4 to 2^32 bytes on the last add is not cut (the estimate before the add counts
       4-byte restarts) but finishes with 8-byte restarts at 2^32+76 >= block_size bytes:
       the validator's size clause (E_SIZE) fails.  Excluded by block_size+|k|+|v|+32 < 2^32. *)
Section C09full.
Variable compress_default : N -> bytes -> res bytes.
Variable compress_level : N -> Z -> bytes -> res bytes.
Variable decompress : N -> bytes -> res bytes.
Hypothesis decompress_compress_default : forall a raw c, compress_default a raw = Ok c -> decompress a c = Ok raw.
Hypothesis decompress_compress_level : forall a l raw c, compress_level a l raw = Ok c -> decompress a c = Ok raw.
Hypothesis compress_default_bytes : forall a raw c, wf_bytes raw -> compress_default a raw = Ok c -> wf_bytes c.
Hypothesis compress_level_bytes : forall a l raw c, wf_bytes raw -> compress_level a l raw = Ok c -> wf_bytes c.

(* sizes fit the integer widths of the format *)
Definition fits (o : wopts) (ops : list entry) (w : writer) : Prop :=
  Forall (fun kv => (wf_bytes (fst kv) /\ len (fst kv) < 2 ^ 32 /\ len (snd kv) < 2 ^ 32 /\
                     wo_block_size o + len (fst kv) + len (snd kv) + 32 < 2 ^ 32) /\ wf_bytes (snd kv)) ops /\
  meta_small (w_m w) /\ m_bytes_index_block (w_m w) < 2 ^ 32.

(* C09_statement with its size hypotheses made explicit *)
Theorem T09_full : forall o off0 ops w rs, 1 <= wo_interval o ->
  writer_session compress_default compress_level o off0 ops = Ok (w, rs) ->
  fits o ops w ->
  exists t, parse_table decompress off0 (writer_bytes w) = inr t /\
    wf_validate off0 (mkexpect (wo_block_size o) (wo_interval o) (wo_comp o)) t = 0 /\
    table_entries t = accepted None ops.
Proof.
  intros o off0 ops w rs Hi Hs Hf.
  destruct (written_file_decodes compress_default compress_level decompress decompress_compress_default decompress_compress_level
              compress_default_bytes compress_level_bytes o off0 ops w rs Hi Hs Hf) as (t & H1 & _ & H2 & H3 & _ & H4).
  exists t. repeat split; [exact H1|exact H4|rewrite H2; exact H3].
Qed.

(* Tier 1 with the identification of what the decoder returns; Tier 2 in both forms *)
Theorem T09e_decoder_finds_structure : forall o off0 ops w rs, 1 <= wo_interval o ->
  writer_session compress_default compress_level o off0 ops = Ok (w, rs) ->
  fits o ops w ->
  exists (ds : list dblk) (ib : bb) (ips : list pentry) (iridx : list nat),
    parse_table decompress off0 (writer_bytes w) =
      inr (mkat (tr_of (w_m w))
                (map (fun d => (d_off d, mkab (d_ps d) (map (offset_of (d_ps d)) (d_ridx d)) (len (d_raw d)) false,
                                len (frame (d_stored d)))) ds)
                (mkab ips (map (offset_of ips) iridx) (len (bb_finish ib)) false)
                (len (frame (bb_finish ib)))) /\
    writer_bytes w = frames_of ds ++ frame (bb_finish ib) ++ metadata_write (w_m w) /\
    Forall (dblk_ok compress_default compress_level o) ds /\ offs_ok off0 ds /\
    fences_ok (wo_block_size o) ds None /\
    bbinv ib ips iridx /\ bb_interval ib = wo_interval o /\ Forall2 idx_entry ips ds /\
    all_entries ds [] = kept ops rs /\ kept ops rs = accepted None ops /\ rs = accept_spec None ops.
Proof.
  intros o off0 ops w rs Hi Hs Hf.
  destruct (written_file_decodes compress_default compress_level decompress decompress_compress_default decompress_compress_level
              compress_default_bytes compress_level_bytes o off0 ops w rs Hi Hs Hf)
    as (t & H1 & (ds & ib & ips & iridx & Ht & G1 & G2 & G3 & G4 & G5 & G6 & G7) & H2 & H3 & H4 & _).
  exists ds, ib, ips, iridx. subst t. rewrite table_entries_of_ds in H2.
  split; [exact H1|]. repeat match goal with |- _ /\ _ => split end; assumption.
Qed.
End C09full.
Print Assumptions T09_full.
Print Assumptions T09e_decoder_finds_structure.

(* wf_validate is exactly the conjunction of its seven component checks (all proved to pass) *)
Theorem T09f_validator_components : forall off0 x t,
  wf_validate off0 x t = 0 <->
  (chk_version t = true /\ chk_blocks (ex_interval x) t = 0 /\ chk_index_block (ex_interval x) t = 0 /\
   chk_order t = true /\ chk_index t = 0 /\ chk_sizes (ex_block_size x) t = 0 /\ chk_stats off0 x t = true).
Proof.
  intros off0 x t. split; [apply wf_validate_components|].
  intros (H1 & H2 & H3 & H4 & H5 & H6 & H7). apply wf_validate_split; assumption.
Qed.
Print Assumptions T09f_validator_components.

(* ---- why the extra hypotheses: the statement of Properties_C09.C09_statement fails without them ---- *)
Definition judge (cd : N -> bytes -> res bytes) (dc : N -> bytes -> res bytes) (o : wopts) (off : N) (ops : list entry) : N + N :=
  match writer_session cd (fun _ _ _ => Fail) o off ops with
  | Ok (w, _) => match parse_table dc off (writer_bytes w) with
                 | inr t => inr (wf_validate off (mkexpect (wo_block_size o) (wo_interval o) (wo_comp o)) t)
                 | inl e => inl e
                 end
  | _ => inl 999
  end.

(* a decompressor that does not invert the compressor: the decoder stops with E_BLOCK *)
Example C09_needs_roundtrip :
  judge (fun _ raw => Ok raw) (fun _ _ => Fail) (mkwopts 1 (-10000)%Z 64 2) 0 [([97], [1])] = inl E_BLOCK /\
  judge (fun _ raw => Ok raw) (fun _ c => Ok c) (mkwopts 1 (-10000)%Z 64 2) 0 [([97], [1])] = inr 0.
Proof. vm_compute. split; reflexivity. Qed.

(* a value "byte" that is not a byte (model artefact: bytes are N): the model CRC no longer fits
   the 32-bit checksum field and the decoder stops with E_FRAME; 256 is still harmless *)
Example C09_needs_bytes :
  judge (fun _ _ => Fail) (fun _ _ => Fail) (mkwopts 0 (-10000)%Z 64 2) 0 [([97], [2 ^ 110])] = inl E_FRAME /\
  judge (fun _ _ => Fail) (fun _ _ => Fail) (mkwopts 0 (-10000)%Z 64 2) 0 [([97], [256])] = inr 0.
Proof. vm_compute. split; reflexivity. Qed.

(* non-vacuity: the hypotheses of T09_full are met by a concrete multi-block session (the one of
   T09_example: three data blocks, initial offset 7, no compression) *)
Example T09_full_hypotheses_met :
  let o := mkwopts 0 (-10000)%Z 64 2 in
  let ops := [([97], repeat 120 30); ([97; 98], repeat 121 30); ([98], repeat 122 30); ([98; 0], [])] in
  (forall a raw c, (fun _ _ => Fail) a raw = Ok c -> (fun (_ : N) (_ : bytes) => @Fail bytes) a c = Ok raw) /\
  exists w rs, writer_session (fun _ _ => Fail) (fun _ _ _ => Fail) o 7 ops = Ok (w, rs) /\
               1 <= wo_interval o /\ fits o ops w /\ m_count_data_blocks (w_m w) = 3.
Proof.
  cbv zeta. split; [discriminate|].
  eexists. eexists. split; [vm_compute; reflexivity|].
  split; [vm_compute; discriminate|]. split; [|reflexivity].
  unfold fits. split; [|split; [vm_compute; repeat split; reflexivity|vm_compute; reflexivity]].
  repeat (constructor; [cbn [fst snd]; repeat split; try (vm_compute; reflexivity);
                        repeat (constructor; try (unfold wf_byte; lia))|]).
  constructor.
Qed.

(* the statement with only |key|, |value| < 2^32 as size hypotheses is false, for every compressor and
   decompressor: at the 4 GiB restart-width switch a multi-entry block reaches block_size (observation O1) *)
Theorem T09_unrestricted_refuted : forall compress_default compress_level decompress,
  ~ C09_statement compress_default compress_level decompress.
Proof. exact C09_statement_false. Qed.
Print Assumptions T09_unrestricted_refuted.
