(* Source ties of C08: the statements of the C functions its model follows, as they were when the model
   was written and validated against them (tools/gen_ties.py --expected).  gen/Ties.v is regenerated from
   /repo on every run; a changed statement breaks the corresponding lemma below. *)
From Coq Require Import List String.
From Mtbl Require Import gen.Ties.
Import ListNotations.
Local Open Scope string_scope.

(* mtbl/writer.c: mtbl_writer_add *)
Lemma tie_writer_add : TIE_writer_add =
  [(0, "assert(!w->closed)");
   (0, "if(w->m.count_entries>0)");
   (1, "if(!(bytes_compare(key,len_key,ubuf_data(w->last_key),ubuf_size(w->last_key))>0))");
   (2, "return(mtbl_res_failure)");
   (0, "size_testimated_block_size=block_builder_current_size_estimate(w->data)");
   (0, "estimated_block_size+=3*5+len_key+len_val");
   (0, "if(estimated_block_size>=w->opt.block_size)");
   (1, "bytes_shortest_separator(w->last_key,key,len_key)");
   (1, "_mtbl_writer_flush(w)");
   (0, "ubuf_reset(w->last_key)");
   (0, "ubuf_append(w->last_key,key,len_key)");
   (0, "w->m.count_entries+=1");
   (0, "w->m.bytes_keys+=len_key");
   (0, "w->m.bytes_values+=len_val");
   (0, "block_builder_add(w->data,key,len_key,val,len_val)");
   (0, "return(mtbl_res_success)")].
Proof. reflexivity. Qed.

(* mtbl/writer.c: mtbl_writer_init *)
Lemma tie_writer_init : TIE_writer_init =
  [(0, "structmtbl_writer*w");
   (0, "intfd");
   (0, "fd=open(fname,O_WRONLY|O_CREAT|O_TRUNC|O_EXCL,0644)");
   (0, "if(fd<0)return(NULL)");
   (0, "w=mtbl_writer_init_fd(fd,opt)");
   (0, "close(fd)");
   (0, "return(w)")].
Proof. reflexivity. Qed.

(* mtbl/mtbl-private.h: bytes_compare *)
Lemma tie_bytes_compare : TIE_bytes_compare =
  [(0, "size_tlen=len_a>len_b?len_b:len_a");
   (0, "intret=memcmp(a,b,len)");
   (0, "if(ret==0)");
   (1, "if(len_a<len_b)");
   (2, "return(-1)");
   (1, "elseif(len_a==len_b)");
   (2, "return(0)");
   (1, "elseif(len_a>len_b)");
   (2, "return(1)");
   (0, "return(ret)")].
Proof. reflexivity. Qed.

(* mtbl/writer.c: mtbl_writer_options_init *)
Lemma tie_wr_mtbl_writer_options_init : TIE_wr_mtbl_writer_options_init =
  [(0, "structmtbl_writer_options*opt");
   (0, "opt=my_calloc(1,sizeof(*opt))");
   (0, "opt->compression_type=DEFAULT_COMPRESSION_TYPE");
   (0, "opt->compression_level=DEFAULT_COMPRESSION_LEVEL");
   (0, "opt->block_size=DEFAULT_BLOCK_SIZE");
   (0, "opt->block_restart_interval=DEFAULT_BLOCK_RESTART_INTERVAL");
   (0, "opt->pool=NULL");
   (0, "return(opt)")].
Proof. reflexivity. Qed.

(* mtbl/writer.c: mtbl_writer_options_destroy *)
Lemma tie_wr_mtbl_writer_options_destroy : TIE_wr_mtbl_writer_options_destroy =
  [(0, "if(*opt)my_free(*opt)")].
Proof. reflexivity. Qed.

(* mtbl/writer.c: mtbl_writer_options_set_compression *)
Lemma tie_wr_mtbl_writer_options_set_compression : TIE_wr_mtbl_writer_options_set_compression =
  [(0, "switch(compression_type)");
   (1, "caseMTBL_COMPRESSION_NONE:caseMTBL_COMPRESSION_SNAPPY:caseMTBL_COMPRESSION_ZLIB:caseMTBL_COMPRESSION_LZ4:caseMTBL_COMPRESSION_LZ4HC:caseMTBL_COMPRESSION_ZSTD:break");
   (1, "default:assert(0)");
   (0, "opt->compression_type=compression_type")].
Proof. reflexivity. Qed.

(* mtbl/writer.c: mtbl_writer_options_set_compression_level *)
Lemma tie_wr_mtbl_writer_options_set_compression_level : TIE_wr_mtbl_writer_options_set_compression_level =
  [(0, "opt->compression_level=compression_level")].
Proof. reflexivity. Qed.

(* mtbl/writer.c: mtbl_writer_options_set_block_restart_interval *)
Lemma tie_wr_mtbl_writer_options_set_block_restart_interval : TIE_wr_mtbl_writer_options_set_block_restart_interval =
  [(0, "if(block_restart_interval<MIN_BLOCK_RESTART_INTERVAL)block_restart_interval=MIN_BLOCK_RESTART_INTERVAL");
   (0, "opt->block_restart_interval=block_restart_interval")].
Proof. reflexivity. Qed.

(* mtbl/writer.c: mtbl_writer_options_set_threadpool *)
Lemma tie_wr_mtbl_writer_options_set_threadpool : TIE_wr_mtbl_writer_options_set_threadpool =
  [(0, "opt->pool=pool")].
Proof. reflexivity. Qed.

(* libmy/ubuf.h: whole file *)
Lemma tie_ubuf_h : TIE_ubuf_h =
  [(0, "#ifndefMY_UBUF_H");
   (0, "#defineMY_UBUF_H");
   (0, "#include<stdarg.h>");
   (0, "#include<stdbool.h>");
   (0, "#include<stdint.h>");
   (0, "#include<stdio.h>");
   (0, "#include<stdlib.h>");
   (0, "#include<string.h>");
   (0, "#include""vector.h""");
   (0, "VECTOR_GENERATE(ubuf,uint8_t)");
   (0, "staticinlineubuf*ubuf_new(void)");
   (1, "return(ubuf_init(64))");
   (0, "staticinlineubuf*ubuf_dup_cstr(constchar*s)");
   (1, "size_tlen=strlen(s)");
   (1, "ubuf*u=ubuf_init(len+1)");
   (1, "ubuf_append(u,(constuint8_t*)s,len)");
   (1, "return(u)");
   (0, "staticinlinevoidubuf_add_cstr(ubuf*u,constchar*s)");
   (1, "if(ubuf_size(u)>0&&ubuf_value(u,ubuf_size(u)-1)=='\x00')ubuf_clip(u,ubuf_size(u)-1)");
   (1, "ubuf_append(u,(constuint8_t*)s,strlen(s))");
   (0, "staticinlinevoidubuf_cterm(ubuf*u)");
   (1, "if(ubuf_size(u)==0||(ubuf_size(u)>0&&ubuf_value(u,ubuf_size(u)-1)!='\x00'))");
   (2, "ubuf_append(u,(constuint8_t*)""\x00"",1)");
   (0, "staticinlinechar*ubuf_cstr(ubuf*u)");
   (1, "ubuf_cterm(u)");
   (1, "return((char*)ubuf_data(u))");
   (0, "staticinlinevoidubuf_add_fmt(ubuf*u,constchar*fmt,...)");
   (1, "va_listargs,args_copy");
   (1, "intstatus,needed");
   (1, "if(ubuf_size(u)>0&&ubuf_value(u,ubuf_size(u)-1)=='\x00')ubuf_clip(u,ubuf_size(u)-1)");
   (1, "va_start(args,fmt)");
   (1, "va_copy(args_copy,args)");
   (1, "needed=vsnprintf(NULL,0,fmt,args_copy)");
   (1, "assert(needed>=0)");
   (1, "va_end(args_copy)");
   (1, "ubuf_reserve(u,ubuf_size(u)+needed+1)");
   (1, "status=vsnprintf((char*)ubuf_ptr(u),needed+1,fmt,args)");
   (1, "assert(status>=0)");
   (1, "ubuf_advance(u,needed)");
   (1, "va_end(args)");
   (0, "staticinlinevoidubuf_rstrip(ubuf*u,chars)");
   (1, "if(ubuf_size(u)>0&&ubuf_value(u,ubuf_size(u)-1)==((uint8_t)s))");
   (2, "ubuf_clip(u,ubuf_size(u)-1)");
   (0, "#endif")].
Proof. reflexivity. Qed.
