(* Source ties of C10: the statements of the C functions its model follows, as they were when the model
   was written and validated against them (tools/gen_ties.py --expected).  gen/Ties.v is regenerated from
   /repo on every run; a changed statement breaks the corresponding lemma below. *)
From Coq Require Import List String.
From Mtbl Require Import gen.Ties.
Import ListNotations.
Local Open Scope string_scope.

(* mtbl/writer.c: _mtbl_writer_finish *)
Lemma tie_writer_finish : TIE_writer_finish =
  [(0, "structdata_blockindex");
   (0, "uint8_ttbuf[MTBL_METADATA_SIZE]");
   (0, "size_tbytes_written");
   (0, "_mtbl_writer_flush(w)");
   (0, "result_handler_destroy(&w->rhandler)");
   (0, "assert(!w->closed)");
   (0, "w->closed=true");
   (0, "block_builder_finish(w->index,&index.data,&index.len_data)");
   (0, "index.crc=htole32(mtbl_crc32c(index.data,index.len_data))");
   (0, "bytes_written=_mtbl_writer_write_block(w->fd,&index)");
   (0, "w->m.index_block_offset=w->pending_offset");
   (0, "w->m.bytes_index_block=bytes_written");
   (0, "w->last_offset=w->pending_offset");
   (0, "w->pending_offset+=bytes_written");
   (0, "metadata_write(&w->m,tbuf)");
   (0, "_write_all(w->fd,tbuf,sizeof(tbuf))");
   (0, "block_builder_reset(w->index)");
   (0, "free(index.data)")].
Proof. reflexivity. Qed.

(* mtbl/writer.c: _mtbl_writer_write_data_block *)
Lemma tie_writer_write_data_block : TIE_writer_write_data_block =
  [(0, "uint8_tenc[10]");
   (0, "size_tlen_enc,bytes_written");
   (0, "bytes_written=_mtbl_writer_write_block(w->fd,b)");
   (0, "w->last_offset=w->pending_offset");
   (0, "w->pending_offset+=bytes_written");
   (0, "w->m.bytes_data_blocks+=bytes_written");
   (0, "w->m.count_data_blocks+=1");
   (0, "len_enc=mtbl_varint_encode64(enc,w->last_offset)");
   (0, "block_builder_add(w->index,b->last_key,b->len_last_key,enc,len_enc)");
   (0, "free(b->last_key)");
   (0, "free(b->data)")].
Proof. reflexivity. Qed.

(* mtbl/writer.c: mtbl_writer_init_fd *)
Lemma tie_writer_init_fd : TIE_writer_init_fd =
  [(0, "structmtbl_writer*w");
   (0, "intfd");
   (0, "fd=dup(orig_fd)");
   (0, "assert(fd>=0)");
   (0, "w=my_calloc(1,sizeof(*w))");
   (0, "if(opt==NULL)");
   (1, "w->opt.compression_type=DEFAULT_COMPRESSION_TYPE");
   (1, "w->opt.compression_level=DEFAULT_COMPRESSION_LEVEL");
   (1, "w->opt.block_size=DEFAULT_BLOCK_SIZE");
   (1, "w->opt.block_restart_interval=DEFAULT_BLOCK_RESTART_INTERVAL");
   (1, "w->opt.pool=NULL");
   (0, "else");
   (1, "memcpy(&w->opt,opt,sizeof(*opt))");
   (0, "w->fd=fd");
   (0, "w->last_offset=lseek(fd,0,SEEK_CUR)");
   (0, "w->pending_offset=w->last_offset");
   (0, "w->last_key=ubuf_init(256)");
   (0, "w->m.file_version=MTBL_FORMAT_V2");
   (0, "w->m.compression_algorithm=w->opt.compression_type");
   (0, "w->m.data_block_size=w->opt.block_size");
   (0, "w->data=block_builder_init(w->opt.block_restart_interval)");
   (0, "w->index=block_builder_init(w->opt.block_restart_interval)");
   (0, "if(w->opt.pool!=NULL)");
   (1, "w->pool=w->opt.pool->pool");
   (1, "w->rhandler=result_handler_init(_write_data_block_wrapper,w)");
   (0, "return(w)")].
Proof. reflexivity. Qed.

(* mtbl/writer.c: mtbl_writer_options_set_block_size *)
Lemma tie_writer_set_block_size : TIE_writer_set_block_size =
  [(0, "if(block_size<MIN_BLOCK_SIZE)block_size=MIN_BLOCK_SIZE");
   (0, "opt->block_size=block_size")].
Proof. reflexivity. Qed.
