(* Source ties of C10: the statements of the C functions its model follows, as they were when the model
   was written and validated against them (tools/gen_ties.py --expected).  gen/Ties.v is regenerated from
   /repo on every run; a changed statement breaks the corresponding lemma below. *)
From Coq Require Import List String.
From Mtbl Require Import gen.Ties.
Import ListNotations.
Local Open Scope string_scope.

(* mtbl/writer.c: _mtbl_writer_finish *)
Lemma tie_writer_finish : TIE_writer_finish =
  [(0, "structdata_blockindex");
   (0, "uint8_ttbuf[MTBL_METADATA_SIZE]");
   (0, "size_tbytes_written");
   (0, "_mtbl_writer_flush(w)");
   (0, "result_handler_destroy(&w->rhandler)");
   (0, "assert(!w->closed)");
   (0, "w->closed=true");
   (0, "block_builder_finish(w->index,&index.data,&index.len_data)");
   (0, "index.crc=htole32(mtbl_crc32c(index.data,index.len_data))");
   (0, "bytes_written=_mtbl_writer_write_block(w->fd,&index)");
   (0, "w->m.index_block_offset=w->pending_offset");
   (0, "w->m.bytes_index_block=bytes_written");
   (0, "w->last_offset=w->pending_offset");
   (0, "w->pending_offset+=bytes_written");
   (0, "metadata_write(&w->m,tbuf)");
   (0, "_write_all(w->fd,tbuf,sizeof(tbuf))");
   (0, "block_builder_reset(w->index)");
   (0, "free(index.data)")].
Proof. reflexivity. Qed.

(* mtbl/writer.c: _mtbl_writer_write_data_block *)
Lemma tie_writer_write_data_block : TIE_writer_write_data_block =
  [(0, "uint8_tenc[10]");
   (0, "size_tlen_enc,bytes_written");
   (0, "bytes_written=_mtbl_writer_write_block(w->fd,b)");
   (0, "w->last_offset=w->pending_offset");
   (0, "w->pending_offset+=bytes_written");
   (0, "w->m.bytes_data_blocks+=bytes_written");
   (0, "w->m.count_data_blocks+=1");
   (0, "len_enc=mtbl_varint_encode64(enc,w->last_offset)");
   (0, "block_builder_add(w->index,b->last_key,b->len_last_key,enc,len_enc)");
   (0, "free(b->last_key)");
   (0, "free(b->data)")].
Proof. reflexivity. Qed.

(* mtbl/writer.c: mtbl_writer_init_fd *)
Lemma tie_writer_init_fd : TIE_writer_init_fd =
  [(0, "structmtbl_writer*w");
   (0, "intfd");
   (0, "fd=dup(orig_fd)");
   (0, "assert(fd>=0)");
   (0, "w=my_calloc(1,sizeof(*w))");
   (0, "if(opt==NULL)");
   (1, "w->opt.compression_type=DEFAULT_COMPRESSION_TYPE");
   (1, "w->opt.compression_level=DEFAULT_COMPRESSION_LEVEL");
   (1, "w->opt.block_size=DEFAULT_BLOCK_SIZE");
   (1, "w->opt.block_restart_interval=DEFAULT_BLOCK_RESTART_INTERVAL");
   (1, "w->opt.pool=NULL");
   (0, "else");
   (1, "memcpy(&w->opt,opt,sizeof(*opt))");
   (0, "w->fd=fd");
   (0, "w->last_offset=lseek(fd,0,SEEK_CUR)");
   (0, "w->pending_offset=w->last_offset");
   (0, "w->last_key=ubuf_init(256)");
   (0, "w->m.file_version=MTBL_FORMAT_V2");
   (0, "w->m.compression_algorithm=w->opt.compression_type");
   (0, "w->m.data_block_size=w->opt.block_size");
   (0, "w->data=block_builder_init(w->opt.block_restart_interval)");
   (0, "w->index=block_builder_init(w->opt.block_restart_interval)");
   (0, "if(w->opt.pool!=NULL)");
   (1, "w->pool=w->opt.pool->pool");
   (1, "w->rhandler=result_handler_init(_write_data_block_wrapper,w)");
   (0, "return(w)")].
Proof. reflexivity. Qed.

(* mtbl/writer.c: mtbl_writer_options_set_block_size *)
Lemma tie_writer_set_block_size : TIE_writer_set_block_size =
  [(0, "if(block_size<MIN_BLOCK_SIZE)block_size=MIN_BLOCK_SIZE");
   (0, "opt->block_size=block_size")].
Proof. reflexivity. Qed.

(* src/mtbl_info.c: print_info *)
Lemma tie_info_print : TIE_info_print =
  [(0, "intfd,ret");
   (0, "structstatss");
   (0, "structmtbl_reader*r");
   (0, "conststructmtbl_metadata*m");
   (0, "fd=open(fname,O_RDONLY)");
   (0, "if(fd<0)");
   (1, "fprintf(stderr,""Error:unabletoopenfile%s:%s\n"",fname,strerror(errno))");
   (1, "exit(EXIT_FAILURE)");
   (0, "ret=fstat(fd,&ss)");
   (0, "if(ret<0)");
   (1, "perror(""Error:fstat"")");
   (1, "exit(EXIT_FAILURE)");
   (0, "r=mtbl_reader_init_fd(fd,NULL)");
   (0, "if(r==NULL)");
   (1, "fprintf(stderr,""Error:mtbl_reader_init_fd()on%sfailed\n"",fname)");
   (1, "exit(EXIT_FAILURE)");
   (0, "m=mtbl_reader_metadata(r)");
   (0, "uint64_tdata_block_size=mtbl_metadata_data_block_size(m)");
   (0, "mtbl_compression_typecompression_algorithm=mtbl_metadata_compression_algorithm(m)");
   (0, "uint64_tcount_entries=mtbl_metadata_count_entries(m)");
   (0, "uint64_tcount_data_blocks=mtbl_metadata_count_data_blocks(m)");
   (0, "uint64_tbytes_data_blocks=mtbl_metadata_bytes_data_blocks(m)");
   (0, "uint64_tbytes_index_block=mtbl_metadata_bytes_index_block(m)");
   (0, "uint64_tbytes_keys=mtbl_metadata_bytes_keys(m)");
   (0, "uint64_tbytes_values=mtbl_metadata_bytes_values(m)");
   (0, "uint64_tindex_block_offset=mtbl_metadata_index_block_offset(m)");
   (0, "doublep_data=100.0*bytes_data_blocks/ss.st_size");
   (0, "doublep_index=100.0*bytes_index_block/ss.st_size");
   (0, "doublecompactness=100.0*ss.st_size/(bytes_keys+bytes_values)");
   (0, "printf(""filename:%s\n"",fname)");
   (0, "printf(""filesize:%'zd\n"",(size_t)ss.st_size)");
   (0, "printf(""indexblockoffset:%'""PRIu64""\n"",index_block_offset)");
   (0, "printf(""indexbytes:%'""PRIu64""(%'.2f%%)\n"",bytes_index_block,p_index)");
   (0, "printf(""datablockbytes%'""PRIu64""(%'.2f%%)\n"",bytes_data_blocks,p_data)");
   (0, "printf(""datablocksize:%'""PRIu64""\n"",data_block_size)");
   (0, "printf(""datablockcount%'""PRIu64""\n"",count_data_blocks)");
   (0, "printf(""entrycount:%'""PRIu64""\n"",count_entries)");
   (0, "printf(""keybytes:%'""PRIu64""\n"",bytes_keys)");
   (0, "printf(""valuebytes:%'""PRIu64""\n"",bytes_values)");
   (0, "printf(""compressionalgorithm:"")");
   (0, "constchar*compression=mtbl_compression_type_to_str(compression_algorithm)");
   (0, "if(compression!=NULL)puts(compression)");
   (0, "elseprintf(""%u\n"",compression_algorithm)");
   (0, "printf(""compactness:%'.2f%%\n"",compactness)");
   (0, "putchar('\n')");
   (0, "mtbl_reader_destroy(&r)")].
Proof. reflexivity. Qed.

(* mtbl/metadata.c: metadata_write *)
Lemma tie_meta_metadata_write : TIE_meta_metadata_write =
  [(0, "size_tpadding");
   (0, "uint8_t*p=buf");
   (0, "p+=mtbl_fixed_encode64(p,m->index_block_offset)");
   (0, "p+=mtbl_fixed_encode64(p,m->data_block_size)");
   (0, "p+=mtbl_fixed_encode64(p,m->compression_algorithm)");
   (0, "p+=mtbl_fixed_encode64(p,m->count_entries)");
   (0, "p+=mtbl_fixed_encode64(p,m->count_data_blocks)");
   (0, "p+=mtbl_fixed_encode64(p,m->bytes_data_blocks)");
   (0, "p+=mtbl_fixed_encode64(p,m->bytes_index_block)");
   (0, "p+=mtbl_fixed_encode64(p,m->bytes_keys)");
   (0, "p+=mtbl_fixed_encode64(p,m->bytes_values)");
   (0, "padding=MTBL_METADATA_SIZE-(p-buf)-sizeof(uint32_t)");
   (0, "while(padding--!=0)*(p++)='\0'");
   (0, "mtbl_fixed_encode32(buf+MTBL_METADATA_SIZE-sizeof(uint32_t),MTBL_MAGIC)")].
Proof. reflexivity. Qed.

(* mtbl/metadata.c: metadata_read *)
Lemma tie_meta_metadata_read : TIE_meta_metadata_read =
  [(0, "uint32_tmagic");
   (0, "constuint8_t*p=buf");
   (0, "magic=mtbl_fixed_decode32(buf+MTBL_METADATA_SIZE-sizeof(uint32_t))");
   (0, "if(magic==MTBL_MAGIC_V1)m->file_version=MTBL_FORMAT_V1");
   (0, "elseif(magic==MTBL_MAGIC)m->file_version=MTBL_FORMAT_V2");
   (0, "elsereturn(false)");
   (0, "m->index_block_offset=mtbl_fixed_decode64(p)");
   (0, "p+=8");
   (0, "m->data_block_size=mtbl_fixed_decode64(p)");
   (0, "p+=8");
   (0, "m->compression_algorithm=mtbl_fixed_decode64(p)");
   (0, "p+=8");
   (0, "m->count_entries=mtbl_fixed_decode64(p)");
   (0, "p+=8");
   (0, "m->count_data_blocks=mtbl_fixed_decode64(p)");
   (0, "p+=8");
   (0, "m->bytes_data_blocks=mtbl_fixed_decode64(p)");
   (0, "p+=8");
   (0, "m->bytes_index_block=mtbl_fixed_decode64(p)");
   (0, "p+=8");
   (0, "m->bytes_keys=mtbl_fixed_decode64(p)");
   (0, "p+=8");
   (0, "m->bytes_values=mtbl_fixed_decode64(p)");
   (0, "return(true)")].
Proof. reflexivity. Qed.

(* mtbl/metadata.c: mtbl_metadata_file_version *)
Lemma tie_meta_mtbl_metadata_file_version : TIE_meta_mtbl_metadata_file_version =
  [(0, "returnm->file_version")].
Proof. reflexivity. Qed.

(* mtbl/metadata.c: mtbl_metadata_index_block_offset *)
Lemma tie_meta_mtbl_metadata_index_block_offset : TIE_meta_mtbl_metadata_index_block_offset =
  [(0, "returnm->index_block_offset")].
Proof. reflexivity. Qed.

(* mtbl/metadata.c: mtbl_metadata_data_block_size *)
Lemma tie_meta_mtbl_metadata_data_block_size : TIE_meta_mtbl_metadata_data_block_size =
  [(0, "returnm->data_block_size")].
Proof. reflexivity. Qed.

(* mtbl/metadata.c: mtbl_metadata_compression_algorithm *)
Lemma tie_meta_mtbl_metadata_compression_algorithm : TIE_meta_mtbl_metadata_compression_algorithm =
  [(0, "returnm->compression_algorithm")].
Proof. reflexivity. Qed.

(* mtbl/metadata.c: mtbl_metadata_count_entries *)
Lemma tie_meta_mtbl_metadata_count_entries : TIE_meta_mtbl_metadata_count_entries =
  [(0, "returnm->count_entries")].
Proof. reflexivity. Qed.

(* mtbl/metadata.c: mtbl_metadata_count_data_blocks *)
Lemma tie_meta_mtbl_metadata_count_data_blocks : TIE_meta_mtbl_metadata_count_data_blocks =
  [(0, "returnm->count_data_blocks")].
Proof. reflexivity. Qed.

(* mtbl/metadata.c: mtbl_metadata_bytes_data_blocks *)
Lemma tie_meta_mtbl_metadata_bytes_data_blocks : TIE_meta_mtbl_metadata_bytes_data_blocks =
  [(0, "returnm->bytes_data_blocks")].
Proof. reflexivity. Qed.

(* mtbl/metadata.c: mtbl_metadata_bytes_index_block *)
Lemma tie_meta_mtbl_metadata_bytes_index_block : TIE_meta_mtbl_metadata_bytes_index_block =
  [(0, "returnm->bytes_index_block")].
Proof. reflexivity. Qed.

(* mtbl/metadata.c: mtbl_metadata_bytes_keys *)
Lemma tie_meta_mtbl_metadata_bytes_keys : TIE_meta_mtbl_metadata_bytes_keys =
  [(0, "returnm->bytes_keys")].
Proof. reflexivity. Qed.

(* mtbl/metadata.c: mtbl_metadata_bytes_values *)
Lemma tie_meta_mtbl_metadata_bytes_values : TIE_meta_mtbl_metadata_bytes_values =
  [(0, "returnm->bytes_values")].
Proof. reflexivity. Qed.
