(* C08 - Writer accepts only strictly increasing keys and never overwrites a file *)
From Coq Require Import NArith ZArith List Lia.
From Mtbl Require Import gen.Consts model.Bytes model.Order model.Block model.Writer
  proofs.OrderProofs proofs.WriterProofs.
(* source ties: the statements of the C functions the model follows (gen/Ties.v is regenerated from /repo on every run) *)
From Mtbl Require props.Ties_C08.
Local Open Scope N_scope.

Section C08.
Variable compress_default : N -> bytes -> res bytes.
Variable compress_level : N -> Z -> bytes -> res bytes.
(* world assumption: compressing a block succeeds (the writer asserts it) *)
Hypothesis compress_default_total : forall a raw, exists c, compress_default a raw = Ok c.
Hypothesis compress_level_total : forall a l raw, exists c, compress_level a l raw = Ok c.

(* T08a + T08c: one add, from any state reachable through the API (winv):
   success iff nothing was accepted yet or key > last accepted key; a refused add
   returns the state unchanged; an accepted add makes its key the last accepted *)
Theorem T08a_gate : forall w k v, winv w -> wf_bytes k ->
  let ok := match wlast w with None => true | Some l => match bcmp k l with Gt => true | _ => false end end in
  exists w', writer_add compress_default compress_level w k v = Ok (w', ok) /\
    (ok = false -> w' = w) /\ (ok = true -> winv w' /\ wlast w' = Some k).
Proof.
  intros w k v Hw Hk. destruct (writer_add_spec compress_default compress_level compress_default_total compress_level_total w k v Hw Hk)
    as (w' & H1 & H2 & H3). exists w'. split; [exact H1|]. split; [exact H2|].
  intros E. destruct (H3 E) as (Hi & Hl & Hc & _). split; [exact Hi|]. eapply wlast_after_accept; eassumption.
Qed.

(* T08b: every finite sequence of adds with arbitrary keys, any configuration with
   restart interval >= 1: the results are exactly those of the rule "strictly
   greater than the last accepted key", nothing aborts, and destroy completes *)
Theorem T08b_sequence : forall o off0 ops, 1 <= wo_interval o ->
  Forall (fun kv => wf_bytes (fst kv)) ops ->
  exists w, writer_session compress_default compress_level o off0 ops = Ok (w, accept_spec None ops).
Proof.
  intros o off0 ops Hi Hwf.
  destruct (writer_adds_spec compress_default compress_level compress_default_total compress_level_total
              ops (writer_init o off0) (writer_init_inv compress_default compress_level compress_default_total compress_level_total o off0 Hi) Hwf) as (w1 & H1 & Hw1 & _).
  destruct (writer_finish_ok compress_default compress_level compress_default_total compress_level_total w1 Hw1) as (w2 & H2).
  exists w2. unfold writer_session. change (wlast (writer_init o off0)) with (@None bytes) in H1.
  rewrite H1, H2. reflexivity.
Qed.
End C08.
Print Assumptions T08a_gate.
Print Assumptions T08b_sequence.

(* T08e: bytes_compare is the strict total order "unsigned bytewise, a proper prefix sorting first" *)
Theorem T08e_order :
  (forall a, bcmp a a = Eq) /\ (forall a b, bcmp a b = Eq -> a = b) /\
  (forall a b, bcmp b a = CompOpp (bcmp a b)) /\
  (forall a b c, bcmp a b = Lt -> bcmp b c = Lt -> bcmp a c = Lt) /\
  (forall a b, bcmp a b = Lt <->
     (exists s, s <> [] /\ b = a ++ s) \/
     (exists p x y a' b', a = p ++ x :: a' /\ b = p ++ y :: b' /\ x < y)).
Proof.
  split; [exact bcmp_refl|]. split; [exact bcmp_eq|]. split; [exact bcmp_antisym|].
  split; [exact bcmp_lt_trans|exact bcmp_lt_spec].
Qed.
Print Assumptions T08e_order.

(* non-vacuity: a concrete history with refusals *)
Example T08_example :
  accept_spec None [([1], []); ([1], []); ([1; 0], []); ([0; 255], []); ([1; 0; 0], []); ([], [])]
  = [true; false; true; false; true; false].
Proof. reflexivity. Qed.

(* ------------------------------------------------------------------------------------------------
   T08f: "mtbl_writer_init never opens an existing path: it returns NULL and leaves that file
   untouched".  model/OpenModel.v interprets the flag list that gen/Consts.v scrapes from the open()
   call of mtbl_writer_init on every run (WRITER_OPEN_FLAGS); the statement tie tie_writer_init
   (Ties_C08) shows the function does nothing but `open; if (fd < 0) return NULL; init_fd; close'.
   For EVERY file system and EVERY path that names anything - a regular file, an empty one, a
   symbolic link (dangling or not), a directory - the open fails and the file system is the same
   value afterwards; on a path naming nothing the file is created empty and nothing else changes. *)
From Coq Require Import String.
From Mtbl Require Import model.OpenModel.

Theorem T08f_init_refuses_existing : forall fs p n, fs_get fs p = Some n ->
  writer_init_path fs p = (OpenFail, fs).
Proof.
  intros fs p n H. unfold writer_init_path, posix_open. rewrite H. reflexivity.
Qed.
Print Assumptions T08f_init_refuses_existing.

Lemma fs_get_set_same : forall fs p n, fs_get (fs_set fs p n) p = Some n.
Proof.
  induction fs as [|[q m] rest IH]; intros p n; cbn [fs_set fs_get].
  - rewrite String.eqb_refl. reflexivity.
  - destruct (String.eqb p q) eqn:E; cbn [fs_get]; rewrite E; [reflexivity|apply IH].
Qed.

Lemma fs_get_set_other : forall fs p q n, p <> q -> fs_get (fs_set fs p n) q = fs_get fs q.
Proof.
  induction fs as [|[r m] rest IH]; intros p q n Hne; cbn [fs_set fs_get].
  - destruct (String.eqb q p) eqn:E; [apply String.eqb_eq in E; congruence|reflexivity].
  - destruct (String.eqb p r) eqn:E; cbn [fs_get].
    + apply String.eqb_eq in E. subst r.
      destruct (String.eqb q p) eqn:E2; [apply String.eqb_eq in E2; congruence|reflexivity].
    + destruct (String.eqb q r); [reflexivity|apply IH; exact Hne].
Qed.

Theorem T08f_init_creates_fresh : forall fs p, fs_get fs p = None ->
  exists fs', writer_init_path fs p = (OpenOk p, fs') /\
    fs_get fs' p = Some (NReg []) /\ (forall q, q <> p -> fs_get fs' q = fs_get fs q).
Proof.
  intros fs p H. exists (fs_set fs p (NReg [])).
  unfold writer_init_path, posix_open, open_resolved. rewrite H. cbn.
  split; [reflexivity|]. split; [apply fs_get_set_same|].
  intros q Hq. apply fs_get_set_other. congruence.
Qed.
Print Assumptions T08f_init_creates_fresh.

(* the statement is about the flags: without O_EXCL (or without O_CREAT next to it) the same model
   opens - and truncates - the existing file; so a change of the flag list breaks T08f *)
Example T08f_flags_matter :
  posix_open ["O_WRONLY"; "O_CREAT"; "O_TRUNC"]%string [("t"%string, NReg [1; 2])] "t"
  = (OpenOk "t"%string, [("t"%string, NReg [])]) /\
  posix_open ["O_WRONLY"; "O_CREAT"; "O_TRUNC"]%string [("l"%string, NLink "t"); ("t"%string, NReg [1; 2])] "l"
  = (OpenOk "t"%string, [("l"%string, NLink "t"); ("t"%string, NReg [])]) /\
  writer_init_path [("l"%string, NLink "t")] "l" = (OpenFail, [("l"%string, NLink "t")]).
Proof. repeat split. Qed.

(* the reader opens read-only: no flag that creates or truncates *)
Theorem T08f_reader_open_changes_nothing : forall fs p, snd (reader_init_path fs p) = fs.
Proof.
  intros fs p. unfold reader_init_path, posix_open, open_resolved. cbn.
  destruct (fs_get fs p) as [[c|t|]|]; cbn; try reflexivity.
  destruct (fs_get fs t) as [[c|t'|]|]; reflexivity.
Qed.
Print Assumptions T08f_reader_open_changes_nothing.

(* ------------------------------------------------------------------------------------------------
   T08g: the hypothesis `1 <= wo_interval o' of the writer theorems (T01, T08, T09, T10, T12, T20) is met by
   EVERY value passed to mtbl_writer_options_set_block_restart_interval: the setter clamps to
   MIN_BLOCK_RESTART_INTERVAL, which gen/Consts.v scrapes from the source (0 when the setter stores the
   value as given - the pinned code, where an interval of 0 made the block builder fail its assertion
   on the second entry of a block: defect F13, repaired).  The default interval is at least 1 too. *)
Theorem T08g_restart_interval_at_least_one :
  (forall n, 1 <= clamp_restart_interval n) /\ 1 <= DEFAULT_BLOCK_RESTART_INTERVAL.
Proof.
  split; [|vm_compute; discriminate]. intros n. unfold clamp_restart_interval.
  destruct (n <? MIN_BLOCK_RESTART_INTERVAL) eqn:E; [vm_compute; discriminate|].
  apply N.ltb_ge in E. revert E. change MIN_BLOCK_RESTART_INTERVAL with 1. intros E. exact E.
Qed.
Print Assumptions T08g_restart_interval_at_least_one.
