(* C08 - Writer accepts only strictly increasing keys and never overwrites a file *)
From Coq Require Import NArith ZArith List Lia.
From Mtbl Require Import gen.Consts model.Bytes model.Order model.Block model.Writer
  proofs.OrderProofs proofs.WriterProofs.
(* source ties: the statements of the C functions the model follows (gen/Ties.v is regenerated from /repo on every run) *)
From Mtbl Require props.Ties_C08.
Local Open Scope N_scope.

Section C08.
Variable compress_default : N -> bytes -> res bytes.
Variable compress_level : N -> Z -> bytes -> res bytes.
(* world assumption: compressing a block succeeds (the writer asserts it) *)
Hypothesis compress_default_total : forall a raw, exists c, compress_default a raw = Ok c.
Hypothesis compress_level_total : forall a l raw, exists c, compress_level a l raw = Ok c.

(* T08a + T08c: one add, from any state reachable through the API (winv):
   success iff nothing was accepted yet or key > last accepted key; a refused add
   returns the state unchanged; an accepted add makes its key the last accepted *)
Theorem T08a_gate : forall w k v, winv w -> wf_bytes k ->
  let ok := match wlast w with None => true | Some l => match bcmp k l with Gt => true | _ => false end end in
  exists w', writer_add compress_default compress_level w k v = Ok (w', ok) /\
    (ok = false -> w' = w) /\ (ok = true -> winv w' /\ wlast w' = Some k).
Proof.
  intros w k v Hw Hk. destruct (writer_add_spec compress_default compress_level compress_default_total compress_level_total w k v Hw Hk)
    as (w' & H1 & H2 & H3). exists w'. split; [exact H1|]. split; [exact H2|].
  intros E. destruct (H3 E) as (Hi & Hl & Hc & _). split; [exact Hi|]. eapply wlast_after_accept; eassumption.
Qed.

(* T08b: every finite sequence of adds with arbitrary keys, any configuration with
   restart interval >= 1: the results are exactly those of the rule "strictly
   greater than the last accepted key", nothing aborts, and destroy completes *)
Theorem T08b_sequence : forall o off0 ops, 1 <= wo_interval o ->
  Forall (fun kv => wf_bytes (fst kv)) ops ->
  exists w, writer_session compress_default compress_level o off0 ops = Ok (w, accept_spec None ops).
Proof.
  intros o off0 ops Hi Hwf.
  destruct (writer_adds_spec compress_default compress_level compress_default_total compress_level_total
              ops (writer_init o off0) (writer_init_inv compress_default compress_level compress_default_total compress_level_total o off0 Hi) Hwf) as (w1 & H1 & Hw1 & _).
  destruct (writer_finish_ok compress_default compress_level compress_default_total compress_level_total w1 Hw1) as (w2 & H2).
  exists w2. unfold writer_session. change (wlast (writer_init o off0)) with (@None bytes) in H1.
  rewrite H1, H2. reflexivity.
Qed.
End C08.
Print Assumptions T08a_gate.
Print Assumptions T08b_sequence.

(* T08e: bytes_compare is the strict total order "unsigned bytewise, a proper prefix sorting first" *)
Theorem T08e_order :
  (forall a, bcmp a a = Eq) /\ (forall a b, bcmp a b = Eq -> a = b) /\
  (forall a b, bcmp b a = CompOpp (bcmp a b)) /\
  (forall a b c, bcmp a b = Lt -> bcmp b c = Lt -> bcmp a c = Lt) /\
  (forall a b, bcmp a b = Lt <->
     (exists s, s <> [] /\ b = a ++ s) \/
     (exists p x y a' b', a = p ++ x :: a' /\ b = p ++ y :: b' /\ x < y)).
Proof.
  split; [exact bcmp_refl|]. split; [exact bcmp_eq|]. split; [exact bcmp_antisym|].
  split; [exact bcmp_lt_trans|exact bcmp_lt_spec].
Qed.
Print Assumptions T08e_order.

(* non-vacuity: a concrete history with refusals *)
Example T08_example :
  accept_spec None [([1], []); ([1], []); ([1; 0], []); ([0; 255], []); ([1; 0; 0], []); ([], [])]
  = [true; false; true; false; true; false].
Proof. reflexivity. Qed.
