(* Source ties of C19: the statements of the C functions its model follows, as they were when the model
   was written and validated against them (tools/gen_ties.py --expected).  gen/Ties.v is regenerated from
   /repo on every run; a changed statement breaks the corresponding lemma below. *)
From Coq Require Import List String.
From Mtbl Require Import gen.Ties.
Import ListNotations.
Local Open Scope string_scope.

(* mtbl/reader.c: mtbl_reader_init_fd *)
Lemma tie_reader_init_fd : TIE_reader_init_fd =
  [(0, "structmtbl_reader*r");
   (0, "structstatss");
   (0, "size_tmetadata_offset");
   (0, "size_tindex_len,index_len_len");
   (0, "uint8_t*index_data");
   (0, "intret=fstat(fd,&ss)");
   (0, "assert(ret==0)");
   (0, "if(ss.st_size<MTBL_METADATA_SIZE)return(NULL)");
   (0, "r=my_calloc(1,sizeof(*r))");
   (0, "if(opt!=NULL)memcpy(&r->opt,opt,sizeof(*opt))");
   (0, "r->len_data=ss.st_size");
   (0, "r->data=mmap(NULL,r->len_data,PROT_READ,MAP_PRIVATE,fd,0)");
   (0, "if(r->data==MAP_FAILED)");
   (1, "free(r)");
   (1, "return(NULL)");
   (0, "metadata_offset=r->len_data-MTBL_METADATA_SIZE");
   (0, "if(!metadata_read(r->data+metadata_offset,&r->m))");
   (1, "mtbl_reader_destroy(&r)");
   (1, "return(NULL)");
   (0, "uint64_tend,min_block_length=13");
   (0, "if(r->m.file_version==MTBL_FORMAT_V1)min_block_length=16");
   (0, "end=r->m.index_block_offset+MTBL_METADATA_SIZE+min_block_length");
   (0, "if((end>r->len_data)||(end<r->m.index_block_offset))");
   (1, "mtbl_reader_destroy(&r)");
   (1, "return(NULL)");
   (0, "reader_init_madvise(r)");
   (0, "if(r->m.file_version==MTBL_FORMAT_V1)");
   (1, "index_len_len=sizeof(uint32_t)");
   (1, "index_len=mtbl_fixed_decode32(r->data+r->m.index_block_offset+0)");
   (0, "else");
   (1, "uint64_ttmp");
   (1, "index_len_len=mtbl_varint_decode64(r->data+r->m.index_block_offset+0,&tmp)");
   (1, "index_len=tmp");
   (1, "if((uint64_t)index_len!=tmp)");
   (2, "mtbl_reader_destroy(&r)");
   (2, "returnNULL");
   (0, "uint64_tindex_avail=metadata_offset-r->m.index_block_offset");
   (0, "uint64_tindex_header=index_len_len+sizeof(uint32_t)");
   (0, "if(index_header>index_avail||index_len>index_avail-index_header)");
   (1, "mtbl_reader_destroy(&r)");
   (1, "return(NULL)");
   (0, "index_data=r->data+r->m.index_block_offset+index_len_len+sizeof(uint32_t)");
   (0, "if(r->opt.verify_checksums)");
   (1, "uint32_tindex_crc,calc_crc");
   (1, "index_crc=mtbl_fixed_decode32(r->data+r->m.index_block_offset+index_len_len)");
   (1, "calc_crc=mtbl_crc32c(index_data,index_len)");
   (1, "assert(index_crc==calc_crc)");
   (0, "r->index=block_init(index_data,index_len,false)");
   (0, "r->source=mtbl_source_init(reader_iter,reader_get,reader_get_prefix,reader_get_range,NULL,r)");
   (0, "return(r)")].
Proof. reflexivity. Qed.

(* mtbl/block.c: block_init *)
Lemma tie_block_init : TIE_block_init =
  [(0, "structblock*b=my_calloc(1,sizeof(*b))");
   (0, "b->data=data");
   (0, "b->size=size");
   (0, "if(size<sizeof(uint32_t))");
   (1, "b->size=0");
   (0, "else");
   (1, "b->restart_offset=size-(1+num_restarts(b))*sizeof(uint32_t)");
   (0, "if(b->restart_offset>UINT32_MAX)");
   (1, "b->restart_offset=size-(sizeof(uint32_t)+num_restarts(b)*sizeof(uint64_t))");
   (1, "if(b->restart_offset<=UINT32_MAX)b->size=0");
   (0, "if(b->restart_offset>size-sizeof(uint32_t))");
   (1, "b->size=0");
   (0, "b->needs_free=needs_free");
   (0, "return(b)")].
Proof. reflexivity. Qed.
