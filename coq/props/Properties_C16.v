(* C16 - Varint and fixed-width integer codecs are exact inverses in standard
   form.  Only statements, each closed by `exact <lemma>`, with Print Assumptions. *)
From Coq Require Import NArith List Lia.
From Mtbl Require Import gen.Consts model.Bytes model.Codec spec.Leb128 proofs.CodecProofs.
(* source ties: the statements of the C functions the model follows (gen/Ties.v is regenerated from /repo on every run) *)
From Mtbl Require props.Ties_C16.
Local Open Scope N_scope.

(* T16a: 32-bit round trip, every value, any trailing bytes; same byte count *)
Theorem T16a_varint32_roundtrip : forall v rest, v < 2 ^ 32 ->
  varint_decode32 (varint_encode32 v ++ rest) = Ok (v, len (varint_encode32 v)).
Proof.
  intros v rest H. rewrite varint_encode32_spec by exact H.
  rewrite varint_decode32_leb by (change (2 ^ 35) with 34359738368; change (2 ^ 32) with 4294967296 in H; lia).
  rewrite N.mod_small by exact H. reflexivity.
Qed.
Print Assumptions T16a_varint32_roundtrip.

(* T16b: 64-bit round trip *)
Theorem T16b_varint64_roundtrip : forall v rest, v < 2 ^ 64 ->
  varint_decode64 (varint_encode64 v ++ rest) = Ok (v, len (varint_encode64 v)).
Proof.
  intros v rest H. rewrite varint_encode64_spec by exact H. apply varint_decode64_leb, H.
Qed.
Print Assumptions T16b_varint64_roundtrip.

(* T16c: the bytes are standard little-endian base-128, and the count equals
   mtbl_varint_length and mtbl_varint_length_packed *)
Theorem T16c_standard_form : forall v rest, v < 2 ^ 64 ->
  varint_encode64 v = leb128 v /\
  (v < 2 ^ 32 -> varint_encode32 v = leb128 v) /\
  leb_wf (leb128 v) /\ wf_bytes (leb128 v) /\ leb_value (leb128 v) = v /\
  varint_length v = len (leb128 v) /\
  varint_length_packed (leb128 v ++ rest) = len (leb128 v).
Proof.
  intros v rest H. split; [apply varint_encode64_spec, H|].
  split; [apply varint_encode32_spec|].
  split; [apply leb128_wf|]. split; [apply leb128_wf_bytes|].
  split; [apply leb128_value|]. split; [apply varint_length_spec, H|].
  apply varint_length_packed_leb.
Qed.
Print Assumptions T16c_standard_form.

(* T16d: fixed-width codecs are little-endian inverses (alignment does not exist
   in the model: memcpy makes the C code alignment-independent; validated by the
   correspondence run at offsets 0..7 under UBSan) *)
Theorem T16d_fixed_roundtrip :
  (forall v rest, v < 2 ^ 32 -> fixed_decode32 (fixed_encode32 v ++ rest) = Some v) /\
  (forall v rest, v < 2 ^ 64 -> fixed_decode64 (fixed_encode64 v ++ rest) = Some v) /\
  (forall v, v < 2 ^ 32 -> length (fixed_encode32 v) = 4%nat /\ le_value (fixed_encode32 v) = v /\ wf_bytes (fixed_encode32 v)) /\
  (forall v, v < 2 ^ 64 -> length (fixed_encode64 v) = 8%nat /\ le_value (fixed_encode64 v) = v /\ wf_bytes (fixed_encode64 v)).
Proof.
  split; [exact fixed32_roundtrip|]. split; [exact fixed64_roundtrip|].
  split; [exact fixed_encode32_le|exact fixed_encode64_le].
Qed.
Print Assumptions T16d_fixed_roundtrip.

(* T16e: truncated and over-long encodings, and the 5-byte 32-bit overflow case,
   stated as what the code does so that a change is noticed *)
Theorem T16e_malformed :
  (forall l, Forall (fun b => 128 <= b < 256) l -> varint_length_packed l = 0) /\
  (forall l, Forall (fun b => 128 <= b < 256) l -> 5 <= len l -> varint_decode32 l = Ok (0, 0)) /\
  (forall l, Forall (fun b => 128 <= b < 256) l -> 10 <= len l -> len l <= 10 -> varint_decode64 l = Ok (0, 0)) /\
  (forall l, Forall (fun b => 128 <= b < 256) l -> len l < 5 -> varint_decode32 l = Oob) /\
  (forall l, Forall (fun b => 128 <= b < 256) l -> len l < 10 -> varint_decode64 l = Oob) /\
  (forall v rest, v < 2 ^ 35 -> varint_decode32 (leb128 v ++ rest) = Ok (v mod 2 ^ 32, len (leb128 v))).
Proof.
  split; [exact varint_length_packed_allcont|].
  split.
  { intros l H Hl. unfold varint_decode32, VARINT_DEC32_MAX_SHIFT.
    (* the loop only inspects the first five bytes *)
    assert (Hs : exists a b, l = a ++ b /\ length a = 5%nat).
    { exists (firstn 5 l), (skipn 5 l). split; [symmetry; apply firstn_skipn|].
      apply firstn_length_le. unfold len in Hl. lia. }
    destruct Hs as (a & b & -> & Ha).
    apply Forall_app in H. destruct H as [Hfa _].
    do 5 (destruct a as [|? a]; [discriminate|]). destruct a; [|discriminate].
    repeat match goal with H : Forall _ (_ :: _) |- _ => inversion H; clear H; subst end.
    cbn [app varint_decode_loop]. unfold VARINT_DEC_CONT, VARINT_DEC_STEP.
    repeat (rewrite BytesLemmas.land128_zero_iff by lia;
            match goal with |- context [?x <? 128] => replace (x <? 128) with false by lia end).
    reflexivity. }
  split.
  { intros l H H1 H2. unfold varint_decode64. rewrite varint_decode_loop_allcont; [reflexivity|exact H| |].
    - unfold VARINT_DEC64_MAX_SHIFT. lia.
    - unfold len in H2. lia. }
  split.
  { intros l H Hl. unfold varint_decode32. rewrite varint_decode_loop_trunc; [reflexivity|exact H| |].
    - unfold VARINT_DEC32_MAX_SHIFT. lia.
    - unfold len in Hl. lia. }
  split.
  { intros l H Hl. unfold varint_decode64. rewrite varint_decode_loop_trunc; [reflexivity|exact H| |].
    - unfold VARINT_DEC64_MAX_SHIFT. lia.
    - unfold len in Hl. lia. }
  exact varint_decode32_leb.
Qed.
Print Assumptions T16e_malformed.

(* non-vacuity: concrete instances on both sides of every branch boundary *)
Example T16_examples :
  varint_encode32 300 = [172; 2] /\ varint_decode32 [172; 2; 99] = Ok (300, 2) /\
  varint_encode64 (2 ^ 63) = [128; 128; 128; 128; 128; 128; 128; 128; 128; 1] /\
  varint_length (2 ^ 63) = 10 /\ varint_length_packed (varint_encode64 (2 ^ 63)) = 10 /\
  varint_encode32 (2 ^ 32 - 1) = [255; 255; 255; 255; 15] /\
  fixed_encode32 MTBL_MAGIC = [76; 66; 84; 77].
Proof. vm_compute. repeat split. Qed.

(* T16f: the encodings are injective and prefix-free, for all values and whatever follows:
   two concatenations that start with encoded integers and are equal as byte strings
   start with the same integer and continue with the same bytes.  This is what lets the
   block / index / trailer formats concatenate fields without separators (an immediate
   consequence of the round trips T16a/b/d, stated because every parser relies on it). *)
Theorem T16f_prefix_free :
  (forall v v' r r', v < 2 ^ 64 -> v' < 2 ^ 64 ->
     varint_encode64 v ++ r = varint_encode64 v' ++ r' -> v = v' /\ r = r') /\
  (forall v v' r r', v < 2 ^ 32 -> v' < 2 ^ 32 ->
     varint_encode32 v ++ r = varint_encode32 v' ++ r' -> v = v' /\ r = r') /\
  (forall v v' r r', v < 2 ^ 32 -> v' < 2 ^ 32 ->
     fixed_encode32 v ++ r = fixed_encode32 v' ++ r' -> v = v' /\ r = r') /\
  (forall v v' r r', v < 2 ^ 64 -> v' < 2 ^ 64 ->
     fixed_encode64 v ++ r = fixed_encode64 v' ++ r' -> v = v' /\ r = r').
Proof.
  split; [|split; [|split]]; intros v v' r r' Hv Hv' E.
  - pose proof (T16b_varint64_roundtrip v r Hv) as D. rewrite E, (T16b_varint64_roundtrip v' r' Hv') in D.
    assert (v' = v) by congruence. subst v'. split; [reflexivity|]. eapply app_inv_head, E.
  - pose proof (T16a_varint32_roundtrip v r Hv) as D. rewrite E, (T16a_varint32_roundtrip v' r' Hv') in D.
    assert (v' = v) by congruence. subst v'. split; [reflexivity|]. eapply app_inv_head, E.
  - pose proof (fixed32_roundtrip v r Hv) as D. rewrite E, (fixed32_roundtrip v' r' Hv') in D.
    assert (v' = v) by congruence. subst v'. split; [reflexivity|]. eapply app_inv_head, E.
  - pose proof (fixed64_roundtrip v r Hv) as D. rewrite E, (fixed64_roundtrip v' r' Hv') in D.
    assert (v' = v) by congruence. subst v'. split; [reflexivity|]. eapply app_inv_head, E.
Qed.
Print Assumptions T16f_prefix_free.
