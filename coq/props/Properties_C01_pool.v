(* C01 / C09 / C10 quantify over "thread pool or none".  The theorems of Properties_C01, _C09 and _C10 are
   about writer_session, the writer without a pool; this companion file carries them over to the pooled
   writer: T13w_any_interleaving (Properties_C13.v; proofs/WriterPooled.v) shows that the pooled writer of
   writer.c - flush = snapshot + dispatch, ordered result handler = _mtbl_writer_write_data_block, finish
   waits for every job - under EVERY interleaving of the caller's adds with the handler's callbacks ends
   with the very writer value (file bytes, metadata, add results) of the sequential session.
   T01p_pooled_is_sequential - the transfer principle (both directions).
   T01p_roundtrip_pooled - a table written with a pool, read back from the start, is exactly what was added.
   T09p_wellformed_pooled - it decodes with the independent decoder and passes every clause of the validator.
   T10p_statistics_pooled - its trailer statistics are the truth about the file (the counters that the
     handler thread updates included).
   T20p_fragmentation_pooled - the sequence of buffers handed to write(2) by the pooled writer (data blocks
     by the handler thread, in order; index and trailer by the caller after the join) is the sequential
     one, so the finished file does not depend on how write(2) fragments them either. *)
From Coq Require Import NArith ZArith List Lia.
From Mtbl Require Import gen.Consts model.Bytes model.Codec model.Order model.Block model.Crc model.Writer model.Reader spec.Leb128 spec.Parse
  proofs.BytesLemmas proofs.CodecProofs proofs.OrderProofs proofs.WriterProofs proofs.MetaProofs proofs.BlockProofs proofs.LookupProofs
  proofs.ReaderProofs proofs.BlockRT proofs.TableRT proofs.ParseProofs proofs.ParseTable proofs.WriterPooled.
From Mtbl Require Import model.WriteLoop proofs.WriteLoopProofs.
From Mtbl Require props.Properties_C01 props.Properties_C09 props.Properties_C10 props.Properties_C20.
Import ListNotations.
Local Open Scope N_scope.

Section Pooled.
Variable compress_default : N -> bytes -> res bytes.
Variable compress_level : N -> Z -> bytes -> res bytes.
Variable decompress : N -> bytes -> res bytes.
Hypothesis decompress_compress_default : forall a raw c, compress_default a raw = Ok c -> decompress a c = Ok raw.
Hypothesis decompress_compress_level : forall a l raw c, compress_level a l raw = Ok c -> decompress a c = Ok raw.

(* evs: the caller's adds interleaved with callbacks of the result handler, each at a point where a job is outstanding *)
Definition pooled_run (o : wopts) (off : N) (evs : list event) :=
  prun_events compress_default compress_level o off (evs ++ [EFinish]).
Definition legal (o : wopts) (off : N) (evs : list event) : Prop :=
  no_finish evs = true /\ delivers_enabled compress_default compress_level (dinit o off) evs = true.

Theorem T01p_pooled_is_sequential : forall o off evs, legal o off evs ->
  forall w rs, (pooled_run o off evs = Ok (w, [], rs) <-> writer_session compress_default compress_level o off (erase evs) = Ok (w, rs)) /\
               (forall q, pooled_run o off evs = Ok (w, q, rs) -> q = []).
Proof.
  intros o off evs [NF EN] w rs. unfold pooled_run. rewrite (WP1 compress_default compress_level o off evs NF EN).
  destruct (writer_session compress_default compress_level o off (erase evs)) as [[w0 rs0]| | |]; split;
    try (split; intros H; inversion H; subst; reflexivity); try (intros q H; inversion H; reflexivity);
    try (split; intros H; discriminate H); intros q H; discriminate H.
Qed.

Theorem T01p_roundtrip_pooled : forall o prefix evs w rs, legal o (len prefix) evs ->
  1 <= wo_interval o -> strictly_sorted (map fst (erase evs)) ->
  pooled_run o (len prefix) evs = Ok (w, [], rs) ->
  Properties_C01.fits o prefix (erase evs) w ->
  read_all decompress (S (length (erase evs))) (prefix ++ writer_bytes w) = Ok (erase evs).
Proof.
  intros o prefix evs w rs L Hi Hs Hr Hf.
  apply (proj1 (T01p_pooled_is_sequential o (len prefix) evs L w rs)) in Hr.
  exact (Properties_C01.T01_roundtrip compress_default compress_level decompress decompress_compress_default
           decompress_compress_level o prefix (erase evs) w rs Hi Hs Hr Hf).
Qed.
End Pooled.
Print Assumptions T01p_pooled_is_sequential.
Print Assumptions T01p_roundtrip_pooled.

Section Pooled09.
Variable compress_default : N -> bytes -> res bytes.
Variable compress_level : N -> Z -> bytes -> res bytes.
Variable decompress : N -> bytes -> res bytes.
Hypothesis decompress_compress_default : forall a raw c, compress_default a raw = Ok c -> decompress a c = Ok raw.
Hypothesis decompress_compress_level : forall a l raw c, compress_level a l raw = Ok c -> decompress a c = Ok raw.
Hypothesis compress_default_bytes : forall a raw c, wf_bytes raw -> compress_default a raw = Ok c -> wf_bytes c.
Hypothesis compress_level_bytes : forall a l raw c, wf_bytes raw -> compress_level a l raw = Ok c -> wf_bytes c.

Theorem T09p_wellformed_pooled : forall o off0 evs w rs, legal compress_default compress_level o off0 evs ->
  1 <= wo_interval o ->
  pooled_run compress_default compress_level o off0 evs = Ok (w, [], rs) ->
  Properties_C09.fits o (erase evs) w ->
  exists t, parse_table decompress off0 (writer_bytes w) = inr t /\
    wf_validate off0 (mkexpect (wo_block_size o) (wo_interval o) (wo_comp o)) t = 0 /\
    table_entries t = accepted None (erase evs).
Proof.
  intros o off0 evs w rs L Hi Hr Hf.
  apply (proj1 (T01p_pooled_is_sequential compress_default compress_level o off0 evs L w rs)) in Hr.
  exact (Properties_C09.T09_full compress_default compress_level decompress decompress_compress_default decompress_compress_level
           compress_default_bytes compress_level_bytes o off0 (erase evs) w rs Hi Hr Hf).
Qed.
End Pooled09.
Print Assumptions T09p_wellformed_pooled.

Section Pooled10.
Variable compress_default : N -> bytes -> res bytes.
Variable compress_level : N -> Z -> bytes -> res bytes.
Hypothesis compress_default_total : forall a raw, exists c, compress_default a raw = Ok c.
Hypothesis compress_level_total : forall a l raw, exists c, compress_level a l raw = Ok c.

Theorem T10p_statistics_pooled : forall o off0 evs, legal compress_default compress_level o off0 evs ->
  1 <= wo_interval o -> Forall (fun kv => wf_bytes (fst kv)) (erase evs) ->
  let ops := erase evs in
  exists w sl idx,
    pooled_run compress_default compress_level o off0 evs = Ok (w, [], accept_spec None ops) /\
    writer_bytes w = concat (map frame sl) ++ frame idx ++ metadata_write (w_m w) /\
    m_count_entries (w_m w) = N.of_nat (length (accepted None ops)) /\
    m_bytes_keys (w_m w) = fold_right (fun kv s => len (fst kv) + s) 0 (accepted None ops) /\
    m_bytes_values (w_m w) = fold_right (fun kv s => len (snd kv) + s) 0 (accepted None ops) /\
    m_count_data_blocks (w_m w) = N.of_nat (length sl) /\
    m_bytes_data_blocks (w_m w) = len (concat (map frame sl)) /\
    m_index_block_offset (w_m w) = off0 + len (concat (map frame sl)) /\
    m_bytes_index_block (w_m w) = len (frame idx) /\
    m_data_block_size (w_m w) = wo_block_size o /\
    m_compression_algorithm (w_m w) = wo_comp o.
Proof.
  intros o off0 evs L Hi Hw ops.
  destruct (Properties_C10.T10a_statistics compress_default compress_level compress_default_total compress_level_total
              o off0 ops Hi Hw) as (w & sl & idx & Hs & Hrest).
  exists w, sl, idx. split; [|exact Hrest].
  apply (proj1 (T01p_pooled_is_sequential compress_default compress_level o off0 evs L w (accept_spec None ops))). exact Hs.
Qed.
End Pooled10.
Print Assumptions T10p_statistics_pooled.

Section Pooled20.
Variable compress_default : N -> bytes -> res bytes.
Variable compress_level : N -> Z -> bytes -> res bytes.
Hypothesis compress_default_nonempty : forall a raw c, compress_default a raw = Ok c -> c <> [].
Hypothesis compress_level_nonempty : forall a l raw c, compress_level a l raw = Ok c -> c <> [].

Theorem T20p_fragmentation_pooled : forall o off0 evs w rs os, legal compress_default compress_level o off0 evs ->
  pooled_run compress_default compress_level o off0 evs = Ok (w, [], rs) ->
  match write_chunks os [] (writer_chunks w) with
  | Ok (f, _) => f = writer_bytes w
  | Abort => True
  | _ => False
  end /\
  (Forall benign os -> exists os', write_chunks os [] (writer_chunks w) = Ok (writer_bytes w, os')).
Proof.
  intros o off0 evs w rs os L Hr.
  apply (proj1 (T01p_pooled_is_sequential compress_default compress_level o off0 evs L w rs)) in Hr.
  exact (Properties_C20.T20b_file_independent_of_fragmentation compress_default compress_level compress_default_nonempty compress_level_nonempty
           o off0 (erase evs) w rs os Hr).
Qed.
End Pooled20.
Print Assumptions T20p_fragmentation_pooled.
