(* Source ties of C20: the statements of the C functions its model follows, as they were when the model
   was written and validated against them (tools/gen_ties.py --expected).  gen/Ties.v is regenerated from
   /repo on every run; a changed statement breaks the corresponding lemma below. *)
From Coq Require Import List String.
From Mtbl Require Import gen.Ties.
Import ListNotations.
Local Open Scope string_scope.

(* mtbl/writer.c: _write_all *)
Lemma tie_writer_write_all : TIE_writer_write_all =
  [(0, "assert(size>0)");
   (0, "while(size)");
   (1, "ssize_tbytes_written");
   (1, "bytes_written=write(fd,buf,size)");
   (1, "if(bytes_written<0&&errno==EINTR)continue");
   (1, "if(bytes_written<=0)");
   (2, "fprintf(stderr,""%s:write()failed:%s\n"",__func__,strerror(errno))");
   (2, "assert(bytes_written>0)");
   (1, "buf+=bytes_written");
   (1, "size-=bytes_written")].
Proof. reflexivity. Qed.

(* mtbl/writer.c: _mtbl_writer_write_block *)
Lemma tie_wr_mtbl_writer_write_block : TIE_wr_mtbl_writer_write_block =
  [(0, "uint8_tlen[10]");
   (0, "size_tlen_length,bytes_written");
   (0, "len_length=mtbl_varint_encode64(len,b->len_data)");
   (0, "_write_all(fd,(constuint8_t*)len,len_length)");
   (0, "_write_all(fd,(constuint8_t*)&b->crc,sizeof(b->crc))");
   (0, "_write_all(fd,b->data,b->len_data)");
   (0, "bytes_written=len_length+sizeof(b->crc)+b->len_data");
   (0, "return(bytes_written)")].
Proof. reflexivity. Qed.
