(* Source ties of C03: the statements of the C functions its model follows, as they were when the model
   was written and validated against them (tools/gen_ties.py --expected).  gen/Ties.v is regenerated from
   /repo on every run; a changed statement breaks the corresponding lemma below. *)
From Coq Require Import List String.
From Mtbl Require Import gen.Ties.
Import ListNotations.
Local Open Scope string_scope.

(* mtbl/reader.c: needs_index_seek *)
Lemma tie_reader_needs_index_seek : TIE_reader_needs_index_seek =
  [(0, "constuint8_t*key,*val");
   (0, "size_tlen_key,len_val");
   (0, "if(it->first||it->b==NULL)returntrue");
   (0, "if(!block_iter_get(it->bi,&key,&len_key,&val,&len_val))returntrue");
   (0, "if(bytes_compare(key,len_key,seek_key,len_seek_key)>0)returntrue");
   (0, "if(!block_iter_get(it->index_iter,&key,&len_key,&val,&len_val))returntrue");
   (0, "if(bytes_compare(key,len_key,seek_key,len_seek_key)<0)returntrue");
   (0, "returnfalse")].
Proof. reflexivity. Qed.

(* mtbl/reader.c: reader_iter_seek *)
Lemma tie_reader_iter_seek : TIE_reader_iter_seek =
  [(0, "structreader_iter*it=(structreader_iter*)v");
   (0, "constuint8_t*ikey,*ival");
   (0, "size_tlen_ikey,len_ival");
   (0, "uint64_tnew_offset");
   (0, "if(needs_index_seek(it,key,len_key))block_iter_seek(it->index_iter,key,len_key)");
   (0, "if(!block_iter_get(it->index_iter,&ikey,&len_ikey,&ival,&len_ival))");
   (1, "it->valid=false");
   (1, "return(mtbl_res_success)");
   (0, "mtbl_varint_decode64(ival,&new_offset)");
   (0, "if(it->b==NULL||it->block_offset!=new_offset)");
   (1, "block_destroy(&it->b)");
   (1, "block_iter_destroy(&it->bi)");
   (1, "it->block_offset=new_offset");
   (1, "it->b=get_block(it->r,new_offset)");
   (1, "if(it->b==NULL)return(mtbl_res_failure)");
   (1, "it->bi=block_iter_init(it->b)");
   (0, "block_iter_seek(it->bi,key,len_key)");
   (0, "it->first=true");
   (0, "it->valid=true");
   (0, "return(mtbl_res_success)")].
Proof. reflexivity. Qed.

(* mtbl/reader.c: reader_iter_next *)
Lemma tie_reader_iter_next : TIE_reader_iter_next =
  [(0, "structreader_iter*it=(structreader_iter*)v");
   (0, "if(!it->valid)return(mtbl_res_failure)");
   (0, "if(!it->first)block_iter_next(it->bi)");
   (0, "it->first=false");
   (0, "it->valid=block_iter_get(it->bi,key,len_key,val,len_val)");
   (0, "if(!it->valid)");
   (1, "block_destroy(&it->b)");
   (1, "block_iter_destroy(&it->bi)");
   (1, "if(!block_iter_next(it->index_iter))return(mtbl_res_failure)");
   (1, "it->b=get_block_at_index(it->r,it->index_iter,&it->block_offset)");
   (1, "it->bi=block_iter_init(it->b)");
   (1, "block_iter_seek_to_first(it->bi)");
   (1, "it->valid=block_iter_get(it->bi,key,len_key,val,len_val)");
   (1, "if(!it->valid)return(mtbl_res_failure)");
   (0, "switch(it->it_type)");
   (1, "caseREADER_ITER_TYPE_ITER:break");
   (1, "caseREADER_ITER_TYPE_GET:if(bytes_compare(*key,*len_key,ubuf_data(it->k),ubuf_size(it->k))!=0)it->valid=false");
   (1, "break");
   (1, "caseREADER_ITER_TYPE_GET_PREFIX:if(!(ubuf_size(it->k)<=*len_key&&memcmp(ubuf_data(it->k),*key,ubuf_size(it->k))==0))");
   (2, "it->valid=false");
   (1, "break");
   (1, "caseREADER_ITER_TYPE_GET_RANGE:if(bytes_compare(*key,*len_key,ubuf_data(it->k),ubuf_size(it->k))>0)it->valid=false");
   (1, "break");
   (1, "default:assert(0)");
   (0, "if(it->valid)return(mtbl_res_success)");
   (0, "return(mtbl_res_failure)")].
Proof. reflexivity. Qed.

(* mtbl/block.c: parse_next_key *)
Lemma tie_block_parse_next_key : TIE_block_parse_next_key =
  [(0, "bi->current=next_entry_offset(bi)");
   (0, "uint8_t*p=bi->data+bi->current");
   (0, "uint8_t*limit=bi->data+bi->restarts");
   (0, "if(p>=limit)");
   (1, "bi->current=bi->restarts");
   (1, "bi->restart_index=bi->num_restarts");
   (1, "return(false)");
   (0, "uint32_tshared,non_shared,value_length");
   (0, "p=decode_entry(p,limit,&shared,&non_shared,&value_length)");
   (0, "assert(!(p==NULL||ubuf_size(bi->key)<shared))");
   (0, "ubuf_clip(bi->key,shared)");
   (0, "ubuf_append(bi->key,p,non_shared)");
   (0, "bi->next=p+non_shared+value_length");
   (0, "bi->val=p+non_shared");
   (0, "bi->val_len=value_length");
   (0, "while(bi->restart_index+1<bi->num_restarts&&get_restart_point(bi,bi->restart_index+1)<bi->current)");
   (1, "bi->restart_index+=1");
   (0, "return(true)")].
Proof. reflexivity. Qed.

(* mtbl/block.c: block_iter_seek *)
Lemma tie_block_iter_seek : TIE_block_iter_seek =
  [(0, "uint32_tstart_ri=bi->restart_index");
   (0, "boolfrom_start=true");
   (0, "uint32_tleft=0");
   (0, "uint32_tright=bi->num_restarts-1");
   (0, "if(bi->num_restarts!=bi->restart_index&&bi->restart_index!=0)");
   (1, "uint32_ti=bi->restart_index");
   (1, "right=i");
   (1, "uint32_tincr=1");
   (1, "while(compare_restart_point(bi,i,target,target_len)<0)");
   (2, "left=i");
   (2, "i+=incr");
   (2, "if(i>bi->num_restarts-1)");
   (3, "right=bi->num_restarts-1");
   (3, "break");
   (2, "right=i");
   (2, "incr*=2");
   (0, "if(left+1<right)");
   (1, "while(left<right)");
   (2, "uint32_tmid=(left+right+1)/2");
   (2, "if(compare_restart_point(bi,mid,target,target_len)<0)");
   (3, "left=mid");
   (2, "else");
   (3, "right=mid-1");
   (0, "if(start_ri==left)");
   (1, "intcmp=bytes_compare(ubuf_data(bi->key),ubuf_size(bi->key),target,target_len)");
   (1, "if(cmp==0)return");
   (1, "if(cmp<0)from_start=false");
   (0, "if(from_start)seek_to_restart_point(bi,left)");
   (0, "for(;;)");
   (1, "if(!parse_next_key(bi))return");
   (1, "if(bytes_compare(ubuf_data(bi->key),ubuf_size(bi->key),target,target_len)>=0)");
   (2, "return")].
Proof. reflexivity. Qed.

(* mtbl/iter.c: mtbl_iter_seek *)
Lemma tie_iter_seek : TIE_iter_seek =
  [(0, "if(it==NULL)return(mtbl_res_failure)");
   (0, "return(it->iter_seek(it->clos,key,len_key))")].
Proof. reflexivity. Qed.

(* mtbl/iter.c: mtbl_iter_next *)
Lemma tie_iter_next : TIE_iter_next =
  [(0, "if(it==NULL)return(mtbl_res_failure)");
   (0, "return(it->iter_next(it->clos,key,len_key,val,len_val))")].
Proof. reflexivity. Qed.

(* mtbl/block.c: num_restarts *)
Lemma tie_blk_num_restarts : TIE_blk_num_restarts =
  [(0, "assert(b->size>=2*sizeof(uint32_t))");
   (0, "return(mtbl_fixed_decode32(b->data+b->size-sizeof(uint32_t)))")].
Proof. reflexivity. Qed.

(* mtbl/block.c: block_iter_init *)
Lemma tie_blk_block_iter_init : TIE_blk_block_iter_init =
  [(0, "assert(b->size>=2*sizeof(uint32_t))");
   (0, "structblock_iter*bi=my_calloc(1,sizeof(*bi))");
   (0, "bi->block=b");
   (0, "bi->data=b->data");
   (0, "bi->restarts=b->restart_offset");
   (0, "bi->num_restarts=num_restarts(b)");
   (0, "bi->current=bi->restarts");
   (0, "bi->restart_index=bi->num_restarts");
   (0, "assert(bi->num_restarts>0)");
   (0, "bi->key=ubuf_init(64)");
   (0, "return(bi)")].
Proof. reflexivity. Qed.

(* mtbl/block.c: next_entry_offset *)
Lemma tie_blk_next_entry_offset : TIE_blk_next_entry_offset =
  [(0, "return(bi->next-bi->data)")].
Proof. reflexivity. Qed.

(* mtbl/block.c: seek_to_restart_point *)
Lemma tie_blk_seek_to_restart_point : TIE_blk_seek_to_restart_point =
  [(0, "ubuf_reset(bi->key)");
   (0, "bi->restart_index=idx");
   (0, "uint64_toffset=get_restart_point(bi,idx)");
   (0, "bi->next=bi->data+offset")].
Proof. reflexivity. Qed.

(* mtbl/block.c: block_iter_valid *)
Lemma tie_blk_block_iter_valid : TIE_blk_block_iter_valid =
  [(0, "return(bi->current<bi->restarts)")].
Proof. reflexivity. Qed.

(* mtbl/block.c: block_iter_seek_to_first *)
Lemma tie_blk_block_iter_seek_to_first : TIE_blk_block_iter_seek_to_first =
  [(0, "seek_to_restart_point(bi,0)");
   (0, "parse_next_key(bi)")].
Proof. reflexivity. Qed.

(* mtbl/block.c: compare_restart_point *)
Lemma tie_blk_compare_restart_point : TIE_blk_compare_restart_point =
  [(0, "uint32_tshared,non_shared,value_length");
   (0, "uint64_tregion_offset=get_restart_point(bi,i)");
   (0, "constuint8_t*key_ptr=decode_entry(bi->data+region_offset,bi->data+bi->restarts,&shared,&non_shared,&value_length)");
   (0, "assert(key_ptr!=NULL&&shared==0)");
   (0, "returnbytes_compare(key_ptr,non_shared,target,target_len)")].
Proof. reflexivity. Qed.

(* mtbl/block.c: block_iter_next *)
Lemma tie_blk_block_iter_next : TIE_blk_block_iter_next =
  [(0, "if(!block_iter_valid(bi))return(false)");
   (0, "parse_next_key(bi)");
   (0, "return(block_iter_valid(bi))")].
Proof. reflexivity. Qed.

(* mtbl/block.c: block_iter_get *)
Lemma tie_blk_block_iter_get : TIE_blk_block_iter_get =
  [(0, "if(!block_iter_valid(bi))return(false)");
   (0, "if(key)");
   (1, "*key=ubuf_data(bi->key)");
   (1, "*key_len=ubuf_size(bi->key)");
   (0, "if(val)");
   (1, "*val=bi->val");
   (1, "*val_len=bi->val_len");
   (0, "return(true)")].
Proof. reflexivity. Qed.

(* mtbl/block.c: block_destroy *)
Lemma tie_blk_block_destroy : TIE_blk_block_destroy =
  [(0, "if(*b!=NULL)");
   (1, "if((*b)->needs_free)free((*b)->data)");
   (1, "free(*b)");
   (1, "*b=NULL")].
Proof. reflexivity. Qed.

(* mtbl/block.c: block_iter_destroy *)
Lemma tie_blk_block_iter_destroy : TIE_blk_block_iter_destroy =
  [(0, "if(*bi!=NULL)");
   (1, "ubuf_destroy(&(*bi)->key)");
   (1, "free(*bi)");
   (1, "*bi=NULL")].
Proof. reflexivity. Qed.

(* mtbl/iter.c: mtbl_iter_init *)
Lemma tie_iter_mtbl_iter_init : TIE_iter_mtbl_iter_init =
  [(0, "assert(iter_seek!=NULL)");
   (0, "assert(iter_next!=NULL)");
   (0, "structmtbl_iter*it=my_calloc(1,sizeof(*it))");
   (0, "it->iter_seek=iter_seek");
   (0, "it->iter_next=iter_next");
   (0, "it->iter_free=iter_free");
   (0, "it->clos=clos");
   (0, "return(it)")].
Proof. reflexivity. Qed.

(* mtbl/reader.c: mtbl_reader_options_init *)
Lemma tie_rdr_mtbl_reader_options_init : TIE_rdr_mtbl_reader_options_init =
  [(0, "return(my_calloc(1,sizeof(structmtbl_reader_options)))")].
Proof. reflexivity. Qed.

(* mtbl/reader.c: mtbl_reader_options_destroy *)
Lemma tie_rdr_mtbl_reader_options_destroy : TIE_rdr_mtbl_reader_options_destroy =
  [(0, "if(*opt)");
   (1, "free(*opt)");
   (1, "*opt=NULL")].
Proof. reflexivity. Qed.

(* mtbl/reader.c: mtbl_reader_options_set_madvise_random *)
Lemma tie_rdr_mtbl_reader_options_set_madvise_random : TIE_rdr_mtbl_reader_options_set_madvise_random =
  [(0, "opt->madvise_random=madvise_random")].
Proof. reflexivity. Qed.

(* mtbl/reader.c: mtbl_reader_options_set_verify_checksums *)
Lemma tie_rdr_mtbl_reader_options_set_verify_checksums : TIE_rdr_mtbl_reader_options_set_verify_checksums =
  [(0, "opt->verify_checksums=verify_checksums")].
Proof. reflexivity. Qed.

(* mtbl/reader.c: mtbl_reader_metadata *)
Lemma tie_rdr_mtbl_reader_metadata : TIE_rdr_mtbl_reader_metadata =
  [(0, "return&r->m")].
Proof. reflexivity. Qed.

(* mtbl/reader.c: mtbl_reader_source *)
Lemma tie_rdr_mtbl_reader_source : TIE_rdr_mtbl_reader_source =
  [(0, "assert(r!=NULL)");
   (0, "return(r->source)")].
Proof. reflexivity. Qed.

(* mtbl/reader.c: get_block_at_index *)
Lemma tie_rdr_get_block_at_index : TIE_rdr_get_block_at_index =
  [(0, "constuint8_t*ikey,*ival");
   (0, "size_tlen_ikey,len_ival");
   (0, "if(block_iter_get(index_iter,&ikey,&len_ikey,&ival,&len_ival))");
   (1, "structblock*b");
   (1, "uint64_toffset");
   (1, "mtbl_varint_decode64(ival,&offset)");
   (1, "b=get_block(r,offset)");
   (1, "*block_offset=offset");
   (1, "return(b)");
   (0, "return(NULL)")].
Proof. reflexivity. Qed.

(* mtbl/reader.c: reader_iter *)
Lemma tie_rdr_reader_iter : TIE_rdr_reader_iter =
  [(0, "structmtbl_reader*r=(structmtbl_reader*)clos");
   (0, "structreader_iter*it=my_calloc(1,sizeof(*it))");
   (0, "it->r=r");
   (0, "it->index_iter=block_iter_init(r->index)");
   (0, "block_iter_seek_to_first(it->index_iter)");
   (0, "it->b=get_block_at_index(r,it->index_iter,&it->block_offset)");
   (0, "if(it->b==NULL)");
   (1, "block_iter_destroy(&it->index_iter)");
   (1, "block_destroy(&it->b)");
   (1, "free(it)");
   (1, "return(NULL)");
   (0, "it->bi=block_iter_init(it->b)");
   (0, "block_iter_seek_to_first(it->bi)");
   (0, "it->first=true");
   (0, "it->valid=true");
   (0, "it->it_type=READER_ITER_TYPE_ITER");
   (0, "return(mtbl_iter_init(reader_iter_seek,reader_iter_next,reader_iter_free,it))")].
Proof. reflexivity. Qed.

(* mtbl/reader.c: reader_get *)
Lemma tie_rdr_reader_get : TIE_rdr_reader_get =
  [(0, "structmtbl_reader*r=(structmtbl_reader*)clos");
   (0, "structreader_iter*it=reader_iter_init(r,key,len_key)");
   (0, "if(it==NULL)return(NULL)");
   (0, "it->k=ubuf_init(len_key)");
   (0, "ubuf_append(it->k,key,len_key)");
   (0, "it->it_type=READER_ITER_TYPE_GET");
   (0, "return(mtbl_iter_init(reader_iter_seek,reader_iter_next,reader_iter_free,it))")].
Proof. reflexivity. Qed.

(* mtbl/reader.c: reader_get_prefix *)
Lemma tie_rdr_reader_get_prefix : TIE_rdr_reader_get_prefix =
  [(0, "structmtbl_reader*r=(structmtbl_reader*)clos");
   (0, "structreader_iter*it=reader_iter_init(r,key,len_key)");
   (0, "if(it==NULL)return(NULL)");
   (0, "it->k=ubuf_init(len_key)");
   (0, "ubuf_append(it->k,key,len_key)");
   (0, "it->it_type=READER_ITER_TYPE_GET_PREFIX");
   (0, "return(mtbl_iter_init(reader_iter_seek,reader_iter_next,reader_iter_free,it))")].
Proof. reflexivity. Qed.

(* mtbl/reader.c: reader_get_range *)
Lemma tie_rdr_reader_get_range : TIE_rdr_reader_get_range =
  [(0, "structmtbl_reader*r=(structmtbl_reader*)clos");
   (0, "structreader_iter*it=reader_iter_init(r,key0,len_key0)");
   (0, "if(it==NULL)return(NULL)");
   (0, "it->k=ubuf_init(len_key1)");
   (0, "ubuf_append(it->k,key1,len_key1)");
   (0, "it->it_type=READER_ITER_TYPE_GET_RANGE");
   (0, "return(mtbl_iter_init(reader_iter_seek,reader_iter_next,reader_iter_free,it))")].
Proof. reflexivity. Qed.
