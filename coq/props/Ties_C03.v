(* Source ties of C03: the statements of the C functions its model follows, as they were when the model
   was written and validated against them (tools/gen_ties.py --expected).  gen/Ties.v is regenerated from
   /repo on every run; a changed statement breaks the corresponding lemma below. *)
From Coq Require Import List String.
From Mtbl Require Import gen.Ties.
Import ListNotations.
Local Open Scope string_scope.

(* mtbl/reader.c: needs_index_seek *)
Lemma tie_reader_needs_index_seek : TIE_reader_needs_index_seek =
  [(0, "constuint8_t*key,*val");
   (0, "size_tlen_key,len_val");
   (0, "if(it->first||it->b==NULL)returntrue");
   (0, "if(!block_iter_get(it->bi,&key,&len_key,&val,&len_val))returntrue");
   (0, "if(bytes_compare(key,len_key,seek_key,len_seek_key)>0)returntrue");
   (0, "if(!block_iter_get(it->index_iter,&key,&len_key,&val,&len_val))returntrue");
   (0, "if(bytes_compare(key,len_key,seek_key,len_seek_key)<0)returntrue");
   (0, "returnfalse")].
Proof. reflexivity. Qed.

(* mtbl/reader.c: reader_iter_seek *)
Lemma tie_reader_iter_seek : TIE_reader_iter_seek =
  [(0, "structreader_iter*it=(structreader_iter*)v");
   (0, "constuint8_t*ikey,*ival");
   (0, "size_tlen_ikey,len_ival");
   (0, "uint64_tnew_offset");
   (0, "if(needs_index_seek(it,key,len_key))block_iter_seek(it->index_iter,key,len_key)");
   (0, "if(!block_iter_get(it->index_iter,&ikey,&len_ikey,&ival,&len_ival))");
   (1, "it->valid=false");
   (1, "return(mtbl_res_success)");
   (0, "mtbl_varint_decode64(ival,&new_offset)");
   (0, "if(it->b==NULL||it->block_offset!=new_offset)");
   (1, "block_destroy(&it->b)");
   (1, "block_iter_destroy(&it->bi)");
   (1, "it->block_offset=new_offset");
   (1, "it->b=get_block(it->r,new_offset)");
   (1, "if(it->b==NULL)return(mtbl_res_failure)");
   (1, "it->bi=block_iter_init(it->b)");
   (0, "block_iter_seek(it->bi,key,len_key)");
   (0, "it->first=true");
   (0, "it->valid=true");
   (0, "return(mtbl_res_success)")].
Proof. reflexivity. Qed.

(* mtbl/reader.c: reader_iter_next *)
Lemma tie_reader_iter_next : TIE_reader_iter_next =
  [(0, "structreader_iter*it=(structreader_iter*)v");
   (0, "if(!it->valid)return(mtbl_res_failure)");
   (0, "if(!it->first)block_iter_next(it->bi)");
   (0, "it->first=false");
   (0, "it->valid=block_iter_get(it->bi,key,len_key,val,len_val)");
   (0, "if(!it->valid)");
   (1, "block_destroy(&it->b)");
   (1, "block_iter_destroy(&it->bi)");
   (1, "if(!block_iter_next(it->index_iter))return(mtbl_res_failure)");
   (1, "it->b=get_block_at_index(it->r,it->index_iter,&it->block_offset)");
   (1, "it->bi=block_iter_init(it->b)");
   (1, "block_iter_seek_to_first(it->bi)");
   (1, "it->valid=block_iter_get(it->bi,key,len_key,val,len_val)");
   (1, "if(!it->valid)return(mtbl_res_failure)");
   (0, "switch(it->it_type)");
   (1, "caseREADER_ITER_TYPE_ITER:break");
   (1, "caseREADER_ITER_TYPE_GET:if(bytes_compare(*key,*len_key,ubuf_data(it->k),ubuf_size(it->k))!=0)it->valid=false");
   (1, "break");
   (1, "caseREADER_ITER_TYPE_GET_PREFIX:if(!(ubuf_size(it->k)<=*len_key&&memcmp(ubuf_data(it->k),*key,ubuf_size(it->k))==0))");
   (2, "it->valid=false");
   (1, "break");
   (1, "caseREADER_ITER_TYPE_GET_RANGE:if(bytes_compare(*key,*len_key,ubuf_data(it->k),ubuf_size(it->k))>0)it->valid=false");
   (1, "break");
   (1, "default:assert(0)");
   (0, "if(it->valid)return(mtbl_res_success)");
   (0, "return(mtbl_res_failure)")].
Proof. reflexivity. Qed.

(* mtbl/block.c: parse_next_key *)
Lemma tie_block_parse_next_key : TIE_block_parse_next_key =
  [(0, "bi->current=next_entry_offset(bi)");
   (0, "uint8_t*p=bi->data+bi->current");
   (0, "uint8_t*limit=bi->data+bi->restarts");
   (0, "if(p>=limit)");
   (1, "bi->current=bi->restarts");
   (1, "bi->restart_index=bi->num_restarts");
   (1, "return(false)");
   (0, "uint32_tshared,non_shared,value_length");
   (0, "p=decode_entry(p,limit,&shared,&non_shared,&value_length)");
   (0, "assert(!(p==NULL||ubuf_size(bi->key)<shared))");
   (0, "ubuf_clip(bi->key,shared)");
   (0, "ubuf_append(bi->key,p,non_shared)");
   (0, "bi->next=p+non_shared+value_length");
   (0, "bi->val=p+non_shared");
   (0, "bi->val_len=value_length");
   (0, "while(bi->restart_index+1<bi->num_restarts&&get_restart_point(bi,bi->restart_index+1)<bi->current)");
   (1, "bi->restart_index+=1");
   (0, "return(true)")].
Proof. reflexivity. Qed.

(* mtbl/block.c: block_iter_seek *)
Lemma tie_block_iter_seek : TIE_block_iter_seek =
  [(0, "uint32_tstart_ri=bi->restart_index");
   (0, "boolfrom_start=true");
   (0, "uint32_tleft=0");
   (0, "uint32_tright=bi->num_restarts-1");
   (0, "if(bi->num_restarts!=bi->restart_index&&bi->restart_index!=0)");
   (1, "uint32_ti=bi->restart_index");
   (1, "right=i");
   (1, "uint32_tincr=1");
   (1, "while(compare_restart_point(bi,i,target,target_len)<0)");
   (2, "left=i");
   (2, "i+=incr");
   (2, "if(i>bi->num_restarts-1)");
   (3, "right=bi->num_restarts-1");
   (3, "break");
   (2, "right=i");
   (2, "incr*=2");
   (0, "if(left+1<right)");
   (1, "while(left<right)");
   (2, "uint32_tmid=(left+right+1)/2");
   (2, "if(compare_restart_point(bi,mid,target,target_len)<0)");
   (3, "left=mid");
   (2, "else");
   (3, "right=mid-1");
   (0, "if(start_ri==left)");
   (1, "intcmp=bytes_compare(ubuf_data(bi->key),ubuf_size(bi->key),target,target_len)");
   (1, "if(cmp==0)return");
   (1, "if(cmp<0)from_start=false");
   (0, "if(from_start)seek_to_restart_point(bi,left)");
   (0, "for(;;)");
   (1, "if(!parse_next_key(bi))return");
   (1, "if(bytes_compare(ubuf_data(bi->key),ubuf_size(bi->key),target,target_len)>=0)");
   (2, "return")].
Proof. reflexivity. Qed.

(* mtbl/iter.c: mtbl_iter_seek *)
Lemma tie_iter_seek : TIE_iter_seek =
  [(0, "if(it==NULL)return(mtbl_res_failure)");
   (0, "return(it->iter_seek(it->clos,key,len_key))")].
Proof. reflexivity. Qed.

(* mtbl/iter.c: mtbl_iter_next *)
Lemma tie_iter_next : TIE_iter_next =
  [(0, "if(it==NULL)return(mtbl_res_failure)");
   (0, "return(it->iter_next(it->clos,key,len_key,val,len_val))")].
Proof. reflexivity. Qed.
