(* Source ties of C14: the statements of the C functions its model follows, as they were when the model
   was written and validated against them (tools/gen_ties.py --expected).  gen/Ties.v is regenerated from
   /repo on every run; a changed statement breaks the corresponding lemma below. *)
From Coq Require Import List String.
From Mtbl Require Import gen.Ties.
Import ListNotations.
Local Open Scope string_scope.

(* mtbl/sorter.c: mtbl_sorter_iter *)
Lemma tie_sorter_iter : TIE_sorter_iter =
  [(0, "structsorter_iter*it=my_calloc(1,sizeof(*it))");
   (0, "structmtbl_merger_options*mopt=mtbl_merger_options_init()");
   (0, "if(entry_vec_size(s->vec)>0)");
   (1, "mtbl_resres=_mtbl_sorter_flush(s)");
   (1, "if(res!=mtbl_res_success)");
   (2, "mtbl_merger_options_destroy(&mopt)");
   (2, "free(it)");
   (2, "return(NULL)");
   (0, "mtbl_merger_options_set_merge_func(mopt,s->opt.merge,s->opt.merge_clos)");
   (0, "it->m=mtbl_merger_init(mopt)");
   (0, "mtbl_merger_options_destroy(&mopt)");
   (0, "result_handler_destroy(&s->rhandler)");
   (0, "for(size_ti=0;i<reader_vec_size(s->readers);i++)");
   (1, "structmtbl_reader*r=reader_vec_value(s->readers,i)");
   (1, "mtbl_merger_add_source(it->m,mtbl_reader_source(r))");
   (0, "it->m_iter=mtbl_source_iter(mtbl_merger_source(it->m))");
   (0, "s->iterating=true");
   (0, "return(mtbl_iter_init(sorter_iter_seek,sorter_iter_next,sorter_iter_free,it))")].
Proof. reflexivity. Qed.

(* mtbl/threadpool.c: thread_worker *)
Lemma tie_tp_worker : TIE_tp_worker =
  [(0, "structthread*me=arg");
   (0, "for(;;)");
   (1, "structresultq*rq");
   (1, "pthread_mutex_lock(&me->m)");
   (1, "while(!me->running)pthread_cond_wait(&me->c,&me->m)");
   (1, "pthread_mutex_unlock(&me->m)");
   (1, "if(me->cb==NULL)break");
   (1, "me->res=me->cb(me->arg)");
   (1, "me->cb=NULL");
   (1, "me->arg=NULL");
   (1, "rq=me->rq");
   (1, "me->rq=NULL");
   (1, "if(rq!=NULL)");
   (2, "me->running=false");
   (2, "pthread_mutex_lock(&rq->m)");
   (2, "*rq->ptail=me");
   (2, "rq->ptail=&me->next");
   (2, "pthread_cond_signal(&rq->c)");
   (2, "pthread_mutex_unlock(&rq->m)");
   (1, "else");
   (2, "pthread_mutex_lock(&me->m)");
   (2, "me->running=false");
   (2, "pthread_cond_signal(&me->c)");
   (2, "pthread_mutex_unlock(&me->m)");
   (0, "returnNULL")].
Proof. reflexivity. Qed.

(* mtbl/threadpool.c: threadpool_next *)
Lemma tie_tp_next : TIE_tp_next =
  [(0, "structthread*thr=NULL");
   (0, "pthread_mutex_lock(&pool->m)");
   (0, "while(pool->head==NULL&&pool->count==pool->max)");
   (1, "pthread_cond_wait(&pool->c,&pool->m)");
   (0, "if(pool->head!=NULL)");
   (1, "thr=pool->head");
   (1, "pool->head=thr->next");
   (1, "thr->next=NULL");
   (1, "assert(thr->cb==NULL)");
   (1, "assert(thr->res==NULL)");
   (1, "assert(!thr->running)");
   (0, "else");
   (1, "pool->count++");
   (0, "pthread_mutex_unlock(&pool->m)");
   (0, "if(thr==NULL)");
   (1, "thr=calloc(1,sizeof(*thr))");
   (1, "thr->pool=pool");
   (1, "pthread_mutex_init(&thr->m,NULL)");
   (1, "pthread_cond_init(&thr->c,NULL)");
   (1, "pthread_create(&thr->t,NULL,thread_worker,thr)");
   (0, "returnthr")].
Proof. reflexivity. Qed.

(* mtbl/threadpool.c: threadpool_dispatch *)
Lemma tie_tp_dispatch : TIE_tp_dispatch =
  [(0, "structresultq*rq=rh->rq");
   (0, "structthread*thr=threadpool_next(pool)");
   (0, "assert(!thr->running)");
   (0, "assert(thr->next==NULL)");
   (0, "pthread_mutex_lock(&thr->m)");
   (0, "thr->rq=ordered?NULL:rq");
   (0, "thr->cb=cb");
   (0, "thr->arg=arg");
   (0, "thr->running=true");
   (0, "pthread_cond_signal(&thr->c)");
   (0, "pthread_mutex_unlock(&thr->m)");
   (0, "pthread_mutex_lock(&rq->m)");
   (0, "assert(!rq->finished)");
   (0, "rq->nthreads++");
   (0, "if(ordered)");
   (1, "*rq->ptail=thr");
   (1, "rq->ptail=&thr->next");
   (1, "pthread_cond_signal(&rq->c)");
   (0, "pthread_mutex_unlock(&rq->m)")].
Proof. reflexivity. Qed.

(* mtbl/threadpool.c: threadpool_destroy *)
Lemma tie_tp_destroy : TIE_tp_destroy =
  [(0, "structthreadpool*pool=*poolp");
   (0, "structthread*thr");
   (0, "if(pool==NULL)return");
   (0, "pthread_mutex_lock(&pool->m)");
   (0, "while(pool->count>0)");
   (1, "while(pool->head==NULL)pthread_cond_wait(&pool->c,&pool->m)");
   (1, "thr=pool->head");
   (1, "pool->head=thr->next");
   (1, "assert(thr->cb==NULL)");
   (1, "pthread_mutex_lock(&thr->m)");
   (1, "thr->running=true");
   (1, "pthread_cond_signal(&thr->c)");
   (1, "pthread_mutex_unlock(&thr->m)");
   (1, "pthread_join(thr->t,NULL)");
   (1, "pthread_cond_destroy(&thr->c)");
   (1, "pthread_mutex_destroy(&thr->m)");
   (1, "free(thr)");
   (1, "pool->count--");
   (0, "pthread_mutex_unlock(&pool->m)");
   (0, "pthread_mutex_destroy(&pool->m)");
   (0, "pthread_cond_destroy(&pool->c)");
   (0, "free(pool)");
   (0, "*poolp=NULL")].
Proof. reflexivity. Qed.

(* mtbl/threadpool.c: resultq_next *)
Lemma tie_tp_resultq_next : TIE_tp_resultq_next =
  [(0, "structthread*thr=NULL");
   (0, "pthread_mutex_lock(&rq->m)");
   (0, "while(rq->head==NULL&&!(rq->finished&&rq->nthreads==0))pthread_cond_wait(&rq->c,&rq->m)");
   (0, "if(rq->head!=NULL)");
   (1, "thr=rq->head");
   (1, "rq->head=thr->next");
   (1, "thr->next=NULL");
   (1, "rq->nthreads--");
   (1, "if(rq->head==NULL)rq->ptail=&rq->head");
   (0, "pthread_mutex_unlock(&rq->m)");
   (0, "if(thr==NULL)returnfalse");
   (0, "pthread_mutex_lock(&thr->m)");
   (0, "while(thr->running)pthread_cond_wait(&thr->c,&thr->m)");
   (0, "*res=thr->res");
   (0, "thr->res=NULL");
   (0, "pthread_mutex_unlock(&thr->m)");
   (0, "pthread_mutex_lock(&thr->pool->m)");
   (0, "thr->next=thr->pool->head");
   (0, "thr->pool->head=thr");
   (0, "pthread_cond_signal(&thr->pool->c)");
   (0, "pthread_mutex_unlock(&thr->pool->m)");
   (0, "returntrue")].
Proof. reflexivity. Qed.

(* mtbl/threadpool.c: resultq_finish *)
Lemma tie_tp_resultq_finish : TIE_tp_resultq_finish =
  [(0, "pthread_mutex_lock(&rq->m)");
   (0, "rq->finished=true");
   (0, "pthread_cond_signal(&rq->c)");
   (0, "pthread_mutex_unlock(&rq->m)")].
Proof. reflexivity. Qed.

(* mtbl/threadpool.c: resultq_destroy *)
Lemma tie_tp_resultq_destroy : TIE_tp_resultq_destroy =
  [(0, "structresultq*rq=*rqp");
   (0, "if(rq==NULL)return");
   (0, "assert(rq->head==NULL&&rq->finished&&rq->nthreads==0)");
   (0, "pthread_mutex_destroy(&rq->m)");
   (0, "pthread_cond_destroy(&rq->c)");
   (0, "free(rq)");
   (0, "*rqp=NULL")].
Proof. reflexivity. Qed.

(* mtbl/threadpool.c: result_worker *)
Lemma tie_tp_result_worker : TIE_tp_result_worker =
  [(0, "structresult_handler*rh=arg");
   (0, "void*res");
   (0, "while(resultq_next(rh->rq,&res))rh->cb(res,rh->cbdata)");
   (0, "resultq_destroy(&rh->rq)");
   (0, "returnNULL")].
Proof. reflexivity. Qed.

(* mtbl/threadpool.c: result_handler_destroy *)
Lemma tie_tp_rh_destroy : TIE_tp_rh_destroy =
  [(0, "structresult_handler*rh=*prh");
   (0, "if(rh==NULL)return");
   (0, "resultq_finish(rh->rq)");
   (0, "pthread_join(rh->thread,NULL)");
   (0, "free(rh)");
   (0, "*prh=NULL")].
Proof. reflexivity. Qed.

(* mtbl/threadpool.c: threadpool_init *)
Lemma tie_tp_threadpool_init : TIE_tp_threadpool_init =
  [(0, "structthreadpool*pool=calloc(1,sizeof(*pool))");
   (0, "pthread_mutex_init(&pool->m,NULL)");
   (0, "pthread_cond_init(&pool->c,NULL)");
   (0, "pool->max=max_threads");
   (0, "returnpool")].
Proof. reflexivity. Qed.

(* mtbl/threadpool.c: resultq_init *)
Lemma tie_tp_resultq_init : TIE_tp_resultq_init =
  [(0, "structresultq*rq=calloc(1,sizeof(*rq))");
   (0, "pthread_mutex_init(&rq->m,NULL)");
   (0, "pthread_cond_init(&rq->c,NULL)");
   (0, "rq->ptail=&rq->head");
   (0, "returnrq")].
Proof. reflexivity. Qed.
