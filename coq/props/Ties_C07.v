(* Source ties of C07: the statements of the C functions its model follows, as they were when the model
   was written and validated against them (tools/gen_ties.py --expected).  gen/Ties.v is regenerated from
   /repo on every run; a changed statement breaks the corresponding lemma below. *)
From Coq Require Import List String.
From Mtbl Require Import gen.Ties.
Import ListNotations.
Local Open Scope string_scope.

(* mtbl/fileset.c: mtbl_fileset_reload *)
Lemma tie_fileset_reload : TIE_fileset_reload =
  [(0, "assert(f!=NULL)");
   (0, "structtimespecnow");
   (0, "if((f->fs_last.tv_sec!=f->shared_fs->fs_last.tv_sec)||(f->fs_last.tv_nsec!=f->shared_fs->fs_last.tv_nsec))");
   (1, "fs_reinit_merger(f)");
   (1, "f->fs_last=f->shared_fs->fs_last");
   (0, "if(!f->shared_fs->reload_needed&&f->reload_interval==MTBL_FILESET_RELOAD_INTERVAL_NEVER)return");
   (0, "if(f->shared_fs->n_iters>0)return");
   (0, "#ifHAVE_CLOCK_GETTIME");
   (0, "staticconstclockid_tclock=CLOCK_MONOTONIC");
   (0, "#else");
   (0, "staticconstintclock=-1");
   (0, "#endif");
   (0, "my_gettime(clock,&now)");
   (0, "if(f->shared_fs->reload_needed||(now.tv_sec-f->shared_fs->fs_last.tv_sec>f->reload_interval))");
   (1, "f->shared_fs->n_loaded=0");
   (1, "f->shared_fs->n_unloaded=0");
   (1, "assert(f->shared_fs->my_fs!=NULL)");
   (1, "my_fileset_reload(f->shared_fs->my_fs)");
   (1, "if(f->shared_fs->n_loaded>0||f->shared_fs->n_unloaded>0)fs_reinit_merger(f)");
   (1, "f->shared_fs->fs_last=now");
   (1, "f->fs_last=now");
   (1, "f->shared_fs->reload_needed=false")].
Proof. reflexivity. Qed.

(* mtbl/fileset.c: mtbl_fileset_reload_now *)
Lemma tie_fileset_reload_now : TIE_fileset_reload_now =
  [(0, "assert(f!=NULL)");
   (0, "structtimespecnow");
   (0, "if((f->fs_last.tv_sec!=f->shared_fs->fs_last.tv_sec)||(f->fs_last.tv_nsec!=f->shared_fs->fs_last.tv_nsec))");
   (1, "fs_reinit_merger(f)");
   (1, "f->fs_last=f->shared_fs->fs_last");
   (0, "if(f->shared_fs->n_iters>0)");
   (1, "f->shared_fs->reload_needed=true");
   (1, "return");
   (0, "#ifHAVE_CLOCK_GETTIME");
   (0, "staticconstclockid_tclock=CLOCK_MONOTONIC");
   (0, "#else");
   (0, "staticconstintclock=-1");
   (0, "#endif");
   (0, "my_gettime(clock,&now)");
   (0, "f->shared_fs->n_loaded=0");
   (0, "f->shared_fs->n_unloaded=0");
   (0, "assert(f->shared_fs->my_fs!=NULL)");
   (0, "my_fileset_reload(f->shared_fs->my_fs)");
   (0, "if(f->shared_fs->n_loaded>0||f->shared_fs->n_unloaded>0)fs_reinit_merger(f)");
   (0, "f->shared_fs->fs_last=now");
   (0, "f->fs_last=now");
   (0, "f->shared_fs->reload_needed=false")].
Proof. reflexivity. Qed.

(* mtbl/fileset.c: fileset_iter_init *)
Lemma tie_fileset_iter_init : TIE_fileset_iter_init =
  [(0, "structfileset_iter*it=my_calloc(1,sizeof(*it))");
   (0, "f->shared_fs->n_iters++");
   (0, "it->iter=mit");
   (0, "it->fs=f");
   (0, "returnmtbl_iter_init(fileset_iter_seek,fileset_iter_next,fileset_iter_free,it)")].
Proof. reflexivity. Qed.

(* mtbl/fileset.c: fileset_iter_free *)
Lemma tie_fileset_iter_free : TIE_fileset_iter_free =
  [(0, "structfileset_iter*it=(structfileset_iter*)v");
   (0, "if(it)");
   (1, "it->fs->shared_fs->n_iters--");
   (1, "mtbl_iter_destroy(&it->iter)");
   (1, "mtbl_fileset_reload(it->fs)");
   (1, "free(it)")].
Proof. reflexivity. Qed.

(* mtbl/fileset.c: fs_reinit_merger *)
Lemma tie_fileset_reinit_merger : TIE_fileset_reinit_merger =
  [(0, "constchar*fname");
   (0, "structmtbl_reader*reader");
   (0, "size_ti=0");
   (0, "if(f->merger)");
   (1, "mtbl_merger_destroy(&f->merger)");
   (1, "f->merger=mtbl_merger_init(f->mopt)");
   (0, "assert(f->merger!=NULL)");
   (0, "while(my_fileset_get(f->shared_fs->my_fs,i++,&fname,(void**)&reader))");
   (1, "if(reader==NULL)");
   (2, "continue");
   (1, "if((f->fname_filter==NULL||f->fname_filter(fname,f->fname_filter_clos))&&(f->reader_filter==NULL||f->reader_filter(reader,f->reader_filter_clos)))");
   (2, "mtbl_merger_add_source(f->merger,mtbl_reader_source(reader))")].
Proof. reflexivity. Qed.

(* libmy/my_fileset.c: my_fileset_reload *)
Lemma tie_my_fileset_reload : TIE_my_fileset_reload =
  [(0, "assert(fs!=NULL)");
   (0, "structfileset_entry*ent,**entptr");
   (0, "entry_vec*new_entries");
   (0, "FILE*fp");
   (0, "char*fname,*line=NULL");
   (0, "size_tlen=0");
   (0, "ubuf*u");
   (0, "if(!setfile_updated(fs))return");
   (0, "fp=fopen(fs->setfile,""r"")");
   (0, "if(fp==NULL)return");
   (0, "u=ubuf_init(64)");
   (0, "new_entries=entry_vec_init(1)");
   (0, "while(getline(&line,&len,fp)!=-1)");
   (1, "ubuf_clip(u,0)");
   (1, "if(line[0]!='/')");
   (2, "ubuf_add_cstr(u,fs->setdir)");
   (2, "ubuf_add(u,'/')");
   (1, "ubuf_add_cstr(u,line)");
   (1, "ubuf_rstrip(u,'\n')");
   (1, "fname=ubuf_cstr(u)");
   (1, "if(path_exists(fname))");
   (2, "entptr=fetch_entry(fs->entries,fname)");
   (2, "if(entptr==NULL)");
   (3, "ent=my_calloc(1,sizeof(*ent))");
   (3, "ent->fname=my_strdup(fname)");
   (3, "if(fs->load)ent->ptr=fs->load(fs,fname)");
   (3, "entry_vec_add(new_entries,ent)");
   (2, "else");
   (3, "ent=my_calloc(1,sizeof(*ent))");
   (3, "ent->fname=my_strdup(fname)");
   (3, "ent->ptr=(*entptr)->ptr");
   (3, "(*entptr)->keep=true");
   (3, "entry_vec_add(new_entries,ent)");
   (0, "free(line)");
   (0, "fclose(fp)");
   (0, "qsort(entry_vec_data(new_entries),entry_vec_size(new_entries),sizeof(void*),cmp_fileset_entry)");
   (0, "size_tn_uniq=0");
   (0, "for(size_ti=0;i<entry_vec_size(new_entries);i++)");
   (1, "structfileset_entry*prev");
   (1, "ent=entry_vec_value(new_entries,i)");
   (1, "prev=(n_uniq>0)?entry_vec_value(new_entries,n_uniq-1):NULL");
   (1, "if(prev!=NULL&&strcmp(prev->fname,ent->fname)==0)");
   (2, "if(ent->ptr!=prev->ptr&&fs->unload)fs->unload(fs,ent->fname,ent->ptr)");
   (2, "free(ent->fname)");
   (2, "free(ent)");
   (1, "else");
   (2, "entry_vec_data(new_entries)[n_uniq++]=ent");
   (0, "entry_vec_clip(new_entries,n_uniq)");
   (0, "for(size_ti=0;i<entry_vec_size(fs->entries);i++)");
   (1, "ent=entry_vec_value(fs->entries,i)");
   (1, "assert(ent!=NULL)");
   (1, "if(ent->keep==false&&fs->unload)fs->unload(fs,ent->fname,ent->ptr)");
   (1, "free(ent->fname)");
   (1, "free(ent)");
   (0, "entry_vec_destroy(&fs->entries)");
   (0, "fs->entries=new_entries");
   (0, "ubuf_destroy(&u)")].
Proof. reflexivity. Qed.

(* libmy/my_fileset.c: setfile_updated *)
Lemma tie_my_fileset_updated : TIE_my_fileset_updated =
  [(0, "structstatss");
   (0, "intret");
   (0, "ret=stat(fs->setfile,&ss)");
   (0, "if(ret<0)");
   (1, "fprintf(stderr,""%s:stat('%s')failed:%s\n"",__func__,fs->setfile,strerror(errno))");
   (1, "return(false)");
   (0, "if(fs->last_ino!=ss.st_ino||fs->last_mtime!=ss.st_mtime)");
   (1, "fs->last_ino=ss.st_ino");
   (1, "fs->last_mtime=ss.st_mtime");
   (1, "return(true)");
   (0, "return(false)")].
Proof. reflexivity. Qed.

(* mtbl/fileset.c: fileset_iter_seek *)
Lemma tie_fs_fileset_iter_seek : TIE_fs_fileset_iter_seek =
  [(0, "structfileset_iter*it=(structfileset_iter*)v");
   (0, "returnmtbl_iter_seek(it->iter,key,len)")].
Proof. reflexivity. Qed.

(* mtbl/fileset.c: fileset_iter_next *)
Lemma tie_fs_fileset_iter_next : TIE_fs_fileset_iter_next =
  [(0, "structfileset_iter*it=(structfileset_iter*)v");
   (0, "returnmtbl_iter_next(it->iter,key,len_key,val,len_val)")].
Proof. reflexivity. Qed.

(* mtbl/fileset.c: fileset_source_iter *)
Lemma tie_fs_fileset_source_iter : TIE_fs_fileset_source_iter =
  [(0, "structmtbl_fileset*f=(structmtbl_fileset*)clos");
   (0, "mtbl_fileset_reload(f)");
   (0, "returnfileset_iter_init(f,mtbl_source_iter(mtbl_merger_source(f->merger)))")].
Proof. reflexivity. Qed.

(* mtbl/fileset.c: fileset_source_get *)
Lemma tie_fs_fileset_source_get : TIE_fs_fileset_source_get =
  [(0, "structmtbl_fileset*f=(structmtbl_fileset*)clos");
   (0, "mtbl_fileset_reload(f)");
   (0, "returnfileset_iter_init(f,mtbl_source_get(mtbl_merger_source(f->merger),key,len_key))")].
Proof. reflexivity. Qed.

(* mtbl/fileset.c: fileset_source_get_prefix *)
Lemma tie_fs_fileset_source_get_prefix : TIE_fs_fileset_source_get_prefix =
  [(0, "structmtbl_fileset*f=(structmtbl_fileset*)clos");
   (0, "mtbl_fileset_reload(f)");
   (0, "returnfileset_iter_init(f,mtbl_source_get_prefix(mtbl_merger_source(f->merger),key,len_key))")].
Proof. reflexivity. Qed.

(* mtbl/fileset.c: fileset_source_get_range *)
Lemma tie_fs_fileset_source_get_range : TIE_fs_fileset_source_get_range =
  [(0, "structmtbl_fileset*f=(structmtbl_fileset*)clos");
   (0, "mtbl_fileset_reload(f)");
   (0, "returnfileset_iter_init(f,mtbl_source_get_range(mtbl_merger_source(f->merger),key0,len_key0,key1,len_key1))")].
Proof. reflexivity. Qed.

(* mtbl/fileset.c: mtbl_fileset_options_init *)
Lemma tie_fs_mtbl_fileset_options_init : TIE_fs_mtbl_fileset_options_init =
  [(0, "structmtbl_fileset_options*opt");
   (0, "opt=my_calloc(1,sizeof(*opt))");
   (0, "opt->reload_interval=DEFAULT_FILESET_RELOAD_INTERVAL");
   (0, "return(opt)")].
Proof. reflexivity. Qed.

(* mtbl/fileset.c: mtbl_fileset_options_set_merge_func *)
Lemma tie_fs_mtbl_fileset_options_set_merge_func : TIE_fs_mtbl_fileset_options_set_merge_func =
  [(0, "opt->merge=merge");
   (0, "opt->merge_clos=clos")].
Proof. reflexivity. Qed.

(* mtbl/fileset.c: mtbl_fileset_options_set_dupsort_func *)
Lemma tie_fs_mtbl_fileset_options_set_dupsort_func : TIE_fs_mtbl_fileset_options_set_dupsort_func =
  [(0, "opt->dupsort=dupsort");
   (0, "opt->dupsort_clos=clos")].
Proof. reflexivity. Qed.

(* mtbl/fileset.c: mtbl_fileset_options_set_filename_filter_func *)
Lemma tie_fs_mtbl_fileset_options_set_filename_filter_func : TIE_fs_mtbl_fileset_options_set_filename_filter_func =
  [(0, "opt->fname_filter=fname_filter");
   (0, "opt->fname_filter_clos=clos")].
Proof. reflexivity. Qed.

(* mtbl/fileset.c: mtbl_fileset_options_set_reader_filter_func *)
Lemma tie_fs_mtbl_fileset_options_set_reader_filter_func : TIE_fs_mtbl_fileset_options_set_reader_filter_func =
  [(0, "opt->reader_filter=reader_filter");
   (0, "opt->reader_filter_clos=clos")].
Proof. reflexivity. Qed.

(* mtbl/fileset.c: mtbl_fileset_options_set_reload_interval *)
Lemma tie_fs_mtbl_fileset_options_set_reload_interval : TIE_fs_mtbl_fileset_options_set_reload_interval =
  [(0, "opt->reload_interval=reload_interval")].
Proof. reflexivity. Qed.

(* mtbl/fileset.c: mtbl_fileset_source *)
Lemma tie_fs_mtbl_fileset_source : TIE_fs_mtbl_fileset_source =
  [(0, "assert(f!=NULL)");
   (0, "assert(f->source!=NULL)");
   (0, "return(f->source)")].
Proof. reflexivity. Qed.

(* mtbl/fileset.c: mtbl_fileset_partition *)
Lemma tie_fs_mtbl_fileset_partition : TIE_fs_mtbl_fileset_partition =
  [(0, "constchar*fname");
   (0, "structmtbl_reader*reader");
   (0, "size_ti=0");
   (0, "mtbl_fileset_reload(f)");
   (0, "*m1=mtbl_merger_init(f->mopt)");
   (0, "*m2=mtbl_merger_init(f->mopt)");
   (0, "while(my_fileset_get(f->shared_fs->my_fs,i++,&fname,(void**)&reader))");
   (1, "if(cb(fname,clos))mtbl_merger_add_source(*m1,mtbl_reader_source(reader))");
   (1, "elsemtbl_merger_add_source(*m2,mtbl_reader_source(reader))")].
Proof. reflexivity. Qed.

(* mtbl/fileset.c: fs_load *)
Lemma tie_fs_fs_load : TIE_fs_fs_load =
  [(0, "structshared_fileset*f=(structshared_fileset*)my_fileset_user(fs)");
   (0, "f->n_loaded++");
   (0, "return(mtbl_reader_init(fname,NULL))")].
Proof. reflexivity. Qed.

(* mtbl/fileset.c: fs_unload *)
Lemma tie_fs_fs_unload : TIE_fs_fs_unload =
  [(0, "structshared_fileset*f=(structshared_fileset*)my_fileset_user(fs)");
   (0, "structmtbl_reader*r=(structmtbl_reader*)ptr");
   (0, "f->n_unloaded++");
   (0, "mtbl_reader_destroy(&r)")].
Proof. reflexivity. Qed.

(* mtbl/fileset.c: mtbl_fileset_set_options *)
Lemma tie_fs_mtbl_fileset_set_options : TIE_fs_mtbl_fileset_set_options =
  [(0, "assert(opt!=NULL)");
   (0, "f->reload_interval=opt->reload_interval");
   (0, "f->mopt=mtbl_merger_options_init()");
   (0, "mtbl_merger_options_set_merge_func(f->mopt,opt->merge,opt->merge_clos)");
   (0, "mtbl_merger_options_set_dupsort_func(f->mopt,opt->dupsort,opt->dupsort_clos)");
   (0, "f->fname_filter=opt->fname_filter");
   (0, "f->fname_filter_clos=opt->fname_filter_clos");
   (0, "f->reader_filter=opt->reader_filter");
   (0, "f->reader_filter_clos=opt->reader_filter_clos");
   (0, "f->merger=mtbl_merger_init(f->mopt)");
   (0, "f->source=mtbl_source_init(fileset_source_iter,fileset_source_get,fileset_source_get_prefix,fileset_source_get_range,NULL,f)")].
Proof. reflexivity. Qed.

(* mtbl/fileset.c: mtbl_fileset_options_destroy *)
Lemma tie_fs_mtbl_fileset_options_destroy : TIE_fs_mtbl_fileset_options_destroy =
  [(0, "if(*opt)");
   (1, "free(*opt)");
   (1, "*opt=NULL")].
Proof. reflexivity. Qed.

(* libmy/my_fileset.c: path_exists *)
Lemma tie_mfs_path_exists : TIE_mfs_path_exists =
  [(0, "structstatsb");
   (0, "intret");
   (0, "ret=stat(path,&sb)");
   (0, "if(ret<0)return(false)");
   (0, "return(true)")].
Proof. reflexivity. Qed.

(* libmy/my_fileset.c: cmp_fileset_entry *)
Lemma tie_mfs_cmp_fileset_entry : TIE_mfs_cmp_fileset_entry =
  [(0, "structfileset_entry*fs0=*((structfileset_entry**)a)");
   (0, "structfileset_entry*fs1=*((structfileset_entry**)b)");
   (0, "assert(a!=NULL)");
   (0, "assert(b!=NULL)");
   (0, "assert(fs0!=NULL)");
   (0, "assert(fs1!=NULL)");
   (0, "assert(fs0->fname!=NULL)");
   (0, "assert(fs1->fname!=NULL)");
   (0, "return(strcmp(fs0->fname,fs1->fname))")].
Proof. reflexivity. Qed.

(* libmy/my_fileset.c: fetch_entry *)
Lemma tie_mfs_fetch_entry : TIE_mfs_fetch_entry =
  [(0, "structfileset_entry**ent");
   (0, "structfileset_entrykey=");
   (1, ".fname=fname,.ptr=NULL");
   (0, "structfileset_entry*pkey=&key");
   (0, "ent=bsearch(&pkey,entry_vec_data(entries),entry_vec_size(entries),sizeof(void*),cmp_fileset_entry)");
   (0, "return(ent)")].
Proof. reflexivity. Qed.

(* libmy/my_fileset.c: my_fileset_init *)
Lemma tie_mfs_my_fileset_init : TIE_mfs_my_fileset_init =
  [(0, "assert(path_exists(setfile))");
   (0, "structmy_fileset*fs=my_calloc(1,sizeof(*fs))");
   (0, "char*t=my_strdup(setfile)");
   (0, "fs->setdir=my_strdup(dirname(t))");
   (0, "free(t)");
   (0, "fs->setfile=my_strdup(setfile)");
   (0, "fs->load=load");
   (0, "fs->unload=unload");
   (0, "fs->user=user");
   (0, "fs->entries=entry_vec_init(1)");
   (0, "return(fs)")].
Proof. reflexivity. Qed.

(* libmy/my_fileset.c: my_fileset_user *)
Lemma tie_mfs_my_fileset_user : TIE_mfs_my_fileset_user =
  [(0, "return(fs->user)")].
Proof. reflexivity. Qed.

(* libmy/my_fileset.c: my_fileset_get *)
Lemma tie_mfs_my_fileset_get : TIE_mfs_my_fileset_get =
  [(0, "if(i<entry_vec_size(fs->entries))");
   (1, "*fname_out=entry_vec_value(fs->entries,i)->fname");
   (1, "*ptr_out=entry_vec_value(fs->entries,i)->ptr");
   (1, "return(true)");
   (0, "return(false)")].
Proof. reflexivity. Qed.
