(* C02 - Exact-match, prefix and range lookups return exactly the matching entries.
   PROVED (T02_lookups): for every table that satisfies table_ok (see ReaderProofs:
   well-formed index and data blocks, index values = the offsets get_block loads,
   separators between the last key of a block and the first key of the next), every
   query key / prefix / range: reader_get, reader_get_prefix and reader_get_range of the
   reader model return NULL exactly when nothing matches, and otherwise an iterator
   whose successive nexts return exactly
        filter (key = k0 | k0 is a prefix of key | k0 <= key <= k1) (all entries)
   in the order of the table (strictly ascending: T03d).  Nothing is assumed about where
   the query falls (between blocks, before the first key, after the last key, empty
   key or prefix, k0 > k1).  T02_bounds restates the three stop tests as relations.
   That writer output satisfies table_ok is C01/C09; the tie of the reader model to
   reader.c is engine rd, which compares implementation, model and the filter on every
   stored key, neighbour, proper prefix, one-byte extension, every separator and its
   neighbours, the empty key and reversed ranges. *)
From Coq Require Import NArith List Lia.
From Mtbl Require Import model.Bytes model.Order spec.Parse model.Reader proofs.OrderProofs proofs.BlockProofs proofs.LookupProofs proofs.ReaderProofs proofs.LookupRel.
(* source ties: the statements of the C functions the model follows (gen/Ties.v is regenerated from /repo on every run) *)
From Mtbl Require props.Ties_C02.
Local Open Scope N_scope.

Theorem T02_lookups : forall decompress r ib iridx nb B Rr,
  table_ok decompress r ib iridx nb B Rr ->
  forall kind k0 k1 fuel, kind <> KIter -> (total nb B < fuel)%nat ->
  match reader_iter_init decompress r kind k0 (match kind with KRange => k1 | _ => k0 end) with
  | Ok (Some it) =>
      drain decompress fuel r it = Ok (filter (fun e => lookup_pred kind k0 k1 (fst e)) (table_entries_of nb B))
  | Ok None => filter (fun e => lookup_pred kind k0 k1 (fst e)) (table_entries_of nb B) = []
  | _ => False
  end.
Proof. exact table_lookup. Qed.
Print Assumptions T02_lookups.

(* the predicate of the filter, spelled out *)
Theorem T02_pred : forall k0 k1 key,
  (lookup_pred KGet k0 k1 key = true <-> key = k0) /\
  (lookup_pred KPrefix k0 k1 key = true <-> exists s, key = k0 ++ s) /\
  (lookup_pred KRange k0 k1 key = true <-> bcmp k0 key <> Gt /\ bcmp key k1 <> Gt).
Proof.
  intros k0 k1 key. unfold lookup_pred, beq, ble. repeat split.
  - destruct (bcmp key k0) eqn:E; try discriminate. intros _. apply bcmp_eq, E.
  - intros ->. rewrite bcmp_refl. reflexivity.
  - revert key. induction k0 as [|x p IH]; intros k; cbn [is_prefix].
    + intros _; exists k; reflexivity.
    + destruct k as [|y k]; [discriminate|]. rewrite Bool.andb_true_iff. intros [E H].
      apply N.eqb_eq in E. subst. destruct (IH k H) as [s ->]. exists s. reflexivity.
  - intros [s ->]. clear. induction k0 as [|x p IH]; [reflexivity|]. cbn. rewrite N.eqb_refl. exact IH.
  - destruct (bcmp k0 key); [discriminate|discriminate|]. cbn in H. discriminate.
  - destruct (bcmp k0 key); cbn in H; [| |discriminate]; destruct (bcmp key k1); congruence.
  - intros [H1 H2]. destruct (bcmp k0 key); [| |congruence]; destruct (bcmp key k1); cbn; congruence.
Qed.
Print Assumptions T02_pred.

Theorem T02_block_search_partial : forall b ridx, wfb b ridx -> forall s q, st_ok b ridx s ->
  exists s', block_seek b s q = Ok s' /\ positioned b ridx s' q.
Proof. exact block_seek_ok. Qed.
Print Assumptions T02_block_search_partial.

Lemma is_prefix_spec : forall p k, is_prefix p k = true <-> exists s, k = p ++ s.
Proof.
  induction p as [|x p IH]; intros k; cbn [is_prefix].
  - split; [intros _; exists k; reflexivity|reflexivity].
  - destruct k as [|y k]; [split; [discriminate|intros [s Hs]; discriminate]|].
    rewrite Bool.andb_true_iff, IH. split.
    + intros [E [s ->]]. apply N.eqb_eq in E. subst. exists s. reflexivity.
    + intros [s Hs]. inversion Hs; subst. split; [apply N.eqb_refl|exists s; reflexivity].
Qed.

(* the bound tests of reader_iter_next are exactly the three relations of the statement *)
Theorem T02_bounds : forall k key,
  (bound_ok KGet k key = true <-> key = k) /\
  (bound_ok KPrefix k key = true <-> exists s, key = k ++ s) /\
  (bound_ok KRange k key = true <-> bcmp key k <> Gt) /\
  bound_ok KIter k key = true.
Proof.
  intros k key. unfold bound_ok. repeat split; try reflexivity.
  - destruct (bcmp key k) eqn:E; try discriminate. intros _. apply bcmp_eq, E.
  - intros ->. rewrite bcmp_refl. reflexivity.
  - apply is_prefix_spec.
  - apply is_prefix_spec.
  - destruct (bcmp key k); congruence.
  - destruct (bcmp key k); congruence.
Qed.
Print Assumptions T02_bounds.

(* Relations between the lookups (proofs/LookupRel.v), all over table_ok and for every key:
   "exactly the matching entries" has these consequences a caller relies on -
   an exact-match lookup delivers at most one entry; get k delivers what get_range k k
   delivers; the empty prefix delivers the whole table; whatever any lookup delivers is
   strictly increasing (no key twice). *)
Theorem T02_get_at_most_one : forall decompress r ib iridx nb B Rr,
  table_ok decompress r ib iridx nb B Rr ->
  forall k0 k1,
  (length (filter (fun e : bytes * bytes => lookup_pred KGet k0 k1 (fst e)) (table_entries_of nb B)) <= 1)%nat.
Proof. exact table_get_at_most_one. Qed.
Print Assumptions T02_get_at_most_one.

Theorem T02_get_is_range_k_k : forall (nb : nat) (B : nat -> ablock) k,
  filter (fun e : bytes * bytes => lookup_pred KGet k k (fst e)) (table_entries_of nb B) =
  filter (fun e : bytes * bytes => lookup_pred KRange k k (fst e)) (table_entries_of nb B).
Proof. exact table_get_is_range. Qed.
Print Assumptions T02_get_is_range_k_k.

Theorem T02_empty_prefix_is_everything : forall (nb : nat) (B : nat -> ablock) k1,
  filter (fun e : bytes * bytes => lookup_pred KPrefix nil k1 (fst e)) (table_entries_of nb B) = table_entries_of nb B.
Proof. exact table_prefix_nil_is_all. Qed.
Print Assumptions T02_empty_prefix_is_everything.

Theorem T02_results_strictly_increasing : forall decompress r ib iridx nb B Rr,
  table_ok decompress r ib iridx nb B Rr ->
  forall kind k0 k1, exists l,
  filter (fun e : bytes * bytes => lookup_pred kind k0 k1 (fst e)) (table_entries_of nb B) = map ent l /\
  Sorted.StronglySorted klt l.
Proof. exact table_result_sorted. Qed.
Print Assumptions T02_results_strictly_increasing.
