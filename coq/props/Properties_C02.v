(* C02 - Exact-match, prefix and range lookups return exactly the matching entries.
   FULL STATEMENT: C02_statement (lookups on the model reader = filters of the sorted
   entry list).  PROVED so far: inside a block, the search leaves the iterator on the
   first entry >= the query key from any state (T03a, restated) and the three bound
   tests are exactly equality / prefix / <= key1 (T02_bounds).  NOT yet proved: the
   index-level step (first index entry with separator >= query, move to the next
   block when the block has no entry >= query).  Engine rd compares implementation,
   model and the filter specification on every stored key, neighbour, proper prefix,
   one-byte extension, every separator and its neighbours, the empty key and
   reversed ranges. *)
From Coq Require Import NArith List Lia.
From Mtbl Require Import model.Bytes model.Order spec.Parse model.Reader proofs.OrderProofs proofs.BlockProofs.
Local Open Scope N_scope.

Section C02.
Variable decompress : N -> bytes -> res bytes.
Definition lookup_spec (kind : ikind) (k0 k1 : bytes) (es : list entry) : list entry :=
  filter (fun e => match kind with
                   | KIter => true
                   | KGet => beq (fst e) k0
                   | KPrefix => is_prefix k0 (fst e)
                   | KRange => ble k0 (fst e) && ble (fst e) k1
                   end) es.
Definition C02_statement : Prop :=
  forall f r es, fst (reader_open f false) = Ok (Some r) ->
    read_all decompress (S (length es)) f = Ok es ->
    forall kind k0 k1,
      match reader_iter_init decompress r kind k0 (match kind with KRange => k1 | _ => k0 end) with
      | Ok (Some it) => drain decompress (S (length es)) r it = Ok (lookup_spec kind k0 k1 es)
      | Ok None => lookup_spec kind k0 k1 es = []
      | _ => False
      end.
End C02.

Theorem T02_block_search_partial : forall b ridx, wfb b ridx -> forall s q, st_ok b ridx s ->
  exists s', block_seek b s q = Ok s' /\ positioned b ridx s' q.
Proof. exact block_seek_ok. Qed.
Print Assumptions T02_block_search_partial.

Lemma is_prefix_spec : forall p k, is_prefix p k = true <-> exists s, k = p ++ s.
Proof.
  induction p as [|x p IH]; intros k; cbn [is_prefix].
  - split; [intros _; exists k; reflexivity|reflexivity].
  - destruct k as [|y k]; [split; [discriminate|intros [s Hs]; discriminate]|].
    rewrite Bool.andb_true_iff, IH. split.
    + intros [E [s ->]]. apply N.eqb_eq in E. subst. exists s. reflexivity.
    + intros [s Hs]. inversion Hs; subst. split; [apply N.eqb_refl|exists s; reflexivity].
Qed.

(* the bound tests of reader_iter_next are exactly the three relations of the statement *)
Theorem T02_bounds : forall k key,
  (bound_ok KGet k key = true <-> key = k) /\
  (bound_ok KPrefix k key = true <-> exists s, key = k ++ s) /\
  (bound_ok KRange k key = true <-> bcmp key k <> Gt) /\
  bound_ok KIter k key = true.
Proof.
  intros k key. unfold bound_ok. repeat split; try reflexivity.
  - destruct (bcmp key k) eqn:E; try discriminate. intros _. apply bcmp_eq, E.
  - intros ->. rewrite bcmp_refl. reflexivity.
  - apply is_prefix_spec.
  - apply is_prefix_spec.
  - destruct (bcmp key k); congruence.
  - destruct (bcmp key k); congruence.
Qed.
Print Assumptions T02_bounds.
