(* C11 - Every well-formed MTBL file is readable, not only the ones today's writer emits.
   PROVED (T11_legal_tables): for EVERY byte string f - whoever produced it - that the
   model reader opens and that passes the executable structural check table_check
   (spec/TableCheck.v: each index value is the offset of a block that get_block loads;
   in the index block and in every data block entry offsets and keys strictly increase,
   every restart offset is the offset of an entry that shares nothing, the restart
   entries increase starting at entry 0; block offsets increase; last key of block i
   <= separator i < first key of block i+1):
     - iterating from the start returns exactly the entries of the blocks, in order;
     - get / get_prefix / get_range return exactly the matching entries;
     - every history of next / seek on the four iterator kinds equals the history on a
       cursor over that entry list.
   The check does not care which restart positions were chosen, how much of a key was
   shared, where inside the legal interval a separator lies, how the entries were cut
   into blocks, whether the file is v1 or v2, or how many foreign bytes precede the
   table: all of those only influence whether get_block/block_init decode the bytes to
   blocks that pass.  Entry decoding itself (parse_entries) is shared between the check
   and the reader model; that the decoded entries are the ENCODED ones is established
   (a) for the writer's encoder by the block round trip of C01, (b) for the independent
   encoder by engine rd: on every generated file the extracted table_check must accept
   and its entry list must equal what was encoded - after which this theorem applies -
   and implementation and model are compared on iteration, lookups and seeks;
   (c) for the independent encoder spec/Encode.v - written in Gallina from the format
   description alone, parameterised by EVERY legal layout choice (format v1 / v2, leading
   foreign bytes, compression algorithm, how the entries are cut into blocks, per block the
   set of restart entries and the amount of prefix sharing of every other entry (anything up
   to the common prefix), any separator key in the legal interval, the index block's own
   restarts and sharing) - by the theorems T11c_* below: for every entry list and every layout
   accepted by the executable legality test layout_ok, the reader model opens the encoded
   file, table_check accepts it with exactly the chosen blocks, and iteration, lookups and
   next / seek histories return the encoded entries.  The extracted encode_table is the
   generator of engine rd's "independent encoder" tables, so the very files the theorem
   speaks about are the ones the real reader is run on.
   Not covered by proof: restart arrays above 4 GiB (the model has the branch; it is
   executed by engine rd on a sparse block only through block_init). *)
From Coq Require Import NArith ZArith List Lia.
From Mtbl Require Import model.Bytes model.Order model.Writer spec.Parse model.Reader spec.TableCheck
  proofs.BlockProofs proofs.LookupProofs proofs.ReaderProofs proofs.CheckProofs proofs.LegalTables spec.Encode proofs.EncodeProofs.
(* source ties: the statements of the C functions the model follows (gen/Ties.v is regenerated from /repo on every run) *)
From Mtbl Require props.Ties_C11.
Local Open Scope N_scope.

Theorem T11_legal_tables : forall decompress r ib iridx bl,
  table_check decompress r = Some (ib, iridx, bl) ->
  let nb := length bl in
  let es := table_entries_of nb (blk bl) in
  (* full iteration *)
  (forall fuel, (length es < fuel)%nat ->
     exists it, reader_iter decompress r = Ok (Some it) /\ drain decompress fuel r it = Ok es) /\
  (* lookups *)
  (forall kind k0 k1 fuel, kind <> KIter -> (length es < fuel)%nat ->
     match reader_iter_init decompress r kind k0 (match kind with KRange => k1 | _ => k0 end) with
     | Ok (Some it) => drain decompress fuel r it = Ok (filter (fun e => lookup_pred kind k0 k1 (fst e)) es)
     | Ok None => filter (fun e => lookup_pred kind k0 k1 (fst e)) es = []
     | _ => False
     end) /\
  (* histories *)
  (exists it, reader_iter decompress r = Ok (Some it) /\
     forall ops, run_model decompress r it ops = Ok (run_spec nb (blk bl) KIter (it_k it) (Some 0%nat) ops)) /\
  (forall kind key bound,
     match reader_iter_init decompress r kind key bound with
     | Ok (Some it) => forall ops, run_model decompress r it ops =
                                   Ok (run_spec nb (blk bl) kind bound (Some (gfirst nb (blk bl) key)) ops)
     | Ok None => gfirst nb (blk bl) key = total nb (blk bl)
     | _ => False
     end).
Proof. exact legal_tables. Qed.
Print Assumptions T11_legal_tables.

(* the table without entries (an index block with no entry and one restart point, which is
   what every writer emits for it): nothing to iterate, every lookup is NULL *)
Theorem T11_empty_table : forall decompress r ib r0,
  r_index r = Some ib -> ab_entries ib = [] -> ab_restarts ib = [r0] ->
  reader_iter decompress r = Ok None /\
  forall kind key bound, reader_iter_init decompress r kind key bound = Ok None.
Proof. exact empty_table. Qed.
Print Assumptions T11_empty_table.

(* non-vacuity: a three-block table written by the model writer passes the check *)
Example T11_example :
  let o := mkwopts 0 (-10000)%Z 64 2 in
  let es := [([], [9]); ([97], repeat 120 30); ([97; 98], repeat 121 30); ([98], repeat 122 30); ([98; 0], [])] in
  match writer_session (fun _ _ => Fail) (fun _ _ _ => Fail) o 0 es with
  | Ok (w, _) => match fst (reader_open (writer_bytes w) false) with
                 | Ok (Some r) => match table_check (fun _ _ => Fail) r with
                                  | Some (_, _, bl) => (1 < length bl)%nat /\ table_entries_of (length bl) (blk bl) = es
                                  | None => False
                                  end
                 | _ => False
                 end
  | _ => False
  end.
Proof. vm_compute. split; [lia|reflexivity]. Qed.

(* ---- the independent encoder: every legal layout is read back ----------------------------- *)
Theorem T11c_encoded_read_all : forall compress decompress lay es fuel,
  layout_ok compress lay es = true -> decompress_inverts compress decompress lay es -> (length es < fuel)%nat ->
  exists f, encode_table compress lay es = Some f /\ read_all decompress fuel f = Ok es.
Proof. exact encoded_read_all. Qed.
Print Assumptions T11c_encoded_read_all.

(* one file, one content: two legal layouts - any versions, cuts, restart sets, sharing,
   separators, compressors - of two entry lists that encode to the same bytes encode the
   same entries.  Reading is therefore a function of the file alone, not of how it was laid out. *)
Theorem T11c_file_determines_entries : forall compress compress' decompress lay lay' es es' f,
  layout_ok compress lay es = true -> layout_ok compress' lay' es' = true ->
  decompress_inverts compress decompress lay es -> decompress_inverts compress' decompress lay' es' ->
  encode_table compress lay es = Some f -> encode_table compress' lay' es' = Some f -> es = es'.
Proof.
  intros compress compress' decompress lay lay' es es' f Hl Hl' Hd Hd' E E'.
  set (fuel := S (Nat.max (length es) (length es'))).
  destruct (T11c_encoded_read_all compress decompress lay es fuel Hl Hd ltac:(unfold fuel; lia)) as (f1 & E1 & R1).
  destruct (T11c_encoded_read_all compress' decompress lay' es' fuel Hl' Hd' ltac:(unfold fuel; lia)) as (f2 & E2 & R2).
  rewrite E in E1. rewrite E' in E2. inversion E1. inversion E2. subst f1 f2. congruence.
Qed.
Print Assumptions T11c_file_determines_entries.

Theorem T11c_encoded_table_check : forall compress decompress lay es verify,
  layout_ok compress lay es = true -> decompress_inverts compress decompress lay es -> es <> [] ->
  exists f r ib iridx,
    encode_table compress lay es = Some f /\
    fst (reader_open f verify) = Ok (Some r) /\
    table_check decompress r = Some (ib, iridx, loaded (data_blocks lay es)) /\
    table_entries_of (length (loaded (data_blocks lay es))) (blk (loaded (data_blocks lay es))) = es.
Proof. exact encoded_table_check. Qed.
Print Assumptions T11c_encoded_table_check.

Theorem T11c_encoded_lookups : forall compress decompress lay es verify,
  layout_ok compress lay es = true -> decompress_inverts compress decompress lay es -> es <> [] ->
  exists f r, encode_table compress lay es = Some f /\ fst (reader_open f verify) = Ok (Some r) /\
    (forall fuel, (length es < fuel)%nat ->
       exists it, reader_iter decompress r = Ok (Some it) /\ drain decompress fuel r it = Ok es) /\
    (forall kind k0 k1 fuel, kind <> KIter -> (length es < fuel)%nat ->
       match reader_iter_init decompress r kind k0 (match kind with KRange => k1 | _ => k0 end) with
       | Ok (Some it) => drain decompress fuel r it = Ok (filter (fun e => lookup_pred kind k0 k1 (fst e)) es)
       | Ok None => filter (fun e => lookup_pred kind k0 k1 (fst e)) es = []
       | _ => False
       end).
Proof. exact encoded_table_correct. Qed.
Print Assumptions T11c_encoded_lookups.

Theorem T11c_encoded_histories : forall compress decompress lay es verify,
  layout_ok compress lay es = true -> decompress_inverts compress decompress lay es -> es <> [] ->
  exists f r, encode_table compress lay es = Some f /\ fst (reader_open f verify) = Ok (Some r) /\
    let bl := loaded (data_blocks lay es) in
    table_entries_of (length bl) (blk bl) = es /\
    (exists it, reader_iter decompress r = Ok (Some it) /\
       forall ops, run_model decompress r it ops = Ok (run_spec (length bl) (blk bl) KIter (it_k it) (Some 0%nat) ops)) /\
    (forall kind key bound,
       match reader_iter_init decompress r kind key bound with
       | Ok (Some it) => forall ops, run_model decompress r it ops =
                                     Ok (run_spec (length bl) (blk bl) kind bound (Some (gfirst (length bl) (blk bl) key)) ops)
       | Ok None => gfirst (length bl) (blk bl) key = total (length bl) (blk bl)
       | _ => False
       end).
Proof. exact encoded_table_histories. Qed.
Print Assumptions T11c_encoded_histories.

Theorem T11c_encoded_empty : forall compress decompress lay verify,
  layout_ok compress lay [] = true ->
  exists f r, encode_table compress lay [] = Some f /\ fst (reader_open f verify) = Ok (Some r) /\
    reader_iter decompress r = Ok None /\
    forall kind key bound, reader_iter_init decompress r kind key bound = Ok None.
Proof. exact encoded_empty_correct. Qed.
Print Assumptions T11c_encoded_empty.

(* a block encoded with any legal restart set and sharing decodes to its entries, restarts and sharing *)
Theorem T11c_block : forall es ch, block_ok es ch = true ->
  block_init (encode_block es ch) = Some (ablock_of es ch) /\
  map ent (ab_entries (ablock_of es ch)) = es /\
  ridx_of (ablock_of es ch) = Some (ridx_of_choices ch) /\
  wfb_check (ablock_of es ch) (ridx_of_choices ch) = true.
Proof.
  intros es ch H. destruct (encode_block_decodes es ch H) as (H1 & _ & H3 & _ & _ & H6 & _ & H8).
  split; [exact H1|]. split; [exact H3|]. split; [exact H6|exact H8].
Qed.
Print Assumptions T11c_block.
