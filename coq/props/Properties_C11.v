(* C11 - Every well-formed MTBL file is readable, not only the ones today's writer emits.
   FULL STATEMENT: C11_statement - for every byte string that the independent decoder
   accepts as a table with strictly increasing keys (format v2; v1 differs only in
   the length prefix), the model reader returns exactly the decoded entries.
   PROVED so far: the block iterator is correct for EVERY well-formed block - any
   legal restart positions (ridx arbitrary, strictly increasing from 0), whatever
   prefix sharing the encoder chose (blocks are abstract: reconstructed keys), single-
   entry and many-entry blocks (T03a/T03b restated as T11_any_layout_partial); and
   opening never reads outside the file (C19).  NOT yet proved: decoding of bytes into
   those blocks and the index hand-over.  Engine rd feeds files from an independent
   encoder with random legal layouts, format v1 and v2, to implementation and model. *)
From Coq Require Import NArith List Lia.
From Mtbl Require Import model.Bytes model.Order spec.Parse model.Reader proofs.BlockProofs.
Local Open Scope N_scope.

Section C11.
Variable decompress : N -> bytes -> res bytes.
Definition C11_statement : Prop :=
  forall f t, wf_bytes f -> parse_table decompress 0 f = inr t ->
    strictly_increasing (map fst (table_entries t)) = true ->
    read_all decompress (S (length (table_entries t))) f = Ok (table_entries t).
End C11.

Theorem T11_any_layout_partial : forall b ridx, wfb b ridx ->
  (forall s target, st_ok b ridx s -> exists s', block_seek b s target = Ok s' /\ positioned b ridx s' target) /\
  (exists s, block_seek_to_first b = Ok s /\ st_ok b ridx s /\ bs_valid s = true /\ bs_cur s = 0%nat) /\
  (forall s, st_ok b ridx s -> bs_valid s = true -> st_ok b ridx (block_next b s)).
Proof.
  intros b ridx W. split; [exact (block_seek_ok b ridx W)|].
  split; [exact (seek_first_ok b ridx W)|].
  intros s Hs Hv. exact (proj1 (block_next_ok b ridx W s Hs Hv)).
Qed.
Print Assumptions T11_any_layout_partial.
