(* C11 - Every well-formed MTBL file is readable, not only the ones today's writer emits.
   PROVED (T11_legal_tables): for EVERY byte string f - whoever produced it - that the
   model reader opens and that passes the executable structural check table_check
   (spec/TableCheck.v: each index value is the offset of a block that get_block loads;
   in the index block and in every data block entry offsets and keys strictly increase,
   every restart offset is the offset of an entry that shares nothing, the restart
   entries increase starting at entry 0; block offsets increase; last key of block i
   <= separator i < first key of block i+1):
     - iterating from the start returns exactly the entries of the blocks, in order;
     - get / get_prefix / get_range return exactly the matching entries;
     - every history of next / seek on the four iterator kinds equals the history on a
       cursor over that entry list.
   The check does not care which restart positions were chosen, how much of a key was
   shared, where inside the legal interval a separator lies, how the entries were cut
   into blocks, whether the file is v1 or v2, or how many foreign bytes precede the
   table: all of those only influence whether get_block/block_init decode the bytes to
   blocks that pass.  Entry decoding itself (parse_entries) is shared between the check
   and the reader model; that the decoded entries are the ENCODED ones is established
   (a) for the writer's encoder by the block round trip of C01, (b) for the independent
   encoder by engine rd: on every generated file the extracted table_check must accept
   and its entry list must equal what was encoded - after which this theorem applies -
   and implementation and model are compared on iteration, lookups and seeks.
   Not covered by proof: restart arrays above 4 GiB (the model has the branch; it is
   executed by engine rd on a sparse block only through block_init). *)
From Coq Require Import NArith ZArith List Lia.
From Mtbl Require Import model.Bytes model.Order model.Writer spec.Parse model.Reader spec.TableCheck
  proofs.BlockProofs proofs.LookupProofs proofs.ReaderProofs proofs.CheckProofs.
Local Open Scope N_scope.

Theorem T11_legal_tables : forall decompress r ib iridx bl,
  table_check decompress r = Some (ib, iridx, bl) ->
  let nb := length bl in
  let es := table_entries_of nb (blk bl) in
  (* full iteration *)
  (forall fuel, (length es < fuel)%nat ->
     exists it, reader_iter decompress r = Ok (Some it) /\ drain decompress fuel r it = Ok es) /\
  (* lookups *)
  (forall kind k0 k1 fuel, kind <> KIter -> (length es < fuel)%nat ->
     match reader_iter_init decompress r kind k0 (match kind with KRange => k1 | _ => k0 end) with
     | Ok (Some it) => drain decompress fuel r it = Ok (filter (fun e => lookup_pred kind k0 k1 (fst e)) es)
     | Ok None => filter (fun e => lookup_pred kind k0 k1 (fst e)) es = []
     | _ => False
     end) /\
  (* histories *)
  (exists it, reader_iter decompress r = Ok (Some it) /\
     forall ops, run_model decompress r it ops = Ok (run_spec nb (blk bl) KIter (it_k it) (Some 0%nat) ops)) /\
  (forall kind key bound,
     match reader_iter_init decompress r kind key bound with
     | Ok (Some it) => forall ops, run_model decompress r it ops =
                                   Ok (run_spec nb (blk bl) kind bound (Some (gfirst nb (blk bl) key)) ops)
     | Ok None => gfirst nb (blk bl) key = total nb (blk bl)
     | _ => False
     end).
Proof.
  intros decompress r ib iridx bl H nb es. pose proof (table_check_sound decompress r ib iridx bl H) as T.
  assert (Hlen : length es = total nb (blk bl)) by (unfold es, table_entries_of, Gents, total; apply map_length).
  split; [|split; [|split]].
  - intros fuel Hf. eapply table_iter_all; [exact T|lia].
  - intros kind k0 k1 fuel Hk Hf. eapply table_lookup; [exact T|exact Hk|lia].
  - eapply table_history_iter; exact T.
  - eapply table_history_lookup; exact T.
Qed.
Print Assumptions T11_legal_tables.

(* the table without entries (an index block with no entry and one restart point, which is
   what every writer emits for it): nothing to iterate, every lookup is NULL *)
Theorem T11_empty_table : forall decompress r ib r0,
  r_index r = Some ib -> ab_entries ib = [] -> ab_restarts ib = [r0] ->
  reader_iter decompress r = Ok None /\
  forall kind key bound, reader_iter_init decompress r kind key bound = Ok None.
Proof.
  intros decompress r ib r0 Hi He Hr. unfold reader_iter, reader_iter_init. rewrite Hi.
  destruct ib as [es rs rl w]. cbn [ab_entries ab_restarts] in He, Hr. subst es rs.
  split.
  - unfold block_seek_to_first, seek_restart, nrest, restart_at. cbn [ab_restarts ab_entries length find_off nth N.to_nat].
    change (0 <? N.of_nat 1) with true. cbn [negb].
    replace (r0 <? 0) with false by (symmetry; apply N.ltb_ge, N.le_0_l). reflexivity.
  - intros kind key bound. reflexivity.
Qed.
Print Assumptions T11_empty_table.

(* non-vacuity: a three-block table written by the model writer passes the check *)
Example T11_example :
  let o := mkwopts 0 (-10000)%Z 64 2 in
  let es := [([], [9]); ([97], repeat 120 30); ([97; 98], repeat 121 30); ([98], repeat 122 30); ([98; 0], [])] in
  match writer_session (fun _ _ => Fail) (fun _ _ _ => Fail) o 0 es with
  | Ok (w, _) => match fst (reader_open (writer_bytes w) false) with
                 | Ok (Some r) => match table_check (fun _ _ => Fail) r with
                                  | Some (_, _, bl) => (1 < length bl)%nat /\ table_entries_of (length bl) (blk bl) = es
                                  | None => False
                                  end
                 | _ => False
                 end
  | _ => False
  end.
Proof. vm_compute. split; [lia|reflexivity]. Qed.
