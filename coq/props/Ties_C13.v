(* Source ties of C13: the statements of the C functions its model follows, as they were when the model
   was written and validated against them (tools/gen_ties.py --expected).  gen/Ties.v is regenerated from
   /repo on every run; a changed statement breaks the corresponding lemma below. *)
From Coq Require Import List String.
From Mtbl Require Import gen.Ties.
Import ListNotations.
Local Open Scope string_scope.

(* mtbl/sorter.c: _mtbl_sorter_flush *)
Lemma tie_sorter_flush : TIE_sorter_flush =
  [(0, "mtbl_resres=mtbl_res_success");
   (0, "structentry_batch*b");
   (0, "assert(!s->iterating)");
   (0, "b=_mtbl_sorter_get_entry_batch(s)");
   (0, "if(s->pool!=NULL)");
   (1, "threadpool_dispatch(s->pool,s->rhandler,false,_write_temp_file_wrapper,b)");
   (0, "else");
   (1, "structmtbl_reader*r=_mtbl_sorter_write_chunk(b)");
   (1, "reader_vec_add(s->readers,r)");
   (1, "if(r==NULL)res=mtbl_res_failure");
   (0, "return(res)")].
Proof. reflexivity. Qed.

(* mtbl/sorter.c: mtbl_sorter_destroy *)
Lemma tie_sorter_destroy : TIE_sorter_destroy =
  [(0, "if(*s)");
   (1, "result_handler_destroy(&(*s)->rhandler)");
   (1, "for(unsignedi=0;i<entry_vec_size((*s)->vec);i++)");
   (2, "structentry*ent=entry_vec_value((*s)->vec,i)");
   (2, "free(ent)");
   (1, "entry_vec_destroy(&((*s)->vec))");
   (1, "for(unsignedi=0;i<reader_vec_size((*s)->readers);i++)");
   (2, "structmtbl_reader*r=reader_vec_value((*s)->readers,i)");
   (2, "mtbl_reader_destroy(&r)");
   (1, "reader_vec_destroy(&((*s)->readers))");
   (1, "free((*s)->opt.tmp_dname)");
   (1, "my_free(*s)")].
Proof. reflexivity. Qed.

(* mtbl/threadpool.c: thread_worker *)
Lemma tie_tp_worker : TIE_tp_worker =
  [(0, "structthread*me=arg");
   (0, "for(;;)");
   (1, "structresultq*rq");
   (1, "pthread_mutex_lock(&me->m)");
   (1, "while(!me->running)pthread_cond_wait(&me->c,&me->m)");
   (1, "pthread_mutex_unlock(&me->m)");
   (1, "if(me->cb==NULL)break");
   (1, "me->res=me->cb(me->arg)");
   (1, "me->cb=NULL");
   (1, "me->arg=NULL");
   (1, "rq=me->rq");
   (1, "me->rq=NULL");
   (1, "if(rq!=NULL)");
   (2, "me->running=false");
   (2, "pthread_mutex_lock(&rq->m)");
   (2, "*rq->ptail=me");
   (2, "rq->ptail=&me->next");
   (2, "pthread_cond_signal(&rq->c)");
   (2, "pthread_mutex_unlock(&rq->m)");
   (1, "else");
   (2, "pthread_mutex_lock(&me->m)");
   (2, "me->running=false");
   (2, "pthread_cond_signal(&me->c)");
   (2, "pthread_mutex_unlock(&me->m)");
   (0, "returnNULL")].
Proof. reflexivity. Qed.

(* mtbl/threadpool.c: threadpool_next *)
Lemma tie_tp_next : TIE_tp_next =
  [(0, "structthread*thr=NULL");
   (0, "pthread_mutex_lock(&pool->m)");
   (0, "while(pool->head==NULL&&pool->count==pool->max)");
   (1, "pthread_cond_wait(&pool->c,&pool->m)");
   (0, "if(pool->head!=NULL)");
   (1, "thr=pool->head");
   (1, "pool->head=thr->next");
   (1, "thr->next=NULL");
   (1, "assert(thr->cb==NULL)");
   (1, "assert(thr->res==NULL)");
   (1, "assert(!thr->running)");
   (0, "else");
   (1, "pool->count++");
   (0, "pthread_mutex_unlock(&pool->m)");
   (0, "if(thr==NULL)");
   (1, "thr=calloc(1,sizeof(*thr))");
   (1, "thr->pool=pool");
   (1, "pthread_mutex_init(&thr->m,NULL)");
   (1, "pthread_cond_init(&thr->c,NULL)");
   (1, "pthread_create(&thr->t,NULL,thread_worker,thr)");
   (0, "returnthr")].
Proof. reflexivity. Qed.

(* mtbl/threadpool.c: threadpool_dispatch *)
Lemma tie_tp_dispatch : TIE_tp_dispatch =
  [(0, "structresultq*rq=rh->rq");
   (0, "structthread*thr=threadpool_next(pool)");
   (0, "assert(!thr->running)");
   (0, "assert(thr->next==NULL)");
   (0, "pthread_mutex_lock(&thr->m)");
   (0, "thr->rq=ordered?NULL:rq");
   (0, "thr->cb=cb");
   (0, "thr->arg=arg");
   (0, "thr->running=true");
   (0, "pthread_cond_signal(&thr->c)");
   (0, "pthread_mutex_unlock(&thr->m)");
   (0, "pthread_mutex_lock(&rq->m)");
   (0, "assert(!rq->finished)");
   (0, "rq->nthreads++");
   (0, "if(ordered)");
   (1, "*rq->ptail=thr");
   (1, "rq->ptail=&thr->next");
   (1, "pthread_cond_signal(&rq->c)");
   (0, "pthread_mutex_unlock(&rq->m)")].
Proof. reflexivity. Qed.

(* mtbl/threadpool.c: threadpool_destroy *)
Lemma tie_tp_destroy : TIE_tp_destroy =
  [(0, "structthreadpool*pool=*poolp");
   (0, "structthread*thr");
   (0, "if(pool==NULL)return");
   (0, "pthread_mutex_lock(&pool->m)");
   (0, "while(pool->count>0)");
   (1, "while(pool->head==NULL)pthread_cond_wait(&pool->c,&pool->m)");
   (1, "thr=pool->head");
   (1, "pool->head=thr->next");
   (1, "assert(thr->cb==NULL)");
   (1, "pthread_mutex_lock(&thr->m)");
   (1, "thr->running=true");
   (1, "pthread_cond_signal(&thr->c)");
   (1, "pthread_mutex_unlock(&thr->m)");
   (1, "pthread_join(thr->t,NULL)");
   (1, "pthread_cond_destroy(&thr->c)");
   (1, "pthread_mutex_destroy(&thr->m)");
   (1, "free(thr)");
   (1, "pool->count--");
   (0, "pthread_mutex_unlock(&pool->m)");
   (0, "pthread_mutex_destroy(&pool->m)");
   (0, "pthread_cond_destroy(&pool->c)");
   (0, "free(pool)");
   (0, "*poolp=NULL")].
Proof. reflexivity. Qed.

(* mtbl/threadpool.c: resultq_next *)
Lemma tie_tp_resultq_next : TIE_tp_resultq_next =
  [(0, "structthread*thr=NULL");
   (0, "pthread_mutex_lock(&rq->m)");
   (0, "while(rq->head==NULL&&!(rq->finished&&rq->nthreads==0))pthread_cond_wait(&rq->c,&rq->m)");
   (0, "if(rq->head!=NULL)");
   (1, "thr=rq->head");
   (1, "rq->head=thr->next");
   (1, "thr->next=NULL");
   (1, "rq->nthreads--");
   (1, "if(rq->head==NULL)rq->ptail=&rq->head");
   (0, "pthread_mutex_unlock(&rq->m)");
   (0, "if(thr==NULL)returnfalse");
   (0, "pthread_mutex_lock(&thr->m)");
   (0, "while(thr->running)pthread_cond_wait(&thr->c,&thr->m)");
   (0, "*res=thr->res");
   (0, "thr->res=NULL");
   (0, "pthread_mutex_unlock(&thr->m)");
   (0, "pthread_mutex_lock(&thr->pool->m)");
   (0, "thr->next=thr->pool->head");
   (0, "thr->pool->head=thr");
   (0, "pthread_cond_signal(&thr->pool->c)");
   (0, "pthread_mutex_unlock(&thr->pool->m)");
   (0, "returntrue")].
Proof. reflexivity. Qed.

(* mtbl/threadpool.c: resultq_finish *)
Lemma tie_tp_resultq_finish : TIE_tp_resultq_finish =
  [(0, "pthread_mutex_lock(&rq->m)");
   (0, "rq->finished=true");
   (0, "pthread_cond_signal(&rq->c)");
   (0, "pthread_mutex_unlock(&rq->m)")].
Proof. reflexivity. Qed.

(* mtbl/threadpool.c: resultq_destroy *)
Lemma tie_tp_resultq_destroy : TIE_tp_resultq_destroy =
  [(0, "structresultq*rq=*rqp");
   (0, "if(rq==NULL)return");
   (0, "assert(rq->head==NULL&&rq->finished&&rq->nthreads==0)");
   (0, "pthread_mutex_destroy(&rq->m)");
   (0, "pthread_cond_destroy(&rq->c)");
   (0, "free(rq)");
   (0, "*rqp=NULL")].
Proof. reflexivity. Qed.

(* mtbl/threadpool.c: result_worker *)
Lemma tie_tp_result_worker : TIE_tp_result_worker =
  [(0, "structresult_handler*rh=arg");
   (0, "void*res");
   (0, "while(resultq_next(rh->rq,&res))rh->cb(res,rh->cbdata)");
   (0, "resultq_destroy(&rh->rq)");
   (0, "returnNULL")].
Proof. reflexivity. Qed.

(* mtbl/threadpool.c: result_handler_destroy *)
Lemma tie_tp_rh_destroy : TIE_tp_rh_destroy =
  [(0, "structresult_handler*rh=*prh");
   (0, "if(rh==NULL)return");
   (0, "resultq_finish(rh->rq)");
   (0, "pthread_join(rh->thread,NULL)");
   (0, "free(rh)");
   (0, "*prh=NULL")].
Proof. reflexivity. Qed.

(* mtbl/writer.c: _mtbl_writer_flush *)
Lemma tie_writer_flush : TIE_writer_flush =
  [(0, "structdata_blockb");
   (0, "assert(!w->closed)");
   (0, "assert(w->m.file_version==MTBL_FORMAT_V2)");
   (0, "if(block_builder_empty(w->data))return");
   (0, "b.comp_type=w->opt.compression_type");
   (0, "b.comp_level=w->opt.compression_level");
   (0, "b.len_last_key=ubuf_size(w->last_key)");
   (0, "b.last_key=my_malloc(b.len_last_key)");
   (0, "memcpy(b.last_key,ubuf_data(w->last_key),b.len_last_key)");
   (0, "block_builder_finish(w->data,&b.data,&b.len_data)");
   (0, "block_builder_reset(w->data)");
   (0, "if(w->pool!=NULL)");
   (1, "structdata_block*bthread=my_calloc(1,sizeof(*bthread))");
   (1, "memcpy(bthread,&b,sizeof(b))");
   (1, "threadpool_dispatch(w->pool,w->rhandler,true,_compress_block_wrapper,(void*)bthread)");
   (0, "else");
   (1, "_mtbl_writer_compress_block(&b)");
   (1, "_mtbl_writer_write_data_block(w,&b)")].
Proof. reflexivity. Qed.

(* mtbl/writer.c: _mtbl_writer_compress_block *)
Lemma tie_writer_compress_block : TIE_writer_compress_block =
  [(0, "mtbl_resres");
   (0, "structdata_blocktmp");
   (0, "if(b->comp_type==MTBL_COMPRESSION_NONE)");
   (1, "res=mtbl_res_success");
   (0, "elseif(b->comp_level==DEFAULT_COMPRESSION_LEVEL)");
   (1, "res=mtbl_compress(b->comp_type,b->data,b->len_data,&tmp.data,&tmp.len_data)");
   (0, "else");
   (1, "res=mtbl_compress_level(b->comp_type,b->comp_level,b->data,b->len_data,&tmp.data,&tmp.len_data)");
   (0, "assert(res==mtbl_res_success)");
   (0, "if(b->comp_type!=MTBL_COMPRESSION_NONE)");
   (1, "free(b->data)");
   (1, "b->data=tmp.data");
   (1, "b->len_data=tmp.len_data");
   (0, "b->crc=htole32(mtbl_crc32c(b->data,b->len_data))")].
Proof. reflexivity. Qed.

(* mtbl/writer.c: _compress_block_wrapper *)
Lemma tie_writer_compress_wrapper : TIE_writer_compress_wrapper =
  [(0, "if(block==NULL)returnNULL");
   (0, "_mtbl_writer_compress_block(block)");
   (0, "returnblock")].
Proof. reflexivity. Qed.

(* mtbl/writer.c: _write_data_block_wrapper *)
Lemma tie_writer_write_wrapper : TIE_writer_write_wrapper =
  [(0, "if(block==NULL)return");
   (0, "_mtbl_writer_write_data_block(writer,block)");
   (0, "free(block)")].
Proof. reflexivity. Qed.

(* mtbl/sorter.c: _collect_readers_cb *)
Lemma tie_sorter_collect_cb : TIE_sorter_collect_cb =
  [(0, "structmtbl_sorter*s=sorter");
   (0, "reader_vec_add(s->readers,reader)")].
Proof. reflexivity. Qed.

(* mtbl/sorter.c: _write_temp_file_wrapper *)
Lemma tie_sorter_temp_file_wrapper : TIE_sorter_temp_file_wrapper =
  [(0, "structmtbl_reader*r=_mtbl_sorter_write_chunk(batch)");
   (0, "returnr")].
Proof. reflexivity. Qed.

(* mtbl/threadpool.c: threadpool_init *)
Lemma tie_tp_threadpool_init : TIE_tp_threadpool_init =
  [(0, "structthreadpool*pool=calloc(1,sizeof(*pool))");
   (0, "pthread_mutex_init(&pool->m,NULL)");
   (0, "pthread_cond_init(&pool->c,NULL)");
   (0, "pool->max=max_threads");
   (0, "returnpool")].
Proof. reflexivity. Qed.

(* mtbl/threadpool.c: resultq_init *)
Lemma tie_tp_resultq_init : TIE_tp_resultq_init =
  [(0, "structresultq*rq=calloc(1,sizeof(*rq))");
   (0, "pthread_mutex_init(&rq->m,NULL)");
   (0, "pthread_cond_init(&rq->c,NULL)");
   (0, "rq->ptail=&rq->head");
   (0, "returnrq")].
Proof. reflexivity. Qed.
