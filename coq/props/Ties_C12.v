(* Source ties of C12: the statements of the C functions its model follows, as they were when the model
   was written and validated against them (tools/gen_ties.py --expected).  gen/Ties.v is regenerated from
   /repo on every run; a changed statement breaks the corresponding lemma below. *)
From Coq Require Import List String.
From Mtbl Require Import gen.Ties.
Import ListNotations.
Local Open Scope string_scope.

(* mtbl/reader.c: reader_init_madvise *)
Lemma tie_reader_init_madvise : TIE_reader_init_madvise =
  [(0, "boolb");
   (0, "constchar*s");
   (0, "b=r->opt.madvise_random");
   (0, "s=getenv(""MTBL_READER_MADVISE_RANDOM"")");
   (0, "if(s)");
   (1, "if(strcmp(s,""0"")==0)b=false");
   (1, "elseif(strcmp(s,""1"")==0)b=true");
   (0, "if(b)");
   (1, "#ifdefined(HAVE_POSIX_MADVISE)");
   (1, "(void)posix_madvise(r->data,r->m.index_block_offset,POSIX_MADV_RANDOM)");
   (1, "#elifdefined(HAVE_MADVISE)");
   (1, "(void)madvise(r->data,r->m.index_block_offset,MADV_RANDOM)");
   (1, "#endif")].
Proof. reflexivity. Qed.

(* mtbl/reader.c: get_block *)
Lemma tie_reader_get_block : TIE_reader_get_block =
  [(0, "boolneeds_free=false");
   (0, "uint8_t*block_contents=NULL,*raw_contents=NULL");
   (0, "size_tblock_contents_size=0,raw_contents_size=0");
   (0, "size_traw_contents_size_len");
   (0, "mtbl_resres");
   (0, "assert(offset<r->len_data)");
   (0, "if(r->m.file_version==MTBL_FORMAT_V1)");
   (1, "raw_contents_size_len=sizeof(uint32_t)");
   (1, "raw_contents_size=mtbl_fixed_decode32(&r->data[offset+0])");
   (0, "else");
   (1, "uint64_ttmp");
   (1, "raw_contents_size_len=mtbl_varint_decode64(&r->data[offset+0],&tmp)");
   (1, "raw_contents_size=tmp");
   (1, "assert((uint64_t)raw_contents_size==tmp)");
   (0, "raw_contents=&r->data[offset+raw_contents_size_len+sizeof(uint32_t)]");
   (0, "if(r->opt.verify_checksums)");
   (1, "uint32_tblock_crc,calc_crc");
   (1, "block_crc=mtbl_fixed_decode32(&r->data[offset+raw_contents_size_len])");
   (1, "calc_crc=mtbl_crc32c(raw_contents,raw_contents_size)");
   (1, "assert(block_crc==calc_crc)");
   (0, "if(r->m.compression_algorithm==MTBL_COMPRESSION_NONE)");
   (1, "block_contents=raw_contents");
   (1, "block_contents_size=raw_contents_size");
   (0, "else");
   (1, "needs_free=true");
   (1, "res=mtbl_decompress(r->m.compression_algorithm,raw_contents,raw_contents_size,&block_contents,&block_contents_size)");
   (1, "assert(res==mtbl_res_success)");
   (0, "return(block_init(block_contents,block_contents_size,needs_free))")].
Proof. reflexivity. Qed.

(* src/mtbl_verify.c: verify_data_blocks *)
Lemma tie_verify_data_blocks : TIE_verify_data_blocks =
  [(0, "boolres=true");
   (0, "size_tlen_mmap_data");
   (0, "uint8_t*mmap_data");
   (0, "uint8_t*data");
   (0, "uint64_toffset=0");
   (0, "uint64_tbytes_consumed=0");
   (0, "if(bytes_data_blocks==0&&count_data_blocks==0)returntrue");
   (0, "len_mmap_data=file_offset+bytes_data_blocks");
   (0, "mmap_data=mmap(NULL,len_mmap_data,PROT_READ,MAP_PRIVATE,fd,0)");
   (0, "if(mmap_data==MAP_FAILED)");
   (1, "fprintf(stderr,""%s:mmap()failed\n"",prefix)");
   (1, "returnfalse");
   (0, "data=mmap_data+file_offset");
   (0, "for(uint64_tblock=1;block<=count_data_blocks;block++)");
   (1, "uint32_tblock_crc,calc_crc");
   (1, "size_traw_contents_size,raw_contents_size_len");
   (1, "uint8_t*raw_contents");
   (1, "if(file_version==MTBL_FORMAT_V1)");
   (2, "raw_contents_size=mtbl_fixed_decode32(&data[offset+0])");
   (2, "raw_contents_size_len=sizeof(uint32_t)");
   (1, "else");
   (2, "uint64_ttmp");
   (2, "raw_contents_size_len=mtbl_varint_decode64(&data[offset+0],&tmp)");
   (2, "raw_contents_size=tmp");
   (1, "bytes_consumed+=raw_contents_size_len+sizeof(uint32_t)");
   (1, "bytes_consumed+=raw_contents_size");
   (1, "if(bytes_consumed>bytes_data_blocks)");
   (2, "clear_line_stdout()");
   (2, "fprintf(stderr,""%s:Error:Blocklength(%'zubytes)exceeds""""totaldatalengthat""""datablock%""PRIu64""(%""PRIu64""bytesintofile)\n"",prefix,raw_contents_size,block,offset)");
   (2, "returnfalse");
   (1, "raw_contents=&data[offset+raw_contents_size_len+sizeof(uint32_t)]");
   (1, "block_crc=mtbl_fixed_decode32(&data[offset+raw_contents_size_len])");
   (1, "calc_crc=mtbl_crc32c(raw_contents,raw_contents_size)");
   (1, "if(block_crc!=calc_crc)");
   (2, "clear_line_stdout()");
   (2, "fprintf(stderr,""%s:Error:block_crc(%08x)!=calc_crc(%08x)at""""datablock%""PRIu64""(%""PRIu64""bytesintofile)\n"",prefix,block_crc,calc_crc,block,offset)");
   (2, "res=false");
   (2, "break");
   (1, "if((block&&(block%block_progress_interval)==0)||(block==count_data_blocks))");
   (2, "block_progress(prefix,block,count_data_blocks)");
   (1, "offset+=raw_contents_size_len+sizeof(uint32_t)");
   (1, "offset+=raw_contents_size");
   (0, "munmap(mmap_data,len_mmap_data)");
   (0, "clear_line_stdout()");
   (0, "returnres")].
Proof. reflexivity. Qed.

(* src/mtbl_verify.c: verify_file *)
Lemma tie_verify_file : TIE_verify_file =
  [(0, "boolres=true");
   (0, "intfd");
   (0, "structmtbl_reader*r");
   (0, "structmtbl_reader_options*ropt");
   (0, "conststructmtbl_metadata*m");
   (0, "fd=open(fname,O_RDONLY)");
   (0, "if(fd<0)");
   (1, "fprintf(stderr,""%s:open()failed:%s\n"",fname,strerror(errno))");
   (1, "returnfalse");
   (0, "ropt=mtbl_reader_options_init()");
   (0, "mtbl_reader_options_set_verify_checksums(ropt,true)");
   (0, "r=mtbl_reader_init_fd(fd,ropt)");
   (0, "mtbl_reader_options_destroy(&ropt)");
   (0, "if(r==NULL)");
   (1, "close(fd)");
   (1, "fprintf(stderr,""%s:mtbl_reader_init_fd()failed\n"",fname)");
   (1, "returnfalse");
   (0, "m=mtbl_reader_metadata(r)");
   (0, "uint64_tcount_data_blocks=mtbl_metadata_count_data_blocks(m)");
   (0, "uint64_tbytes_data_blocks=mtbl_metadata_bytes_data_blocks(m)");
   (0, "uint64_tindex_offset=mtbl_metadata_index_block_offset(m)");
   (0, "uint64_tdata_offset=index_offset-bytes_data_blocks");
   (0, "if(verify_data_blocks(fd,fname,data_offset,bytes_data_blocks,count_data_blocks,mtbl_metadata_file_version(m)))");
   (1, "printf(""%s:OK\n"",fname)");
   (1, "res=true");
   (0, "else");
   (1, "printf(""%s:FAILED\n"",fname)");
   (1, "res=false");
   (0, "mtbl_reader_destroy(&r)");
   (0, "returnres")].
Proof. reflexivity. Qed.
