(* C06 - Sorter output is the sorted, merged input regardless of chunking.
   PROVED:
   T06a_sorter_output - for every sequence of adds, every memory limit (hence every split into
     chunks), every qsort (any function returning a key-sorted permutation: stability is not
     assumed) and every total, associative merge function: all adds succeed, mtbl_sorter_iter
     returns an iterator, and draining it yields every distinct key once, in strictly ascending
     order, each with the left fold of the merge function over some arrangement of exactly the
     values added for that key.  (Chunks are folded when written, the merger folds the chunk
     results: associativity turns that tree into a fold of the values - for a merge function
     that is not associative the sorter's result genuinely depends on the chunking, which is
     why the statement carries the hypothesis.)
   T06b - after every add the buffered entries are below max_memory: a spill happens no later
     than when the limit is reached.   T06d - adds after iteration has begun are refused.
   T06c - every written chunk has strictly increasing keys.
   The thread pool has no counterpart in the sequential model (only the order in which chunk
   readers are collected depends on it; the merger theorem is insensitive to the order of the
   sources); spill files inside the configured directory is a fact about mkstemp templates.
   Both are checked by engine so, which compares implementation, model and specification over
   add sequences x memory limits (1 .. everything in memory, incl. the boundary of the spill
   rule) x pools 0..8 x {iterator, mtbl_sorter_write} x {concatenating, failing} merge. *)
From Coq Require Import NArith List Lia.
From Coq Require Import Permutation Sorting.Sorted.
From Mtbl Require Import gen.Consts model.Bytes model.Order model.Heap model.Merger model.Sorter spec.MergeSpec proofs.SorterProofs
  proofs.MergerProofs proofs.MergerClosed proofs.SorterFull.
(* source ties: the statements of the C functions the model follows (gen/Ties.v is regenerated from /repo on every run) *)
From Mtbl Require props.Ties_C06.
Local Open Scope N_scope.

Theorem T06a_sorter_output :
  forall (f : bytes -> bytes -> bytes -> bytes) (sort : list entry -> list entry),
  (forall k a b c, f k (f k a b) c = f k a (f k b c)) ->
  (forall l, Permutation (sort l) l) -> (forall l, keys_le (sort l)) ->
  forall max_memory ops,
  exists s, adds f sort (sorter_init max_memory) ops = Ok s /\
  exists s' it, sorter_iter (Some (mf f)) sort s = Ok (s', Some it) /\
    let out := mdrain (mf f) (S (length ops)) it in
    StronglySorted (fun a b => bcmp (fst a) (fst b) = Lt) out /\
    (forall k, In k (map fst out) <-> In k (map fst ops)) /\
    Forall (fun e => exists first rest, Permutation (first :: rest) (values_for (fst e) [ops]) /\
                                        fold_merge (mf f) (fst e) first rest = Some (snd e)) out.
Proof. intros f sort Ha Hp Hs. exact (sorter_output f Ha sort Hp Hs). Qed.
Print Assumptions T06a_sorter_output.

Theorem T06b_spill_bound : forall mergef sort s k v s' r, 1 <= so_max_memory s ->
  sorter_add mergef sort s k v = Ok (s', r) -> so_iterating s = false ->
  so_entry_bytes s' + SORTER_PTR_BYTES * N.of_nat (length (so_vec s')) < so_max_memory s' /\
  so_max_memory s' = so_max_memory s.
Proof. exact sorter_add_bound. Qed.
Print Assumptions T06b_spill_bound.

Theorem T06d_refused_after_iteration : forall mergef sort,
  (forall s k v, so_iterating s = true -> sorter_add mergef sort s k v = Ok (s, false)) /\
  (forall s s' it, sorter_iter mergef sort s = Ok (s', Some it) -> so_iterating s' = true).
Proof. intros. split; [apply sorter_add_refused|apply sorter_iter_sets_flag]. Qed.
Print Assumptions T06d_refused_after_iteration.

Theorem T06c_chunk_sorted_partial : forall mergef fuel l r, keys_le l -> fold_sorted mergef fuel l = Ok r -> keys_lt r.
Proof. intros mergef fuel l r H1 H2. exact (proj1 (fold_sorted_strict mergef fuel l r H1 H2)). Qed.
Print Assumptions T06c_chunk_sorted_partial.

Example T06_example :
  let mf := fun (_ a b : bytes) => Some (a ++ [124] ++ b) in
  let sort := fun l : list entry => l in   (* already key-sorted inputs per chunk below *)
  match adds (fun _ a b => a ++ [124] ++ b) sort (sorter_init 40) [([97], [1]); ([98], [2]); ([98], [3]); ([97], [4]); ([99], [5])] with
  | Ok s => length (so_chunks s) = 1%nat /\
            match sorter_iter (Some mf) sort s with
            | Ok (_, Some it) => mdrain mf 10 it = [([97], [1; 124; 4]); ([98], [2; 124; 3]); ([99], [5])]
            | _ => False
            end
  | _ => False
  end.
Proof. vm_compute. repeat split. Qed.
