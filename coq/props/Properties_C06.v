(* C06 - Sorter output is the sorted, merged input regardless of chunking.
   FULL STATEMENT: C06_statement.  PROVED so far: the spill bound (T06b: after every add
   the buffered entries are below max_memory, so a spill has happened no later than when
   the limit is reached), the refusal of adds once iteration has begun (T06d), and that
   every written chunk has strictly increasing keys for ANY sort function that orders by
   key - qsort is not assumed stable - (T06c_chunk_sorted_partial).  NOT yet proved: the
   cross-chunk merge (it is C04's statement applied to the chunks) and hence the full
   output statement.  Engine so compares implementation, model and specification over
   add sequences x memory limits (1 .. everything in memory, incl. the boundary of the
   spill rule) x pools 0..8 x {iterator, mtbl_sorter_write}; the mkstemp shim checks
   that every spill file template lies in the configured directory. *)
From Coq Require Import NArith List Lia.
From Mtbl Require Import gen.Consts model.Bytes model.Order model.Heap model.Merger model.Sorter spec.MergeSpec proofs.SorterProofs.
Local Open Scope N_scope.

Section C06.
Variable mf : bytes -> bytes -> bytes -> option bytes.
Variable sort : list entry -> list entry.

Fixpoint adds (s : sorter) (ops : list entry) : res sorter :=
  match ops with
  | [] => Ok s
  | (k, v) :: tl => match sorter_add (Some mf) sort s k v with
                    | Ok (s', _) => adds s' tl
                    | Fail => Fail | Abort => Abort | Oob => Oob
                    end
  end.
Fixpoint sdrain (fuel : nat) (it : miter) : list entry :=
  match fuel with
  | O => []
  | S f => match sorter_next (Some mf) it with (it', Some e) => e :: sdrain f it' | (_, None) => [] end
  end.

(* each distinct key once, ascending; the value is a fold over some arrangement of exactly the
   values added for the key - as a binary tree of merges whose shape depends on the chunking;
   for an associative-commutative merge function that is the fold in any order *)
Definition C06_statement : Prop :=
  (forall l, Permutation.Permutation (sort l) l /\ keys_le (sort l)) ->
  (forall k a b, mf k a b <> None) ->
  (forall k a b c, mf k a b = Some c -> forall d e, mf k c d = Some e -> exists f, mf k b d = Some f /\ mf k a f = Some e) ->
  forall max_memory ops, 1 <= max_memory ->
    match adds (sorter_init max_memory) ops with
    | Ok s => match sorter_iter (Some mf) sort s with
              | Ok (_, Some it) =>
                let out := sdrain (S (length ops)) it in
                map fst out = all_keys [ops] /\
                Forall (fun e => exists first rest, Permutation.Permutation (first :: rest) (values_for (fst e) [ops]) /\
                                                    fold_merge mf (fst e) first rest = Some (snd e)) out
              | _ => False
              end
    | _ => False
    end.
End C06.

Theorem T06b_spill_bound : forall mergef sort s k v s' r, 1 <= so_max_memory s ->
  sorter_add mergef sort s k v = Ok (s', r) -> so_iterating s = false ->
  so_entry_bytes s' + SORTER_PTR_BYTES * N.of_nat (length (so_vec s')) < so_max_memory s' /\
  so_max_memory s' = so_max_memory s.
Proof. exact sorter_add_bound. Qed.
Print Assumptions T06b_spill_bound.

Theorem T06d_refused_after_iteration : forall mergef sort,
  (forall s k v, so_iterating s = true -> sorter_add mergef sort s k v = Ok (s, false)) /\
  (forall s s' it, sorter_iter mergef sort s = Ok (s', Some it) -> so_iterating s' = true).
Proof. intros. split; [apply sorter_add_refused|apply sorter_iter_sets_flag]. Qed.
Print Assumptions T06d_refused_after_iteration.

Theorem T06c_chunk_sorted_partial : forall mergef fuel l r, keys_le l -> fold_sorted mergef fuel l = Ok r -> keys_lt r.
Proof. intros mergef fuel l r H1 H2. exact (proj1 (fold_sorted_strict mergef fuel l r H1 H2)). Qed.
Print Assumptions T06c_chunk_sorted_partial.

Example T06_example :
  let mf := fun (_ a b : bytes) => Some (a ++ [124] ++ b) in
  let sort := fun l : list entry => l in   (* already key-sorted inputs per chunk below *)
  match adds mf sort (sorter_init 40) [([97], [1]); ([98], [2]); ([98], [3]); ([97], [4]); ([99], [5])] with
  | Ok s => length (so_chunks s) = 1%nat /\
            match sorter_iter (Some mf) sort s with
            | Ok (_, Some it) => sdrain mf 10 it = [([97], [1; 124; 4]); ([98], [2; 124; 3]); ([99], [5])]
            | _ => False
            end
  | _ => False
  end.
Proof. vm_compute. repeat split. Qed.
