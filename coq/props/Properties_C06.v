(* C06 - Sorter output is the sorted, merged input regardless of chunking.
   PROVED:
   T06a_sorter_output - for every sequence of adds, every memory limit (hence every split into
     chunks), every qsort (any function returning a key-sorted permutation: stability is not
     assumed) and every total, associative merge function: all adds succeed, mtbl_sorter_iter
     returns an iterator, and draining it yields every distinct key once, in strictly ascending
     order, each with the left fold of the merge function over some arrangement of exactly the
     values added for that key.  (Chunks are folded when written, the merger folds the chunk
     results: associativity turns that tree into a fold of the values - for a merge function
     that is not associative the sorter's result genuinely depends on the chunking, which is
     why the statement carries the hypothesis.)
   T06b - after every add the buffered entries are below max_memory: a spill happens no later
     than when the limit is reached.   T06d - adds after iteration has begun are refused.
   T06c - every written chunk has strictly increasing keys.
   The thread pool enters the model as the ORDER in which chunk readers are collected: the second
   part of this file (T06e .. T06j) proves the output theorem for every collection order, the
   canonical output for commutative merge functions, next / seek histories on the sorter's
   iterator, mtbl_sorter_write, the chunk-file round trip and the spill paths.
   Engine so checks all of it on the real code, which compares implementation, model and specification over
   add sequences x memory limits (1 .. everything in memory, incl. the boundary of the spill
   rule) x pools 0..8 x {iterator, mtbl_sorter_write} x {concatenating, failing} merge. *)
From Coq Require Import NArith List Lia.
From Coq Require Import Permutation Sorting.Sorted.
From Coq Require Import ZArith.
From Mtbl Require Import gen.Consts model.Bytes model.Order model.Heap model.Merger model.Sorter spec.MergeSpec proofs.SorterProofs
  proofs.MergerProofs proofs.MergerClosed proofs.SorterFull
  model.Writer model.Reader proofs.OrderProofs proofs.MergerHistory proofs.ReaderProofs proofs.SorterMore proofs.SorterWrite.
From Mtbl Require proofs.SorterSpill.
(* source ties: the statements of the C functions the model follows (gen/Ties.v is regenerated from /repo on every run) *)
From Mtbl Require props.Ties_C06.
Local Open Scope N_scope.

Theorem T06a_sorter_output :
  forall (f : bytes -> bytes -> bytes -> bytes) (sort : list entry -> list entry),
  (forall k a b c, f k (f k a b) c = f k a (f k b c)) ->
  (forall l, Permutation (sort l) l) -> (forall l, keys_le (sort l)) ->
  forall max_memory ops,
  exists s, adds f sort (sorter_init max_memory) ops = Ok s /\
  exists s' it, sorter_iter (Some (mf f)) sort s = Ok (s', Some it) /\
    let out := mdrain (mf f) (S (length ops)) it in
    StronglySorted (fun a b => bcmp (fst a) (fst b) = Lt) out /\
    (forall k, In k (map fst out) <-> In k (map fst ops)) /\
    Forall (fun e => exists first rest, Permutation (first :: rest) (values_for (fst e) [ops]) /\
                                        fold_merge (mf f) (fst e) first rest = Some (snd e)) out.
Proof. intros f sort Ha Hp Hs. exact (sorter_output f Ha sort Hp Hs). Qed.
Print Assumptions T06a_sorter_output.

Theorem T06b_spill_bound : forall mergef sort s k v s' r, 1 <= so_max_memory s ->
  sorter_add mergef sort s k v = Ok (s', r) -> so_iterating s = false ->
  so_entry_bytes s' + SORTER_PTR_BYTES * N.of_nat (length (so_vec s')) < so_max_memory s' /\
  so_max_memory s' = so_max_memory s.
Proof. exact sorter_add_bound. Qed.
Print Assumptions T06b_spill_bound.

Theorem T06d_refused_after_iteration : forall mergef sort,
  (forall s k v, so_iterating s = true -> sorter_add mergef sort s k v = Ok (s, false)) /\
  (forall s s' it, sorter_iter mergef sort s = Ok (s', Some it) -> so_iterating s' = true).
Proof. intros. split; [apply sorter_add_refused|apply sorter_iter_sets_flag]. Qed.
Print Assumptions T06d_refused_after_iteration.

Theorem T06c_chunk_sorted_partial : forall mergef fuel l r, keys_le l -> fold_sorted mergef fuel l = Ok r -> keys_lt r.
Proof. intros mergef fuel l r H1 H2. exact (proj1 (fold_sorted_strict mergef fuel l r H1 H2)). Qed.
Print Assumptions T06c_chunk_sorted_partial.

Example T06_example :
  let mf := fun (_ a b : bytes) => Some (a ++ [124] ++ b) in
  let sort := fun l : list entry => l in   (* already key-sorted inputs per chunk below *)
  match adds (fun _ a b => a ++ [124] ++ b) sort (sorter_init 40) [([97], [1]); ([98], [2]); ([98], [3]); ([97], [4]); ([99], [5])] with
  | Ok s => length (so_chunks s) = 1%nat /\
            match sorter_iter (Some mf) sort s with
            | Ok (_, Some it) => mdrain mf 10 it = [([97], [1; 124; 4]); ([98], [2; 124; 3]); ([99], [5])]
            | _ => False
            end
  | _ => False
  end.
Proof. vm_compute. repeat split. Qed.


(* ======================================================================================= *)
(* C06, continued - thread pool (order of collection), histories, mtbl_sorter_write, chunk files, spill paths.
   Everything is about model/Sorter.v as it stands (proofs/SorterMore.v, SorterWrite.v, SorterSpill.v).

   T06e_any_collection_order - with a pool the chunk readers are added to s->readers by the result handler in
     any order; chunk contents and spill points are those of the sequential run.  For every permutation cs of
     the sequential chunk list (after the final flush of mtbl_sorter_iter), a total associative merge function,
     any qsort: mtbl_sorter_iter succeeds, the key list of the output is exactly all_keys [ops] (the sorted
     distinct keys added) and every value is the left fold of the merge function over some arrangement of
     exactly the values added for the key.
   T06f_sorter_output_canonical - merge function additionally commutative: the output is IDENTICAL for every
     memory limit and every collection order,  canonical f ops =
     map (fun k => (k, fold of f over the values added for k, in input order)) (all_keys [ops]).
     NOT true without commutativity: T06_order_matters_without_commutativity (vm_compute) shows two collection
     orders of the same three chunks giving different values under a concatenating merge function.
   T06g_history / T06g_history_canonical - every history of next / seek calls on the sorter's iterator is the
     history of a cursor over all_keys [ops] (values as above); for a commutative merge function it is literally
     the history of the cursor over canonical f ops.  Any collection order.
   T06h_sorter_write - mtbl_sorter_write on a fresh writer (any options, any compress/decompress pair that
     round-trips, any bytes in front), then mtbl_writer_destroy: every mtbl_writer_add succeeds, the call
     returns success, and the table read back with the reader model is exactly the iterator's output
     (domain of C01: sizes fit the integer widths; the writer session does not abort).
     T06h_refused: a second mtbl_sorter_write and every mtbl_sorter_add after a successful write are refused.
     FALSE: "mtbl_sorter_iter after mtbl_sorter_write is refused" - neither sorter.c nor the model checks
     s->iterating in mtbl_sorter_iter; T06_iter_after_write_not_refused is the vm_compute witness (the second
     iterator delivers the full output again).
   T06i_chunk_roundtrip / T06i_chunk_reader_is_cursor - a chunk written with the table writer (snappy, default
     options, empty file) and opened with the reader: read_all returns the chunk, and every next / seek history
     on the reader's iterator equals the history of the ideal cursor  mksc c 0 true BAll false  which
     model/Sorter.v hands to the merger: the model's shortcut is C01 + C03.
   T06j_spill_path - every path mkstemp creates from the sorter's template is tmp_dname ++ "/" ++ name with
     name non-empty and free of '/': dirname path = tmp_dname. *)
(* ---- T1 --------------------------------------------------------------------------------------------------- *)
Theorem T06e_any_collection_order :
  forall (f : bytes -> bytes -> bytes -> bytes) (sort : list entry -> list entry),
  (forall k a b c, f k (f k a b) c = f k a (f k b c)) ->
  (forall l, Permutation (sort l) l) -> (forall l, keys_le (sort l)) ->
  forall max_memory ops,
  exists s, adds f sort (sorter_init max_memory) ops = Ok s /\
  exists s1, final_flush (Some (mf f)) sort s = Ok (s1, true) /\
    (* the sequential run is the identity permutation *)
    sorter_iter (Some (mf f)) sort s = sorter_iter (Some (mf f)) sort (with_chunks s1 (so_chunks s1)) /\
    forall cs, Permutation cs (so_chunks s1) ->
    exists s' it, sorter_iter (Some (mf f)) sort (with_chunks s1 cs) = Ok (s', Some it) /\ so_iterating s' = true /\
      forall n, (length ops <= n)%nat ->
      let out := mdrain (mf f) (S n) it in
      StronglySorted (fun a b => bcmp (fst a) (fst b) = Lt) out /\
      map fst out = all_keys [ops] /\
      Forall (fun e => exists first rest, Permutation (first :: rest) (vals (fst e) ops) /\
                                          fold_left (f (fst e)) rest first = snd e) out.
Proof.
  intros f sort Ha Hp Hs max_memory ops.
  destruct (any_order_core f Ha sort Hp Hs max_memory ops) as (s & Hadds & s1 & Hfl & _ & Hseq & Hcs).
  exists s. split; [exact Hadds|]. exists s1. split; [exact Hfl|]. split; [exact Hseq|]. intros cs Hperm.
  destruct (Hcs cs Hperm) as (s' & it & Hit & Hi' & _ & _ & _ & _ & Hlen & Hout & _).
  exists s', it. split; [exact Hit|]. split; [exact Hi'|]. intros n Hn. exact (Hout n ltac:(lia)).
Qed.
Print Assumptions T06e_any_collection_order.

Theorem T06f_sorter_output_canonical :
  forall (f : bytes -> bytes -> bytes -> bytes) (sort : list entry -> list entry),
  (forall k a b c, f k (f k a b) c = f k a (f k b c)) -> (forall k a b, f k a b = f k b a) ->
  (forall l, Permutation (sort l) l) -> (forall l, keys_le (sort l)) ->
  forall max_memory ops,
  exists s, adds f sort (sorter_init max_memory) ops = Ok s /\
  exists s1, final_flush (Some (mf f)) sort s = Ok (s1, true) /\
    forall cs, Permutation cs (so_chunks s1) ->
    exists s' it, sorter_iter (Some (mf f)) sort (with_chunks s1 cs) = Ok (s', Some it) /\
      forall n, (length ops <= n)%nat -> mdrain (mf f) (S n) it = canonical f ops.
Proof.
  intros f sort Ha Hc Hp Hs max_memory ops.
  destruct (any_order_core f Ha sort Hp Hs max_memory ops) as (s & Hadds & s1 & Hfl & _ & _ & Hcs).
  exists s. split; [exact Hadds|]. exists s1. split; [exact Hfl|]. intros cs Hperm.
  destruct (Hcs cs Hperm) as (s' & it & Hit & _ & _ & _ & _ & _ & Hlen & Hout & _).
  exists s', it. split; [exact Hit|]. intros n Hn. apply (out_ok_canonical f Ha Hc), Hout. lia.
Qed.
Print Assumptions T06f_sorter_output_canonical.

(* the memory limit and the sort routine are not observable: two sorters given the same adds
   with ANY two max_memory settings (so: any two chunkings, spilled or not) and ANY two
   key-sorting routines, their chunk readers collected in any order, deliver the same entries *)
Theorem T06f_memory_limit_irrelevant :
  forall (f : bytes -> bytes -> bytes -> bytes) (sort sort' : list entry -> list entry),
  (forall k a b c, f k (f k a b) c = f k a (f k b c)) -> (forall k a b, f k a b = f k b a) ->
  (forall l, Permutation (sort l) l) -> (forall l, keys_le (sort l)) ->
  (forall l, Permutation (sort' l) l) -> (forall l, keys_le (sort' l)) ->
  forall max_memory max_memory' ops,
  exists s t, adds f sort (sorter_init max_memory) ops = Ok s /\ adds f sort' (sorter_init max_memory') ops = Ok t /\
  exists s1 t1, final_flush (Some (mf f)) sort s = Ok (s1, true) /\ final_flush (Some (mf f)) sort' t = Ok (t1, true) /\
    forall cs ct, Permutation cs (so_chunks s1) -> Permutation ct (so_chunks t1) ->
    exists s' t' it it',
      sorter_iter (Some (mf f)) sort (with_chunks s1 cs) = Ok (s', Some it) /\
      sorter_iter (Some (mf f)) sort' (with_chunks t1 ct) = Ok (t', Some it') /\
      forall n, (length ops <= n)%nat -> mdrain (mf f) (S n) it = mdrain (mf f) (S n) it'.
Proof.
  intros f sort sort' Ha Hc Hp Hs Hp' Hs' m m' ops.
  destruct (T06f_sorter_output_canonical f sort Ha Hc Hp Hs m ops) as (s & Hadds & s1 & Hfl & Hcs).
  destruct (T06f_sorter_output_canonical f sort' Ha Hc Hp' Hs' m' ops) as (t & Hadds' & t1 & Hfl' & Hct).
  exists s, t. split; [exact Hadds|]. split; [exact Hadds'|]. exists s1, t1. split; [exact Hfl|]. split; [exact Hfl'|].
  intros cs ct Pcs Pct.
  destruct (Hcs cs Pcs) as (s' & it & Hit & Hout). destruct (Hct ct Pct) as (t' & it' & Hit' & Hout').
  exists s', t', it, it'. split; [exact Hit|]. split; [exact Hit'|].
  intros n Hn. rewrite (Hout n Hn), (Hout' n Hn). reflexivity.
Qed.
Print Assumptions T06f_memory_limit_irrelevant.

(* the canonical output spelled out *)
Lemma canonical_unfold f ops :
  canonical f ops = map (fun k => (k, match vals k ops with [] => [] | v :: vs => fold_left (f k) vs v end)) (all_keys [ops]).
Proof. reflexivity. Qed.

(* the sequential sorter of T06a is the special case cs = so_chunks s1 *)
Corollary T06f_sequential :
  forall (f : bytes -> bytes -> bytes -> bytes) (sort : list entry -> list entry),
  (forall k a b c, f k (f k a b) c = f k a (f k b c)) -> (forall k a b, f k a b = f k b a) ->
  (forall l, Permutation (sort l) l) -> (forall l, keys_le (sort l)) ->
  forall max_memory ops,
  exists s, adds f sort (sorter_init max_memory) ops = Ok s /\
  exists s' it, sorter_iter (Some (mf f)) sort s = Ok (s', Some it) /\
    mdrain (mf f) (S (length ops)) it = canonical f ops.
Proof.
  intros f sort Ha Hc Hp Hs max_memory ops.
  destruct (any_order_core f Ha sort Hp Hs max_memory ops) as (s & Hadds & s1 & Hfl & _ & Hseq & Hcs).
  exists s. split; [exact Hadds|].
  destruct (Hcs (so_chunks s1) (Permutation_refl _)) as (s' & it & Hit & _ & _ & _ & _ & _ & Hlen & Hout & _).
  exists s', it. split; [rewrite Hseq; exact Hit|]. apply (out_ok_canonical f Ha Hc), Hout, Hlen.
Qed.
Print Assumptions T06f_sequential.

(* ---- T2 --------------------------------------------------------------------------------------------------- *)
Theorem T06g_history :
  forall (f : bytes -> bytes -> bytes -> bytes) (sort : list entry -> list entry),
  (forall k a b c, f k (f k a b) c = f k a (f k b c)) ->
  (forall l, Permutation (sort l) l) -> (forall l, keys_le (sort l)) ->
  forall max_memory ops,
  exists s, adds f sort (sorter_init max_memory) ops = Ok s /\
  exists s1, final_flush (Some (mf f)) sort s = Ok (s1, true) /\
    forall cs, Permutation cs (so_chunks s1) ->
    exists s' it, sorter_iter (Some (mf f)) sort (with_chunks s1 cs) = Ok (s', Some it) /\
      forall hist,
        map (option_map fst) (mrun (Some (mf f)) it hist) = krun (all_keys [ops]) (Some 0%nat) hist /\
        forall k v, In (Some (k, v)) (mrun (Some (mf f)) it hist) ->
          exists first rest, Permutation (first :: rest) (vals k ops) /\ fold_left (f k) rest first = v.
Proof.
  intros f sort Ha Hp Hs max_memory ops.
  destruct (any_order_core f Ha sort Hp Hs max_memory ops) as (s & Hadds & s1 & Hfl & _ & _ & Hcs).
  exists s. split; [exact Hadds|]. exists s1. split; [exact Hfl|]. intros cs Hperm.
  destruct (Hcs cs Hperm) as (s' & it & Hit & _ & _ & _ & _ & _ & _ & _ & Hh).
  exists s', it. split; [exact Hit|]. intros hist. exact (Hh hist).
Qed.
Print Assumptions T06g_history.

Theorem T06g_history_canonical :
  forall (f : bytes -> bytes -> bytes -> bytes) (sort : list entry -> list entry),
  (forall k a b c, f k (f k a b) c = f k a (f k b c)) -> (forall k a b, f k a b = f k b a) ->
  (forall l, Permutation (sort l) l) -> (forall l, keys_le (sort l)) ->
  forall max_memory ops,
  exists s, adds f sort (sorter_init max_memory) ops = Ok s /\
  exists s1, final_flush (Some (mf f)) sort s = Ok (s1, true) /\
    forall cs, Permutation cs (so_chunks s1) ->
    exists s' it, sorter_iter (Some (mf f)) sort (with_chunks s1 cs) = Ok (s', Some it) /\
      forall hist, mrun (Some (mf f)) it hist = srun (canonical f ops) (Some 0%nat) hist.
Proof.
  intros f sort Ha Hc Hp Hs max_memory ops.
  destruct (any_order_core f Ha sort Hp Hs max_memory ops) as (s & Hadds & s1 & Hfl & _ & _ & Hcs).
  exists s. split; [exact Hadds|]. exists s1. split; [exact Hfl|]. intros cs Hperm.
  destruct (Hcs cs Hperm) as (s' & it & Hit & _ & _ & _ & _ & _ & _ & _ & Hh).
  exists s', it. split; [exact Hit|]. intros hist. exact (hist_ok_canonical f Ha Hc ops it hist (Hh hist)).
Qed.
Print Assumptions T06g_history_canonical.

(* ---- T3 --------------------------------------------------------------------------------------------------- *)
Section C06Write.
Variable compress_default : N -> bytes -> res bytes.
Variable compress_level : N -> Z -> bytes -> res bytes.
Variable decompress : N -> bytes -> res bytes.
Hypothesis decompress_compress_default : forall a raw c, compress_default a raw = Ok c -> decompress a c = Ok raw.
Hypothesis decompress_compress_level : forall a l raw c, compress_level a l raw = Ok c -> decompress a c = Ok raw.

Theorem T06h_sorter_write :
  forall (f : bytes -> bytes -> bytes -> bytes) (sort : list entry -> list entry),
  (forall k a b c, f k (f k a b) c = f k a (f k b c)) ->
  (forall l, Permutation (sort l) l) -> (forall l, keys_le (sort l)) ->
  forall max_memory ops,
  exists s, adds f sort (sorter_init max_memory) ops = Ok s /\
  exists s1, final_flush (Some (mf f)) sort s = Ok (s1, true) /\
    forall cs, Permutation cs (so_chunks s1) ->
    exists s' it, sorter_iter (Some (mf f)) sort (with_chunks s1 cs) = Ok (s', Some it) /\
      let out := mdrain (mf f) (S (length ops)) it in
      forall o prefix w' rs, 1 <= wo_interval o ->
        (* the writer session over the iterator's output does not abort, and sizes fit (as in C01) *)
        writer_session compress_default compress_level o (len prefix) out = Ok (w', rs) ->
        table_fits o prefix out w' ->
        (* mtbl_sorter_write on the fresh writer returns success; destroying the writer gives w' *)
        (exists w1, sorter_write (Some (mf f)) sort compress_default compress_level (with_chunks s1 cs) (writer_init o (len prefix))
                      = Ok (s', w1, true) /\
                    writer_finish compress_default compress_level w1 = Ok w') /\
        so_iterating s' = true /\
        Forall (fun b => b = true) rs /\
        read_all decompress (S (length out)) (prefix ++ writer_bytes w') = Ok out.
Proof.
  intros f sort Ha Hp Hs max_memory ops.
  destruct (sorter_write_core f Ha sort Hp Hs compress_default compress_level decompress
              decompress_compress_default decompress_compress_level max_memory ops) as (s & Hadds & s1 & Hfl & _ & Hcs).
  exists s. split; [exact Hadds|]. exists s1. split; [exact Hfl|]. intros cs Hperm.
  destruct (Hcs cs Hperm) as (s' & it & Hit & _ & Hw). exists s', it. split; [exact Hit|]. exact Hw.
Qed.

(* commutative merge function: the file holds the canonical output *)
Theorem T06h_sorter_write_canonical :
  forall (f : bytes -> bytes -> bytes -> bytes) (sort : list entry -> list entry),
  (forall k a b c, f k (f k a b) c = f k a (f k b c)) -> (forall k a b, f k a b = f k b a) ->
  (forall l, Permutation (sort l) l) -> (forall l, keys_le (sort l)) ->
  forall max_memory ops,
  exists s, adds f sort (sorter_init max_memory) ops = Ok s /\
  exists s1, final_flush (Some (mf f)) sort s = Ok (s1, true) /\
    forall cs, Permutation cs (so_chunks s1) ->
    forall o prefix w' rs, 1 <= wo_interval o ->
      writer_session compress_default compress_level o (len prefix) (canonical f ops) = Ok (w', rs) ->
      table_fits o prefix (canonical f ops) w' ->
      exists s' w1,
        sorter_write (Some (mf f)) sort compress_default compress_level (with_chunks s1 cs) (writer_init o (len prefix)) = Ok (s', w1, true) /\
        writer_finish compress_default compress_level w1 = Ok w' /\
        so_iterating s' = true /\
        read_all decompress (S (length (canonical f ops))) (prefix ++ writer_bytes w') = Ok (canonical f ops).
Proof.
  intros f sort Ha Hc Hp Hs max_memory ops.
  destruct (sorter_write_core f Ha sort Hp Hs compress_default compress_level decompress
              decompress_compress_default decompress_compress_level max_memory ops) as (s & Hadds & s1 & Hfl & _ & Hcs).
  exists s. split; [exact Hadds|]. exists s1. split; [exact Hfl|]. intros cs Hperm o prefix w' rs Hint Hsess Hfits.
  destruct (Hcs cs Hperm) as (s' & it & Hit & Hout & Hw). cbn zeta in Hout, Hw.
  rewrite (out_ok_canonical f Ha Hc ops _ Hout) in Hw.
  destruct (Hw o prefix w' rs Hint Hsess Hfits) as ((w1 & Hsw & Hfin) & Hi' & _ & Hread).
  exists s', w1. repeat split; assumption.
Qed.
End C06Write.
Print Assumptions T06h_sorter_write.
Print Assumptions T06h_sorter_write_canonical.

(* refusals: for every merge function, qsort and writer *)
Theorem T06h_refused : forall mergef sort cd cl,
  (forall s w, so_iterating s = true -> sorter_write mergef sort cd cl s w = Ok (s, w, false)) /\
  (forall s w s' w', sorter_write mergef sort cd cl s w = Ok (s', w', true) ->
     so_iterating s' = true /\
     (forall w2, sorter_write mergef sort cd cl s' w2 = Ok (s', w2, false)) /\
     (forall k v, sorter_add mergef sort s' k v = Ok (s', false))) /\
  (forall s s' it w, sorter_iter mergef sort s = Ok (s', Some it) -> sorter_write mergef sort cd cl s' w = Ok (s', w, false)).
Proof.
  intros mergef sort cd cl. split; [|split].
  - apply sorter_write_refused.
  - intros s w s' w' H. split; [eapply sorter_write_sets_flag; exact H|]. split.
    + intros w2. eapply sorter_write_twice; exact H.
    + intros k v. eapply sorter_add_after_write; exact H.
  - intros s s' it w H. apply sorter_write_refused. eapply sorter_iter_sets_flag; exact H.
Qed.
Print Assumptions T06h_refused.

(* ---- T4 --------------------------------------------------------------------------------------------------- *)
Section C06Chunk.
Variable compress_default : N -> bytes -> res bytes.
Variable compress_level : N -> Z -> bytes -> res bytes.
Variable decompress : N -> bytes -> res bytes.
Hypothesis decompress_compress_default : forall a raw c, compress_default a raw = Ok c -> decompress a c = Ok raw.
Hypothesis decompress_compress_level : forall a l raw c, compress_level a l raw = Ok c -> decompress a c = Ok raw.

Theorem T06i_chunk_roundtrip : forall mergef (sort : list entry -> list entry),
  (forall l, keys_le (sort l)) ->
  forall batch c w' rs,
  write_chunk mergef sort batch = Ok (Some c) ->
  persist_chunk compress_default compress_level c = Ok (w', rs) -> table_fits chunk_wopts [] c w' ->
  Forall (fun b => b = true) rs /\ read_all decompress (S (length c)) (writer_bytes w') = Ok c.
Proof.
  intros mergef sort Hs batch c w' rs.
  exact (chunk_roundtrip sort Hs compress_default compress_level decompress decompress_compress_default decompress_compress_level
           mergef batch c w' rs).
Qed.

Theorem T06i_chunk_reader_is_cursor : forall mergef (sort : list entry -> list entry),
  (forall l, Permutation (sort l) l) -> (forall l, keys_le (sort l)) ->
  forall batch c w' rs,
  batch <> [] -> write_chunk mergef sort batch = Ok (Some c) ->
  persist_chunk compress_default compress_level c = Ok (w', rs) -> table_fits chunk_wopts [] c w' ->
  exists r it, fst (reader_open (writer_bytes w') false) = Ok (Some r) /\
    reader_iter decompress r = Ok (Some it) /\
    forall ops, run_model decompress r it ops = Ok (sc_run (mksc c 0 true BAll false) ops).
Proof.
  intros mergef sort Hp Hs batch c w' rs.
  exact (chunk_reader_is_cursor sort Hp Hs compress_default compress_level decompress decompress_compress_default decompress_compress_level
           mergef batch c w' rs).
Qed.
End C06Chunk.
Print Assumptions T06i_chunk_roundtrip.
Print Assumptions T06i_chunk_reader_is_cursor.

(* ---- T5 --------------------------------------------------------------------------------------------------- *)
Import SorterSpill.
Theorem T06j_spill_path : forall tmp_dname pid r path,
  ~ In nul tmp_dname ->
  mkstemp (spill_template tmp_dname pid) r = Some path ->
  exists name, path = (tmp_dname ++ slash :: name)%list /\ name <> nil /\ ~ In slash name /\
               (length (tmp_dname ++ [slash]) < length path)%nat /\
               firstn (length (tmp_dname ++ [slash])) path = (tmp_dname ++ [slash])%list /\
               dirname path = tmp_dname.
Proof. exact spill_path_inside_tmp_dir. Qed.
Print Assumptions T06j_spill_path.

(* ---- a concrete qsort and concrete merge functions: the hypotheses are satisfiable --------------------------- *)
Fixpoint kinsert (e : entry) (l : list entry) : list entry :=
  match l with
  | [] => [e]
  | x :: tl => match bcmp (fst e) (fst x) with Gt => x :: kinsert e tl | _ => e :: l end
  end.
Definition isort (l : list entry) : list entry := fold_right kinsert [] l.

Lemma kinsert_perm e : forall l, Permutation (kinsert e l) (e :: l).
Proof.
  induction l as [|x l IH]; [apply Permutation_refl|]. cbn [kinsert]. destruct (bcmp (fst e) (fst x)); try apply Permutation_refl.
  eapply Permutation_trans; [apply perm_skip, IH|apply perm_swap].
Qed.
Lemma isort_perm : forall l, Permutation (isort l) l.
Proof.
  induction l as [|e l IH]; [constructor|]. cbn [isort fold_right]. fold (isort l).
  eapply Permutation_trans; [apply kinsert_perm|apply perm_skip, IH].
Qed.
Lemma keys_le_cons x l : keys_le l -> (forall b, hd_error l = Some b -> bcmp (fst x) (fst b) <> Gt) -> keys_le (x :: l).
Proof. intros Hl Hh. destruct l as [|b l]; [exact I|]. split; [apply Hh; reflexivity|exact Hl]. Qed.
Lemma kinsert_hd e : forall l b, hd_error (kinsert e l) = Some b -> b = e \/ hd_error l = Some b.
Proof.
  intros [|x l] b; cbn [kinsert]; [intros H; inversion H; left; reflexivity|].
  destruct (bcmp (fst e) (fst x)); cbn [hd_error]; intros H; inversion H; auto.
Qed.
Lemma kinsert_sorted e : forall l, keys_le l -> keys_le (kinsert e l).
Proof.
  induction l as [|x l IH]; intros Hl; [exact I|]. cbn [kinsert].
  assert (Hl' : keys_le l) by (destruct l as [|y l]; [exact I|exact (proj2 Hl)]).
  destruct (bcmp (fst e) (fst x)) eqn:E.
  - split; [rewrite E; discriminate|exact Hl].
  - split; [rewrite E; discriminate|exact Hl].
  - apply keys_le_cons; [apply IH, Hl'|]. intros b Hb. destruct (kinsert_hd e l b Hb) as [->|Hb'].
    + apply bcmp_lt_gt in E. rewrite E. discriminate.
    + destruct l as [|y l]; [discriminate|]. inversion Hb'; subst y. exact (proj1 Hl).
Qed.
Lemma isort_sorted : forall l, keys_le (isort l).
Proof. induction l as [|e l IH]; [exact I|]. cbn [isort fold_right]. fold (isort l). apply kinsert_sorted, IH. Qed.

(* a counting merge function (sum of the first bytes, modulo 256): associative and commutative *)
Definition fsum (_ a b : bytes) : bytes := [(hd 0 a + hd 0 b) mod 256].
Lemma fsum_assoc k a b c : fsum k (fsum k a b) c = fsum k a (fsum k b c).
Proof.
  unfold fsum. cbn [hd]. f_equal. rewrite N.add_mod_idemp_l, N.add_mod_idemp_r by discriminate. f_equal. lia.
Qed.
Lemma fsum_comm k a b : fsum k a b = fsum k b a.
Proof. unfold fsum. rewrite N.add_comm. reflexivity. Qed.
(* a concatenating merge function: associative, not commutative *)
Definition fcat (_ a b : bytes) : bytes := a ++ [124] ++ b.
Lemma fcat_assoc k a b c : fcat k (fcat k a b) c = fcat k a (fcat k b c).
Proof. unfold fcat. rewrite <- !app_assoc. reflexivity. Qed.

(* the closed instance: insertion sort, counting merge, every memory limit, every collection order *)
Corollary T06f_instance : forall max_memory ops,
  exists s, adds fsum isort (sorter_init max_memory) ops = Ok s /\
  exists s1, final_flush (Some (mf fsum)) isort s = Ok (s1, true) /\
    forall cs, Permutation cs (so_chunks s1) ->
    exists s' it, sorter_iter (Some (mf fsum)) isort (with_chunks s1 cs) = Ok (s', Some it) /\
      forall n, (length ops <= n)%nat -> mdrain (mf fsum) (S n) it = canonical fsum ops.
Proof. exact (T06f_sorter_output_canonical fsum isort fsum_assoc fsum_comm isort_perm isort_sorted). Qed.
Print Assumptions T06f_instance.

(* ---- examples (vm_compute) -------------------------------------------------------------------------------- *)
Definition ex_ops : list entry := [([98], [1]); ([97], [2]); ([97], [3]); ([99], [4]); ([98], [5]); ([97], [6])].
(* 18 bytes per entry, limit 36: a spill every two entries, three chunks *)
Definition ex_state (f : bytes -> bytes -> bytes -> bytes) : sorter :=
  match adds f isort (sorter_init 36) ex_ops with
  | Ok s => match final_flush (Some (mf f)) isort s with Ok (s1, _) => s1 | _ => s end
  | _ => sorter_init 0
  end.
Definition ex_out (f : bytes -> bytes -> bytes -> bytes) (st : sorter) : list entry :=
  match sorter_iter (Some (mf f)) isort st with Ok (_, Some it) => mdrain (mf f) 7 it | _ => [] end.

(* three chunks collected in two different orders, commutative merge: the same, canonical output *)
Example T06_pool_example :
  so_chunks (ex_state fsum) = [Some [([97], [2]); ([98], [1])]; Some [([97], [3]); ([99], [4])]; Some [([97], [6]); ([98], [5])]] /\
  let order2 := [Some [([97], [6]); ([98], [5])]; Some [([97], [2]); ([98], [1])]; Some [([97], [3]); ([99], [4])]] in
  ex_out fsum (ex_state fsum) = [([97], [11]); ([98], [6]); ([99], [4])] /\
  ex_out fsum (with_chunks (ex_state fsum) order2) = [([97], [11]); ([98], [6]); ([99], [4])] /\
  ex_out fsum (with_chunks (ex_state fsum) (rev (so_chunks (ex_state fsum)))) = [([97], [11]); ([98], [6]); ([99], [4])] /\
  canonical fsum ex_ops = [([97], [11]); ([98], [6]); ([99], [4])].
Proof. vm_compute. repeat split. Qed.

(* COUNTEREXAMPLE to "the output is the same with and without a pool" for a merge function that is associative
   but not commutative: the same three chunks, two collection orders, different values for keys 97 and 98
   (both are folds over arrangements of exactly the values added, as T06e says; neither is the input order
   2|3|6 of key 97) *)
Example T06_order_matters_without_commutativity :
  ex_out fcat (ex_state fcat) = [([97], [2; 124; 6; 124; 3]); ([98], [1; 124; 5]); ([99], [4])] /\
  ex_out fcat (with_chunks (ex_state fcat) (rev (so_chunks (ex_state fcat)))) = [([97], [6; 124; 2; 124; 3]); ([98], [5; 124; 1]); ([99], [4])] /\
  canonical fcat ex_ops = [([97], [2; 124; 3; 124; 6]); ([98], [1; 124; 5]); ([99], [4])].
Proof. vm_compute. repeat split. Qed.

(* a history with seeks on the iterator, chunks in reversed order *)
Example T06_history_example :
  match sorter_iter (Some (mf fsum)) isort (with_chunks (ex_state fsum) (rev (so_chunks (ex_state fsum)))) with
  | Ok (_, Some it) =>
    mrun (Some (mf fsum)) it [MNext; MSeek [98]; MNext; MNext; MNext; MNext; MSeek [97; 0]; MNext; MSeek []; MNext]
    = [Some ([97], [11]); None; Some ([98], [6]); Some ([99], [4]); None; None; None; Some ([98], [6]); None; Some ([97], [11])]
  | _ => False
  end.
Proof. vm_compute. reflexivity. Qed.

(* mtbl_sorter_write (no compression, 3 foreign bytes in front), the table read back, the second write refused;
   COUNTEREXAMPLE to "mtbl_sorter_iter after mtbl_sorter_write is refused": it returns a fresh iterator that
   delivers the whole output again (mtbl_sorter_iter does not test s->iterating, in sorter.c as in the model) *)
Example T06_iter_after_write_not_refused :
  let cd := fun (_ : N) (_ : bytes) => @Fail bytes in
  let cl := fun (_ : N) (_ : Z) (_ : bytes) => @Fail bytes in
  let o := mkwopts 0 (-10000)%Z 1024 16 in
  let prefix := [7; 7; 7] in
  match sorter_write (Some (mf fcat)) isort cd cl (ex_state fcat) (writer_init o (len prefix)) with
  | Ok (s', w1, r) =>
    r = true /\ so_iterating s' = true /\
    match writer_finish cd cl w1 with
    | Ok w' => read_all (fun _ _ => Fail) 7 (prefix ++ writer_bytes w') = Ok (ex_out fcat (ex_state fcat))
    | _ => False
    end /\
    sorter_write (Some (mf fcat)) isort cd cl s' w1 = Ok (s', w1, false) /\
    sorter_add (Some (mf fcat)) isort s' [100] [1] = Ok (s', false) /\
    match sorter_iter (Some (mf fcat)) isort s' with
    | Ok (_, Some it) => mdrain (mf fcat) 7 it = [([97], [2; 124; 6; 124; 3]); ([98], [1; 124; 5]); ([99], [4])]
    | _ => False
    end
  | _ => False
  end.
Proof. vm_compute. repeat split. Qed.
