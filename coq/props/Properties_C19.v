(* C19 - Opening arbitrary bytes as a table never reads outside the file *)
From Coq Require Import NArith List Lia.
From Mtbl Require Import gen.Consts model.Bytes model.Writer spec.Parse model.Reader proofs.OpenProofs.
(* source ties: the statements of the C functions the model follows (gen/Ties.v is regenerated from /repo on every run) *)
From Mtbl Require props.Ties_C19.
Local Open Scope N_scope.

(* T19a: for EVERY byte string f and either setting of verify_checksums, the model
   of mtbl_reader_init_fd (magic/version, index offset bound with overflow test,
   index length prefix in both formats, the bound of the index block against the
   trailer, optional index checksum, block_init's restart-count read) records only
   read extents [off, off+len) inside f, and its outcome is NULL, a reader, or an
   assertion stop - never an out-of-bounds read. *)
Theorem T19a_open_reads_in_bounds : forall f verify, wf_bytes f ->
  fst (reader_open f verify) <> Oob /\
  Forall (fun e => fst e + snd e <= len f) (snd (reader_open f verify)).
Proof. exact reader_open_in_bounds. Qed.
Print Assumptions T19a_open_reads_in_bounds.

(* non-vacuity: the three outcome classes occur *)
Example T19_examples :
  fst (reader_open [] false) = Ok None /\
  fst (reader_open (repeat 0 600) true) = Ok None /\
  (exists r, fst (reader_open ([8] ++ [0;0;0;0] ++ [0;0;0;0; 1;0;0;0] ++ repeat 0 508 ++ [76; 66; 84; 77]) false) = Ok (Some r)).
Proof.
  split; [reflexivity|]. split; [vm_compute; reflexivity|].
  vm_compute. eexists. reflexivity.
Qed.
