(* C03 - Reader iterators: seek then next yields first entry >= target, from any state.
   Proved at two levels.  Block iterator (block.c): T03a/T03b, for every well-formed
   block and every reachable iterator state.  Reader iterator (reader.c): T03c/T03d,
   for every table that satisfies table_ok (well-formed index and data blocks, index
   values = distinct block offsets that get_block loads, separators between the last
   key of a block and the first key of the next) every history of next / seek calls on
   each of the four iterator kinds equals the same history run on a cursor over the
   sorted list of all entries: seek(k) moves the cursor to the first entry >= k, next
   delivers the entry under the cursor if it meets the bound and otherwise fails, and
   failure is sticky until the next seek.  That the files produced by the writer (or by
   any legal encoder) satisfy table_ok is the subject of C01/C09/C11; the tie of the
   reader model to reader.c/block.c is engine rd (step by step, all four kinds, several
   iterators of one reader interleaved, buffers checked after the following call). *)
From Coq Require Import NArith List Lia.
From Mtbl Require Import model.Bytes model.Order spec.Parse model.Reader proofs.BlockProofs proofs.ReaderProofs proofs.LookupRel.
(* source ties: the statements of the C functions the model follows (gen/Ties.v is regenerated from /repo on every run) *)
From Mtbl Require props.Ties_C03.
Local Open Scope N_scope.

(* T03a: block_iter_seek.  For every well-formed non-empty block b (offsets and keys
   strictly increasing, restart array = offsets of entries ridx, first restart at
   entry 0, nothing shared at restart points), EVERY iterator state s that the API
   can produce (valid at an entry whose restart index does not lie beyond it, or
   invalid) and every target: the galloping search from the current restart index,
   the binary search, the "continue from the current entry" shortcut and the
   linear scan leave the iterator at the first entry whose key is >= target
   (all earlier entries are < target, the entry it stands on is not), or invalid
   when every entry is < target. *)
Theorem T03a_block_seek : forall b ridx, wfb b ridx -> forall s target, st_ok b ridx s ->
  exists s', block_seek b s target = Ok s' /\
    st_ok b ridx s' /\
    (forall j, (j < nentries b)%nat -> (j < (if bs_valid s' then bs_cur s' else nentries b))%nat ->
               bcmp (key_at b j) target = Lt) /\
    (bs_valid s' = true -> bcmp (key_at b (bs_cur s')) target <> Lt).
Proof.
  intros b ridx W s target Hs. destruct (block_seek_ok b ridx W s target Hs) as (s' & H & Hp).
  exists s'. split; [exact H|exact Hp].
Qed.
Print Assumptions T03a_block_seek.

(* T03b: seek_to_first stands on entry 0; next moves to the following entry or
   becomes invalid after the last one; both preserve the state invariant *)
Theorem T03b_block_walk : forall b ridx, wfb b ridx ->
  (exists s, block_seek_to_first b = Ok s /\ st_ok b ridx s /\ bs_valid s = true /\ bs_cur s = 0%nat) /\
  (forall s, st_ok b ridx s -> bs_valid s = true ->
     st_ok b ridx (block_next b s) /\
     (if Nat.ltb (S (bs_cur s)) (nentries b)
      then bs_valid (block_next b s) = true /\ bs_cur (block_next b s) = S (bs_cur s)
      else bs_valid (block_next b s) = false)).
Proof.
  intros b ridx W. split; [exact (seek_first_ok b ridx W)|exact (block_next_ok b ridx W)].
Qed.
Print Assumptions T03b_block_walk.

(* non-vacuity: a three-entry block with two restart points satisfies wfb, and a seek
   from the state reached by stepping lands where the theorem says *)
Definition ex_block : ablock :=
  mkab [mkpe 0 0 [1] [7] true; mkpe 5 1 [1; 2] [8] true; mkpe 11 0 [3] [9] true] [0; 11] 23 false.
Example T03_example_wf : wfb ex_block [0%nat; 2%nat].
Proof.
  constructor; cbn; try lia.
  - intros i j H. destruct i as [|[|[|i]]], j as [|[|[|j]]]; cbn; lia.
  - intros i j H. destruct i as [|[|[|i]]], j as [|[|[|j]]]; try lia; reflexivity.
  - intros i H. destruct i as [|[|i]]; [| |lia]; cbn; repeat split; lia.
  - intros i j H. destruct i as [|[|i]], j as [|[|j]]; cbn; lia.
Qed.
Example T03_example_run :
  block_seek ex_block (mkbs true 1 0) [3] = Ok (mkbs true 2 0) /\
  block_seek ex_block (mkbs true 2 1) [1; 1] = Ok (mkbs true 1 0) /\
  block_seek ex_block (mkbs false 0 2) [4] = Ok (mkbs false 0 2).
Proof. vm_compute. repeat split. Qed.

(* T03c: reader level.  [run_model] runs reader_iter_next / reader_iter_seek of the
   reader model over a list of operations; [run_spec] runs the same list on a cursor
   (option nat: position in the sorted entry list, None = failed) with
     next  : deliver entry p and move to p+1 if p is inside the list and the entry
             satisfies the bound of the iterator kind, else fail (cursor None);
     seek k: cursor := number of entries with key < k  (= first entry >= k).
   For the iterator of mtbl_source_iter and for those of get / get_prefix / get_range,
   after ANY history the model answers what the cursor answers. *)
Theorem T03c_reader_history_iter : forall decompress r ib iridx nb B Rr,
  table_ok decompress r ib iridx nb B Rr ->
  exists it, reader_iter decompress r = Ok (Some it) /\
  forall ops, run_model decompress r it ops = Ok (run_spec nb B KIter (it_k it) (Some 0%nat) ops).
Proof. exact table_history_iter. Qed.
Print Assumptions T03c_reader_history_iter.

Theorem T03c_reader_history_lookup : forall decompress r ib iridx nb B Rr,
  table_ok decompress r ib iridx nb B Rr ->
  forall kind key bound,
  match reader_iter_init decompress r kind key bound with
  | Ok (Some it) => forall ops, run_model decompress r it ops = Ok (run_spec nb B kind bound (Some (gfirst nb B key)) ops)
  | Ok None => gfirst nb B key = total nb B          (* NULL iterator: no entry >= key *)
  | _ => False
  end.
Proof. exact table_history_lookup. Qed.
Print Assumptions T03c_reader_history_lookup.

(* T03e: a seek forgets the history ("from any state").  Take the iterator of
   mtbl_source_iter or of a lookup and ANY two histories pre, pre' of next / seek calls;
   after seek(key) the answers to every continuation post are the same list - the one a
   fresh cursor placed on the first entry >= key gives.  (The pinned tree broke exactly
   this: F1, a seek answered from the block a previous next had left behind.) *)
Theorem T03e_seek_forgets_history : forall decompress r ib iridx nb B Rr,
  table_ok decompress r ib iridx nb B Rr ->
  forall kind key0 bound,
  match reader_iter_init decompress r kind key0 bound with
  | Ok (Some it) => forall pre pre' key post, exists out out',
      length out = length pre /\ length out' = length pre' /\
      run_model decompress r it (pre ++ RSeek key :: post) =
        Ok (out ++ None :: run_spec nb B kind bound (Some (gfirst nb B key)) post) /\
      run_model decompress r it (pre' ++ RSeek key :: post) =
        Ok (out' ++ None :: run_spec nb B kind bound (Some (gfirst nb B key)) post)
  | Ok None => True
  | _ => False
  end.
Proof.
  intros decompress r ib iridx nb B Rr T kind key0 bound.
  pose proof (T03c_reader_history_lookup decompress r ib iridx nb B Rr T kind key0 bound) as H.
  destruct (reader_iter_init decompress r kind key0 bound) as [[it|]| | |]; try exact H; [|exact I].
  intros pre pre' key post.
  destruct (run_spec_seek_forgets nb B kind bound key post pre (Some (gfirst nb B key0))) as (out & Hl & Hr).
  destruct (run_spec_seek_forgets nb B kind bound key post pre' (Some (gfirst nb B key0))) as (out' & Hl' & Hr').
  exists out, out'. rewrite !H, Hr, Hr'. repeat split; assumption.
Qed.
Print Assumptions T03e_seek_forgets_history.

(* T03d: the cursor positions used above mean what the statement says: gfirst k is the
   unique position p with every entry before p < k and the entry at p (if any) >= k,
   and the entry list is strictly increasing *)
Theorem T03d_cursor_meaning : forall decompress r ib iridx nb B Rr,
  table_ok decompress r ib iridx nb B Rr ->
  (forall p q, (p < q < total nb B)%nat -> bcmp (gkey nb B p) (gkey nb B q) = Lt) /\
  (forall k p, (p <= total nb B)%nat ->
     (forall q, (q < p)%nat -> bcmp (gkey nb B q) k = Lt) ->
     ((p < total nb B)%nat -> bcmp (gkey nb B p) k <> Lt) -> gfirst nb B k = p).
Proof.
  intros decompress r ib iridx nb B Rr T. destruct T. split.
  - intros p q H. eapply gkey_lt; eassumption.
  - intros k p H1 H2 H3. eapply gfirst_unique; eassumption.
Qed.
Print Assumptions T03d_cursor_meaning.
