(* C03 - Reader iterators: seek then next yields first entry >= target, from any state.
   Proved here at the block-iterator level (block.c) for every well-formed block and
   every reachable iterator state; the reader-level lifting (index / block hand-over,
   block_offset bookkeeping) is Properties_C03 part 2 in proofs/ReaderProofs.v when
   present, and is validated step by step against the implementation and the
   sorted-list cursor by engine rd. *)
From Coq Require Import NArith List Lia.
From Mtbl Require Import model.Bytes model.Order spec.Parse model.Reader proofs.BlockProofs.
Local Open Scope N_scope.

(* T03a: block_iter_seek.  For every well-formed non-empty block b (offsets and keys
   strictly increasing, restart array = offsets of entries ridx, first restart at
   entry 0, nothing shared at restart points), EVERY iterator state s that the API
   can produce (valid at an entry whose restart index does not lie beyond it, or
   invalid) and every target: the galloping search from the current restart index,
   the binary search, the "continue from the current entry" shortcut and the
   linear scan leave the iterator at the first entry whose key is >= target
   (all earlier entries are < target, the entry it stands on is not), or invalid
   when every entry is < target. *)
Theorem T03a_block_seek : forall b ridx, wfb b ridx -> forall s target, st_ok b ridx s ->
  exists s', block_seek b s target = Ok s' /\
    st_ok b ridx s' /\
    (forall j, (j < nentries b)%nat -> (j < (if bs_valid s' then bs_cur s' else nentries b))%nat ->
               bcmp (key_at b j) target = Lt) /\
    (bs_valid s' = true -> bcmp (key_at b (bs_cur s')) target <> Lt).
Proof.
  intros b ridx W s target Hs. destruct (block_seek_ok b ridx W s target Hs) as (s' & H & Hp).
  exists s'. split; [exact H|exact Hp].
Qed.
Print Assumptions T03a_block_seek.

(* T03b: seek_to_first stands on entry 0; next moves to the following entry or
   becomes invalid after the last one; both preserve the state invariant *)
Theorem T03b_block_walk : forall b ridx, wfb b ridx ->
  (exists s, block_seek_to_first b = Ok s /\ st_ok b ridx s /\ bs_valid s = true /\ bs_cur s = 0%nat) /\
  (forall s, st_ok b ridx s -> bs_valid s = true ->
     st_ok b ridx (block_next b s) /\
     (if Nat.ltb (S (bs_cur s)) (nentries b)
      then bs_valid (block_next b s) = true /\ bs_cur (block_next b s) = S (bs_cur s)
      else bs_valid (block_next b s) = false)).
Proof.
  intros b ridx W. split; [exact (seek_first_ok b ridx W)|exact (block_next_ok b ridx W)].
Qed.
Print Assumptions T03b_block_walk.

(* non-vacuity: a three-entry block with two restart points satisfies wfb, and a seek
   from the state reached by stepping lands where the theorem says *)
Definition ex_block : ablock :=
  mkab [mkpe 0 0 [1] [7] true; mkpe 5 1 [1; 2] [8] true; mkpe 11 0 [3] [9] true] [0; 11] 23 false.
Example T03_example_wf : wfb ex_block [0%nat; 2%nat].
Proof.
  constructor; cbn; try lia.
  - intros i j H. destruct i as [|[|[|i]]], j as [|[|[|j]]]; cbn; lia.
  - intros i j H. destruct i as [|[|[|i]]], j as [|[|[|j]]]; try lia; reflexivity.
  - intros i H. destruct i as [|[|i]]; [| |lia]; cbn; repeat split; lia.
  - intros i j H. destruct i as [|[|i]], j as [|[|j]]; cbn; lia.
Qed.
Example T03_example_run :
  block_seek ex_block (mkbs true 1 0) [3] = Ok (mkbs true 2 0) /\
  block_seek ex_block (mkbs true 2 1) [1; 1] = Ok (mkbs true 1 0) /\
  block_seek ex_block (mkbs false 0 2) [4] = Ok (mkbs false 0 2).
Proof. vm_compute. repeat split. Qed.
