(* C03, the two clauses about MEMORY: "... whatever is done to other iterators of the same reader in
   between; the key/value buffers handed out stay intact until the next call on that iterator."
   In the functional model of Properties_C03.v an iterator is a value and both clauses are true by
   construction.  model/IterMem.v is a memory-level model in which they can fail, written by following
   reader.c / block.c / ubuf.h: a heap of buffers with fresh ids (never reused, a read of a freed buffer
   is an error), the immutable mapping of the file, and per iterator WHERE its things live - the key
   ubuf of its index iterator, the key ubuf of its data-block iterator, the data of the current block
   (in the mapping for an uncompressed table, a malloc'ed buffer for a compressed one), the bound key -
   with the allocation, in-place rewrite / realloc-and-move (arbitrary policy [pol] per rewrite) and free
   pattern of the C code; next hands out ADDRESSES.  A multi-iterator machine interleaves creation,
   next, seek and destruction of any number of iterators of one reader.
   T03m_refinement - every history runs without memory fault; the functional components and answers are
     those of model/Reader.v after the same history; the addresses handed out by a successful next
     dereference to exactly the key and value the functional model returns.
   T03m_noninterference - ownership sets of distinct live iterators are disjoint, owned buffers are live;
     an operation never writes the file, changes among existing buffers only those owned by the iterator it
     acts on, and leaves every other iterator and the content of all its buffers exactly as they were.
   T03m_stability - the property's clause: after a successful next on iterator i, ANY sequence of
     operations none of which acts on i (next / seek / destroy of other iterators, creation of new ones)
     leaves the key and value bytes readable and unchanged at the addresses handed out.
   T03m_iterator_frees_everything - destroying an iterator frees each buffer it owns (no leak, no double
     free: a second free would be a fault, excluded by T03m_refinement).
   Not trivially permissive: proofs/IterMemProofs.v has examples (vm_compute on a written table) where a
   further next on the SAME iterator makes the old addresses unreadable (compressed table: key and value;
   moving realloc: the key).  A design with the key buffer in the reader, shared by its iterators, fails
   the disjointness invariant at the second creation.
   Tie to the code: source ties of reader_iter_next / reader_iter_seek / parse_next_key / block_iter_seek
   (Ties_C03) and engine rd, which re-reads the handed-out pointers of several interleaved iterators
   before their next call. *)
From Coq Require Import NArith List.
From Mtbl Require Import model.Bytes spec.Parse model.Reader model.IterMem proofs.ReaderProofs
  proofs.IterMemBase proofs.IterMemMulti proofs.IterMemProofs.
Import ListNotations.

Section C03_mem.
Variable decompress : N -> bytes -> res bytes.
Variable pol : mem -> nat -> bytes -> bool.        (* per rewrite of a key ubuf: in place, or moved to a fresh buffer *)
Variable r : reader.
Variable ib : ablock.
Variable iridx : list nat.
Variable nb : nat.
Variable B : nat -> ablock.
Variable Rr : nat -> list nat.
Hypothesis T : table_ok decompress r ib iridx nb B Rr.

Theorem T03m_refinement : forall ops, exists st outs,
  mrun decompress pol r (ms_init r) ops = MOk (st, outs) /\
  frun decompress r [] ops = Ok (proj st, map fo outs) /\
  match last outs OBad with
  | ONext (NOk ka kl va vl e) =>
      deref (ms_mem st) ka kl = Some (fst e) /\ deref (ms_mem st) va vl = Some (snd e)
  | _ => True
  end.
Proof. exact (M1 decompress pol r ib iridx nb B Rr T). Qed.

Theorem T03m_noninterference : forall st, reachable decompress pol r st ->
  (forall i j mi mj, i <> j -> slot st i = Some mi -> slot st j = Some mj ->
     forall id, In id (owns mi) -> ~ In id (owns mj)) /\
  (forall i mi id, slot st i = Some mi -> In id (owns mi) -> live (ms_mem st) id <> None) /\
  forall op, exists st' o, mstep decompress pol r st op = MOk (st', o) /\
    m_file (ms_mem st') = m_file (ms_mem st) /\
    (forall id, (id < m_next (ms_mem st))%nat -> hg (ms_mem st') id <> hg (ms_mem st) id ->
       exists i mi, target op = Some i /\ slot st i = Some mi /\ In id (owns mi)) /\
    (forall j mj, target op <> Some j -> slot st j = Some mj ->
       slot st' j = Some mj /\ forall id, In id (owns mj) -> hg (ms_mem st') id = hg (ms_mem st) id).
Proof. exact (M2 decompress pol r ib iridx nb B Rr T). Qed.

Theorem T03m_stability : forall st, reachable decompress pol r st ->
  forall i st1 ka kl va vl e,
  mstep decompress pol r st (MNext i) = MOk (st1, ONext (NOk ka kl va vl e)) ->
  forall ops, Forall (not_on i) ops ->
  forall st2 outs, mrun decompress pol r st1 ops = MOk (st2, outs) ->
  deref (ms_mem st2) ka kl = Some (fst e) /\ deref (ms_mem st2) va vl = Some (snd e).
Proof. exact (M3 decompress pol r ib iridx nb B Rr T). Qed.

Theorem T03m_iterator_frees_everything : forall st, reachable decompress pol r st ->
  forall i mi, slot st i = Some mi ->
  exists st', mstep decompress pol r st (MFree i) = MOk (st', OFree) /\
    slot st' i = None /\ forall id, In id (owns mi) -> live (ms_mem st') id = None.
Proof. exact (M2_free_all decompress pol r ib iridx nb B Rr T). Qed.
End C03_mem.
Print Assumptions T03m_refinement.
Print Assumptions T03m_noninterference.
Print Assumptions T03m_stability.
Print Assumptions T03m_iterator_frees_everything.
