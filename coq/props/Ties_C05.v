(* Source ties of C05: the statements of the C functions its model follows, as they were when the model
   was written and validated against them (tools/gen_ties.py --expected).  gen/Ties.v is regenerated from
   /repo on every run; a changed statement breaks the corresponding lemma below. *)
From Coq Require Import List String.
From Mtbl Require Import gen.Ties.
Import ListNotations.
Local Open Scope string_scope.

(* mtbl/merger.c: merger_iter_seek *)
Lemma tie_merger_seek : TIE_merger_seek =
  [(0, "structmerger_iter*it=(structmerger_iter*)v");
   (0, "structentry*e");
   (0, "boolchanged=false");
   (0, "mtbl_resres");
   (0, "it->finished=false");
   (0, "it->pending=false");
   (0, "e=heap_peek(it->h)");
   (0, "if(e==NULL||ubuf_size(it->cur_key)==0||bytes_compare(key,len_key,ubuf_data(it->cur_key),ubuf_size(it->cur_key))<=0)");
   (1, "heap_clip(it->h,0)");
   (1, "for(size_ti=0;i<entry_vec_size(it->entries);i++)");
   (2, "structentry*ent=entry_vec_value(it->entries,i)");
   (2, "res=mtbl_iter_seek(ent->it,key,len_key)");
   (2, "if(res!=mtbl_res_success)continue");
   (2, "res=entry_fill(ent)");
   (2, "if(res!=mtbl_res_success)continue");
   (2, "heap_add(it->h,ent)");
   (1, "heap_heapify(it->h)");
   (1, "return(mtbl_res_success)");
   (0, "while(bytes_compare(key,len_key,e->key,e->len_key)>0)");
   (1, "changed=true");
   (1, "res=mtbl_iter_seek(e->it,key,len_key)");
   (1, "if(res==mtbl_res_success&&entry_fill(e)==mtbl_res_success)");
   (2, "heap_replace(it->h,e)");
   (2, "e=heap_peek(it->h)");
   (1, "else");
   (2, "heap_pop(it->h)");
   (2, "e=heap_peek(it->h)");
   (2, "if(e==NULL)");
   (3, "it->finished=true");
   (3, "break");
   (0, "if(changed)");
   (1, "ubuf_clip(it->cur_val,0)");
   (1, "ubuf_clip(it->cur_key,0)");
   (1, "ubuf_append(it->cur_key,key,len_key)");
   (0, "return(mtbl_res_success)")].
Proof. reflexivity. Qed.

(* mtbl/merger.c: merger_iter_next *)
Lemma tie_merger_next : TIE_merger_next =
  [(0, "structmerger_iter*it=(structmerger_iter*)v");
   (0, "structentry*e");
   (0, "mtbl_resres");
   (0, "if(it->finished)return(mtbl_res_failure)");
   (0, "ubuf_clip(it->cur_key,0)");
   (0, "ubuf_clip(it->cur_val,0)");
   (0, "it->pending=false");
   (0, "for(;;)");
   (1, "for(;;)");
   (2, "e=heap_peek(it->h)");
   (2, "if(e==NULL)");
   (3, "it->finished=true");
   (3, "break");
   (2, "if(e->finished)heap_pop(it->h)");
   (2, "elsebreak");
   (1, "if(it->finished)break");
   (1, "if(!it->pending)");
   (2, "ubuf_clip(it->cur_val,0)");
   (2, "ubuf_append(it->cur_key,e->key,e->len_key)");
   (2, "ubuf_append(it->cur_val,e->val,e->len_val)");
   (2, "it->pending=true");
   (2, "res=entry_fill(e)");
   (2, "if(res==mtbl_res_success)heap_replace(it->h,e)");
   (2, "continue");
   (1, "if(it->m->opt.merge==NULL)break");
   (1, "if(bytes_compare(ubuf_data(it->cur_key),ubuf_size(it->cur_key),e->key,e->len_key)==0)");
   (2, "uint8_t*merged_val=NULL");
   (2, "size_tlen_merged_val=0");
   (2, "it->m->opt.merge(it->m->opt.merge_clos,ubuf_data(it->cur_key),ubuf_size(it->cur_key),ubuf_data(it->cur_val),ubuf_size(it->cur_val),e->val,e->len_val,&merged_val,&len_merged_val)");
   (2, "if(merged_val==NULL)return(mtbl_res_failure)");
   (2, "ubuf_clip(it->cur_val,0)");
   (2, "ubuf_append(it->cur_val,merged_val,len_merged_val)");
   (2, "free(merged_val)");
   (2, "res=entry_fill(e)");
   (2, "if(res==mtbl_res_success)heap_replace(it->h,e)");
   (1, "else");
   (2, "break");
   (0, "if(it->pending)");
   (1, "it->pending=false");
   (1, "*out_key=ubuf_data(it->cur_key)");
   (1, "*out_val=ubuf_data(it->cur_val)");
   (1, "*out_len_key=ubuf_size(it->cur_key)");
   (1, "*out_len_val=ubuf_size(it->cur_val)");
   (1, "return(mtbl_res_success)");
   (0, "else");
   (1, "return(mtbl_res_failure)")].
Proof. reflexivity. Qed.

(* mtbl/merger.c: entry_fill *)
Lemma tie_merger_entry_fill : TIE_merger_entry_fill =
  [(0, "mtbl_resres");
   (0, "res=mtbl_iter_next(ent->it,&ent->key,&ent->len_key,&ent->val,&ent->len_val)");
   (0, "ent->finished=(res!=mtbl_res_success)");
   (0, "return(res)")].
Proof. reflexivity. Qed.

(* mtbl/merger.c: merger_iter_init *)
Lemma tie_merger_iter_init : TIE_merger_iter_init =
  [(0, "structmerger_iter*it=my_calloc(1,sizeof(*it))");
   (0, "it->m=m");
   (0, "it->h=heap_init(_mtbl_merger_compare,m)");
   (0, "it->entries=entry_vec_init(source_vec_size(m->sources))");
   (0, "it->iters=iter_vec_init(source_vec_size(m->sources))");
   (0, "it->cur_key=ubuf_init(256)");
   (0, "it->cur_val=ubuf_init(256)");
   (0, "return(it)")].
Proof. reflexivity. Qed.

(* libmy/heap.c: siftup *)
Lemma tie_heap_siftup : TIE_heap_siftup =
  [(0, "size_tpos=ptrvec_size(h->vec)-1");
   (0, "void*newitem=ptrvec_value(h->vec,pos)");
   (0, "while(pos>0)");
   (1, "size_tparentpos=(pos-1)>>1");
   (1, "void*parent=ptrvec_value(h->vec,parentpos)");
   (1, "if(h->cmp(parent,newitem,h->clos)<=0)break");
   (1, "ptrvec_data(h->vec)[pos]=parent");
   (1, "pos=parentpos");
   (0, "ptrvec_data(h->vec)[pos]=newitem")].
Proof. reflexivity. Qed.

(* libmy/heap.c: siftdown *)
Lemma tie_heap_siftdown : TIE_heap_siftdown =
  [(0, "assert(pos<ptrvec_size(h->vec))");
   (0, "void*newitem=ptrvec_value(h->vec,pos)");
   (0, "size_tendpos=ptrvec_size(h->vec)");
   (0, "size_tchildpos=2*pos+1");
   (0, "while(childpos<endpos)");
   (1, "size_trightpos=childpos+1");
   (1, "void*childval=ptrvec_value(h->vec,childpos)");
   (1, "if(rightpos<endpos)");
   (2, "void*rightval=ptrvec_value(h->vec,rightpos)");
   (2, "if(h->cmp(rightval,childval,h->clos)<=0)");
   (3, "childpos=rightpos");
   (3, "childval=rightval");
   (1, "if(h->cmp(newitem,childval,h->clos)<=0)break");
   (1, "ptrvec_data(h->vec)[pos]=childval");
   (1, "pos=childpos");
   (1, "childpos=2*pos+1");
   (0, "ptrvec_data(h->vec)[pos]=newitem")].
Proof. reflexivity. Qed.

(* libmy/heap.c: heap_heapify *)
Lemma tie_heap_heapify : TIE_heap_heapify =
  [(0, "for(size_ti=ptrvec_size(h->vec)/2;i-->0;)");
   (1, "siftdown(h,i)")].
Proof. reflexivity. Qed.

(* libmy/heap.c: heap_pop *)
Lemma tie_heap_pop : TIE_heap_pop =
  [(0, "if(ptrvec_size(h->vec)<1)return(NULL)");
   (0, "void*returnitem");
   (0, "void*lastelt=ptrvec_value(h->vec,ptrvec_size(h->vec)-1)");
   (0, "ptrvec_clip(h->vec,ptrvec_size(h->vec)-1)");
   (0, "if(ptrvec_size(h->vec)>0)");
   (1, "returnitem=ptrvec_value(h->vec,0)");
   (1, "ptrvec_data(h->vec)[0]=lastelt");
   (1, "siftdown(h,0)");
   (0, "else");
   (1, "returnitem=lastelt");
   (0, "return(returnitem)")].
Proof. reflexivity. Qed.

(* libmy/heap.c: heap_replace *)
Lemma tie_heap_replace : TIE_heap_replace =
  [(0, "if(ptrvec_size(h->vec)<1)return(NULL)");
   (0, "void*returnitem=ptrvec_value(h->vec,0)");
   (0, "ptrvec_data(h->vec)[0]=item");
   (0, "siftdown(h,0)");
   (0, "return(returnitem)")].
Proof. reflexivity. Qed.

(* mtbl/iter.c: mtbl_iter_seek *)
Lemma tie_iter_seek : TIE_iter_seek =
  [(0, "if(it==NULL)return(mtbl_res_failure)");
   (0, "return(it->iter_seek(it->clos,key,len_key))")].
Proof. reflexivity. Qed.

(* mtbl/iter.c: mtbl_iter_next *)
Lemma tie_iter_next : TIE_iter_next =
  [(0, "if(it==NULL)return(mtbl_res_failure)");
   (0, "return(it->iter_next(it->clos,key,len_key,val,len_val))")].
Proof. reflexivity. Qed.

(* mtbl/merger.c: mtbl_merger_options_init *)
Lemma tie_mg_mtbl_merger_options_init : TIE_mg_mtbl_merger_options_init =
  [(0, "return(my_calloc(1,sizeof(structmtbl_merger_options)))")].
Proof. reflexivity. Qed.

(* mtbl/merger.c: mtbl_merger_options_destroy *)
Lemma tie_mg_mtbl_merger_options_destroy : TIE_mg_mtbl_merger_options_destroy =
  [(0, "if(*opt)");
   (1, "free(*opt)");
   (1, "*opt=NULL")].
Proof. reflexivity. Qed.

(* mtbl/merger.c: mtbl_merger_options_set_merge_func *)
Lemma tie_mg_mtbl_merger_options_set_merge_func : TIE_mg_mtbl_merger_options_set_merge_func =
  [(0, "opt->merge=merge");
   (0, "opt->merge_clos=clos")].
Proof. reflexivity. Qed.

(* mtbl/merger.c: mtbl_merger_options_set_dupsort_func *)
Lemma tie_mg_mtbl_merger_options_set_dupsort_func : TIE_mg_mtbl_merger_options_set_dupsort_func =
  [(0, "opt->dupsort=dupsort");
   (0, "opt->dupsort_clos=clos")].
Proof. reflexivity. Qed.

(* mtbl/merger.c: mtbl_merger_init *)
Lemma tie_mg_mtbl_merger_init : TIE_mg_mtbl_merger_init =
  [(0, "structmtbl_merger*m");
   (0, "m=my_calloc(1,sizeof(*m))");
   (0, "m->sources=source_vec_init(0)");
   (0, "assert(opt!=NULL)");
   (0, "memcpy(&m->opt,opt,sizeof(*opt))");
   (0, "m->source=mtbl_source_init(merger_iter,merger_get,merger_get_prefix,merger_get_range,NULL,m)");
   (0, "return(m)")].
Proof. reflexivity. Qed.

(* mtbl/merger.c: mtbl_merger_source *)
Lemma tie_mg_mtbl_merger_source : TIE_mg_mtbl_merger_source =
  [(0, "return(m->source)")].
Proof. reflexivity. Qed.

(* mtbl/merger.c: mtbl_merger_add_source *)
Lemma tie_mg_mtbl_merger_add_source : TIE_mg_mtbl_merger_add_source =
  [(0, "source_vec_add(m->sources,s)")].
Proof. reflexivity. Qed.

(* mtbl/merger.c: merger_iter_add_entry *)
Lemma tie_mg_merger_iter_add_entry : TIE_mg_merger_iter_add_entry =
  [(0, "structentry*ent=my_calloc(1,sizeof(*ent))");
   (0, "ent->it=ent_it");
   (0, "ent->finished=false");
   (0, "mtbl_resres=entry_fill(ent)");
   (0, "if(res!=mtbl_res_success)");
   (1, "free(ent)");
   (0, "else");
   (1, "heap_push(it->h,ent)");
   (1, "entry_vec_add(it->entries,ent)")].
Proof. reflexivity. Qed.

(* mtbl/merger.c: merger_iter *)
Lemma tie_mg_merger_iter : TIE_mg_merger_iter =
  [(0, "structmtbl_merger*m=(structmtbl_merger*)clos");
   (0, "structmerger_iter*it=merger_iter_init(m)");
   (0, "for(size_ti=0;i<source_vec_size(m->sources);i++)");
   (1, "conststructmtbl_source*s=source_vec_value(m->sources,i)");
   (1, "structmtbl_iter*s_it=mtbl_source_iter(s)");
   (1, "iter_vec_add(it->iters,s_it)");
   (1, "merger_iter_add_entry(it,s_it)");
   (0, "return(mtbl_iter_init(merger_iter_seek,merger_iter_next,merger_iter_free,it))")].
Proof. reflexivity. Qed.

(* mtbl/merger.c: merger_get *)
Lemma tie_mg_merger_get : TIE_mg_merger_get =
  [(0, "structmtbl_merger*m=(structmtbl_merger*)clos");
   (0, "structmerger_iter*it=merger_iter_init(m)");
   (0, "for(size_ti=0;i<source_vec_size(m->sources);i++)");
   (1, "conststructmtbl_source*s=source_vec_value(m->sources,i)");
   (1, "structmtbl_iter*s_it=mtbl_source_get_range(s,key,len_key,key,len_key)");
   (1, "if(s_it!=NULL)");
   (2, "iter_vec_add(it->iters,s_it)");
   (2, "merger_iter_add_entry(it,s_it)");
   (0, "if(entry_vec_size(it->entries)==0)");
   (1, "merger_iter_free(it)");
   (1, "return(NULL)");
   (0, "return(mtbl_iter_init(merger_iter_seek,merger_iter_next,merger_iter_free,it))")].
Proof. reflexivity. Qed.

(* mtbl/merger.c: merger_get_range *)
Lemma tie_mg_merger_get_range : TIE_mg_merger_get_range =
  [(0, "structmtbl_merger*m=(structmtbl_merger*)clos");
   (0, "structmerger_iter*it=merger_iter_init(m)");
   (0, "for(size_ti=0;i<source_vec_size(m->sources);i++)");
   (1, "conststructmtbl_source*s=source_vec_value(m->sources,i)");
   (1, "structmtbl_iter*s_it=mtbl_source_get_range(s,key0,len_key0,key1,len_key1)");
   (1, "if(s_it!=NULL)");
   (2, "iter_vec_add(it->iters,s_it)");
   (2, "merger_iter_add_entry(it,s_it)");
   (0, "if(entry_vec_size(it->entries)==0)");
   (1, "merger_iter_free(it)");
   (1, "return(NULL)");
   (0, "return(mtbl_iter_init(merger_iter_seek,merger_iter_next,merger_iter_free,it))")].
Proof. reflexivity. Qed.

(* mtbl/merger.c: merger_get_prefix *)
Lemma tie_mg_merger_get_prefix : TIE_mg_merger_get_prefix =
  [(0, "structmtbl_merger*m=(structmtbl_merger*)clos");
   (0, "structmerger_iter*it=merger_iter_init(m)");
   (0, "for(size_ti=0;i<source_vec_size(m->sources);i++)");
   (1, "conststructmtbl_source*s=source_vec_value(m->sources,i)");
   (1, "structmtbl_iter*s_it=mtbl_source_get_prefix(s,key,len_key)");
   (1, "if(s_it!=NULL)");
   (2, "iter_vec_add(it->iters,s_it)");
   (2, "merger_iter_add_entry(it,s_it)");
   (0, "if(entry_vec_size(it->entries)==0)");
   (1, "merger_iter_free(it)");
   (1, "return(NULL)");
   (0, "return(mtbl_iter_init(merger_iter_seek,merger_iter_next,merger_iter_free,it))")].
Proof. reflexivity. Qed.

(* libmy/heap.c: heap_init *)
Lemma tie_hp_heap_init : TIE_hp_heap_init =
  [(0, "structheap*h=my_calloc(1,sizeof(*h))");
   (0, "h->cmp=cmp");
   (0, "h->clos=clos");
   (0, "h->vec=ptrvec_init(1)");
   (0, "return(h)")].
Proof. reflexivity. Qed.

(* libmy/heap.c: heap_destroy *)
Lemma tie_hp_heap_destroy : TIE_hp_heap_destroy =
  [(0, "if(*h!=NULL)");
   (1, "ptrvec_destroy(&(*h)->vec)");
   (1, "free(*h)");
   (1, "*h=NULL")].
Proof. reflexivity. Qed.

(* libmy/heap.c: heap_clip *)
Lemma tie_hp_heap_clip : TIE_hp_heap_clip =
  [(0, "ptrvec_clip(h->vec,n_elems)")].
Proof. reflexivity. Qed.

(* libmy/heap.c: heap_add *)
Lemma tie_hp_heap_add : TIE_hp_heap_add =
  [(0, "ptrvec_add(h->vec,item)")].
Proof. reflexivity. Qed.

(* libmy/heap.c: heap_push *)
Lemma tie_hp_heap_push : TIE_hp_heap_push =
  [(0, "ptrvec_add(h->vec,item)");
   (0, "siftup(h)")].
Proof. reflexivity. Qed.

(* libmy/heap.c: heap_peek *)
Lemma tie_hp_heap_peek : TIE_hp_heap_peek =
  [(0, "if(ptrvec_size(h->vec)<1)return(NULL)");
   (0, "returnptrvec_data(h->vec)[0]")].
Proof. reflexivity. Qed.
