(* C04 - Merger output is the sorted union of its sources, folded by the merge function.
   PROVED (dupsort = none, a merge function that does not fail), for every finite family of
   strictly sorted sources (empty sources, the empty key, overlapping or disjoint key sets):
   T04_merge_sources - draining the iterator of a merger yields keys in strictly ascending
     order (hence each once), exactly the keys the sources hold, and for each key the fold of
     the merge function over ALL values the sources hold for it, each value used exactly once
     (in an order the heap decides: the statement quantifies existentially over it);
   T04_next_call - one call of merger_iter_next from any reachable state: the least remaining
     key with the fold over all its values; or failure exactly when the merge function fails on
     that key (earlier keys were delivered by earlier calls); or exhaustion;
   T04_heap - libmy/heap.c (array heap: siftup, siftdown, push, pop, replace) keeps the heap
     order and the contents for every total preorder; the root is a least element.
   The proofs are about model/Merger.v + model/Heap.v over ideal source cursors (the contract
   C03 proves for reader iterators).  The variant without a merge function (every entry emitted, dupsort order) and the combinations
   with a dupsort function are the T04n_* theorems at the end of this file.  Engine mg compares
   implementation, model and specification on random and directed families over real readers and over user-defined
   sources that invalidate old buffers on every call; the mtbl_merge tool and mtbl_source_write
   are further observation paths of the engine. *)
From Coq Require Import NArith List Lia Permutation.
From Coq Require Import Sorting.Sorted.
From Mtbl Require Import model.Bytes model.Order model.Heap model.Merger spec.MergeSpec proofs.OrderProofs
  proofs.HeapProofs proofs.HeapifyProofs proofs.MergerProofs proofs.MergerClosed proofs.MergerAfterFail proofs.MergerGen proofs.MergerNoMerge.
(* source ties: the statements of the C functions the model follows (gen/Ties.v is regenerated from /repo on every run) *)
From Mtbl Require props.Ties_C04.
Local Open Scope N_scope.

Theorem T04_merge_sources : forall (mf : bytes -> bytes -> bytes -> option bytes) (srcs : list (list entry)),
  Forall ssorted srcs -> (forall k a b, mf k a b <> None) ->
  exists it, merger_iter_make None (map (fun es => mksc es 0 true BAll false) srcs) false = Some it /\
    let out := mdrain mf (S (length (concat srcs))) it in
    StronglySorted (fun a b => bcmp (fst a) (fst b) = Lt) out /\
    (forall k, In k (map fst out) <-> In k (map fst (concat srcs))) /\
    Forall (fun e => merged_value_ok mf srcs (fst e) (snd e)) out.
Proof. exact merge_sources. Qed.
Print Assumptions T04_merge_sources.

Theorem T04_next_call : forall (mf : bytes -> bytes -> bytes -> option bytes) it, api it ->
  match merger_next (Some mf) None it with
  | (it', Some (k, v)) =>
    exists first rest,
      Permutation ((k, first) :: map (pair k) rest ++ remaining it') (remaining it) /\
      fold_merge mf k first rest = Some v /\
      (forall x, In x (remaining it') -> bcmp k (fst x) = Lt) /\
      api it' /\ map sc_es (mi_srcs it') = map sc_es (mi_srcs it)
  | (it', None) =>
    (remaining it = [] /\ api it' /\ remaining it' = []) \/
    (exists k first rest v0 others,
       Permutation ((k, first) :: map (pair k) rest ++ (k, v0) :: others) (remaining it) /\
       (forall x, In x others -> bcmp k (fst x) <> Gt) /\
       fold_merge mf k first (rest ++ [v0]) = None)
  end.
Proof. exact merger_next_closed. Qed.
Print Assumptions T04_next_call.

Theorem T04_heap : forall (A : Type) (cmp : A -> A -> comparison) (dflt : A),
  (forall a b c, le A cmp a b -> le A cmp b c -> le A cmp a c) -> (forall a b, le A cmp a b \/ le A cmp b a) ->
  hok A cmp dflt [] /\
  (forall h x, hok A cmp dflt h -> hok A cmp dflt (heap_push A cmp dflt h x) /\ Permutation (heap_push A cmp dflt h x) (x :: h)) /\
  (forall r t, hok A cmp dflt (r :: t) -> hok A cmp dflt (heap_pop A cmp dflt (r :: t)) /\ Permutation (heap_pop A cmp dflt (r :: t)) t) /\
  (forall r t x, hok A cmp dflt (r :: t) -> hok A cmp dflt (heap_replace A cmp dflt (r :: t) x) /\ Permutation (heap_replace A cmp dflt (r :: t) x) (x :: t)) /\
  (forall r t y, hok A cmp dflt (r :: t) -> In y t -> le A cmp r y).
Proof.
  intros A cmp dflt Ht Htot. repeat split.
  - apply hok_nil; assumption.
  - apply heap_push_ok; assumption.
  - apply heap_push_ok; assumption.
  - apply heap_pop_ok; assumption.
  - apply heap_pop_ok; assumption.
  - apply heap_replace_ok; assumption.
  - apply heap_replace_ok; assumption.
  - intros r t y. apply heap_root_min; assumption.
Qed.
Print Assumptions T04_heap.

(* T04_cmp: the heap's comparison is "key first, then dupsort" and is a total preorder when dupsort is *)
Theorem T04_cmp_partial : forall ds,
  (forall a b, bcmp (he_key a) (he_key b) = Lt -> mcmp ds a b = Lt) /\
  (forall a b, bcmp (he_key a) (he_key b) = Gt -> mcmp ds a b = Gt) /\
  (forall a b, bcmp (he_key a) (he_key b) = Eq ->
     mcmp ds a b = match ds with Some f => f (he_key a) (he_val a) (he_val b) | None => Eq end) /\
  (forall a b c, ds = None -> mcmp ds a b <> Gt -> mcmp ds b c <> Gt -> mcmp ds a c <> Gt) /\
  (forall a b, ds = None -> mcmp ds a b <> Gt \/ mcmp ds b a <> Gt).
Proof.
  intros ds. unfold mcmp. repeat split.
  - intros a b H. rewrite H. reflexivity.
  - intros a b H. rewrite H. reflexivity.
  - intros a b H. rewrite H. reflexivity.
  - intros a b c -> H1 H2.
    destruct (bcmp (he_key a) (he_key b)) eqn:E1; try congruence;
    destruct (bcmp (he_key b) (he_key c)) eqn:E2; try congruence.
    + apply bcmp_eq in E1. apply bcmp_eq in E2. rewrite E1, E2, bcmp_refl. discriminate.
    + apply bcmp_eq in E1. rewrite E1, E2. discriminate.
    + apply bcmp_eq in E2. rewrite <- E2, E1. discriminate.
    + rewrite (bcmp_lt_trans _ _ _ E1 E2). discriminate.
  - intros a b ->. rewrite (bcmp_antisym (he_key a) (he_key b)).
    destruct (bcmp (he_key a) (he_key b)); cbn; [left|left|right]; discriminate.
Qed.
Print Assumptions T04_cmp_partial.

(* concatenating merge function, to make fold order visible *)
Definition cat (_ a b : bytes) : option bytes := Some (a ++ [124] ++ b).
Example T04_examples :
  (* two overlapping sources, the empty key in both *)
  (match merger_iter_make None [mksc [([], [1]); ([97], [2]); ([99], [3])] 0 true BAll false;
                                mksc [([], [4]); ([98], [5]); ([99], [6])] 0 true BAll false] false with
   | Some it => mdrain cat 10 it = [([], [1; 124; 4]); ([97], [2]); ([98], [5]); ([99], [6; 124; 3])]
   | None => False end) /\
  (* a failing merge: the call that would produce the key fails, earlier keys are delivered *)
  (match merger_iter_make None [mksc [([97], [1]); ([98], [2])] 0 true BAll false; mksc [([98], [3])] 0 true BAll false] false with
   | Some it => mdrain (fun _ _ _ => None) 10 it = [([97], [1])]
   | None => False end) /\
  all_keys [[([], [1]); ([97], [2])]; [([], [4]); ([98], [5])]] = [[]; [97]; [98]] /\
  values_for [] [[([], [1]); ([97], [2])]; [([], [4]); ([98], [5])]] = [[1]; [4]].
Proof. vm_compute. repeat split. Qed.

(* C04, second clause - a merger WITHOUT merge function (mtbl_merger_options_set_merge_func not
   called; model: mergef = None) emits EVERY entry of every source: duplicates of a key are all
   emitted, none merged; keys in ascending order; entries with equal keys in the order of the
   dupsort function when one is set.  PROVED for model/Merger.v over model/Heap.v, for every
   finite family of strictly sorted sources (proofs/MergerGen.v, proofs/MergerNoMerge.v):
   T04n_sources        - no dupsort: the drained output is a permutation of all source entries,
                         keys ascending (non-strictly: a key comes as often as sources hold it);
   T04n_next_call      - one call from any state between calls (the states `api` of T04_next_call):
                         ONE entry, of least key among all that remain, leaves the remaining
                         multiset; failure exactly when nothing remains;
   T04n_dupsort        - with a dupsort function f that is, for every key, a total preorder on
                         values (dupsort_ok; T04n_dupsort_hyp: exactly what makes the heap
                         comparison a total preorder): a permutation of all source entries, sorted
                         by key and, inside a key, by f;
   T04n_dupsort_any    - for an ARBITRARY function f (inconsistent answers included): still a
                         permutation of all source entries with keys ascending;
   T04n_merge_dupsort  - merge function and dupsort together: the statement of T04_merge_sources,
                         and the fold of the merge function takes a key's values in dupsort order;
   T04n_merge_dupsort_any - the statement of T04_merge_sources for an ARBITRARY dupsort function;
   T04n_heapify        - libmy heap_heapify (used by merger seek): heap order and contents, for
                         every total preorder.
   The order among equal keys when no dupsort function is set is whatever the heap yields (it is
   not the order of the sources: example nomerge_examples in proofs/MergerNoMerge.v). *)
Theorem T04n_sources : forall srcs : list (list entry), Forall ssorted srcs ->
  exists it, merger_iter_make None (map (fun es => mksc es 0 true BAll false) srcs) false = Some it /\
    forall n, (length (concat srcs) <= n)%nat ->
    let out := mdrain0 None (S n) it in
    Permutation out (concat srcs) /\
    StronglySorted (fun a b => bcmp (fst a) (fst b) <> Gt) out.
Proof. exact T1_nomerge_sources. Qed.
Print Assumptions T04n_sources.

Theorem T04n_next_call : forall it, api it ->
  match merger_next None None it with
  | (it', Some e) =>
      In e (remaining it) /\
      (forall x, In x (remaining it) -> bcmp (fst e) (fst x) <> Gt) /\
      Permutation (e :: remaining it') (remaining it) /\
      api it' /\ map sc_es (mi_srcs it') = map sc_es (mi_srcs it)
  | (it', None) => remaining it = [] /\ api it' /\ remaining it' = []
  end.
Proof. exact T1_next_call. Qed.
Print Assumptions T04n_next_call.

Theorem T04n_dupsort : forall (f : bytes -> bytes -> bytes -> comparison) (srcs : list (list entry)),
  dupsort_ok f -> Forall ssorted srcs ->
  exists it, merger_iter_make (Some f) (map (fun es => mksc es 0 true BAll false) srcs) false = Some it /\
    forall n, (length (concat srcs) <= n)%nat ->
    let out := mdrain0 (Some f) (S n) it in
    Permutation out (concat srcs) /\
    StronglySorted (fun a b => bcmp (fst a) (fst b) = Lt \/ (fst a = fst b /\ f (fst a) (snd a) (snd b) <> Gt)) out.
Proof. exact T2_nomerge_sources. Qed.
Print Assumptions T04n_dupsort.

Theorem T04n_dupsort_hyp : forall f, dupsort_ok f <->
  (forall a b c, le hent (mcmp (Some f)) a b -> le hent (mcmp (Some f)) b c -> le hent (mcmp (Some f)) a c) /\
  (forall a b, le hent (mcmp (Some f)) a b \/ le hent (mcmp (Some f)) b a).
Proof. exact dupsort_ok_iff. Qed.
Print Assumptions T04n_dupsort_hyp.

Theorem T04n_dupsort_any : forall (f : bytes -> bytes -> bytes -> comparison) (srcs : list (list entry)),
  Forall ssorted srcs ->
  exists it, merger_iter_make (Some f) (map (fun es => mksc es 0 true BAll false) srcs) false = Some it /\
    forall n, (length (concat srcs) <= n)%nat ->
    let out := mdrain0 (Some f) (S n) it in
    Permutation out (concat srcs) /\ StronglySorted (fun a b => bcmp (fst a) (fst b) <> Gt) out.
Proof. exact T2_any_dupsort. Qed.
Print Assumptions T04n_dupsort_any.

Theorem T04n_merge_dupsort : forall (f : bytes -> bytes -> bytes -> comparison) (mf : bytes -> bytes -> bytes -> option bytes)
  (srcs : list (list entry)),
  dupsort_ok f -> Forall ssorted srcs -> (forall k a b, mf k a b <> None) ->
  exists it, merger_iter_make (Some f) (map (fun es => mksc es 0 true BAll false) srcs) false = Some it /\
    let out := gmdrain (Some f) mf (S (length (concat srcs))) it in
    StronglySorted (fun a b => bcmp (fst a) (fst b) = Lt) out /\
    (forall k, In k (map fst out) <-> In k (map fst (concat srcs))) /\
    Forall (fun e => merged_value_ok mf srcs (fst e) (snd e)) out /\
    Forall (fun e => exists first rest, Permutation (first :: rest) (values_for (fst e) srcs) /\
                       StronglySorted (fun v w => f (fst e) v w <> Gt) (first :: rest) /\
                       fold_merge mf (fst e) first rest = Some (snd e)) out.
Proof. exact T3_merge_sources. Qed.
Print Assumptions T04n_merge_dupsort.

Theorem T04n_merge_dupsort_any : forall (f : bytes -> bytes -> bytes -> comparison) (mf : bytes -> bytes -> bytes -> option bytes)
  (srcs : list (list entry)),
  Forall ssorted srcs -> (forall k a b, mf k a b <> None) ->
  exists it, merger_iter_make (Some f) (map (fun es => mksc es 0 true BAll false) srcs) false = Some it /\
    let out := gmdrain (Some f) mf (S (length (concat srcs))) it in
    StronglySorted (fun a b => bcmp (fst a) (fst b) = Lt) out /\
    (forall k, In k (map fst out) <-> In k (map fst (concat srcs))) /\
    Forall (fun e => merged_value_ok mf srcs (fst e) (snd e)) out.
Proof. exact T3_any_dupsort. Qed.
Print Assumptions T04n_merge_dupsort_any.

Theorem T04n_heapify : forall (A : Type) (cmp : A -> A -> comparison) (dflt : A),
  (forall a b c, le A cmp a b -> le A cmp b c -> le A cmp a c) -> (forall a b, le A cmp a b \/ le A cmp b a) ->
  forall l, hok A cmp dflt (heapify A cmp dflt l) /\ Permutation (heapify A cmp dflt l) l.
Proof. exact heapify_ok. Qed.
Print Assumptions T04n_heapify.

(* ---- after a failed merge (the last sentence of the property, and what the caller gets if it goes on) -------------
   "If the merge function reports failure, the call that would have produced that key returns failure" is the None
   case of T04_next_call.  The C iterator may be used further; T04f says what state the failed call leaves and that,
   over ANY number of calls with ANY number of failures in between, every entry delivered is a fold over values the
   sources hold for its key, different deliveries using DISJOINT values (each value used at most once): no entry is
   made up, none is delivered twice.  (Found missing by the seeded change C04-13: a redundant-looking reset of the
   pending flag removed - the call after a failure then delivered an empty key that no source holds.) *)
Theorem T04f_failure_state : forall (mf : bytes -> bytes -> bytes -> option bytes) it it', api it ->
  merger_next (Some mf) None it = (it', None) -> remaining it <> [] ->
  exists k first rest v0 others,
    Permutation ((k, first) :: map (pair k) rest ++ (k, v0) :: others) (remaining it) /\
    (forall x, In x others -> bcmp k (fst x) <> Gt) /\
    fold_merge mf k first (rest ++ [v0]) = None /\
    Permutation (remaining it') ((k, v0) :: others) /\
    api (clear it') /\
    map sc_es (mi_srcs it') = map sc_es (mi_srcs it) /\
    mi_pending it' = true /\ mi_cur_key it' = k /\ mi_finished it' = false /\ mi_entries it' = mi_entries it /\
    fold_merge mf k first rest = Some (mi_cur_val it') /\ mf k (mi_cur_val it') v0 = None /\
    exists e t, mi_heap it' = e :: t /\ he_key e = k /\ he_val e = v0 /\ he_fin e = false.
Proof. exact merger_next_failure_state. Qed.
Print Assumptions T04f_failure_state.

Theorem T04f_next_ignores_stale_fields : forall mfo ds it, mi_finished it = false ->
  merger_next mfo ds it =
  merger_next mfo ds (mkmi (mi_srcs it) (mi_heap it) (mi_entries it) [] [] (mi_finished it) false).
Proof. exact merger_next_ignores_pending. Qed.
Print Assumptions T04f_next_ignores_stale_fields.

Theorem T04f_any_history : forall (mf : bytes -> bytes -> bytes -> option bytes) n it, apic it ->
  exists groups lost,
    Forall2 (group_ok mf) (somes (mruns mf n it)) groups /\
    Permutation (concat (map gentries groups) ++ lost ++ remaining (mrun_end mf n it)) (remaining it) /\
    apic (mrun_end mf n it) /\ map sc_es (mi_srcs (mrun_end mf n it)) = map sc_es (mi_srcs it).
Proof. exact merger_runs_exact. Qed.
Print Assumptions T04f_any_history.

Theorem T04f_delivered_entries_come_from_sources : forall (mf : bytes -> bytes -> bytes -> option bytes) n it, api it ->
  forall k v, In (Some (k, v)) (mruns mf n it) ->
  exists first rest, (forall x, In x (first :: rest) -> In (k, x) (remaining it)) /\ fold_merge mf k first rest = Some v.
Proof. exact merger_after_failure_sound. Qed.
Print Assumptions T04f_delivered_entries_come_from_sources.

(* the call that follows a failed one is an ordinary call from a state `api` (T04_next_call applies to it): it sees the
   cleared state, whose remaining entries are those the failed call left *)
Theorem T04f_call_after_failure : forall (mf : bytes -> bytes -> bytes -> option bytes) it it', api it ->
  merger_next (Some mf) None it = (it', None) -> remaining it <> [] ->
  merger_next (Some mf) None it' = merger_next (Some mf) None (clear it') /\ api (clear it') /\
  remaining (clear it') = remaining it'.
Proof. exact merger_next_after_failure. Qed.
Print Assumptions T04f_call_after_failure.
