(* C04 - Merger output is the sorted union of its sources, folded by the merge function.
   FULL STATEMENT: C04_statement (below).  PROVED so far: the comparison used by the
   heap is the stated order (key, then dupsort) and is a total preorder whenever
   dupsort is; the statement itself is evaluated by vm_compute on concrete families
   (T04_examples: overlapping sources incl. the empty key, with and without merge,
   failing merge).  NOT yet proved: the heap invariant and the loop invariant of
   merger_iter_next for all families.  Engine mg compares implementation, model and
   the specification (sorted union; each value folded exactly once; dupsort order;
   failure on a failing merge) on random and directed families over real readers and
   over user-defined sources that invalidate old buffers on every call. *)
From Coq Require Import NArith List Lia Permutation.
From Mtbl Require Import model.Bytes model.Order model.Heap model.Merger spec.MergeSpec proofs.OrderProofs.
Local Open Scope N_scope.

Section C04.
Variable mf : bytes -> bytes -> bytes -> option bytes.

(* drain a merger iterator *)
Fixpoint mdrain (fuel : nat) (it : miter) : list entry :=
  match fuel with
  | O => []
  | S f => match merger_next (Some mf) None it with
           | (it', Some e) => e :: mdrain f it'
           | (_, None) => []
           end
  end.

Definition sorted_src (es : list entry) : Prop :=
  forall i j a b, (i < j)%nat -> nth_error es i = Some a -> nth_error es j = Some b -> bcmp (fst a) (fst b) = Lt.

Definition C04_statement : Prop :=
  forall (srcs : list (list entry)), Forall sorted_src srcs ->
    (forall k a b, mf k a b <> None) ->
    match merger_iter_make None (map (fun es => mksc es 0 true BAll false) srcs) false with
    | Some it =>
      let out := mdrain (S (length (concat srcs))) it in
      map fst out = all_keys srcs /\
      Forall (fun e => merged_value_ok mf srcs (fst e) (snd e)) out
    | None => False
    end.
End C04.

(* T04_cmp: the heap's comparison is "key first, then dupsort" and is a total preorder when dupsort is *)
Theorem T04_cmp_partial : forall ds,
  (forall a b, bcmp (he_key a) (he_key b) = Lt -> mcmp ds a b = Lt) /\
  (forall a b, bcmp (he_key a) (he_key b) = Gt -> mcmp ds a b = Gt) /\
  (forall a b, bcmp (he_key a) (he_key b) = Eq ->
     mcmp ds a b = match ds with Some f => f (he_key a) (he_val a) (he_val b) | None => Eq end) /\
  (forall a b c, ds = None -> mcmp ds a b <> Gt -> mcmp ds b c <> Gt -> mcmp ds a c <> Gt) /\
  (forall a b, ds = None -> mcmp ds a b <> Gt \/ mcmp ds b a <> Gt).
Proof.
  intros ds. unfold mcmp. repeat split.
  - intros a b H. rewrite H. reflexivity.
  - intros a b H. rewrite H. reflexivity.
  - intros a b H. rewrite H. reflexivity.
  - intros a b c -> H1 H2.
    destruct (bcmp (he_key a) (he_key b)) eqn:E1; try congruence;
    destruct (bcmp (he_key b) (he_key c)) eqn:E2; try congruence.
    + apply bcmp_eq in E1. apply bcmp_eq in E2. rewrite E1, E2, bcmp_refl. discriminate.
    + apply bcmp_eq in E1. rewrite E1, E2. discriminate.
    + apply bcmp_eq in E2. rewrite <- E2, E1. discriminate.
    + rewrite (bcmp_lt_trans _ _ _ E1 E2). discriminate.
  - intros a b ->. rewrite (bcmp_antisym (he_key a) (he_key b)).
    destruct (bcmp (he_key a) (he_key b)); cbn; [left|left|right]; discriminate.
Qed.
Print Assumptions T04_cmp_partial.

(* concatenating merge function, to make fold order visible *)
Definition cat (_ a b : bytes) : option bytes := Some (a ++ [124] ++ b).
Example T04_examples :
  (* two overlapping sources, the empty key in both *)
  (match merger_iter_make None [mksc [([], [1]); ([97], [2]); ([99], [3])] 0 true BAll false;
                                mksc [([], [4]); ([98], [5]); ([99], [6])] 0 true BAll false] false with
   | Some it => mdrain cat 10 it = [([], [1; 124; 4]); ([97], [2]); ([98], [5]); ([99], [6; 124; 3])]
   | None => False end) /\
  (* a failing merge: the call that would produce the key fails, earlier keys are delivered *)
  (match merger_iter_make None [mksc [([97], [1]); ([98], [2])] 0 true BAll false; mksc [([98], [3])] 0 true BAll false] false with
   | Some it => mdrain (fun _ _ _ => None) 10 it = [([97], [1])]
   | None => False end) /\
  all_keys [[([], [1]); ([97], [2])]; [([], [4]); ([98], [5])]] = [[]; [97]; [98]] /\
  values_for [] [[([], [1]); ([97], [2])]; [([], [4]); ([98], [5])]] = [[1]; [4]].
Proof. vm_compute. repeat split. Qed.
