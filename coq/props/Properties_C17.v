(* C17 - mtbl_crc32c is the standard CRC-32C on every buffer, both implementations *)
From Coq Require Import NArith List Lia.
From Mtbl Require Import gen.CrcTables model.Bytes model.Crc proofs.CrcProofs.
(* source ties: the statements of the C functions the model follows (gen/Ties.v is regenerated from /repo on every run) *)
From Mtbl Require props.Ties_C17.
Local Open Scope N_scope.

(* T17a: the table-driven implementation (byte-wise head up to the 4-byte boundary,
   8 bytes per step through the eight scraped tables with the scraped lookup
   pattern, byte-wise tail) equals the bit-serial CRC-32C for every byte string
   and every start alignment *)
Theorem T17a_slicing_is_standard : forall misalign l, wf_bytes l -> crc_slicing misalign l = crc32c_ref l.
Proof. exact crc_slicing_ref. Qed.
Print Assumptions T17a_slicing_is_standard.

(* T17b: the SSE4.2 implementation (8 bytes per crc32q, then the scraped fall-through
   switch on len & 7) equals the bit-serial CRC-32C for every byte string; the
   crc32 instructions are modelled as byte-wise updates of little-endian operands *)
Theorem T17b_sse42_is_standard : forall l, crc_sse42 l = crc32c_ref l.
Proof. exact crc_sse42_ref. Qed.
Print Assumptions T17b_sse42_is_standard.

(* T17c: crc32c_ref is the standard: the check value and the RFC 3720 B.4 vectors *)
Theorem T17c_standard_vectors :
  crc32c_ref [49; 50; 51; 52; 53; 54; 55; 56; 57] = 3808858755 (* 0xE3069283 *) /\
  crc32c_ref (repeat 0 32) = 2324772522 (* 0x8A9136AA *) /\
  crc32c_ref (repeat 255 32) = 1655221059 (* 0x62A8AB43 *) /\
  crc32c_ref (map N.of_nat (seq 0 32)) = 1188919630 (* 0x46DD794E *) /\
  crc32c_ref (rev (map N.of_nat (seq 0 32))) = 289397596 (* 0x113FDB5C *) /\
  crc32c_ref [] = 0.
Proof. vm_compute. repeat split. Qed.
Print Assumptions T17c_standard_vectors.
