(* C17 - mtbl_crc32c is the standard CRC-32C on every buffer, both implementations *)
From Coq Require Import NArith List Lia.
From Mtbl Require Import gen.CrcTables model.Bytes model.Crc proofs.CrcProofs.
(* source ties: the statements of the C functions the model follows (gen/Ties.v is regenerated from /repo on every run) *)
From Mtbl Require props.Ties_C17.
Local Open Scope N_scope.

(* T17a: the table-driven implementation (byte-wise head up to the 4-byte boundary,
   8 bytes per step through the eight scraped tables with the scraped lookup
   pattern, byte-wise tail) equals the bit-serial CRC-32C for every byte string
   and every start alignment *)
Theorem T17a_slicing_is_standard : forall misalign l, wf_bytes l -> crc_slicing misalign l = crc32c_ref l.
Proof. exact crc_slicing_ref. Qed.
Print Assumptions T17a_slicing_is_standard.

(* T17b: the SSE4.2 implementation (8 bytes per crc32q, then the scraped fall-through
   switch on len & 7) equals the bit-serial CRC-32C for every byte string; the
   crc32 instructions are modelled as byte-wise updates of little-endian operands *)
Theorem T17b_sse42_is_standard : forall l, crc_sse42 l = crc32c_ref l.
Proof. exact crc_sse42_ref. Qed.
Print Assumptions T17b_sse42_is_standard.

(* T17c: crc32c_ref is the standard: the check value and the RFC 3720 B.4 vectors *)
Theorem T17c_standard_vectors :
  crc32c_ref [49; 50; 51; 52; 53; 54; 55; 56; 57] = 3808858755 (* 0xE3069283 *) /\
  crc32c_ref (repeat 0 32) = 2324772522 (* 0x8A9136AA *) /\
  crc32c_ref (repeat 255 32) = 1655221059 (* 0x62A8AB43 *) /\
  crc32c_ref (map N.of_nat (seq 0 32)) = 1188919630 (* 0x46DD794E *) /\
  crc32c_ref (rev (map N.of_nat (seq 0 32))) = 289397596 (* 0x113FDB5C *) /\
  crc32c_ref [] = 0.
Proof. vm_compute. repeat split. Qed.
Print Assumptions T17c_standard_vectors.

(* T17d: "the hardware-accelerated and the table-driven implementations return the same
   value", for every byte string and every start alignment of the table-driven one; and
   the value does not depend on that alignment *)
Theorem T17d_implementations_agree : forall misalign l, wf_bytes l -> crc_slicing misalign l = crc_sse42 l.
Proof. intros m l H. rewrite T17a_slicing_is_standard by exact H. symmetry. apply T17b_sse42_is_standard. Qed.
Print Assumptions T17d_implementations_agree.

Theorem T17d_alignment_independent : forall m m' l, wf_bytes l -> crc_slicing m l = crc_slicing m' l.
Proof. intros m m' l H. rewrite !T17a_slicing_is_standard by exact H. reflexivity. Qed.
Print Assumptions T17d_alignment_independent.

(* T17e: the value is a 32-bit word (what is stored in the 4-byte checksum field by
   mtbl_fixed_encode32 without loss: T16d), and the register after a ++ b is the register
   after a, continued over b (the property the 8-bytes-then-tail structure of both
   implementations rests on) *)
Theorem T17e_value_is_32_bits : forall l, wf_bytes l -> crc32c_ref l < 2 ^ 32.
Proof.
  intros l H. unfold crc32c_ref. change (2 ^ 32) with 4294967296. apply lxor_lt32.
  - apply crc_update_lt32; [unfold CRC_MASK; lia|exact H].
  - unfold CRC_MASK. lia.
Qed.
Print Assumptions T17e_value_is_32_bits.

Theorem T17e_register_continues : forall c a b, crc_update c (a ++ b) = crc_update (crc_update c a) b.
Proof. intros c a b. unfold crc_update. apply fold_left_app. Qed.
Print Assumptions T17e_register_continues.
