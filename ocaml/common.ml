(* Shared plumbing of the correspondence drivers: conversions between OCaml
   values and the extracted Coq datatypes (part of the trusted base), a tiny JSON
   printer, deterministic per-case PRNG, and the result accumulator. *)
open Mtbl_model
type string = Stdlib.String.t

let rec pos_of_int i =
  if i <= 1 then XH
  else if i land 1 = 0 then XO (pos_of_int (i lsr 1))
  else XI (pos_of_int (i lsr 1))
let n_of_int i = if i <= 0 then N0 else Npos (pos_of_int i)
let rec int_of_pos = function
  | XH -> 1 | XO p -> 2 * int_of_pos p | XI p -> 2 * int_of_pos p + 1
let int_of_n = function N0 -> 0 | Npos p -> int_of_pos p

(* the Coq string type <-> OCaml strings *)
let rec coq_string_of (s : string) i : Mtbl_model.string =
  if i >= String.length s then EmptyString
  else String (ascii_of_N (n_of_int (Char.code s.[i])), coq_string_of s (i + 1))
let rec ocaml_string_of (s : Mtbl_model.string) : string =
  match s with EmptyString -> "" | String (c, tl) -> String.make 1 (Char.chr (int_of_n (n_of_ascii c))) ^ ocaml_string_of tl

(* unsigned 64-bit <-> N *)
let rec pos_of_u64 (x : int64) =
  if Int64.equal x 1L then XH
  else
    let rest = Int64.shift_right_logical x 1 in
    if Int64.equal (Int64.logand x 1L) 0L then XO (pos_of_u64 rest) else XI (pos_of_u64 rest)
let n_of_u64 x = if Int64.equal x 0L then N0 else Npos (pos_of_u64 x)
let rec u64_of_pos = function
  | XH -> 1L
  | XO p -> Int64.shift_left (u64_of_pos p) 1
  | XI p -> Int64.logor (Int64.shift_left (u64_of_pos p) 1) 1L
let u64_of_n = function N0 -> 0L | Npos p -> u64_of_pos p
(* does the N fit in 64 bits? *)
let rec pos_bits = function XH -> 1 | XO p | XI p -> 1 + pos_bits p
let n_bits = function N0 -> 0 | Npos p -> pos_bits p

let rec nat_of_int i = if i <= 0 then O else S (nat_of_int (i - 1))
let rec int_of_nat = function O -> 0 | S n -> 1 + int_of_nat n

let nl_of_string (s : string) : n list =
  List.init (String.length s) (fun i -> n_of_int (Char.code s.[i]))
let string_of_nl (l : n list) : string =
  let b = Buffer.create 64 in
  List.iter (fun x -> Buffer.add_char b (Char.chr ((int_of_n x) land 255))) l;
  Buffer.contents b

let hex (s : string) =
  let b = Buffer.create (2 * String.length s) in
  String.iter (fun c -> Buffer.add_string b (Printf.sprintf "%02x" (Char.code c))) s;
  Buffer.contents b

(* ---- JSON ---------------------------------------------------------------- *)
type json =
  | JS of string | JI of int | JB of bool | JF of float
  | JL of json list | JO of (string * json) list | JNull

let json_escape s =
  let b = Buffer.create (String.length s + 8) in
  String.iter (fun c ->
    match c with
    | '"' -> Buffer.add_string b "\\\""
    | '\\' -> Buffer.add_string b "\\\\"
    | '\n' -> Buffer.add_string b "\\n"
    | c when Char.code c < 32 || Char.code c > 126 ->
      Buffer.add_string b (Printf.sprintf "\\u%04x" (Char.code c))
    | c -> Buffer.add_char b c) s;
  Buffer.contents b

let rec json_to_buf b = function
  | JS s -> Buffer.add_char b '"'; Buffer.add_string b (json_escape s); Buffer.add_char b '"'
  | JI i -> Buffer.add_string b (string_of_int i)
  | JB x -> Buffer.add_string b (if x then "true" else "false")
  | JF f -> Buffer.add_string b (Printf.sprintf "%.3f" f)
  | JNull -> Buffer.add_string b "null"
  | JL l ->
    Buffer.add_char b '[';
    List.iteri (fun i x -> if i > 0 then Buffer.add_char b ','; json_to_buf b x) l;
    Buffer.add_char b ']'
  | JO l ->
    Buffer.add_char b '{';
    List.iteri (fun i (k, v) ->
      if i > 0 then Buffer.add_char b ',';
      json_to_buf b (JS k); Buffer.add_char b ':'; json_to_buf b v) l;
    Buffer.add_char b '}'
let json_to_string j = let b = Buffer.create 1024 in json_to_buf b j; Buffer.contents b

let jhex s = JS (hex s)
(* keys/values shown as text when printable, else as hex: prefix *)
let jbytes s =
  let printable = ref true in
  String.iter (fun c -> if Char.code c < 32 || Char.code c > 126 then printable := false) s;
  if String.length s > 48 then
    JS (Printf.sprintf "len=%d:%s.." (String.length s) (hex (String.sub s 0 16)))
  else if !printable then JS ("t:" ^ s) else JS ("x:" ^ hex s)

(* ---- accumulator ---------------------------------------------------------- *)
type failure = { kind : string; what : string; case : json }

type acc = {
  mutable evals : int;
  distinct : (string, unit) Hashtbl.t;
  mutable samples : json list;
  mutable nsamples : int;
  mutable failures : failure list;
  dist : (string, int) Hashtbl.t;
  mutable notes : (string * json) list;
}
let new_acc () = { evals = 0; distinct = Hashtbl.create 1024; samples = []; nsamples = 0;
                   failures = []; dist = Hashtbl.create 64; notes = [] }

let bump acc k = Hashtbl.replace acc.dist k (1 + (try Hashtbl.find acc.dist k with Not_found -> 0))
let bumpn acc k n = Hashtbl.replace acc.dist k (n + (try Hashtbl.find acc.dist k with Not_found -> 0))

(* one evaluated case. [key]: canonical text of the case (for distinctness);
   [nontrivial]: by the engine's stated rule; [klass]: generator class (distribution) *)
let record acc ~key ~nontrivial ~klass (sample : json Lazy.t) =
  acc.evals <- acc.evals + 1;
  bump acc klass;
  if nontrivial then begin
    let h = Digest.string key in
    if not (Hashtbl.mem acc.distinct h) then Hashtbl.replace acc.distinct h ()
  end;
  (* keep a few samples: the first of each class, up to 12 *)
  if acc.nsamples < 12 && (try Hashtbl.find acc.dist klass with Not_found -> 0) = 1 then begin
    acc.samples <- Lazy.force sample :: acc.samples; acc.nsamples <- acc.nsamples + 1
  end

let max_failures = 20
let cur_index = ref (-1)
(* the leading "[C01,C02]" tag of a failure text: the properties it speaks about *)
let tag_of (what : string) = try String.sub what 0 (String.index what ']' + 1) with Not_found -> ""
(* the cap is per (kind, property tag): a flood of failures of one kind, or about one group of properties, must not
   hide a concrete violation of another *)
let room acc kind what =
  let t = tag_of what in
  List.length (List.filter (fun f -> f.kind = kind && tag_of f.what = t) acc.failures) < max_failures
let fail acc ~kind ~what (case : json) =
  if room acc kind what then
    acc.failures <- { kind; what; case = JO [ "index", JI !cur_index; "input", case ] } :: acc.failures

let result_json acc ~engine ~seed ~tier ~rule ~wall =
  JO [ "engine", JS engine; "seed", JI seed; "tier", JS tier;
       "evaluations", JI acc.evals;
       "distinct_nontrivial", JI (Hashtbl.length acc.distinct);
       "rule", JS rule;
       "samples", JL (List.rev acc.samples);
       "distribution", JO (List.sort compare (Hashtbl.fold (fun k v l -> (k, JI v) :: l) acc.dist []));
       "notes", JO (List.rev acc.notes);
       "failures", JL (List.rev_map (fun f ->
          JO [ "kind", JS f.kind; "what", JS f.what; "case", f.case ]) acc.failures);
       "wall_s", JF wall ]

(* ---- deterministic PRNG: every case gets its own state from (seed, engine, index) *)
let case_rng ~seed ~engine ~index =
  Random.State.make [| seed; Hashtbl.hash engine; index; 0x5eed |]
let rint st n = if n <= 0 then 0 else Random.State.int st n
let rrange st lo hi = lo + rint st (hi - lo + 1)
let rbool st = Random.State.bool st
let rchoose st arr = arr.(rint st (Array.length arr))
let ru64 st = Random.State.int64 st Int64.max_int |> fun x ->
  if rbool st then Int64.logor x Int64.min_int else x
let rbytes st n = String.init n (fun _ -> Char.chr (rint st 256))

(* run [f] in a forked child; classify how it ended.  The child reports a short
   string through a pipe.  Used wherever the implementation may abort or crash. *)
external cov_dump : unit -> unit = "vp_cov_dump"
type child_end = Exited of int * string | Signaled of int * string
let child_time_limit = ref 120
let in_child (f : unit -> string) : child_end =
  flush stdout; flush stderr;
  let (rd, wr) = Unix.pipe () in
  match Unix.fork () with
  | 0 ->
    Unix.close rd;
    (* silence assert messages of the library *)
    (* (VERIF_CHILD_STDERR=1 keeps them, for diagnosing a replay by hand) *)
    if Sys.getenv_opt "VERIF_CHILD_STDERR" = None then
      (try let dn = Unix.openfile "/dev/null" [Unix.O_WRONLY] 0 in Unix.dup2 dn Unix.stderr with _ -> ());
    (* watchdog: a case that hangs (lost wake-up, deadlock) ends with SIGALRM instead of stalling the whole engine *)
    ignore (Unix.alarm !child_time_limit);
    let s = (try f () with e -> "EXN:" ^ Printexc.to_string e) in
    let _ = Unix.write_substring wr s 0 (String.length s) in
    Unix.close wr; cov_dump (); Unix._exit 0
  | pid ->
    Unix.close wr;
    let b = Buffer.create 256 in
    let buf = Bytes.create 65536 in
    let rec loop () =
      let n = (try Unix.read rd buf 0 65536 with Unix.Unix_error (Unix.EINTR, _, _) -> -1) in
      if n > 0 then (Buffer.add_subbytes b buf 0 n; loop ()) else if n < 0 then loop () in
    loop (); Unix.close rd;
    let rec wait () = try Unix.waitpid [] pid with Unix.Unix_error (Unix.EINTR, _, _) -> wait () in
    (match snd (wait ()) with
     | Unix.WEXITED c -> Exited (c, Buffer.contents b)
     | Unix.WSIGNALED s -> Signaled (s, Buffer.contents b)
     | Unix.WSTOPPED s -> Signaled (s, Buffer.contents b))

(* run [f] on a fresh accumulator in a forked child and merge what it recorded;
   returns None when the child completed, Some signal when it was killed *)
let with_child_acc (acc : acc) (f : acc -> unit) : int option =
  let idx = !cur_index in
  match in_child (fun () -> cur_index := idx; let a = new_acc () in f a; Marshal.to_string a []) with
  | Exited (_, s) when String.length s > 16 && (String.length s < 4 || String.sub s 0 4 <> "EXN:") ->
    let a : acc = Marshal.from_string s 0 in
    acc.evals <- acc.evals + a.evals;
    Hashtbl.iter (fun k () -> Hashtbl.replace acc.distinct k ()) a.distinct;
    List.iter (fun smp -> if acc.nsamples < 12 then (acc.samples <- smp :: acc.samples; acc.nsamples <- acc.nsamples + 1)) (List.rev a.samples);
    List.iter (fun fl -> if room acc fl.kind fl.what then acc.failures <- fl :: acc.failures) (List.rev a.failures);
    Hashtbl.iter (fun k v -> bumpn acc k v) a.dist;
    acc.notes <- a.notes @ acc.notes;
    None
  | Exited (_, s) -> acc.notes <- ("child_exception", JS s) :: acc.notes; Some 0
  | Signaled (sg, _) -> Some sg
