(* Shared generators: keys, values, entry lists, writer configurations.  Aimed at
   the case splits of the proofs: varint boundaries (127/128, 16383/16384), block
   cut boundaries, separator branches (byte+1 == limit, 0xFF, 16-bit branch),
   prefix/extension keys, empty key/value, binary bytes. *)
open Common

let alphabet_small = [| "a"; "b"; "c"; "\x00"; "\xff"; "\x7f"; "\x80"; "z" |]

let key_atom st =
  match rint st 10 with
  | 0 -> "\xff" | 1 -> "\x00" | 2 -> "\xfe" | 3 -> "\x01"
  | 4 -> String.make 1 (Char.chr (rint st 256))
  | _ -> String.make 1 (Char.chr (97 + rint st 4))

let rkey_short st =
  let n = match rint st 8 with 0 -> 0 | 1 -> 1 | 2 -> 2 | _ -> rrange st 1 6 in
  String.concat "" (List.init n (fun _ -> key_atom st))

(* keys that stress bytes_shortest_separator *)
let sep_pairs = [
  ("abc", "abe"); ("abc", "abd"); ("ab\xff", "ac"); ("ab\xfe", "ab\xff"); ("a\xff\xff", "b");
  ("ab", "abc"); ("a", "a\x00"); ("abcdx", "abcfy"); ("ab\x01\xffzz", "ab\x02\x00zz");
  ("ab\x01\xffzz", "ab\x02\x01zz"); ("ab\xff\xffzz", "ac\x00\x00zz"); ("l\xffqq", "m\x00zz");
  ("0010zz", "0012zz"); ("avocado", "axe"); ("", "a"); ("\xff", "\xff\x00"); ("\xff\xfe", "\xff\xff\x01");
  ("ab\x00\xff\x01", "ab\x01\x00\x01"); ("k\x7f\xffaaa", "k\x80\x00aaa");
  (* the two-byte branch at the edge of the shorter key: exactly two bytes left from the first difference *)
  ("ab\xff\x07", "ac\x00"); ("a\xff", "b\x00"); ("ab\xff", "ac\x00"); ("abc\xff\xff", "abd\x00"); ("k\x01\xff", "k\x02\x00\x01");
  ("k\x01\xff\x05", "k\x02\x00"); ("\x00\xff", "\x01\x00"); ("zz\xfe\xff", "zz\xff\x00"); ("c\xffzz", "d\x10x"); ("q\x10\xff\xff", "q\x11\x00\x00");
  (* the two-byte branch WITHOUT a carry out of the low byte (the differing bytes differ by one, the byte after the first
     is below 0xff): the separator is the first key's two bytes plus one - cut to one byte it would be a prefix of the
     first key, hence smaller than it *)
  ("k1899", "k1900"); ("rec-0001899", "rec-0001900"); ("ab\x01\x05zz", "ab\x02\x00zz"); ("m\x41\x00\x00", "m\x42\x00\x00"); ("x7aa", "x8aa");
]

let rvalue st ~big =
  match rint st 12 with
  | 0 -> ""
  | 1 -> String.make (rrange st 126 130) 'v'
  | 2 when big -> rbytes st (rrange st 16380 16390)
  | 3 -> rbytes st (rrange st 0 40)
  | 4 -> String.make (rrange st 200 400) (Char.chr (rint st 256))
  | _ -> String.init (rrange st 0 24) (fun i -> Char.chr (48 + (i mod 10)))

(* a pool of keys around a "family": shared prefixes, prefixes/extensions, neighbours *)
let key_family st ~big : string list =
  let base = rkey_short st ^ rkey_short st in
  let exts = List.init (rrange st 2 12) (fun _ -> base ^ rkey_short st) in
  let more = List.init (rrange st 0 8) (fun _ -> rkey_short st ^ rkey_short st) in
  let special =
    (if rint st 3 = 0 then [ "" ] else []) @
    (if rint st 4 = 0 then [ String.make (rrange st 126 130) 'k' ^ rkey_short st ] else []) @
    (if big && rint st 6 = 0 then [ base ^ String.make (rrange st 16382 16386) 'K' ] else []) @
    (if rint st 3 = 0 then (let (a, b) = rchoose st (Array.of_list sep_pairs) in [ a; b ]) else []) in
  base :: exts @ more @ special

let sort_uniq_keys (l : string list) = List.sort_uniq compare l

(* strictly increasing entry list *)
let rentries_sorted st ~big ~maxn : (string * string) list =
  let nfam = rrange st 1 4 in
  let keys = List.concat (List.init nfam (fun _ -> key_family st ~big)) in
  let keys = sort_uniq_keys keys in
  let keys = List.filteri (fun i _ -> i < maxn) keys in
  List.map (fun k -> (k, rvalue st ~big)) keys

(* many entries with a fixed-size value so that several blocks are cut *)
let rentries_blocks st ~nkeys ~vlen : (string * string) list =
  let w = rrange st 2 6 in
  let keys = List.init nkeys (fun i -> Printf.sprintf "k%0*d" w i) in
  let keys = sort_uniq_keys (List.filter (fun k -> String.length k = w + 1) keys) in
  List.map (fun k -> (k, String.make (max 0 (vlen + rrange st (-2) 2)) 'x')) keys

(* arbitrary (not increasing) op sequence: duplicates, smaller keys, prefixes *)
let rops_unsorted st ~big ~maxn : (string * string) list =
  let es = rentries_sorted st ~big ~maxn in
  let arr = Array.of_list es in
  let n = Array.length arr in
  if n = 0 then [] else
  let out = ref [] in
  let i = ref 0 in
  while !i < n do
    out := arr.(!i) :: !out;
    (match rint st 5 with
     | 0 -> out := arr.(!i) :: !out                            (* duplicate *)
     | 1 -> out := arr.(rint st (!i + 1)) :: !out               (* an earlier key *)
     | 2 -> let (k, v) = arr.(!i) in
       if String.length k > 0 then out := (String.sub k 0 (String.length k - 1), v) :: !out  (* proper prefix *)
     | _ -> ());
    incr i
  done;
  List.rev !out

type wcfg = {
  comp : int;               (* -1 = not set (default zlib) *)
  level : int option;
  block_size : int option;
  interval : int option;
  pool : int;               (* worker threads; 0 = no pool *)
  prefix : int64;           (* bytes before the table (sparse when large) *)
}

let levels = [| -10000; -5; -1; 0; 1; 3; 9; 12; 19; 22; 100 |]
let rcfg st ~allow_pool : wcfg =
  { comp = (match rint st 8 with 0 -> -1 | 1 | 2 -> 0 | n -> n - 2);
    level = (if rint st 3 = 0 then Some (rchoose st levels) else None);
    block_size = (match rint st 6 with 0 -> None | 1 -> Some 1 | 2 -> Some 1024 | 3 -> Some (rrange st 1025 1200) | 4 -> Some 2048 | _ -> Some (rrange st 1024 4096));
    interval = (match rint st 7 with 0 -> None | 1 -> Some 1 | 2 -> Some 2 | 3 -> Some 3 | 4 -> Some 16 | 5 -> Some 0 | _ -> Some (rrange st 1 20));
    pool = (if allow_pool && rint st 4 = 0 then rrange st 1 4 else 0);
    prefix = (match rint st 8 with 0 -> 13L | 1 -> Int64.of_int (rrange st 1 300) | _ -> 0L) }

let cfg_json c =
  JO [ "comp", JI c.comp; "level", (match c.level with None -> JNull | Some l -> JI l);
       "block_size", (match c.block_size with None -> JNull | Some l -> JI l);
       "interval", (match c.interval with None -> JNull | Some l -> JI l);
       "pool", JI c.pool; "prefix", JS (Int64.to_string c.prefix) ]
let entries_json (es : (string * string) list) =
  JL (List.map (fun (k, v) -> JL [ jbytes k; jbytes v ]) es)
