/* C stubs: the extracted model and the real mtbl objects (compiled from /repo's
 * working tree) run in one process; these wrappers expose the real functions. */
#define CAML_NAME_SPACE
#include <caml/mlvalues.h>
#include <caml/memory.h>
#include <caml/alloc.h>
#include <caml/fail.h>
#include <stdint.h>
#include <string.h>
#include <stdlib.h>
#include "mtbl-private.h"

static value mk_string(const uint8_t *p, size_t n)
{
	value s = caml_alloc_string(n);
	memcpy(Bytes_val(s), p, n);
	return s;
}

/* ---- varint / fixed ------------------------------------------------------ */
CAMLprim value vp_varint_encode32(value v)
{
	CAMLparam1(v);
	uint8_t buf[32]; memset(buf, 0xAA, sizeof buf);
	size_t n = mtbl_varint_encode32(buf, (uint32_t) Int64_val(v));
	CAMLreturn(mk_string(buf, n));
}
CAMLprim value vp_varint_encode64(value v)
{
	CAMLparam1(v);
	uint8_t buf[32]; memset(buf, 0xAA, sizeof buf);
	size_t n = mtbl_varint_encode64(buf, (uint64_t) Int64_val(v));
	CAMLreturn(mk_string(buf, n));
}
/* decode from a copy padded with `pad` bytes of 0x80|x so that reads past the
 * logical end stay inside our allocation; returns (value, len) */
CAMLprim value vp_varint_decode32(value s)
{
	CAMLparam1(s); CAMLlocal1(r);
	size_t n = caml_string_length(s);
	uint8_t *buf = malloc(n + 32); memset(buf, 0, n + 32); memcpy(buf, String_val(s), n);
	uint32_t v = 0xdeadbeef; size_t l = mtbl_varint_decode32(buf, &v);
	free(buf);
	r = caml_alloc_tuple(2);
	Store_field(r, 0, caml_copy_int64((int64_t)(uint64_t) v)); Store_field(r, 1, Val_long(l));
	CAMLreturn(r);
}
CAMLprim value vp_varint_decode64(value s)
{
	CAMLparam1(s); CAMLlocal1(r);
	size_t n = caml_string_length(s);
	uint8_t *buf = malloc(n + 32); memset(buf, 0, n + 32); memcpy(buf, String_val(s), n);
	uint64_t v = 0xdeadbeefdeadbeefULL; size_t l = mtbl_varint_decode64(buf, &v);
	free(buf);
	r = caml_alloc_tuple(2);
	Store_field(r, 0, caml_copy_int64((int64_t) v)); Store_field(r, 1, Val_long(l));
	CAMLreturn(r);
}
CAMLprim value vp_varint_length(value v)
{
	return Val_long(mtbl_varint_length((uint64_t) Int64_val(v)));
}
CAMLprim value vp_varint_length_packed(value s)
{
	return Val_long(mtbl_varint_length_packed((const uint8_t *) String_val(s), caml_string_length(s)));
}
CAMLprim value vp_fixed_encode(value bits, value v, value align)
{
	CAMLparam3(bits, v, align);
	uint8_t *raw = aligned_alloc(16, 64); memset(raw, 0xAA, 64);
	uint8_t *p = raw + Long_val(align);
	size_t n = Long_val(bits) == 32 ? mtbl_fixed_encode32(p, (uint32_t) Int64_val(v))
					: mtbl_fixed_encode64(p, (uint64_t) Int64_val(v));
	value s = mk_string(p, n);
	free(raw);
	CAMLreturn(s);
}
CAMLprim value vp_fixed_decode(value bits, value s, value align)
{
	CAMLparam3(bits, s, align);
	uint8_t *raw = aligned_alloc(16, 64); memset(raw, 0xAA, 64);
	uint8_t *p = raw + Long_val(align);
	memcpy(p, String_val(s), caml_string_length(s) > 8 ? 8 : caml_string_length(s));
	uint64_t r = Long_val(bits) == 32 ? (uint64_t) mtbl_fixed_decode32(p) : mtbl_fixed_decode64(p);
	free(raw);
	CAMLreturn(caml_copy_int64((int64_t) r));
}
